//! Model-level listing of a real PSET (shared by C14 and C08): every field of Global/Input/Output as
//! `name=<hex of the crate's pset Serialize of the field>` (Option/mandatory fields) or `name@<key hex>=<value hex>`
//! (BTreeMap fields and the scalar set), and the inverse (building a real PartiallySignedTransaction from a listing through
//! the crate's pset Deserialize of every field).  The struct patterns below are exhaustive (no `..`): a field added to or
//! removed from the Rust structs stops the harness from compiling, which `check` reports as a broken tie.
use crate::util::*;
use elements::bitcoin::bip32::Xpub;
use elements::encode::VarInt;
use elements::pset::raw;
use elements::pset::serialize::{Deserialize, Serialize};
use elements::pset::{Global, GlobalTxData, Input, Output, PartiallySignedTransaction as Pset};
use elements::secp256k1_zkp::Tweak;
use rand::Rng;
use rand_chacha::ChaCha20Rng;

#[derive(Clone, Debug, PartialEq, Eq, PartialOrd, Ord)]
pub struct Entry { pub name: String, pub key: Option<Vec<u8>>, pub val: Vec<u8> }
pub type MapL = Vec<Entry>;
#[derive(Clone, Debug, PartialEq, Eq)]
pub struct PsetL { pub g: MapL, pub ins: Vec<MapL>, pub outs: Vec<MapL> }

fn hx(b: &[u8]) -> String { if b.is_empty() { "-".into() } else { hex(b) } }
fn unhx(s: &str) -> Option<Vec<u8>> { if s == "-" { Some(vec![]) } else { unhex(s) } }

pub fn show_map(m: &MapL) -> String {
    m.iter().map(|e| match &e.key { None => format!("{}={}", e.name, hx(&e.val)), Some(k) => format!("{}@{}={}", e.name, hx(k), hx(&e.val)) }).collect::<Vec<_>>().join(";")
}
pub fn show(p: &PsetL) -> String {
    let mut parts = vec![format!("G:{}", show_map(&p.g))];
    for i in &p.ins { parts.push(format!("I:{}", show_map(i))); }
    for o in &p.outs { parts.push(format!("O:{}", show_map(o))); }
    parts.join("/")
}
pub fn parse_map(s: &str) -> Option<MapL> {
    let mut m = vec![];
    if s.is_empty() { return Some(m); }
    for e in s.split(';') {
        let (lhs, rhs) = e.split_once('=')?;
        let val = unhx(rhs)?;
        match lhs.split_once('@') {
            Some((n, k)) => m.push(Entry { name: n.to_string(), key: Some(unhx(k)?), val }),
            None => m.push(Entry { name: lhs.to_string(), key: None, val }),
        }
    }
    Some(m)
}
pub fn parse(s: &str) -> Option<PsetL> {
    let mut p = PsetL { g: vec![], ins: vec![], outs: vec![] };
    for (ix, part) in s.split('/').enumerate() {
        let (tag, body) = part.split_once(':')?;
        let m = parse_map(body)?;
        match (tag, ix) { ("G", 0) => p.g = m, ("I", _) if ix > 0 => p.ins.push(m), ("O", _) if ix > 0 => p.outs.push(m), _ => return None }
    }
    Some(p)
}

// ------------------------------------------------------------------------------------------------ real -> listing
fn prop_key_bytes(k: &raw::ProprietaryKey) -> Vec<u8> { k.to_key().key }
fn raw_key_bytes(k: &raw::Key) -> Vec<u8> { let mut v = vec![k.type_value]; v.extend(&k.key); v }

macro_rules! opt { ($m:ident, $name:expr, $v:expr) => { if let Some(x) = $v { $m.push(Entry { name: $name.to_string(), key: None, val: Serialize::serialize(x) }); } }; }
macro_rules! mand { ($m:ident, $name:expr, $v:expr) => { $m.push(Entry { name: $name.to_string(), key: None, val: Serialize::serialize($v) }); }; }
macro_rules! kmap { ($m:ident, $name:expr, $v:expr, $kf:expr) => {{
    let mut es: Vec<Entry> = $v.iter().map(|(k, v)| Entry { name: $name.to_string(), key: Some($kf(k)), val: Serialize::serialize(v) }).collect();
    es.sort();
    $m.extend(es);
}}; }

pub fn global_to_model(g: &Global) -> MapL {
    let Global { tx_data, version, xpub, scalars, elements_tx_modifiable_flag, proprietary, unknown } = g;
    let GlobalTxData { version: tx_version, fallback_locktime, tx_modifiable, .. } = tx_data;   // input_count/output_count are pub(crate): read through n_inputs()/n_outputs()
    let mut m = vec![];
    mand!(m, "tx_data.version", tx_version);
    opt!(m, "tx_data.fallback_locktime", fallback_locktime);
    mand!(m, "tx_data.input_count", &VarInt(g.n_inputs() as u64));
    mand!(m, "tx_data.output_count", &VarInt(g.n_outputs() as u64));
    opt!(m, "tx_data.tx_modifiable", tx_modifiable);
    mand!(m, "version", version);
    kmap!(m, "xpub", xpub, |k: &Xpub| k.encode().to_vec());
    { let es: Vec<Entry> = scalars.iter().map(|s| Entry { name: "scalars".into(), key: Some(Serialize::serialize(s)), val: vec![] }).collect(); m.extend(es); }   // a Vec: listed in vector order, duplicates included
    let _ = &mut m;
    opt!(m, "elements_tx_modifiable_flag", elements_tx_modifiable_flag);
    kmap!(m, "proprietary", proprietary, prop_key_bytes);
    kmap!(m, "unknown", unknown, raw_key_bytes);
    m
}
pub fn input_to_model(i: &Input) -> MapL {
    let Input { non_witness_utxo, witness_utxo, partial_sigs, sighash_type, redeem_script, witness_script, bip32_derivation, final_script_sig,
        final_script_witness, ripemd160_preimages, sha256_preimages, hash160_preimages, hash256_preimages, previous_txid, previous_output_index,
        sequence, required_time_locktime, required_height_locktime, tap_key_sig, tap_script_sigs, tap_scripts, tap_key_origins, tap_internal_key,
        tap_merkle_root, issuance_value_amount, issuance_value_comm, issuance_value_rangeproof, issuance_keys_rangeproof, pegin_tx,
        pegin_txout_proof, pegin_genesis_hash, pegin_claim_script, pegin_value, pegin_witness, issuance_inflation_keys,
        issuance_inflation_keys_comm, issuance_blinding_nonce, issuance_asset_entropy, in_utxo_rangeproof, in_issuance_blind_value_proof,
        in_issuance_blind_inflation_keys_proof, amount, blind_value_proof, asset, blind_asset_proof, blinded_issuance, proprietary, unknown } = i;
    let mut m = vec![];
    opt!(m, "non_witness_utxo", non_witness_utxo);
    opt!(m, "witness_utxo", witness_utxo);
    kmap!(m, "partial_sigs", partial_sigs, |k: &elements::bitcoin::PublicKey| Serialize::serialize(k));
    opt!(m, "sighash_type", sighash_type);
    opt!(m, "redeem_script", redeem_script);
    opt!(m, "witness_script", witness_script);
    kmap!(m, "bip32_derivation", bip32_derivation, |k: &elements::bitcoin::PublicKey| Serialize::serialize(k));
    opt!(m, "final_script_sig", final_script_sig);
    opt!(m, "final_script_witness", final_script_witness);
    kmap!(m, "ripemd160_preimages", ripemd160_preimages, |k: &elements::hashes::ripemd160::Hash| Serialize::serialize(k));
    kmap!(m, "sha256_preimages", sha256_preimages, |k: &elements::hashes::sha256::Hash| Serialize::serialize(k));
    kmap!(m, "hash160_preimages", hash160_preimages, |k: &elements::hashes::hash160::Hash| Serialize::serialize(k));
    kmap!(m, "hash256_preimages", hash256_preimages, |k: &elements::hashes::sha256d::Hash| Serialize::serialize(k));
    mand!(m, "previous_txid", previous_txid);
    mand!(m, "previous_output_index", previous_output_index);
    opt!(m, "sequence", sequence);
    opt!(m, "required_time_locktime", required_time_locktime);
    opt!(m, "required_height_locktime", required_height_locktime);
    opt!(m, "tap_key_sig", tap_key_sig);
    kmap!(m, "tap_script_sigs", tap_script_sigs, |k: &(elements::secp256k1_zkp::XOnlyPublicKey, elements::taproot::TapLeafHash)| Serialize::serialize(k));
    kmap!(m, "tap_scripts", tap_scripts, |k: &elements::taproot::ControlBlock| Serialize::serialize(k));
    kmap!(m, "tap_key_origins", tap_key_origins, |k: &elements::secp256k1_zkp::XOnlyPublicKey| Serialize::serialize(k));
    opt!(m, "tap_internal_key", tap_internal_key);
    opt!(m, "tap_merkle_root", tap_merkle_root);
    opt!(m, "issuance_value_amount", issuance_value_amount);
    opt!(m, "issuance_value_comm", issuance_value_comm);
    opt!(m, "issuance_value_rangeproof", issuance_value_rangeproof);
    opt!(m, "issuance_keys_rangeproof", issuance_keys_rangeproof);
    opt!(m, "pegin_tx", pegin_tx);
    opt!(m, "pegin_txout_proof", pegin_txout_proof);
    opt!(m, "pegin_genesis_hash", pegin_genesis_hash);
    opt!(m, "pegin_claim_script", pegin_claim_script);
    opt!(m, "pegin_value", pegin_value);
    opt!(m, "pegin_witness", pegin_witness);
    opt!(m, "issuance_inflation_keys", issuance_inflation_keys);
    opt!(m, "issuance_inflation_keys_comm", issuance_inflation_keys_comm);
    opt!(m, "issuance_blinding_nonce", issuance_blinding_nonce);
    opt!(m, "issuance_asset_entropy", issuance_asset_entropy);
    opt!(m, "in_utxo_rangeproof", in_utxo_rangeproof);
    opt!(m, "in_issuance_blind_value_proof", in_issuance_blind_value_proof);
    opt!(m, "in_issuance_blind_inflation_keys_proof", in_issuance_blind_inflation_keys_proof);
    opt!(m, "amount", amount);
    opt!(m, "blind_value_proof", blind_value_proof);
    opt!(m, "asset", asset);
    opt!(m, "blind_asset_proof", blind_asset_proof);
    opt!(m, "blinded_issuance", blinded_issuance);
    kmap!(m, "proprietary", proprietary, prop_key_bytes);
    kmap!(m, "unknown", unknown, raw_key_bytes);
    m
}
pub fn output_to_model(o: &Output) -> MapL {
    let Output { redeem_script, witness_script, bip32_derivation, tap_internal_key, tap_tree, tap_key_origins, amount, amount_comm, script_pubkey,
        asset, asset_comm, value_rangeproof, asset_surjection_proof, blinding_key, ecdh_pubkey, blinder_index, blind_value_proof,
        blind_asset_proof, proprietary, unknown } = o;
    let mut m = vec![];
    opt!(m, "redeem_script", redeem_script);
    opt!(m, "witness_script", witness_script);
    kmap!(m, "bip32_derivation", bip32_derivation, |k: &elements::bitcoin::PublicKey| Serialize::serialize(k));
    opt!(m, "tap_internal_key", tap_internal_key);
    opt!(m, "tap_tree", tap_tree);
    kmap!(m, "tap_key_origins", tap_key_origins, |k: &elements::secp256k1_zkp::XOnlyPublicKey| Serialize::serialize(k));
    opt!(m, "amount", amount);
    opt!(m, "amount_comm", amount_comm);
    mand!(m, "script_pubkey", script_pubkey);
    opt!(m, "asset", asset);
    opt!(m, "asset_comm", asset_comm);
    opt!(m, "value_rangeproof", value_rangeproof);
    opt!(m, "asset_surjection_proof", asset_surjection_proof);
    opt!(m, "blinding_key", blinding_key);
    opt!(m, "ecdh_pubkey", ecdh_pubkey);
    opt!(m, "blinder_index", blinder_index);
    opt!(m, "blind_value_proof", blind_value_proof);
    opt!(m, "blind_asset_proof", blind_asset_proof);
    kmap!(m, "proprietary", proprietary, prop_key_bytes);
    kmap!(m, "unknown", unknown, raw_key_bytes);
    m
}
pub fn to_model(p: &Pset) -> PsetL {
    PsetL { g: global_to_model(&p.global), ins: p.inputs().iter().map(input_to_model).collect(), outs: p.outputs().iter().map(output_to_model).collect() }
}

// ------------------------------------------------------------------------------------------------ listing -> real
fn de<T: Deserialize>(b: &[u8], what: &str) -> Result<T, String> { T::deserialize(b).map_err(|e| format!("{}: {}", what, e)) }
fn prop_key(b: &[u8]) -> Result<raw::ProprietaryKey, String> {
    raw::ProprietaryKey::from_key(&raw::Key { type_value: 0xFC, key: b.to_vec() }).map_err(|e| format!("proprietary key: {}", e))
}
fn raw_key(b: &[u8]) -> Result<raw::Key, String> {
    if b.is_empty() { return Err("raw key empty".into()); }
    Ok(raw::Key { type_value: b[0], key: b[1..].to_vec() })
}
macro_rules! set_opt { ($e:ident, $t:expr) => { $t = Some(de(&$e.val, &$e.name)?) }; }
macro_rules! ins_map { ($e:ident, $t:expr) => {{ let k = de($e.key.as_ref().ok_or("key expected")?, &$e.name)?; $t.insert(k, de(&$e.val, &$e.name)?); }}; }

pub fn global_from_model(m: &MapL, g: &mut Global) -> Result<(), String> {
    for e in m {
        match e.name.as_str() {
            "tx_data.version" => g.tx_data.version = de(&e.val, &e.name)?,
            "tx_data.fallback_locktime" => set_opt!(e, g.tx_data.fallback_locktime),
            "tx_data.input_count" | "tx_data.output_count" => {}     // follow add_input/add_output
            "tx_data.tx_modifiable" => set_opt!(e, g.tx_data.tx_modifiable),
            "version" => g.version = de(&e.val, &e.name)?,
            "xpub" => { let k = Xpub::decode(e.key.as_ref().ok_or("key expected")?).map_err(|x| x.to_string())?; g.xpub.insert(k, de(&e.val, &e.name)?); }
            "scalars" => { let s: Tweak = de(e.key.as_ref().ok_or("key expected")?, &e.name)?; g.scalars.push(s); }
            "elements_tx_modifiable_flag" => set_opt!(e, g.elements_tx_modifiable_flag),
            "proprietary" => { g.proprietary.insert(prop_key(e.key.as_ref().ok_or("key expected")?)?, e.val.clone()); }
            "unknown" => { g.unknown.insert(raw_key(e.key.as_ref().ok_or("key expected")?)?, e.val.clone()); }
            n => return Err(format!("unknown global field {}", n)),
        }
    }
    Ok(())
}
pub fn input_from_model(m: &MapL) -> Result<Input, String> {
    let mut i = Input::default();
    for e in m {
        match e.name.as_str() {
            "non_witness_utxo" => set_opt!(e, i.non_witness_utxo),
            "witness_utxo" => set_opt!(e, i.witness_utxo),
            "partial_sigs" => ins_map!(e, i.partial_sigs),
            "sighash_type" => set_opt!(e, i.sighash_type),
            "redeem_script" => set_opt!(e, i.redeem_script),
            "witness_script" => set_opt!(e, i.witness_script),
            "bip32_derivation" => ins_map!(e, i.bip32_derivation),
            "final_script_sig" => set_opt!(e, i.final_script_sig),
            "final_script_witness" => set_opt!(e, i.final_script_witness),
            "ripemd160_preimages" => ins_map!(e, i.ripemd160_preimages),
            "sha256_preimages" => ins_map!(e, i.sha256_preimages),
            "hash160_preimages" => ins_map!(e, i.hash160_preimages),
            "hash256_preimages" => ins_map!(e, i.hash256_preimages),
            "previous_txid" => i.previous_txid = de(&e.val, &e.name)?,
            "previous_output_index" => i.previous_output_index = de(&e.val, &e.name)?,
            "sequence" => set_opt!(e, i.sequence),
            "required_time_locktime" => set_opt!(e, i.required_time_locktime),
            "required_height_locktime" => set_opt!(e, i.required_height_locktime),
            "tap_key_sig" => set_opt!(e, i.tap_key_sig),
            "tap_script_sigs" => ins_map!(e, i.tap_script_sigs),
            "tap_scripts" => ins_map!(e, i.tap_scripts),
            "tap_key_origins" => ins_map!(e, i.tap_key_origins),
            "tap_internal_key" => set_opt!(e, i.tap_internal_key),
            "tap_merkle_root" => set_opt!(e, i.tap_merkle_root),
            "issuance_value_amount" => set_opt!(e, i.issuance_value_amount),
            "issuance_value_comm" => set_opt!(e, i.issuance_value_comm),
            "issuance_value_rangeproof" => set_opt!(e, i.issuance_value_rangeproof),
            "issuance_keys_rangeproof" => set_opt!(e, i.issuance_keys_rangeproof),
            "pegin_tx" => set_opt!(e, i.pegin_tx),
            "pegin_txout_proof" => set_opt!(e, i.pegin_txout_proof),
            "pegin_genesis_hash" => set_opt!(e, i.pegin_genesis_hash),
            "pegin_claim_script" => set_opt!(e, i.pegin_claim_script),
            "pegin_value" => set_opt!(e, i.pegin_value),
            "pegin_witness" => set_opt!(e, i.pegin_witness),
            "issuance_inflation_keys" => set_opt!(e, i.issuance_inflation_keys),
            "issuance_inflation_keys_comm" => set_opt!(e, i.issuance_inflation_keys_comm),
            "issuance_blinding_nonce" => set_opt!(e, i.issuance_blinding_nonce),
            "issuance_asset_entropy" => set_opt!(e, i.issuance_asset_entropy),
            "in_utxo_rangeproof" => set_opt!(e, i.in_utxo_rangeproof),
            "in_issuance_blind_value_proof" => set_opt!(e, i.in_issuance_blind_value_proof),
            "in_issuance_blind_inflation_keys_proof" => set_opt!(e, i.in_issuance_blind_inflation_keys_proof),
            "amount" => set_opt!(e, i.amount),
            "blind_value_proof" => set_opt!(e, i.blind_value_proof),
            "asset" => set_opt!(e, i.asset),
            "blind_asset_proof" => set_opt!(e, i.blind_asset_proof),
            "blinded_issuance" => set_opt!(e, i.blinded_issuance),
            "proprietary" => { i.proprietary.insert(prop_key(e.key.as_ref().ok_or("key expected")?)?, e.val.clone()); }
            "unknown" => { i.unknown.insert(raw_key(e.key.as_ref().ok_or("key expected")?)?, e.val.clone()); }
            n => return Err(format!("unknown input field {}", n)),
        }
    }
    Ok(i)
}
pub fn output_from_model(m: &MapL) -> Result<Output, String> {
    let mut o = Output::default();
    for e in m {
        match e.name.as_str() {
            "redeem_script" => set_opt!(e, o.redeem_script),
            "witness_script" => set_opt!(e, o.witness_script),
            "bip32_derivation" => ins_map!(e, o.bip32_derivation),
            "tap_internal_key" => set_opt!(e, o.tap_internal_key),
            "tap_tree" => set_opt!(e, o.tap_tree),
            "tap_key_origins" => ins_map!(e, o.tap_key_origins),
            "amount" => set_opt!(e, o.amount),
            "amount_comm" => set_opt!(e, o.amount_comm),
            "script_pubkey" => o.script_pubkey = de(&e.val, &e.name)?,
            "asset" => set_opt!(e, o.asset),
            "asset_comm" => set_opt!(e, o.asset_comm),
            "value_rangeproof" => set_opt!(e, o.value_rangeproof),
            "asset_surjection_proof" => set_opt!(e, o.asset_surjection_proof),
            "blinding_key" => set_opt!(e, o.blinding_key),
            "ecdh_pubkey" => set_opt!(e, o.ecdh_pubkey),
            "blinder_index" => set_opt!(e, o.blinder_index),
            "blind_value_proof" => set_opt!(e, o.blind_value_proof),
            "blind_asset_proof" => set_opt!(e, o.blind_asset_proof),
            "proprietary" => { o.proprietary.insert(prop_key(e.key.as_ref().ok_or("key expected")?)?, e.val.clone()); }
            "unknown" => { o.unknown.insert(raw_key(e.key.as_ref().ok_or("key expected")?)?, e.val.clone()); }
            n => return Err(format!("unknown output field {}", n)),
        }
    }
    Ok(o)
}
pub fn from_model(l: &PsetL) -> Result<Pset, String> {
    let mut p = Pset::new_v2();
    global_from_model(&l.g, &mut p.global)?;
    for i in &l.ins { p.add_input(input_from_model(i)?); }
    for o in &l.outs { p.add_output(output_from_model(o)?); }
    Ok(p)
}

// ------------------------------------------------------------------------------------------------ value pool and per-field samples
/// Valid byte strings of the types whose decoders check structure (curve points, proofs, extended keys); built once per run
/// from the run's random stream.  Everything else is sampled as shaped random bytes.
pub struct Pool {
    pub pubkeys: Vec<Vec<u8>>, pub xonly: Vec<Vec<u8>>, pub pedersen: Vec<Vec<u8>>, pub generators: Vec<Vec<u8>>,
    pub rangeproofs: Vec<Vec<u8>>, pub surjproofs: Vec<Vec<u8>>, pub xpubs: Vec<Vec<u8>>, pub tweaks: Vec<Vec<u8>>,
}
impl Pool {
    pub fn new(rng: &mut ChaCha20Rng) -> Pool {
        use elements::secp256k1_zkp::{self as zkp, Generator, PedersenCommitment, PublicKey, RangeProof, SecretKey, SurjectionProof, Tag};
        let secp = zkp::Secp256k1::new();
        let mut p = Pool { pubkeys: vec![], xonly: vec![], pedersen: vec![], generators: vec![], rangeproofs: vec![], surjproofs: vec![], xpubs: vec![], tweaks: vec![] };
        let sk = |rng: &mut ChaCha20Rng| loop { if let Ok(s) = SecretKey::from_slice(&r32(rng)) { return s; } };
        for _ in 0..8 {
            let pk = PublicKey::from_secret_key(&secp, &sk(rng));
            p.pubkeys.push(pk.serialize().to_vec());
            p.xonly.push(pk.x_only_public_key().0.serialize().to_vec());
        }
        for _ in 0..4 {
            let t = sk(rng);
            p.tweaks.push(t.secret_bytes().to_vec());
        }
        for k in 0..4u64 {
            let tag = Tag::from(r32(rng));
            let abf = Tweak::from_slice(&sk(rng).secret_bytes()).unwrap();
            let vbf = Tweak::from_slice(&sk(rng).secret_bytes()).unwrap();
            let gen = Generator::new_blinded(&secp, tag, abf);
            let value = 1000 + k;
            let comm = PedersenCommitment::new(&secp, value, vbf, gen);
            p.generators.push(gen.serialize().to_vec());
            p.pedersen.push(comm.serialize().to_vec());
            let rp = RangeProof::new(&secp, 1, comm, value, vbf, b"msg", b"", sk(rng), 0, 8 + (k as u8) * 8, gen).expect("rangeproof");
            p.rangeproofs.push(rp.serialize());
            let tag2 = Tag::from(r32(rng));
            let abf2 = Tweak::from_slice(&sk(rng).secret_bytes()).unwrap();
            let gen2 = Generator::new_blinded(&secp, tag2, abf2);
            let abf3 = Tweak::from_slice(&sk(rng).secret_bytes()).unwrap();
            let sp = SurjectionProof::new(&secp, rng, tag, abf3, &[(gen2, tag2, abf2), (gen, tag, abf)]).expect("surjection proof");
            p.surjproofs.push(sp.serialize());
        }
        {
            use elements::bitcoin::bip32::{Xpriv, Xpub};
            let bsecp = elements::bitcoin::secp256k1::Secp256k1::new();
            for _ in 0..3 {
                let xprv = Xpriv::new_master(elements::bitcoin::Network::Bitcoin, &r32(rng)).expect("xpriv");
                p.xpubs.push(Xpub::from_priv(&bsecp, &xprv).encode().to_vec());
            }
        }
        p
    }
}
fn pick<'a>(rng: &mut ChaCha20Rng, v: &'a [Vec<u8>]) -> &'a Vec<u8> { &v[rng.gen_range(0..v.len())] }
fn varint(n: u64) -> Vec<u8> { elements::encode::serialize(&VarInt(n)) }
fn script(rng: &mut ChaCha20Rng) -> Vec<u8> { let n = rng.gen_range(0..24); rbytes(rng, n) }
fn witness(rng: &mut ChaCha20Rng) -> Vec<u8> {
    let n = rng.gen_range(0..3usize);
    let mut v = varint(n as u64);
    for _ in 0..n { let l = rng.gen_range(0..20usize); v.extend(varint(l as u64)); v.extend(rbytes(rng, l)); }
    v
}
pub fn key_source(rng: &mut ChaCha20Rng, len: usize) -> Vec<u8> { rbytes(rng, 4 + 4 * len) }
fn elements_tx(rng: &mut ChaCha20Rng) -> Vec<u8> {
    use elements::{confidential, AssetId, LockTime, OutPoint, Script, Transaction, TxIn, TxOut, Txid};
    use elements::hashes::Hash;
    let mut i = TxIn::default();
    i.previous_output = OutPoint::new(Txid::from_byte_array(r32(rng)), rng.gen_range(0..4));
    let mut o = TxOut::new_fee(rng.gen_range(1..100000), AssetId::from_byte_array(r32(rng)));
    o.script_pubkey = Script::from(script(rng));
    let _ = confidential::Value::Null;
    elements::encode::serialize(&Transaction { version: 2, lock_time: LockTime::ZERO, input: vec![i], output: vec![o] })
}
fn elements_txout(rng: &mut ChaCha20Rng) -> Vec<u8> {
    use elements::{AssetId, Script, TxOut};
    let mut o = TxOut::new_fee(rng.gen_range(1..100000), AssetId::from_byte_array(r32(rng)));
    o.script_pubkey = Script::from(script(rng));
    elements::encode::serialize(&o)
}
fn bitcoin_tx(rng: &mut ChaCha20Rng) -> Vec<u8> {
    use elements::bitcoin::{self, absolute, transaction, Amount, OutPoint, ScriptBuf, Sequence, TxIn, TxOut, Witness};
    use elements::bitcoin::hashes::Hash;
    let t = bitcoin::Transaction { version: transaction::Version(2), lock_time: absolute::LockTime::ZERO,
        input: vec![TxIn { previous_output: OutPoint::new(bitcoin::Txid::from_byte_array(r32(rng)), 1), script_sig: ScriptBuf::new(), sequence: Sequence::MAX, witness: if rng.gen_range(0..3) > 0 { Witness::from_slice(&[rbytes(rng, 71), rbytes(rng, 33)]) } else { Witness::new() } }],
        output: vec![TxOut { value: Amount::from_sat(rng.gen_range(1..100000)), script_pubkey: ScriptBuf::from_bytes(script(rng)) }] };
    bitcoin::consensus::serialize(&t)
}
fn control_block(rng: &mut ChaCha20Rng, pool: &Pool) -> Vec<u8> {
    let mut v = vec![0xc4 | (rng.gen::<u8>() & 1)];
    v.extend(pick(rng, &pool.xonly));
    for _ in 0..rng.gen_range(0..3) { v.extend(r32(rng)); }
    v
}
fn tap_tree(rng: &mut ChaCha20Rng) -> Vec<u8> {
    // one leaf at depth 0 (multi-leaf trees re-encode in reversed order: C07's finding F9, not this property's business)
    let s = script(rng);
    let mut v = vec![0u8, 0xc4];
    v.extend(varint(s.len() as u64)); v.extend(s);
    v
}
fn prop_key_sample(rng: &mut ChaCha20Rng) -> Vec<u8> {
    // prefix (varint len + bytes), subtype, key data; never the "pset" prefix (those are the typed elements fields)
    let pre = [b"acme".to_vec(), b"x".to_vec(), b"vendor".to_vec()][rng.gen_range(0..3)].clone();
    let mut v = varint(pre.len() as u64); v.extend(pre); v.push(rng.gen_range(0..4)); let n = rng.gen_range(0..6); v.extend(rbytes(rng, n));
    v
}
fn unknown_key_sample(rng: &mut ChaCha20Rng) -> Vec<u8> { let mut v = vec![rng.gen_range(0x40..0xf0u8)]; let n = rng.gen_range(0..6); v.extend(rbytes(rng, n)); v }

#[derive(Clone, Copy, PartialEq, Eq, Debug)]
pub enum Kind { Opt, Map, Set, Mand }
/// (map, field, kind): the harness' own list of optional and keyed fields it can sample; checked against the listing code by `self_check`.
pub const FIELDS: &[(&str, &str, Kind)] = &[
    ("G", "tx_data.fallback_locktime", Kind::Opt), ("G", "tx_data.tx_modifiable", Kind::Opt), ("G", "xpub", Kind::Map), ("G", "scalars", Kind::Set),
    ("G", "elements_tx_modifiable_flag", Kind::Opt), ("G", "proprietary", Kind::Map), ("G", "unknown", Kind::Map),
    ("I", "non_witness_utxo", Kind::Opt), ("I", "witness_utxo", Kind::Opt), ("I", "partial_sigs", Kind::Map), ("I", "sighash_type", Kind::Opt),
    ("I", "redeem_script", Kind::Opt), ("I", "witness_script", Kind::Opt), ("I", "bip32_derivation", Kind::Map), ("I", "final_script_sig", Kind::Opt),
    ("I", "final_script_witness", Kind::Opt), ("I", "ripemd160_preimages", Kind::Map), ("I", "sha256_preimages", Kind::Map),
    ("I", "hash160_preimages", Kind::Map), ("I", "hash256_preimages", Kind::Map), ("I", "sequence", Kind::Opt),
    ("I", "required_time_locktime", Kind::Opt), ("I", "required_height_locktime", Kind::Opt), ("I", "tap_key_sig", Kind::Opt),
    ("I", "tap_script_sigs", Kind::Map), ("I", "tap_scripts", Kind::Map), ("I", "tap_key_origins", Kind::Map), ("I", "tap_internal_key", Kind::Opt),
    ("I", "tap_merkle_root", Kind::Opt), ("I", "issuance_value_amount", Kind::Opt), ("I", "issuance_value_comm", Kind::Opt),
    ("I", "issuance_value_rangeproof", Kind::Opt), ("I", "issuance_keys_rangeproof", Kind::Opt), ("I", "pegin_tx", Kind::Opt),
    ("I", "pegin_txout_proof", Kind::Opt), ("I", "pegin_genesis_hash", Kind::Opt), ("I", "pegin_claim_script", Kind::Opt), ("I", "pegin_value", Kind::Opt),
    ("I", "pegin_witness", Kind::Opt), ("I", "issuance_inflation_keys", Kind::Opt), ("I", "issuance_inflation_keys_comm", Kind::Opt),
    ("I", "issuance_blinding_nonce", Kind::Opt), ("I", "issuance_asset_entropy", Kind::Opt), ("I", "in_utxo_rangeproof", Kind::Opt),
    ("I", "in_issuance_blind_value_proof", Kind::Opt), ("I", "in_issuance_blind_inflation_keys_proof", Kind::Opt), ("I", "amount", Kind::Opt),
    ("I", "blind_value_proof", Kind::Opt), ("I", "asset", Kind::Opt), ("I", "blind_asset_proof", Kind::Opt), ("I", "blinded_issuance", Kind::Opt),
    ("I", "proprietary", Kind::Map), ("I", "unknown", Kind::Map),
    ("O", "redeem_script", Kind::Opt), ("O", "witness_script", Kind::Opt), ("O", "bip32_derivation", Kind::Map), ("O", "tap_internal_key", Kind::Opt),
    ("O", "tap_tree", Kind::Opt), ("O", "tap_key_origins", Kind::Map), ("O", "amount", Kind::Opt), ("O", "amount_comm", Kind::Opt), ("O", "asset", Kind::Opt),
    ("O", "asset_comm", Kind::Opt), ("O", "value_rangeproof", Kind::Opt), ("O", "asset_surjection_proof", Kind::Opt), ("O", "blinding_key", Kind::Opt),
    ("O", "ecdh_pubkey", Kind::Opt), ("O", "blinder_index", Kind::Opt), ("O", "blind_value_proof", Kind::Opt), ("O", "blind_asset_proof", Kind::Opt),
    ("O", "proprietary", Kind::Map), ("O", "unknown", Kind::Map),
];

/// a fresh valid entry for (map, field)
pub fn sample(rng: &mut ChaCha20Rng, pool: &Pool, map: &str, field: &str) -> Entry {
    let u32le = |x: u32| x.to_le_bytes().to_vec();
    let u64le = |x: u64| x.to_le_bytes().to_vec();
    let (key, val): (Option<Vec<u8>>, Vec<u8>) = match (map, field) {
        ("G", "tx_data.fallback_locktime") => (None, u32le(if rng.gen() { rng.gen_range(0..500_000_000) } else { rng.gen_range(500_000_000..=u32::MAX) })),
        ("G", "tx_data.tx_modifiable") | ("G", "elements_tx_modifiable_flag") | ("I", "blinded_issuance") => (None, vec![rng.gen_range(0..8)]),
        ("G", "xpub") => (Some(pick(rng, &pool.xpubs).clone()), { let n = rng.gen_range(0..4); key_source(rng, n) }),
        ("G", "scalars") => (Some(pick(rng, &pool.tweaks).clone()), vec![]),
        (_, "proprietary") => (Some(prop_key_sample(rng)), { let n = rng.gen_range(0..12); rbytes(rng, n) }),
        (_, "unknown") => (Some(unknown_key_sample(rng)), { let n = rng.gen_range(0..12); rbytes(rng, n) }),
        ("I", "non_witness_utxo") => (None, elements_tx(rng)),
        ("I", "witness_utxo") => (None, elements_txout(rng)),
        ("I", "partial_sigs") => (Some(pick(rng, &pool.pubkeys).clone()), { let n = rng.gen_range(8..73); rbytes(rng, n) }),
        ("I", "sighash_type") => (None, u32le([1u32, 2, 3, 0x81, 0x83, 0x41][rng.gen_range(0..6)])),
        (_, "redeem_script") | (_, "witness_script") | ("I", "final_script_sig") | ("I", "pegin_claim_script") => (None, script(rng)),
        (_, "bip32_derivation") => (Some(pick(rng, &pool.pubkeys).clone()), { let n = rng.gen_range(0..4); key_source(rng, n) }),
        ("I", "final_script_witness") | ("I", "pegin_witness") => (None, witness(rng)),
        ("I", "ripemd160_preimages") => { use elements::hashes::{ripemd160, Hash}; let n = rng.gen_range(1..20); let pre = rbytes(rng, n); (Some(ripemd160::Hash::hash(&pre).to_byte_array().to_vec()), pre) }
        ("I", "sha256_preimages") => { use elements::hashes::{sha256, Hash}; let n = rng.gen_range(1..20); let pre = rbytes(rng, n); (Some(sha256::Hash::hash(&pre).to_byte_array().to_vec()), pre) }
        ("I", "hash160_preimages") => { use elements::hashes::{hash160, Hash}; let n = rng.gen_range(1..20); let pre = rbytes(rng, n); (Some(hash160::Hash::hash(&pre).to_byte_array().to_vec()), pre) }
        ("I", "hash256_preimages") => { use elements::hashes::{sha256d, Hash}; let n = rng.gen_range(1..20); let pre = rbytes(rng, n); (Some(sha256d::Hash::hash(&pre).to_byte_array().to_vec()), pre) }
        ("I", "sequence") => (None, u32le(rng.gen())),
        ("I", "required_time_locktime") => (None, u32le(rng.gen_range(500_000_000..=u32::MAX))),
        ("I", "required_height_locktime") => (None, u32le(rng.gen_range(0..500_000_000))),
        ("I", "tap_key_sig") => (None, { let mut v = rbytes(rng, 64); if rng.gen() { v.push([1u8, 2, 3, 0x81, 0x82, 0x83][rng.gen_range(0..6)]); } v }),
        ("I", "tap_script_sigs") => (Some({ let mut k = pick(rng, &pool.xonly).clone(); k.extend(r32(rng)); k }), { let mut v = rbytes(rng, 64); if rng.gen() { v.push(1); } v }),
        ("I", "tap_scripts") => (Some(control_block(rng, pool)), { let mut v = script(rng); v.push(0xc4); v }),
        (_, "tap_key_origins") => (Some(pick(rng, &pool.xonly).clone()), { let n = rng.gen_range(0..3usize); let mut v = varint(n as u64); for _ in 0..n { v.extend(r32(rng)); } let l = rng.gen_range(0..3); v.extend(key_source(rng, l)); v }),
        (_, "tap_internal_key") => (None, pick(rng, &pool.xonly).clone()),
        ("I", "tap_merkle_root") | ("I", "pegin_genesis_hash") | ("I", "issuance_asset_entropy") | (_, "asset") => (None, r32(rng).to_vec()),
        ("I", "issuance_value_amount") | ("I", "pegin_value") | ("I", "issuance_inflation_keys") | (_, "amount") => (None, u64le(rng.gen_range(1..1_000_000))),
        ("I", "issuance_value_comm") | ("I", "issuance_inflation_keys_comm") | ("O", "amount_comm") => (None, pick(rng, &pool.pedersen).clone()),
        ("O", "asset_comm") => (None, pick(rng, &pool.generators).clone()),
        ("I", "issuance_value_rangeproof") | ("I", "issuance_keys_rangeproof") | ("I", "in_utxo_rangeproof") | ("I", "in_issuance_blind_value_proof")
        | ("I", "in_issuance_blind_inflation_keys_proof") | (_, "blind_value_proof") | ("O", "value_rangeproof") => (None, pick(rng, &pool.rangeproofs).clone()),
        (_, "blind_asset_proof") | ("O", "asset_surjection_proof") => (None, pick(rng, &pool.surjproofs).clone()),
        ("I", "pegin_tx") => (None, bitcoin_tx(rng)),
        ("I", "pegin_txout_proof") => (None, { let n = rng.gen_range(1..40); rbytes(rng, n) }),
        ("I", "issuance_blinding_nonce") => (None, pick(rng, &pool.tweaks).clone()),
        ("O", "tap_tree") => (None, tap_tree(rng)),
        ("O", "blinding_key") | ("O", "ecdh_pubkey") => (None, pick(rng, &pool.pubkeys).clone()),
        ("O", "blinder_index") => (None, u32le(rng.gen_range(0..4))),
        _ => panic!("no sampler for {} {}", map, field),
    };
    Entry { name: field.to_string(), key, val }
}

/// insert (or replace) an entry in a listing map, keeping the canonical order of `to_model`
pub fn put(m: &mut MapL, e: Entry) {
    m.retain(|x| !(x.name == e.name && x.key == e.key));
    m.push(e);
}
pub fn get<'a>(m: &'a MapL, name: &str) -> Option<&'a Entry> { m.iter().find(|e| e.name == name && e.key.is_none()) }
/// canonical form of a listing: through the real structs and back
pub fn normalise(l: &PsetL) -> Result<PsetL, String> { Ok(to_model(&from_model(l)?)) }

/// a minimal well-formed ancestor: n_in inputs (prevouts), n_out explicit outputs
pub fn base_pset(rng: &mut ChaCha20Rng, n_in: usize, n_out: usize) -> Pset {
    use elements::hashes::Hash;
    use elements::{AssetId, OutPoint, Script, Txid};
    let mut p = Pset::new_v2();
    for _ in 0..n_in { p.add_input(Input::from_prevout(OutPoint::new(Txid::from_byte_array(r32(rng)), rng.gen_range(0..8)))); }
    for _ in 0..n_out { p.add_output(Output::new_explicit(Script::from(script(rng)), rng.gen_range(1..1_000_000), AssetId::from_byte_array(r32(rng)), None)); }
    p
}
