//! C17: one- and two-character corruptions of valid segwit addresses never parse.
//! Case kinds:  `C17 t`                       character tables of bech32::Fe32
//!              `C17 s <string>`              parse a string at the four observation points
//!              `C17 m <orig> <pos:char,..>`  apply the edits to <orig>, parse the result at the four observation points
//!              `C17 x <orig> <i> <j>`        all replacements by other bech32 characters at positions i,j (i = j: one position)
//!              `C17 c <orig>`                all 2^len case patterns of the human-readable part, each with a lower- and an upper-case data part
//!              `C17 r <orig> <i> <j>`        all replacements by other characters of the HRP alphabet (both letter cases, digits, punctuation)
//!                                            at positions i,j of the human-readable part (i = j: one position)
use crate::addr::*;
use crate::{util::*, Case, Out};
use elements::address::Payload;
use elements::Address;
use rand::Rng;
use rand_chacha::ChaCha20Rng;
use std::str::FromStr;

const CHARSET: &[u8] = b"qpzry9x8gf2tvdw0s3jn54khce6mua7l";
const HRPCH: &[u8] = b"abcdefghijklmnopqrstuvwxyz0123456789ABCDEFGHIJKLMNOPQRSTUVWXYZ-_.!";
const NAMES: [&str; 4] = ["from_str", "parse_with_params(LIQUID)", "parse_with_params(ELEMENTS)", "parse_with_params(LIQUID_TESTNET)"];

/// address parameters of a network whose segwit prefixes are both `hrp` (leaked once per distinct prefix)
fn custom_params(hrp: &str, h: bech32::Hrp) -> &'static elements::AddressParams {
    use std::collections::HashMap;
    use std::sync::Mutex;
    static M: Mutex<Option<HashMap<String, &'static elements::AddressParams>>> = Mutex::new(None);
    let mut g = M.lock().unwrap();
    *g.get_or_insert_with(HashMap::new).entry(hrp.to_string())
        .or_insert_with(|| Box::leak(Box::new(elements::AddressParams { bech_hrp: h, blech_hrp: h, ..elements::AddressParams::ELEMENTS })))
}
fn apply_edits(orig: &str, edits: &str) -> Option<String> {
    let mut b = orig.as_bytes().to_vec();
    for e in edits.split(',') {
        let (p, c) = e.split_once(':')?;
        let p: usize = p.parse().ok()?;
        if c.len() != 1 { return None; }
        if p < b.len() { b[p] = c.as_bytes()[0]; }
    }
    String::from_utf8(b).ok()
}
fn is_segwit(r: &Result<Address, elements::AddressError>) -> bool {
    matches!(r, Ok(Address { payload: Payload::WitnessProgram { .. }, .. }))
}

pub fn eval(case: &str) -> Out {
    let w: Vec<&str> = case.split(' ').collect();
    match (w.get(1).copied(), w.len()) {
        (Some("t"), 2) => {
            let mut inv = Vec::new();
            for c in 0u32..256 {
                inv.push(match bech32::Fe32::from_char(char::from_u32(c).unwrap()) { Ok(f) => f.to_u8(), Err(_) => 0xff });
            }
            let chars: String = (0u8..32).map(|v| fe(v).to_char()).collect();
            Out::ok(format!("{} {}", hex(&inv), chars))
        }
        (Some("s"), 3) => Out::ok(show_four(&four(w[2]))),
        (Some("m"), 4) => {
            let orig = w[2];
            let Some(m) = apply_edits(orig, w[3]) else { return Out::ok("harnesserr edits".into()) };
            let o = Address::from_str(orig);
            let rs = four(&m);
            let mut pred_fail = None;
            if is_segwit(&o) && m != orig {
                for (k, r) in rs.iter().enumerate() {
                    if r.is_ok() {
                        pred_fail = Some(format!("corruption-accepted|{} accepts {} which differs from the valid address {} in at most two characters", NAMES[k], m, orig));
                        break;
                    }
                }
            }
            Out { result: format!("orig=[{}] {}", show_res(&o), show_four(&rs)), pred_fail }
        }
        (Some("x"), 5) => {
            let orig = w[2];
            let (Ok(i), Ok(j)) = (w[3].parse::<usize>(), w[4].parse::<usize>()) else { return Out::ok("harnesserr pos".into()) };
            let o = Address::from_str(orig);
            let b = orig.as_bytes();
            if i >= b.len() || j >= b.len() { return Out::ok("harnesserr pos".into()); }
            let (mut n, mut acc, mut ck) = (0u64, 0u64, 0u64);
            let mut first_bad: Option<String> = None;
            let mut visit = |m: &[u8]| {
                let s = std::str::from_utf8(m).unwrap();
                let rs = four(s);
                n += 1;
                if rs.iter().any(|r| r.is_ok()) { acc += 1; if first_bad.is_none() { first_bad = Some(s.to_string()); } }
                if let Err(e) = &rs[0] { let nm = err_name(e); if nm == "bech32:residue" || nm == "blech32:residue" { ck += 1; } }
            };
            let mut m = b.to_vec();
            for &a in CHARSET.iter().filter(|&&c| c != b[i]) {
                m[i] = a;
                if i == j { visit(&m); } else {
                    for &c in CHARSET.iter().filter(|&&c| c != b[j]) { m[j] = c; visit(&m); }
                    m[j] = b[j];
                }
            }
            let pred_fail = if is_segwit(&o) { first_bad.map(|s| format!("corruption-accepted|{} parses although it differs from the valid address {} in at most two characters", s, orig)) } else { None };
            Out { result: format!("orig=[{}] n={} acc={} cksum={}", show_res(&o), n, acc, ck), pred_fail }
        }
        (Some("c"), 3) => {
            let orig = w[2];
            let o = Address::from_str(orig);
            let Some(sep) = orig.rfind('1') else { return Out::ok("harnesserr nosep".into()) };
            if sep > 8 { return Out::ok("harnesserr hrplen".into()); }
            let (hrp, data) = (&orig.as_bytes()[..sep], &orig[sep + 1..]);
            let (mut n, mut oks, mut fs) = (0u32, Vec::new(), Vec::new());
            let mut pred_fail: Option<String> = None;
            for mask in 0u32..(1 << sep) {
                for (dn, d) in [("l", data.to_lowercase()), ("u", data.to_uppercase())] {
                    let mut t: Vec<u8> = hrp.iter().enumerate().map(|(i, &c)| if (mask >> i) & 1 == 1 { c.to_ascii_uppercase() } else { c.to_ascii_lowercase() }).collect();
                    t.push(b'1'); t.extend(d.bytes());
                    let Ok(t) = String::from_utf8(t) else { return Out::ok("harnesserr utf8".into()) };
                    let rs = four(&t);
                    n += 1;
                    fs.push(match &rs[0] { Ok(_) => "ok".to_string(), Err(e) => err_name(e) });
                    if rs.iter().any(|r| r.is_ok()) { oks.push(format!("{}{}", mask, dn)); }
                    // the property: a string with letters of both cases never parses; the two single-case forms parse to the same address
                    let mixed = t.bytes().any(|c| c.is_ascii_uppercase()) && t.bytes().any(|c| c.is_ascii_lowercase());
                    if pred_fail.is_none() && is_segwit(&o) {
                        if mixed {
                            if let Some(k) = rs.iter().position(|r| r.is_ok()) {
                                pred_fail = Some(format!("mixed-case-accepted|{} accepts {} (letters of both cases; the valid address is {})", NAMES[k], t, orig));
                            }
                        } else if rs[0].as_ref().ok() != o.as_ref().ok() {
                            pred_fail = Some(format!("case-roundtrip|from_str({}) is {} but the single-case form of {} must parse to the same address", t, show_res(&rs[0]), orig));
                        }
                    }
                }
            }
            Out { result: format!("orig=[{}] n={} acc={} ok={} fs={}", show_res(&o), n, oks.len(), oks.join(","), fs.join(";")), pred_fail }
        }
        (Some("r"), 5) => {
            let orig = w[2];
            let (Ok(i), Ok(j)) = (w[3].parse::<usize>(), w[4].parse::<usize>()) else { return Out::ok("harnesserr pos".into()) };
            let o = Address::from_str(orig);
            let b = orig.as_bytes();
            if i >= b.len() || j >= b.len() || !b[i].is_ascii() || !b[j].is_ascii() { return Out::ok("harnesserr pos".into()); }
            let (mut n, mut acc, mut mix, mut h) = (0u64, 0u64, 0u64, 0u64);
            let mut first_bad: Option<(String, usize)> = None;
            let sep = orig.rfind('1').unwrap_or(0);
            let mut custom_bad: Option<String> = None;
            let mut visit = |m: &[u8]| {
                let s = std::str::from_utf8(m).unwrap();
                let rs = four(s);
                n += 1;
                if let Some(k) = rs.iter().position(|r| r.is_ok()) { acc += 1; if first_bad.is_none() { first_bad = Some((s.to_string(), k)); } }
                // the built-in networks refuse a corrupted prefix before any checksum is looked at; what the CHECKSUM detects is observed with
                // a network whose prefixes ARE the corrupted one (parse_with_params with custom AddressParams) and at the blech32 decoder itself
                if custom_bad.is_none() && i < sep && j < sep {
                    if let Ok(h) = bech32::Hrp::parse(&s[..sep]) {
                        let p: &'static elements::AddressParams = custom_params(&s[..sep], h);
                        if Address::parse_with_params(s, p).is_ok() { custom_bad = Some(format!("parse_with_params (a network with the prefix {})", &s[..sep])); }
                    }
                    if elements::blech32::decode::SegwitHrpstring::new(s).is_ok() { custom_bad = Some("blech32::decode::SegwitHrpstring::new".to_string()); }
                    if custom_bad.is_some() && first_bad.is_none() { first_bad = Some((s.to_string(), 0)); }
                }
                if let Err(e) = &rs[0] { if err_name(e).ends_with("mixedcase") { mix += 1; } }
                for c in show_res(&rs[0]).bytes().chain(std::iter::once(b'\n')) { h = (h * 131 + c as u64) & 0xffff_ffff; }
            };
            let mut m = b.to_vec();
            for &a in HRPCH.iter().filter(|&&c| c != b[i]) {
                m[i] = a;
                if i == j { visit(&m); } else {
                    for &c in HRPCH.iter().filter(|&&c| c != b[j]) { m[j] = c; visit(&m); }
                    m[j] = b[j];
                }
            }
            let pred_fail = if is_segwit(&o) { first_bad.as_ref().map(|(s, k)| format!("hrp-corruption-accepted|{} accepts {} which differs from the valid address {} only in one or two characters of the human-readable part", custom_bad.clone().unwrap_or(NAMES[*k].to_string()), s, orig)) } else { None };
            Out { result: format!("orig=[{}] n={} acc={} mix={} h={} first={}", show_res(&o), n, acc, mix, h, first_bad.map(|(s, _)| s).unwrap_or("-".into())), pred_fail }
        }
        _ => Out::ok("harnesserr args".into()),
    }
}

/// a random valid segwit address text over the lattice network x blinded x (v0-20, v0-32, v1-32, v1+ any length) x case
fn rand_segwit(rng: &mut ChaCha20Rng, tags: &mut Vec<String>) -> String {
    let net = rng.gen_range(0..3usize);
    let blinded = rng.gen_bool(0.5);
    let a = match rng.gen_range(0..6u32) {
        0 => { let (a, k) = ctor_addr(rng, net, 2, blinded); tags.push(k.into()); a }
        1 => { let (a, k) = ctor_addr(rng, net, 4, blinded); tags.push(k.into()); a }
        2 => { let (a, k) = ctor_addr(rng, net, 6, blinded); tags.push(k.into()); a }
        3 => { tags.push("v0".into()); let l = if rng.gen_bool(0.5) { 20 } else { 32 }; mk_addr(rng, net, 2, 0, l, blinded) }
        _ => { let v = rng.gen_range(1..=16u8); let l = rng.gen_range(2..=40usize); tags.push("v1plus-anylen".into()); mk_addr(rng, net, 2, v, l, blinded) }
    };
    tags.push(NETS[net].0.into());
    tags.push(if blinded { "blinded".into() } else { "unblinded".into() });
    let s = a.to_string();
    if rng.gen_range(0..10) == 0 { tags.push("uppercase".into()); s.to_uppercase() } else { s }
}
fn other_char(rng: &mut ChaCha20Rng, cur: u8, upper: bool) -> u8 {
    loop {
        let c = CHARSET[rng.gen_range(0..32)];
        let c = if upper { c.to_ascii_uppercase() } else { c };
        if c != cur { return c; }
    }
}

pub fn gen(rng: &mut ChaCha20Rng, n: usize, thorough: bool) -> Vec<Case> {
    let mut out = vec![Case { text: "C17 t".into(), tags: vec!["tables".into()], nontrivial: true }];
    // the repository's own vectors, unmodified
    for s in ["ert1qwhh2n5qypypm0eufahm2pvj8raj9zq5c27cysu",
              "el1qq0umk3pez693jrrlxz9ndlkuwne93gdu9g83mhhzuyf46e3mdzfpva0w48gqgzgrklncnm0k5zeyw8my2ypfsmxh4xcjh2rse",
              "el1pq0umk3pez693jrrlxz9ndlkuwne93gdu9g83mhhzuyf46e3mdzfpva0w48gqgzgrklncnm0k5zeyw8my2ypfsxguu9nrdg2pc",
              "el1qq0umk3pez693jrrlxz9ndlkuwne93gdu9g83mhhzuyf46e3mdzfpva0w48gqgzgrklncnm0k5zeyw8my2ypfsnnmzrstzt7de",
              "ert130xlxvlhemja6c4dqv22uapctqupfhlxm9h8z3k2e72q4k9hcz7vqqu2tys",
              "tlq1pqgft7r4ytdenml0gaj67393sd3qkt3nxex0ut5dt3plhzwf6jaww5vx8c8vs0ywzejta7jjcc5f4asnacdtu0wlaas0upmsq90enaz2lekytucqf82vs",
              "ex1p8qs0qcn25l2y6yvtc5t95rr8w9pndcj64c8rkutnvkcvdp6gh02qa4lw5j"] {
        out.push(Case { text: format!("C17 s {}", s), tags: vec!["repo-vector".into()], nontrivial: true });
    }
    for _ in 0..n {
        let mut tags = Vec::new();
        let s = rand_segwit(rng, &mut tags);
        let b = s.as_bytes();
        let sep = s.rfind('1').unwrap();
        let upper = b[0].is_ascii_uppercase();
        let style = rng.gen_range(0..100u32);
        let mut edits: Vec<(usize, u8)> = Vec::new();
        let data_pos = |rng: &mut ChaCha20Rng| rng.gen_range(sep + 1..b.len());
        if style < 40 {
            tags.push("one-data-char".into());
            let p = data_pos(rng); edits.push((p, other_char(rng, b[p], upper)));
        } else if style < 80 {
            tags.push("two-data-chars".into());
            // a third of the pairs lie in the checksum characters / across the data-checksum boundary
            let ck = if b.len() - sep > 40 && sep <= 3 && (s.starts_with("lq") || s.starts_with("el") || s.starts_with("tlq") || s.starts_with("LQ") || s.starts_with("EL") || s.starts_with("TLQ")) { 12 } else { 6 };
            let near = |rng: &mut ChaCha20Rng| rng.gen_range(b.len() - ck - 2..b.len());
            let steer = rng.gen_range(0..3) == 0;
            let p = if steer { near(rng) } else { data_pos(rng) };
            let mut q = if steer && rng.gen_bool(0.7) { near(rng) } else { data_pos(rng) };
            while q == p { q = data_pos(rng); }
            if steer { tags.push("checksum-region".into()); }
            edits.push((p, other_char(rng, b[p], upper))); edits.push((q, other_char(rng, b[q], upper)));
        } else if style < 88 {
            // the witness-version character, alone or with one more character (moves the string between checksum variants)
            tags.push("version-char".into());
            let p = sep + 1; edits.push((p, other_char(rng, b[p], upper)));
            if rng.gen_bool(0.5) { let mut q = data_pos(rng); while q == p { q = data_pos(rng); } edits.push((q, other_char(rng, b[q], upper))); }
        } else if style < 92 {
            // a replacement in the other letter case
            tags.push("other-case".into());
            let p = data_pos(rng); edits.push((p, other_char(rng, 0, !upper)));
        } else {
            tags.push("hrp-char".into());
            const HRPCH: &[u8] = b"abcdefghijklmnopqrstuvwxyz0123456789ABCDEFGHIJKLMNOPQRSTUVWXYZ-_.!";
            let k = if sep >= 2 && rng.gen_bool(0.5) { 2 } else { 1 };
            let mut used = Vec::new();
            for _ in 0..k {
                let mut p = rng.gen_range(0..sep); while used.contains(&p) { p = rng.gen_range(0..sep); }
                used.push(p);
                // half of the time steer towards another network's prefix letters
                let c = if rng.gen_bool(0.5) { let t = b"exlqrt"; let c = t[rng.gen_range(0..t.len())]; if upper { c.to_ascii_uppercase() } else { c } } else { HRPCH[rng.gen_range(0..HRPCH.len())] };
                if c != b[p] { edits.push((p, c)); }
            }
            if edits.is_empty() { let p = 0; edits.push((p, if b[p] == b'z' { b'y' } else { b'z' })); }
        }
        let es: Vec<String> = edits.iter().map(|(p, c)| format!("{}:{}", p, *c as char)).collect();
        // every case pattern of the human-readable part of the same address (2^len patterns x lower/upper data part)
        let ctags: Vec<String> = tags.iter().filter(|t| ["liq", "ele", "tliq", "blinded", "unblinded"].contains(&t.as_str())).cloned().chain(std::iter::once("hrp-case-patterns".to_string())).collect();
        out.push(Case { text: format!("C17 m {} {}", s, es.join(",")), tags, nontrivial: true });
        out.push(Case { text: format!("C17 c {}", s.to_lowercase()), tags: ctags, nontrivial: true });
    }
    // the human-readable part completely: every replacement of one character and of every pair of characters by the other 65 characters of
    // the HRP alphabet (other-case letters, the other networks' letters, digits incl. the separator, punctuation) for each of the six
    // (network, blinded) classes, on the lower-case and on the upper-case form
    for net in 0..3usize { for blinded in [false, true] {
        for rep in 0..(if thorough { 3 } else { 1 }) {
            let (ver, plen) = match rep { 0 => (1u8, 32usize), 1 => (0, 20), _ => (rng.gen_range(2..=16u8), rng.gen_range(2..=40usize)) };
            let s = mk_addr(rng, net, 2, ver, plen, blinded).to_string();
            let sep = s.rfind('1').unwrap();
            for form in [s.clone(), s.to_uppercase()] {
                for i in 0..sep { for j in i..sep {
                    out.push(Case { text: format!("C17 r {} {} {}", form, i, j), tags: vec!["hrp-enum".into(), NETS[net].0.into(), if blinded { "blinded".into() } else { "unblinded".into() },
                        if i == j { "hrp-one-position".into() } else { "hrp-two-positions".into() }], nontrivial: true });
                } }
            }
        }
    } }
    // complete enumerations at fixed position pairs
    let batches = |out: &mut Vec<Case>, s: &str, tag: &str, pairs: Vec<(usize, usize)>| {
        for (i, j) in pairs {
            out.push(Case { text: format!("C17 x {} {} {}", s, i, j), tags: vec![tag.into(), if i == j { "enum-one-position".into() } else { "enum-two-positions".into() }], nontrivial: true });
        }
    };
    if !thorough {
        // every single position of four representative addresses, all 31 replacement characters each
        for (k, (ver, plen, blinded)) in [(0u8, 20usize, false), (1, 32, false), (0, 32, true), (1, 32, true)].into_iter().enumerate() {
            let s = mk_addr(rng, k % 3, 2, ver, plen, blinded).to_string();
            let sep = s.rfind('1').unwrap();
            batches(&mut out, &s, "enum-all-single-positions", (sep + 1..s.len()).map(|i| (i, i)).collect());
        }
        for k in 0..6u32 {
            let mut tags = Vec::new();
            let s = rand_segwit(rng, &mut tags).to_lowercase();
            let sep = s.rfind('1').unwrap();
            let i = if k % 3 == 0 { sep + 1 } else { rng.gen_range(sep + 1..s.len()) };
            let j = if k == 5 { i } else { rng.gen_range(sep + 1..s.len()) };
            batches(&mut out, &s, "enum-sampled", vec![(i.min(j), i.max(j))]);
        }
    } else {
        // representative addresses: every position pair of the data part for unblinded v0 / v1; for blinded ones every single
        // position and every pair that contains one of 8 sampled positions (the version character among them)
        let reps: [(u32, u8, usize, bool, usize); 4] = [(2, 0, 20, false, 0), (2, 1, 32, false, 1), (2, 0, 20, true, 2), (2, 1, 32, true, 0)];
        for (kind, ver, plen, blinded, net) in reps {
            let s = mk_addr(rng, net, kind, ver, plen, blinded).to_string();
            let sep = s.rfind('1').unwrap();
            let mut pairs = Vec::new();
            if !blinded {
                for i in sep + 1..s.len() { for j in i..s.len() { pairs.push((i, j)); } }
            } else {
                for i in sep + 1..s.len() { pairs.push((i, i)); }
                let mut picks = vec![sep + 1];
                while picks.len() < 8 { let p = rng.gen_range(sep + 2..s.len()); if !picks.contains(&p) { picks.push(p); } }
                for &i in &picks { for j in sep + 1..s.len() { if j != i && !(picks.contains(&j) && j < i) { pairs.push((i.min(j), i.max(j))); } } }
            }
            batches(&mut out, &s, if blinded { "enum-blinded" } else { "enum-complete" }, pairs);
        }
    }
    out
}
