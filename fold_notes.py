#!/usr/bin/env python3
"""Regenerates section 10 of DESIGN.md ("As built") from notes/Cxx.md."""
import glob, os, re
ROOT = os.path.dirname(os.path.abspath(__file__))
d = open(os.path.join(ROOT, "DESIGN.md")).read()
marker = "\n## 10. As built — per-property notes (generated from notes/*.md by fold_notes.py)\n"
if marker in d:
    d = d[:d.index(marker)]
out = [d.rstrip("\n"), "", marker.strip("\n"), "",
       "Sections 6-9 above are the design as planned before the code; this section records what was actually built, what is proved, what is partial,",
       "which findings were re-derived, and which mutations each check was tried against. Where the two disagree, this section is right.", ""]
for p in sorted(glob.glob(os.path.join(ROOT, "notes", "C*.md"))):
    t = open(p).read().strip()
    t = re.sub(r"^# ", "### ", t, flags=re.M, count=1)
    t = re.sub(r"^## ", "#### ", t, flags=re.M)
    out += [t, ""]
open(os.path.join(ROOT, "DESIGN.md"), "w").write("\n".join(out) + "\n")
print("DESIGN.md section 10 regenerated from", len(glob.glob(os.path.join(ROOT, "notes", "C*.md"))), "notes")
