"""Per-property configuration of ./check (case counts, evidence texts)."""

ALLOWED_AXIOMS = {
    # axioms declared by Coq's standard library that a library we import may pull in (none is declared by this development)
    "functional_extensionality_dep", "FunctionalExtensionality.functional_extensionality_dep",
    "Eqdep.Eq_rect_eq.eq_rect_eq", "eq_rect_eq", "proof_irrelevance", "ProofIrrelevance.proof_irrelevance",
    "classic", "Classical_Prop.classic", "JMeq_eq", "JMeq.JMeq_eq",
}

TRUSTED_BASE = [
    "Coq 8.16.1 kernel (coqc full .vo build; vm_compute for finite sweeps and witnesses; no native_compute)",
    "no axioms declared by the development; Print Assumptions re-run for every theorem on every check (allow-list: stdlib axioms only)",
    "extraction: ExtrOcamlBasic + ExtrOCamlInt63 only (primitive 63-bit ints are used solely by the executable SHA-256; no theorem mentions them); "
    "driver/main.ml (40 lines) + Coq's own kernel/uint63.ml; audited every run by vm_compute inside Coq on a subset of the cases",
    "translator/translate.py (anchored regexes over /repo/src -> coq/Gen/Tables.v) and the Rust harness (generators, canonical printing, catch_unwind)",
    "the model is hand-written Gallina; its tie to the code is the per-run correspondence check, which is differential testing, not proof",
]

PROPS = {
    "C18": dict(
        n_quick=160, n_thorough=1500, audit=10, audit_maxlen=3000,
        rule="every leaf count 0..n (n=160 quick, 1500 thorough) plus sampled larger counts; leaves random / near-equal / all-identical; "
             "distinct = distinct leaf list; non-trivial = at least 2 leaves",
        trusted=["SHA-256 compression is an abstract function `cmp` in the theorems; the executable instance is the Gallina SHA-256 in Base/Sha256.v",
                 "the model represents `inner[32]`/`count:u32` as a list of optional nodes, least significant level first (a slot is Some exactly when that bit of count is set); "
                 "lists of 2^32 or more leaves (128 GiB) are outside the model"],
        assumes=["leaf lists shorter than 2^32"],
    ),
    "C16": dict(
        n_quick=700, n_thorough=12000, audit=12, audit_maxlen=1500, release=True,
        rule="random builder programs (0..12 ops: push_int over the whole i64 range incl. i64::MIN per profile, push_scriptint, push_slice with lengths on both "
             "sides of 75/76, 255/256, 65535/65536, push_opcode incl. the five foldable ones, push_verify) + fixed boundary programs; script numbers +-2^k+-1 and random, "
             "read_scriptint on all 1-byte and sampled 0..6-byte strings; scripts: exact templates, near misses, witness version x program length grid, PUSHDATA edge cases; "
             "sweep: for each template family every length 0..45 x leading opcode (24 interesting + random in quick, all 256 in thorough) x ALL 256 push-length bytes per case; "
             "distinct = distinct case text; non-trivial = builder program with >= 1 push and >= 1 opcode, or a script within distance 1 of a template",
        trusted=["i64 values are Z with an explicit range premise; `-i64::MIN` is modelled per profile (Debug panics, Release wraps) and the harness runs both profiles",
                 "the builder's Vec<u8> is modelled as a reversed list; data slices of 2^32 bytes or more (push_slice panic) are in the theorems but not in the correspondence runs",
                 "opcodes::All::classify is modelled for ClassifyContext::Legacy only (the context Instructions::next uses); opcode byte values, the Ordinary list and MAX_SCRIPT_SIZE are regenerated from the Rust text",
                 "Address::from_script is modelled on the payload (network parameters and blinding key are passed through unchanged by the code); the address text codec is C06: "
                 "C16_from_script_text is stated relative to C06's round-trip theorem as an explicit premise, while the harness checks the real Display/FromStr end to end"],
        assumes=["integers handed to the builder are i64 values", "C06 (address text round trip) for the clause 'its text form parses back to the same address'"],
    ),
}
