"""Per-property configuration of ./check (case counts, evidence texts)."""

ALLOWED_AXIOMS = {
    # axioms declared by Coq's standard library that a library we import may pull in (none is declared by this development)
    "functional_extensionality_dep", "FunctionalExtensionality.functional_extensionality_dep",
    "Eqdep.Eq_rect_eq.eq_rect_eq", "eq_rect_eq", "proof_irrelevance", "ProofIrrelevance.proof_irrelevance",
    "classic", "Classical_Prop.classic", "JMeq_eq", "JMeq.JMeq_eq",
}

TRUSTED_BASE = [
    "Coq 8.16.1 kernel (coqc full .vo build; vm_compute for finite sweeps and witnesses; no native_compute)",
    "no axioms declared by the development; Print Assumptions re-run for every theorem on every check (allow-list: stdlib axioms only)",
    "extraction: ExtrOcamlBasic + ExtrOCamlInt63 only (primitive 63-bit ints are used solely by the executable SHA-256; no theorem mentions them); "
    "driver/main.ml (40 lines) + Coq's own kernel/uint63.ml; audited every run by vm_compute inside Coq on a subset of the cases",
    "translator/translate.py (anchored regexes over /repo/src -> coq/Gen/Tables.v) and the Rust harness (generators, canonical printing, catch_unwind)",
    "the model is hand-written Gallina; its tie to the code is the per-run correspondence check, which is differential testing, not proof",
]

PROPS = {
    "C18": dict(
        n_quick=160, n_thorough=1500, audit=10, audit_maxlen=3000,
        rule="every leaf count 0..n (n=160 quick, 1500 thorough) plus sampled larger counts; leaves random / near-equal / all-identical; "
             "distinct = distinct leaf list; non-trivial = at least 2 leaves",
        trusted=["SHA-256 compression is an abstract function `cmp` in the theorems; the executable instance is the Gallina SHA-256 in Base/Sha256.v",
                 "the model represents `inner[32]`/`count:u32` as a list of optional nodes, least significant level first (a slot is Some exactly when that bit of count is set); "
                 "lists of 2^32 or more leaves (128 GiB) are outside the model"],
        assumes=["leaf lists shorter than 2^32"],
    ),
}

PROPS["C01"] = dict(
    n_quick=400, n_thorough=6000, audit=8, audit_maxlen=4000,
    rule="three streams: (i) structured values over the feature lattice (coinbase/plain/pegin/issuance/reissuance inputs x null/explicit/confidential "
         "asset,value,nonce x the six witness fields x proof/dynafed(null/compact/full) headers x lengths around every varint boundary) serialised by the crate, "
         "(ii) the repository's own hex vectors, (iii) 1-3 stacked byte-level mutations of (i) aimed at the canonicity rules (flag byte, high bits of u32s, "
         "non-minimal varints, prefixes, truncation, extension) + targeted outpoint-flag inputs; distinct = distinct (type, bytes); non-trivial = the decoder accepted it",
    trusted=["curve-point validity (Generator/PedersenCommitment/PublicKey::from_slice) is an oracle `pt_ok`: the harness reports, for every 33-byte window of the input, "
             "whether libsecp256k1 accepts it; theorems hold for every oracle",
             "range/surjection proof acceptance is the header/format rule transcribed from the vendored C sources (secp256k1-zkp-sys 0.10.1); proofs are stored and re-serialised verbatim",
             "Vec<T> element caps MAX_VEC_SIZE/size_of::<T>() are parameters reported by the harness from std::mem::size_of (theorems hold for every value)"],
    assumes=["values are compared through their re-encoding and a structural summary (flags, counts), not field by field"],
)
