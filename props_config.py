"""Per-property configuration of ./check (case counts, evidence texts)."""

ALLOWED_AXIOMS = {
    # axioms declared by Coq's standard library that a library we import may pull in (none is declared by this development)
    "functional_extensionality_dep", "FunctionalExtensionality.functional_extensionality_dep",
    "Eqdep.Eq_rect_eq.eq_rect_eq", "eq_rect_eq", "proof_irrelevance", "ProofIrrelevance.proof_irrelevance",
    "classic", "Classical_Prop.classic", "JMeq_eq", "JMeq.JMeq_eq",
}

TRUSTED_BASE = [
    "Coq 8.16.1 kernel (coqc full .vo build; vm_compute for finite sweeps and witnesses; no native_compute)",
    "no axioms declared by the development; Print Assumptions re-run for every theorem on every check (allow-list: stdlib axioms only)",
    "extraction: ExtrOcamlBasic + ExtrOCamlInt63 only (primitive 63-bit ints are used solely by the executable SHA-256; no theorem mentions them); "
    "driver/main.ml (40 lines) + Coq's own kernel/uint63.ml; audited every run by vm_compute inside Coq on a subset of the cases",
    "translator/translate.py (anchored regexes over /repo/src -> coq/Gen/Tables.v) and the Rust harness (generators, canonical printing, catch_unwind)",
    "the model is hand-written Gallina; its tie to the code is the per-run correspondence check, which is differential testing, not proof",
]

PROPS = {
    "C18": dict(
        n_quick=160, n_thorough=1500, audit=10, audit_maxlen=3000,
        rule="every leaf count 0..n (n=160 quick, 1500 thorough) plus sampled larger counts; leaves random / near-equal / all-identical; "
             "distinct = distinct leaf list; non-trivial = at least 2 leaves",
        trusted=["SHA-256 compression is an abstract function `cmp` in the theorems; the executable instance is the Gallina SHA-256 in Base/Sha256.v",
                 "the model represents `inner[32]`/`count:u32` as a list of optional nodes, least significant level first (a slot is Some exactly when that bit of count is set); "
                 "lists of 2^32 or more leaves (128 GiB) are outside the model"],
        assumes=["leaf lists shorter than 2^32"],
    ),
    "C15": dict(
        n_quick=120, n_thorough=600, audit=8, audit_maxlen=2500,
        rule="one case = one depth sequence with its scripts/versions/hidden hashes (kind build), one weight vector (kind huff), one byte string "
             "(kind cbparse); thorough: every depth sequence of length <= 6 over depths 0..5 (valid and invalid), quick: every sequence of length <= 3 and "
             "n sampled ones per longer length; every full-binary-tree shape with <= 6 leaves filled twice; random trees up to 14 leaves and single "
             "mutations of them; chains at depth 126..129 and absurd depths; Huffman weight vectors {1..4}^n (n <= 5 thorough, <= 3 quick) plus random "
             "(zero, equal, huge weights, duplicate scripts) and zero-weight chains past depth 128; distinct = distinct case text; non-trivial = at least 2 leaves",
        trusted=["the three tagged hashes are abstract functions in the theorems (collision extraction for binding); the executable instance is the Gallina SHA-256 "
                 "with the tag strings read from src/taproot.rs by the translator",
                 "secp256k1 (x-only key validity, Scalar::from_be_bytes, add_tweak, tweak_add_check, key-pair tweak) is an oracle: Section variables with the premises "
                 "tweak_check P Q par t = true <-> tweak P t = Some (Q, par), same-parity injectivity of t |-> P + tG, and the abstract group laws of C15_keypair; "
                 "in correspondence runs the harness records the real add_tweak results for the two keys of the case in the case line, a tweak not in that table "
                 "has no recorded result (tweak_check false)",
                 "BinaryHeap<(Reverse<u64>, NodeInfo)> is modelled as a multiset with extract-maximum under the derived tuple order (ties: greater NodeInfo first); "
                 "BTreeMap/BTreeSet as sorted association lists with the derived lexicographic orders; debug_assert! in tap_tweak is not modelled"],
        assumes=["scripts shorter than 2^64 bytes (leaf message injectivity)", "hidden node hashes are 32 bytes (TapNodeHash)",
                 "the Huffman depth-order theorem assumes the u64 weight sum does not saturate (sum of weights < 2^64)"],
    ),
}
