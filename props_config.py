"""Per-property configuration of ./check (case counts, evidence texts)."""

ALLOWED_AXIOMS = {
    # axioms declared by Coq's standard library that a library we import may pull in (none is declared by this development)
    "functional_extensionality_dep", "FunctionalExtensionality.functional_extensionality_dep",
    "Eqdep.Eq_rect_eq.eq_rect_eq", "eq_rect_eq", "proof_irrelevance", "ProofIrrelevance.proof_irrelevance",
    "classic", "Classical_Prop.classic", "JMeq_eq", "JMeq.JMeq_eq",
}

TRUSTED_BASE = [
    "Coq 8.16.1 kernel (coqc full .vo build; vm_compute for finite sweeps and witnesses; no native_compute)",
    "no axioms declared by the development; Print Assumptions re-run for every theorem on every check (allow-list: stdlib axioms only)",
    "extraction: ExtrOcamlBasic + ExtrOCamlInt63 only (primitive 63-bit ints are used solely by the executable SHA-256; no theorem mentions them); "
    "driver/main.ml (40 lines) + Coq's own kernel/uint63.ml; audited every run by vm_compute inside Coq on a subset of the cases",
    "translator/translate.py (anchored regexes over /repo/src -> coq/Gen/Tables.v) and the Rust harness (generators, canonical printing, catch_unwind)",
    "the model is hand-written Gallina; its tie to the code is the per-run correspondence check, which is differential testing, not proof",
]

import glob as _glob, importlib.util as _ilu, os as _os

PROPS, TEXTS = {}, {}
for _p in sorted(_glob.glob(_os.path.join(_os.path.dirname(_os.path.abspath(__file__)), "props", "C*.py"))):
    _id = _os.path.basename(_p)[:-3]
    _spec = _ilu.spec_from_file_location("props_" + _id, _p)
    _m = _ilu.module_from_spec(_spec)
    _spec.loader.exec_module(_m)
    PROPS[_id] = _m.PROP
    TEXTS[_id] = _m.TEXT
