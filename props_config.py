"""Per-property configuration of ./check (case counts, evidence texts)."""

ALLOWED_AXIOMS = {
    # axioms declared by Coq's standard library that a library we import may pull in (none is declared by this development)
    "functional_extensionality_dep", "FunctionalExtensionality.functional_extensionality_dep",
    "Eqdep.Eq_rect_eq.eq_rect_eq", "eq_rect_eq", "proof_irrelevance", "ProofIrrelevance.proof_irrelevance",
    "classic", "Classical_Prop.classic", "JMeq_eq", "JMeq.JMeq_eq",
}

TRUSTED_BASE = [
    "Coq 8.16.1 kernel (coqc full .vo build; vm_compute for finite sweeps and witnesses; no native_compute)",
    "no axioms declared by the development; Print Assumptions re-run for every theorem on every check (allow-list: stdlib axioms only)",
    "extraction: ExtrOcamlBasic + ExtrOCamlInt63 only (primitive 63-bit ints are used solely by the executable SHA-256; no theorem mentions them); "
    "driver/main.ml (40 lines) + Coq's own kernel/uint63.ml; audited every run by vm_compute inside Coq on a subset of the cases",
    "translator/translate.py (anchored regexes over /repo/src -> coq/Gen/Tables.v) and the Rust harness (generators, canonical printing, catch_unwind)",
    "the model is hand-written Gallina; its tie to the code is the per-run correspondence check, which is differential testing, not proof",
]

PROPS = {
    "C18": dict(
        n_quick=160, n_thorough=1500, audit=10, audit_maxlen=3000,
        rule="every leaf count 0..n (n=160 quick, 1500 thorough) plus sampled larger counts; leaves random / near-equal / all-identical; "
             "distinct = distinct leaf list; non-trivial = at least 2 leaves",
        trusted=["SHA-256 compression is an abstract function `cmp` in the theorems; the executable instance is the Gallina SHA-256 in Base/Sha256.v",
                 "the model represents `inner[32]`/`count:u32` as a list of optional nodes, least significant level first (a slot is Some exactly when that bit of count is set); "
                 "lists of 2^32 or more leaves (128 GiB) are outside the model"],
        assumes=["leaf lists shorter than 2^32"],
    ),
    "C17": dict(
        n_quick=700, n_thorough=8000, audit=10, audit_maxlen=400,
        rule="valid segwit addresses over network x blinded x {constructors p2wpkh/p2wsh/p2tr, v0 20/32, v1..16 length 2..40} x letter case, each with one "
             "sampled corruption: one data character, two data characters, the witness-version character (+ one more), a replacement in the other "
             "letter case, one or two HRP characters; plus complete enumerations of all replacements at one or two fixed positions (quick: 6 sampled "
             "position pairs; thorough: every position pair of an unblinded v0 and an unblinded v1 address, every single position and every pair "
             "containing one of 8 positions for two blinded addresses); distinct = distinct case line; non-trivial = the original parses as a segwit address",
        trusted=["the bech32/bech32m constants (generator, target residues, checksum length 6, 90-character and 2..40/20|32 limits) are transcribed by hand "
                 "from the upstream bech32-0.11.1 crate; the blech32/blech32m constants, the local witness-length limits and the address parameters are "
                 "re-read from /repo/src on every run",
                 "the model keeps the residue as an unbounded N masked to 5*(CHECKSUM_LENGTH-1) bits before the shift (equal to the u32/u64 code on residues "
                 "below 2^(5*CHECKSUM_LENGTH), which is an invariant); 8<->5 bit regrouping is modelled over bit lists",
                 "SHA-256d (base58check) and secp256k1 public-key validity are parameters of the model in every theorem; runs use Base/Sha256.v and Base/SecpField.v"],
        assumes=["total word length (HRP expansion + data + checksum symbols) <= 1023 for the distance theorem, <= 140 for the variant-switch theorem; "
                 "segwit addresses of the three built-in networks are at most 137 symbols",
                 "HRP corruptions and parsing under another network's parameters can leave the code (other checksum family / base58check); there the "
                 "theorem keeps an explicit residual disjunct (C17_hrp_partial)"],
    ),
    "C06": dict(
        n_quick=240, n_thorough=3000, audit=8, audit_maxlen=400,
        rule="addresses: (quick) every witness version 0..16 with program lengths 0..3, 19..21, 31..33, 39..42 and a random quarter of the other lengths, "
             "network and blinding drawn at random, plus n random well-formed addresses of every kind incl. the crate's constructors; (thorough) the full "
             "lattice 3 networks x blinded x {p2pkh, p2sh, version 0..16 x length 0..42, versions 17/24/31}; near-miss strings: upper/mixed case, one "
             "character replaced/dropped/appended, wrong checksum variant, other checksum family, versions 17..31, bad/missing blinding key, bad padding, "
             "foreign HRP, over-long, base58 with wrong length/prefix/inner prefix/blinder/checksum, > 150 characters; distinct = distinct case line; "
             "non-trivial = non-empty string",
        trusted=["the bech32/bech32m constants and limits are transcribed by hand from the upstream bech32-0.11.1 crate; blech32 constants, witness-length "
                 "limits, prefixes and HRPs are re-read from /repo/src on every run",
                 "base58 conversion is modelled with unbounded N (value of the digit string / minimal digits) instead of the crate's carry loops; 8<->5 bit "
                 "regrouping over bit lists; SHA-256d and secp256k1 key validity are parameters in every theorem (runs: Base/Sha256.v, Base/SecpField.v: "
                 "prefix 02/03, x < p, x^3+7 a quadratic residue by Jacobi symbol)",
                 "the harness's independent encoders are the bech32 crate's iterator API (with_checksum/with_witness_version) and base58::encode_check"],
        assumes=["strings are byte strings; every byte >= 128 is rejected where the Rust code rejects a non-ASCII char"],
    ),
}
