"""Per-property configuration of ./check (case counts, evidence texts)."""

ALLOWED_AXIOMS = {
    # axioms declared by Coq's standard library that a library we import may pull in (none is declared by this development)
    "functional_extensionality_dep", "FunctionalExtensionality.functional_extensionality_dep",
    "Eqdep.Eq_rect_eq.eq_rect_eq", "eq_rect_eq", "proof_irrelevance", "ProofIrrelevance.proof_irrelevance",
    "classic", "Classical_Prop.classic", "JMeq_eq", "JMeq.JMeq_eq",
}

TRUSTED_BASE = [
    "Coq 8.16.1 kernel (coqc full .vo build; vm_compute for finite sweeps and witnesses; no native_compute)",
    "no axioms declared by the development; Print Assumptions re-run for every theorem on every check (allow-list: stdlib axioms only)",
    "extraction: ExtrOcamlBasic + ExtrOCamlInt63 only (primitive 63-bit ints are used solely by the executable SHA-256; no theorem mentions them); "
    "driver/main.ml (40 lines) + Coq's own kernel/uint63.ml; audited every run by vm_compute inside Coq on a subset of the cases",
    "translator/translate.py (anchored regexes over /repo/src -> coq/Gen/Tables.v) and the Rust harness (generators, canonical printing, catch_unwind)",
    "the model is hand-written Gallina; its tie to the code is the per-run correspondence check, which is differential testing, not proof",
]

PROPS = {
    "C18": dict(
        n_quick=160, n_thorough=1500, audit=10, audit_maxlen=3000,
        rule="every leaf count 0..n (n=160 quick, 1500 thorough) plus sampled larger counts; leaves random / near-equal / all-identical; "
             "distinct = distinct leaf list; non-trivial = at least 2 leaves",
        trusted=["SHA-256 compression is an abstract function `cmp` in the theorems; the executable instance is the Gallina SHA-256 in Base/Sha256.v",
                 "the model represents `inner[32]`/`count:u32` as a list of optional nodes, least significant level first (a slot is Some exactly when that bit of count is set); "
                 "lists of 2^32 or more leaves (128 GiB) are outside the model"],
        assumes=["leaf lists shorter than 2^32"],
    ),
    "C14": dict(
        n_quick=60, n_thorough=1200, audit=6, audit_maxlen=9000,
        rule="every optional and keyed field of Global/Input/Output present only in other / only in self / in both (exhaustive over the 73 fields), "
             "every xpub key-source pair class of the quantifier, gate cases per transaction-identifying field, and n families of 2..4 descendants of a "
             "common ancestor merged in every permutation and grouping; distinct = distinct case text; non-trivial = at least one optional field beyond the mandatory ones",
        trusted=["field values and keys are opaque canonical byte strings (the crate's pset Serialize of each field); BTreeMaps are strictly key-sorted association "
                 "lists under byte-lexicographic key order (the model's canonical order, not the Rust Ord of the key type; iteration order only matters for which of "
                 "several failing xpub entries is reported first)",
                 "harness/src/psetl.rs: listing <-> real PartiallySignedTransaction through the crate's Serialize/Deserialize of every field (exhaustive struct patterns)",
                 "the unique id is an abstract function in the theorems; in runs it is SHA-256 of the model's id pre-image (C08 model), compared with the crate's only through equality patterns"],
        assumes=["uncompressed public keys and multi-leaf tap trees are not generated (C07's F9)"],
    ),
    "C08": dict(
        n_quick=40, n_thorough=400, audit=6, audit_maxlen=9000,
        rule="lock time: every assignment of {none,time,height,both} to 0..3 inputs (0..4 thorough) x fallback present/absent with boundary and random values; "
             "from_tx/extract_tx over the 9-bit transaction feature lattice (pegin, explicit/confidential issuance, coinbase index, confidential / partially blinded / "
             "explicit outputs with and without nonces, script_sig and witnesses); extract_tx of randomly populated PSETs; unique id before/after the addition of each "
             "of the 73 optional/keyed fields; distinct = distinct case text; non-trivial = at least one optional field or requirement beyond the mandatory ones",
        trusted=["transactions are records of fields (their consensus encoding is C01's model); the txid is an abstract function of the transaction without witnesses "
                 "(flags folded into the output index, issuance present iff non-null, as TxIn's encoder writes them); in runs it is SHA-256 of a canonical text and only "
                 "equality patterns are compared with the crate's ids",
                 "BIP370 is transcribed from the BIP text into Model/PsetTx.v `bip370` (and independently into harness/src/c08.rs)",
                 "uncompressed ECDH/blinding keys are outside the model (the nonce is the key's compressed encoding)"],
        assumes=[],
    ),
}
