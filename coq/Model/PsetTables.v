(* C07 — the three concrete field tables: rows built from the descriptors GENERATED from the Rust source (Gen/Tables.v:
   C07_GLOBAL_FIELDS, C07_INPUT_FIELDS, C07_OUTPUT_FIELDS), the checks after each decode loop, the counts, and the
   instantiated serialize / deserialize.  Hand-written, executable; no proofs here. *)
From Coq Require Import List Arith NArith Bool.
From Coq.Strings Require Import Byte.
From EV Require Import Base.Bytes Base.Codec Gen.Tables Model.Tx Model.Taproot Model.PsetRaw Model.PsetMaps Model.PsetValues.
Import ListNotations.
Open Scope N_scope.

Definition desc := (list byte * N * N * N * list byte * list byte)%type.
Definition d_name (d : desc) : bytes := match d with (n, _, _, _, _, _) => n end.
Definition d_mode (d : desc) : N := match d with (_, m, _, _, _, _) => m end.
Definition d_emit (d : desc) : N := match d with (_, _, e, _, _, _) => e end.
Definition d_dec (d : desc) : N := match d with (_, _, _, t, _, _) => t end.
Definition d_kty (d : desc) : bytes := match d with (_, _, _, _, k, _) => k end.
Definition d_vty (d : desc) : bytes := match d with (_, _, _, _, _, v) => v end.

Section TABLES.
Variable maxvec : N.
Variables cap_txin cap_txout cap_vecu8 cap_h32 : N.
Variables pt_ok pk_ok xonly_ok : bytes -> bool.
Variables Hrip Hsha Hh160 Hh256 : bytes -> bytes.
Variables Hleaf Hbranch : bytes -> bytes.

Notation vcanon := (vcanon maxvec cap_txin cap_txout cap_vecu8 cap_h32 pt_ok pk_ok xonly_ok Hrip Hsha Hh160 Hh256 Hleaf Hbranch).
Notation kcanon := (kcanon maxvec cap_txin cap_txout cap_vecu8 cap_h32 pt_ok pk_ok xonly_ok Hrip Hsha Hh160 Hh256 Hleaf Hbranch).

Definition whole_key (k : bytes) : option bytes := match k with [] => None | _ => Some k end.

(* modes: see translator/tables_C07.py *)
Inductive fmode := FOpt | FMand | FPropOpt | FMap | FXpub | FScalars | FProprietary | FUnknown | FReject | FPropOptLast.
Definition mode_of (m : N) : fmode :=
  if m =? 0 then FOpt else if m =? 1 then FMand else if m =? 2 then FPropOpt else if m =? 3 then FMap else if m =? 4 then FXpub
  else if m =? 5 then FScalars else if m =? 6 then FProprietary else if m =? 7 then FUnknown else if m =? 9 then FPropOptLast else FReject.
Definition row_of_desc (d : desc) : row :=
  let m := mode_of (d_mode d) in
  let t := n2b (d_dec d) in
  let kt := ty_of_name (d_kty d) in
  let vt := ty_of_name (d_vty d) in
  {| r_addr := match m with FPropOpt | FScalars | FPropOptLast => APset t | FProprietary => AProp | FUnknown => AUnk | _ => APlain t end;
     r_kind := match m with FOpt | FMand | FPropOpt => KOpt | FPropOptLast => KOptLast | FReject => KReject | _ => KMap end;
     r_vfirst := match m with FXpub | FScalars => true | _ => false end;
     r_kcanon := match m with FProprietary | FUnknown => whole_key | _ => kcanon kt end;
     r_vcanon := match m with FProprietary | FUnknown => (fun _ v => POk v) | _ => vcanon vt end;
     r_disc := match m with FScalars => DAppend | FProprietary => DSorted (proj_prop maxvec) | FUnknown => DSorted proj_bytes | _ => DSorted (key_proj kt) end;
     r_mand := match m with FMand => true | _ => false end |}.

Definition Tg : table := map row_of_desc C07_GLOBAL_FIELDS.
Definition Ti : table := map row_of_desc C07_INPUT_FIELDS.
Definition To : table := map row_of_desc C07_OUTPUT_FIELDS.

(* field lookup by the Rust identifier (the checks of the Decodable impls are written in terms of the struct fields) *)
Definition idx (ds : list desc) (name : blit) : nat :=
  match find_idx (fun d => bytes_eqb (d_name d) (unlit name)) ds with Some i => i | None => length ds end.
Definition present (m : pmap) (ds : list desc) (name : blit) : bool := has_slot m (idx ds name).

(* Global::consensus_decode after the loop: version present and == 2, then tx_version / input_count / output_count *)
Definition two_le : bytes := [x02; x00; x00; x00].
Definition postg (m : pmap) : option perr :=
  match get_opt m (idx C07_GLOBAL_FIELDS (blit_of "ver"%lb)) with
  | None => Some EVersion
  | Some v => if negb (bytes_eqb v two_le) then Some EVersion
              else if missing Tg m then Some EMissing else None
  end.
(* Input::consensus_decode: previous txid and output index *)
Definition posti (m : pmap) : option perr := if missing Ti m then Some EMissing else None.
(* Output::consensus_decode: script, amount or commitment, asset or commitment, blinder index with a blinding key,
   blinding data absent or complete *)
Definition posto (m : pmap) : option perr :=
  let h := present m C07_OUTPUT_FIELDS in
  if missing To m then Some EMissing
  else if negb (h (blit_of "amount"%lb)) && negb (h (blit_of "amount_comm"%lb)) then Some EMissing
  else if negb (h (blit_of "asset"%lb)) && negb (h (blit_of "asset_comm"%lb)) then Some EMissing
  else if h (blit_of "blinding_key"%lb) && negb (h (blit_of "blinder_index"%lb)) then Some EMissing
  else
    let marked := h (blit_of "blinding_key"%lb) in
    let any := h (blit_of "amount_comm"%lb) || h (blit_of "asset_comm"%lb) || h (blit_of "value_rangeproof"%lb) ||
               h (blit_of "asset_surjection_proof"%lb) || h (blit_of "ecdh_pubkey"%lb) in
    let all := h (blit_of "amount_comm"%lb) && h (blit_of "asset_comm"%lb) && h (blit_of "value_rangeproof"%lb) &&
               h (blit_of "asset_surjection_proof"%lb) && h (blit_of "ecdh_pubkey"%lb) in
    if marked && (marked && any) && negb (marked && all) then Some EMissing else None.

Definition count_of (name : blit) (g : pmap) : N :=
  match get_opt g (idx C07_GLOBAL_FIELDS name) with
  | Some v => match vi_dec v with Some (n, _) => n | None => 0 end
  | None => 0 end.
Definition n_inputs : pmap -> N := count_of (blit_of "input_count_vint"%lb).
Definition n_outputs : pmap -> N := count_of (blit_of "output_count_vint"%lb).

Definition pset_serialize : pset -> bytes := serialize maxvec Tg Ti To.
Definition pset_deserialize : bytes -> pres pset := deserialize maxvec Tg Ti To postg posti posto n_inputs n_outputs C07_PSET_CAP.

(* ---- the ELIP-100 / ELIP-102 accessors: BTreeMap::insert / get on the `proprietary` map of the global map (prefix "pset_hww",
   key data = the asset id) resp. of an input / output map (prefix "pset_liquidex", no key data) ---- *)
Definition prop_row (ds : list desc) : nat := idx ds (blit_of "proprietary"%lb).
Definition hww_key (sub : N) (asset : bytes) : bytes := prop_enc maxvec C07_PSET_HWW_PREFIX (n2b sub) asset.
Definition liquidex_key (sub : N) : bytes := prop_enc maxvec C07_PSET_LIQUIDEX_PREFIX (n2b sub) [].
Fixpoint upd_nth {A} (n : nat) (f : A -> A) (l : list A) : list A :=
  match l, n with [], _ => [] | x :: r, O => f x :: r | x :: r, S n' => x :: upd_nth n' f r end.
Definition set_global_prop (p : pset) (k v : bytes) : pset :=
  {| p_global := set_keyed Tg (p_global p) (prop_row C07_GLOBAL_FIELDS) k v; p_inputs := p_inputs p; p_outputs := p_outputs p |}.
Definition set_input_prop (p : pset) (n : nat) (k v : bytes) : pset :=
  {| p_global := p_global p; p_inputs := upd_nth n (fun m => set_keyed Ti m (prop_row C07_INPUT_FIELDS) k v) (p_inputs p); p_outputs := p_outputs p |}.
Definition set_output_prop (p : pset) (n : nat) (k v : bytes) : pset :=
  {| p_global := p_global p; p_inputs := p_inputs p; p_outputs := upd_nth n (fun m => set_keyed To m (prop_row C07_OUTPUT_FIELDS) k v) (p_outputs p) |}.
Definition add_asset_metadata (p : pset) (asset value : bytes) : pset := set_global_prop p (hww_key C07_PSBT_ELEMENTS_HWW_GLOBAL_ASSET_METADATA asset) value.
Definition get_asset_metadata (p : pset) (asset : bytes) : option bytes := get_key (p_global p) (prop_row C07_GLOBAL_FIELDS) (hww_key C07_PSBT_ELEMENTS_HWW_GLOBAL_ASSET_METADATA asset).
Definition add_token_metadata (p : pset) (token value : bytes) : pset := set_global_prop p (hww_key C07_PSBT_ELEMENTS_HWW_GLOBAL_REISSUANCE_TOKEN token) value.
Definition get_token_metadata (p : pset) (token : bytes) : option bytes := get_key (p_global p) (prop_row C07_GLOBAL_FIELDS) (hww_key C07_PSBT_ELEMENTS_HWW_GLOBAL_REISSUANCE_TOKEN token).
Definition set_abf_input (p : pset) (n : nat) (abf : bytes) : pset := set_input_prop p n (liquidex_key C07_PSBT_ELEMENTS_LIQUIDEX_IN_ABF) abf.
Definition get_abf_input (p : pset) (n : nat) : option bytes :=
  match nth_error (p_inputs p) n with Some m => get_key m (prop_row C07_INPUT_FIELDS) (liquidex_key C07_PSBT_ELEMENTS_LIQUIDEX_IN_ABF) | None => None end.
Definition set_abf_output (p : pset) (n : nat) (abf : bytes) : pset := set_output_prop p n (liquidex_key C07_PSBT_ELEMENTS_LIQUIDEX_OUT_ABF) abf.
Definition get_abf_output (p : pset) (n : nat) : option bytes :=
  match nth_error (p_outputs p) n with Some m => get_key m (prop_row C07_OUTPUT_FIELDS) (liquidex_key C07_PSBT_ELEMENTS_LIQUIDEX_OUT_ABF) | None => None end.

(* PSET equality as the crate defines it: every field compares by value, except that TapTree's PartialEq compares the merkle
   roots only.  On the canonical-bytes representation: equal entries, or two tap_tree entries with the same root. *)
Definition entry_equiv (in_output : bool) (e' e : entry) : Prop :=
  slot e' = slot e /\ ekey e' = ekey e /\
  (evalue e' = evalue e \/
   (in_output = true /\ slot e = idx C07_OUTPUT_FIELDS (blit_of "tap_tree"%lb) /\
    taptree_root maxvec Hleaf Hbranch (evalue e') = taptree_root maxvec Hleaf Hbranch (evalue e) /\ taptree_root maxvec Hleaf Hbranch (evalue e) <> None)).
Definition pset_equiv (p' p : pset) : Prop :=
  Forall2 (entry_equiv false) (p_global p') (p_global p) /\
  Forall2 (Forall2 (entry_equiv false)) (p_inputs p') (p_inputs p) /\
  Forall2 (Forall2 (entry_equiv true)) (p_outputs p') (p_outputs p).

(* ---- consistency of the generated tables (evaluated by the kernel in Proofs/PsetTables.v) ---- *)
Definition names_needed_g : list blit := [blit_of "ver"%lb; blit_of "input_count_vint"%lb; blit_of "output_count_vint"%lb].
Definition names_needed_o : list blit :=
  [blit_of "amount"%lb; blit_of "amount_comm"%lb; blit_of "asset"%lb; blit_of "asset_comm"%lb; blit_of "blinding_key"%lb; blit_of "blinder_index"%lb;
   blit_of "value_rangeproof"%lb; blit_of "asset_surjection_proof"%lb; blit_of "ecdh_pubkey"%lb].
Definition known_ty (name : bytes) : bool := match ty_of_name name with TyUnknownName => false | _ => true end.
(* every descriptor: same constant on both sides, a known mode, known type names, a keyed field names a key type *)
Definition desc_ok (d : desc) : bool :=
  (d_emit d =? d_dec d) && (d_dec d <? 256) && (d_mode d <=? 9) && known_ty (d_kty d) && known_ty (d_vty d) &&
  (if (d_mode d =? 3) || (d_mode d =? 4) || (d_mode d =? 5) then negb (bytes_eqb (d_kty d) []) else true).
(* every row is reachable through its own key: the first row that claims its type byte / subtype is itself *)
Definition route_ok (T : table) : bool :=
  forallb (fun ir => match r_addr (snd ir) with
                     | APlain t => match find_idx (is_plain t) T with Some j => Nat.eqb j (fst ir) | None => false end && negb (byte_eqb t xfc)
                     | APset s => match find_idx (is_pset s) T with Some j => Nat.eqb j (fst ir) | None => false end
                     | AProp => match find_idx is_prop T with Some j => Nat.eqb j (fst ir) | None => false end
                     | AUnk => match find_idx is_unk T with Some j => Nat.eqb j (fst ir) | None => false end end)
          (List.combine (seq 0 (length T)) T).
Definition is_taptree (t : vty) : bool := match t with TyTapTree => true | _ => false end.
Definition idx_taptree : nat := idx C07_OUTPUT_FIELDS (blit_of "tap_tree"%lb).
(* no key type is TapTree; the only value of type TapTree is the output field tap_tree *)
Definition taptree_only : bool :=
  forallb (fun d => negb (is_taptree (ty_of_name (d_kty d))) && negb (is_taptree (ty_of_name (d_vty d)))) (C07_GLOBAL_FIELDS ++ C07_INPUT_FIELDS) &&
  forallb (fun id => negb (is_taptree (ty_of_name (d_kty (snd id)))) && (negb (is_taptree (ty_of_name (d_vty (snd id)))) || Nat.eqb (fst id) idx_taptree))
          (List.combine (seq 0 (length C07_OUTPUT_FIELDS)) C07_OUTPUT_FIELDS).
Definition tables_ok : bool :=
  forallb desc_ok C07_GLOBAL_FIELDS && forallb desc_ok C07_INPUT_FIELDS && forallb desc_ok C07_OUTPUT_FIELDS &&
  route_ok Tg && route_ok Ti && route_ok To &&
  forallb (fun n => Nat.ltb (idx C07_GLOBAL_FIELDS n) (length C07_GLOBAL_FIELDS)) names_needed_g &&
  forallb (fun n => Nat.ltb (idx C07_OUTPUT_FIELDS n) (length C07_OUTPUT_FIELDS)) names_needed_o &&
  bytes_eqb C07_MAGIC magic && taptree_only.
End TABLES.
