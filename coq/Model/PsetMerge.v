(* C14 — PartiallySignedTransaction::merge, Global/Input/Output::merge and the merge! macro, following
   src/pset/mod.rs, src/pset/map/{global,input,output}.rs, src/pset/macros.rs.
   The three `fn merge` bodies are sequences of per-field statements; WHICH statement each field gets is data and is read from
   the source on every run (Gen/Tables.v: pset_{global,input,output}_merge, in source order).  This file gives the meaning of
   each statement kind and runs the table.  No proofs here. *)
From Coq Require Import List NArith Bool.
From Coq.Strings Require Import Byte.
From EV Require Import Base.Bytes Gen.Tables Model.PsetMap.
Import ListNotations.
Open Scope N_scope.

(* merge!(f, self, other):  if let (&None, Some(f)) = (&self.f, other.f) { self.f = Some(f) } *)
Definition first_wins (a b : option bytes) : option bytes := match a with None => b | Some _ => a end.
(* cmp::max on Option<T: Ord> (None < Some; Some by value; the second argument unless the first is greater) *)
Definition max_opt (a b : option bytes) : option bytes :=
  match a, b with
  | Some x, Some y => if u32_of y <? u32_of x then a else b
  | Some _, None => a
  | None, _ => b
  end.
(* Some(self.f.unwrap_or(0) | other.f.unwrap_or(0)) on Option<u8> *)
Definition flag_of (v : option bytes) : N := match v with Some (x :: _) => b2n x | _ => 0 end.
Definition or_flags (a b : option bytes) : option bytes := Some [n2b (N.lor (flag_of a) (flag_of b))].

(* ---- global xpub key-source reconciliation; a KeySource value is fingerprint(4) ++ 4 bytes per path element *)
Fixpoint chunks4 (fuel : nat) (b : bytes) : list bytes :=
  match fuel with O => [] | S fuel' =>
    match b with [] => [] | _ => firstn 4 b :: chunks4 fuel' (skipn 4 b) end end.
Definition ks_fp (v : bytes) : bytes := firstn 4 v.
Definition ks_path (v : bytes) : list bytes := chunks4 (length v) (skipn 4 v).
Fixpoint path_eqb (a b : list bytes) : bool :=
  match a, b with [], [] => true | x :: a', y :: b' => bytes_eqb x y && path_eqb a' b' | _, _ => false end.
Inductive xres := XKeep | XTake | XConflict | XPanic.
(* v1 = (fingerprint1, derivation1) comes from `other`, v2 = (fingerprint2, derivation2) is the entry already in `self`.
   `guarded` is Gen.Tables.xpub_take_arm_guarded: whether the third test checks `derivation2.len() < derivation1.len()` before
   slicing `derivation1[derivation1.len() - derivation2.len()..]`; without the guard the usize subtraction underflows
   (overflow panic in debug, out-of-range slice start in release). *)
Definition reconcile_with (guarded : bool) (v1 v2 : bytes) : xres :=
  let d1 := ks_path v1 in let d2 := ks_path v2 in
  let n1 := length d1 in let n2 := length d2 in
  if path_eqb d1 d2 && bytes_eqb (ks_fp v1) (ks_fp v2) then XKeep
  else if Nat.ltb n1 n2 && path_eqb d1 (skipn (n2 - n1) d2) then XKeep
  else if guarded then (if Nat.ltb n2 n1 && path_eqb d2 (skipn (n1 - n2) d1) then XTake else XConflict)
  else if Nat.ltb n1 n2 then XPanic
  else if path_eqb d2 (skipn (n1 - n2) d1) then XTake else XConflict.
Definition reconcile : bytes -> bytes -> xres := reconcile_with xpub_take_arm_guarded.
(* the documented algorithm (comment in Global::merge): 1) everything equal: nothing to do; 2) error if the paths are equal and the
   fingerprints are not, or the paths have the same length but differ, or the lengths differ and the shorter is not a suffix of the
   longer; 3) otherwise choose the longest derivation *)
Definition reconcile_doc (v1 v2 : bytes) : xres :=
  let d1 := ks_path v1 in let d2 := ks_path v2 in
  let n1 := length d1 in let n2 := length d2 in
  if path_eqb d1 d2 && bytes_eqb (ks_fp v1) (ks_fp v2) then XKeep
  else if Nat.eqb n1 n2 then XConflict
  else if Nat.ltb n1 n2 then (if path_eqb d1 (skipn (n2 - n1) d2) then XKeep else XConflict)
  else (if path_eqb d2 (skipn (n1 - n2) d1) then XTake else XConflict).

(* for (xpub, src1) in other.xpub { match self.xpub.entry(xpub) { Vacant => insert, Occupied => reconcile } } *)
Fixpoint xpub_merge_with (guarded : bool) (self other : alist) : outcome alist :=
  match other with
  | [] => Val self
  | (k, v1) :: r =>
      match al_find k self with
      | None => xpub_merge_with guarded (al_insert k v1 self) r
      | Some v2 => match reconcile_with guarded v1 v2 with
                   | XKeep => xpub_merge_with guarded self r
                   | XTake => xpub_merge_with guarded (al_insert k v1 self) r
                   | XConflict => Fail E_MergeConflict
                   | XPanic => Panic P_xpub_slice_underflow end
      end
  end.

(* ---- a Vec field (Global::scalars : Vec<Tweak>) kept as a list in vector order, duplicates included; the statements are applied
   exactly as written, in source order (Gen.Tables gives the sequence, e.g. [VO_Extend; VO_Sort; VO_Dedup]) *)
Fixpoint al_ins (k v : bytes) (s : alist) : alist :=          (* stable insertion: before the first element that is not smaller *)
  match s with
  | [] => [(k, v)]
  | (k', v') :: r => match bytes_cmp k k' with Gt => (k', v') :: al_ins k v r | _ => (k, v) :: s end
  end.
Definition al_sort (l : alist) : alist := fold_right (fun kv s => al_ins (fst kv) (snd kv) s) [] l.        (* Vec::sort: stable *)
Fixpoint al_dd (prev : bytes) (l : alist) : alist :=
  match l with [] => [] | (k, v) :: r => if bytes_eqb k prev then al_dd prev r else (k, v) :: al_dd k r end.
Definition al_dedup (l : alist) : alist := match l with [] => [] | (k, v) :: r => (k, v) :: al_dd k r end.  (* Vec::dedup: consecutive repeats *)
Definition vec_step (other : alist) (v : alist) (op : vec_op) : alist :=
  match op with VO_Extend => v ++ other | VO_Sort => al_sort v | VO_Dedup => al_dedup v end.
Definition vec_merge (ops : list vec_op) (self other : alist) : alist := fold_left (vec_step other) ops self.

(* ---- one statement of a `fn merge` body *)
Definition step_with (guarded : bool) (s : field * merge_policy) (self other : pmap) : outcome pmap :=
  let f := fst s in
  match snd s with
  | MP_FirstWins => Val (set_unk self f (first_wins (unk self f) (unk other f)))
  | MP_FirstWinsClearing cl =>
      match unk self f, unk other f with
      | None, Some w => Val (fold_left (fun m g => set_unk m g None) cl (set_unk self f (Some w)))
      | _, _ => Val self
      end
  | MP_Extend => Val (set_kyd self f (al_extend (kyd self f) (kyd other f)))
  | MP_VecOps ops => Val (set_kyd self f (vec_merge ops (kyd self f) (kyd other f)))
  | MP_Max => Val (set_unk self f (max_opt (unk self f) (unk other f)))
  | MP_OrFlags => Val (set_unk self f (or_flags (unk self f) (unk other f)))
  | MP_Xpub => obind (xpub_merge_with guarded (kyd self f) (kyd other f)) (fun l => Val (set_kyd self f l))
  | MP_NotMerged => Val self
  end.
Fixpoint run_steps (guarded : bool) (tbl : list (field * merge_policy)) (self other : pmap) : outcome pmap :=
  match tbl with
  | [] => Val self
  | s :: r => obind (step_with guarded s self other) (fun self' => run_steps guarded r self' other)
  end.
Definition merge_map_with (guarded : bool) (tbl : list (field * merge_policy)) : pmap -> pmap -> outcome pmap := run_steps guarded tbl.

(* for (s, o) in self.xs.iter_mut().zip(other.xs) { s.merge(o)?; } *)
Fixpoint zip_merge (mm : pmap -> pmap -> outcome pmap) (selfs others : list pmap) : outcome (list pmap) :=
  match selfs, others with
  | s :: sr, o :: orest => obind (mm s o) (fun c => obind (zip_merge mm sr orest) (fun r => Val (c :: r)))
  | _, _ => Val selfs
  end.

Record tables := mk_tables { t_global : list (field * merge_policy); t_input : list (field * merge_policy);
                             t_output : list (field * merge_policy); t_guarded : bool }.
Definition cur_tables : tables := mk_tables pset_global_merge pset_input_merge pset_output_merge xpub_take_arm_guarded.

(* the map-wise part of PartiallySignedTransaction::merge (after the unique-id gate) *)
Definition merge_maps_with (T : tables) (a b : pset) : outcome pset :=
  obind (merge_map_with (t_guarded T) (t_global T) (pglobal a) (pglobal b)) (fun g =>
  obind (zip_merge (merge_map_with (t_guarded T) (t_input T)) (pinputs a) (pinputs b)) (fun ins =>
  obind (zip_merge (merge_map_with (t_guarded T) (t_output T)) (poutputs a) (poutputs b)) (fun outs =>
  Val (mkpset g ins outs)))).

Section Gate.
  Context {id : Type} (id_eqb : id -> id -> bool) (uid : pset -> outcome id).
  (* `self.unique_id() != other.unique_id()` compares two Result<Txid, Error> *)
  Definition uid_res_eqb (a b : outcome id) : bool :=
    match a, b with Val x, Val y => id_eqb x y | Fail e, Fail e' => perr_eqb e e' | _, _ => false end.
  Definition merge_with (T : tables) (a b : pset) : outcome pset :=
    match uid a, uid b with
    | Panic s, _ => Panic s
    | _, Panic s => Panic s
    | ua, ub =>
        if uid_res_eqb ua ub then merge_maps_with T a b
        else match ua with
             | Fail e => Fail e                                    (* expected: self.unique_id()? *)
             | _ => match ub with Fail e => Fail e | _ => Fail E_UniqueIdMismatch end
             end
    end.
  Definition merge : pset -> pset -> outcome pset := merge_with cur_tables.

  (* any order and grouping of merges of a family: a binary tree whose leaves are the members *)
  Inductive mtree := MLeaf (p : pset) | MNode (l r : mtree).
  Fixpoint leaves (t : mtree) : list pset := match t with MLeaf p => [p] | MNode l r => leaves l ++ leaves r end.
  Fixpoint eval_tree_with (T : tables) (t : mtree) : outcome pset :=
    match t with
    | MLeaf p => Val p
    | MNode l r => obind (eval_tree_with T l) (fun a => obind (eval_tree_with T r) (fun b => merge_with T a b))
    end.
  Definition eval_tree : mtree -> outcome pset := eval_tree_with cur_tables.
End Gate.

(* ---- table-derived classes *)
Definition policy_of (tbl : list (field * merge_policy)) (f : field) : merge_policy :=
  match find (fun s => bytes_eqb f (fst s)) tbl with Some s => snd s | None => MP_NotMerged end.
Definition cleared_by (tbl : list (field * merge_policy)) : list field :=
  flat_map (fun s => match snd s with MP_FirstWinsClearing cl => cl | _ => [] end) tbl.
Definition not_merged (fields : list (field * field_kind)) (tbl : list (field * merge_policy)) : list field :=
  map fst (filter (fun fk => negb (existsb (fun s => bytes_eqb (fst fk) (fst s)) tbl)) fields).
Definition optional_not_merged (fields : list (field * field_kind)) (tbl : list (field * merge_policy)) : list field :=
  map fst (filter (fun fk => match snd fk with FK_mand => false | _ => negb (existsb (fun s => bytes_eqb (fst fk) (fst s)) tbl) end) fields).
