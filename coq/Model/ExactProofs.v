(* C05 — the exact-value and exact-asset proofs of PSET explicit fields (src/blind.rs: BlindValueProofs, BlindAssetProofs), in the
   ideal-commitment world of Model/Ideal.v, extended by the PUBLIC RANGE a range proof states.

   libsecp256k1-zkp's rangeproof_sign derives the proven range from (min_value, exp, min_bits, value) in range_proveparams; the
   verifier reads it back from the proof header and RangeProof::verify returns it as `min_value .. max_value + 1`.  Transcribed here
   for the two exponents the library ever passes: exp = -1 (a proof for the exact value: blind_value_proof) and exp = 0
   (TxOut::RANGEPROOF_EXP_SHIFT: every output range proof).  Positive exponents are outside the model (prove_range = None marks
   "refused OR not modelled"; the case generator never leaves {-1, 0}).

   An ideal range proof WITH its public range verifies iff the ideal proof verifies (intact, presented with its own statement,
   witness opens the commitment) and the witness value lies in the stated range (soundness made literal).
   The acceptance condition of blind_value_proof_verify is NOT written here: it is Gen/SrcExact.v's src_bvp_accept, translated
   from the Rust source on every run.
   No proofs here. *)
From Coq Require Import List NArith ZArith Bool.
From Coq.Strings Require Import Byte.
From EV Require Import Base.Bytes Base.Zn Base.FreeMod Gen.Tables Gen.SrcExact Model.Ideal.
Import ListNotations.
Open Scope Z_scope.

Definition U64_MAX : Z := 2 ^ 64 - 1.
(* number of binary digits of v > 0: 64 - clz64(v) *)
Definition bitlen (v : Z) : Z := Z.log2 v + 1.

(* rangeproof_sign_impl's argument test + range_proveparams, for exp in {-1, 0}: Some (min, max), both inclusive *)
Definition prove_range (min_value exp min_bits value : Z) : option (Z * Z) :=
  if (value <? min_value) || (64 <? min_bits) || (min_bits <? 0) || (exp <? -1) || (18 <? exp) then None
  else if 0 <? exp then None                                   (* decimal exponents: not modelled *)
  else
    let exp := if min_value =? U64_MAX then -1 else exp in     (* "we cannot code a range" *)
    if 0 <=? exp then
      if (negb (min_value =? 0) && (I64_MAX <? value)) || (negb (value =? 0) && (I64_MAX <=? min_value)) then None
      else
        let max_bits := if min_value =? 0 then 64 else 64 - bitlen min_value in
        let min_bits := Z.min min_bits max_bits in
        let v := value - min_value in
        let mantissa := Z.max (if v =? 0 then 1 else bitlen v) min_bits in
        Some (min_value, min_value + (2 ^ mantissa - 1))
    else Some (value, value).

(* an ideal range proof together with the range its header states *)
Record rrproof := mkRR { rr_rp : rproof; rr_min : Z; rr_max : Z }.

(* RangeProof::new(secp, min_value, commitment, value, vbf, message, additional_commitment, key, exp, min_bits, generator) *)
Definition rr_new (min_value : Z) (c : gel) (value vbf : Z) (msg : rp_message) (script : bytes) (key : Z)
                  (exp min_bits : Z) (gen : gel) : option rrproof :=
  match prove_range min_value exp min_bits value with
  | Some (lo, hi) => Some (mkRR (mkRP c script gen value vbf msg key true) lo hi)
  | None => None
  end.
(* RangeProof::verify(secp, commitment, additional_commitment, generator) -> Ok(min .. max + 1) *)
Definition rr_verify (rr : rrproof) (c : gel) (script : bytes) (gen : gel) : option (N * N) :=
  if rp_verify (rr_rp rr) c script gen && (rr_min rr <=? rp_value (rr_rp rr)) && (rp_value (rr_rp rr) <=? rr_max rr)
     && (0 <=? rr_min rr) && (rr_max rr <=? U64_MAX)
  then Some (Z.to_N (rr_min rr), Z.to_N (rr_max rr + 1)) else None.

(* BlindValueProofs::blind_value_proof *)
Definition bvp_new (explicit_val : Z) (value_commit asset_gen : gel) (vbf : Z) : option rrproof :=
  rr_new explicit_val value_commit explicit_val vbf (0%N, 0) [] 0 (-1) 0 asset_gen.
(* BlindValueProofs::blind_value_proof_verify — the arm is the translated source condition *)
Definition bvp_verify (rr : rrproof) (explicit_val : N) (asset_gen value_commit : gel) : bool :=
  match rr_verify rr value_commit [] asset_gen with
  | Some e => src_bvp_accept e explicit_val
  | None => false
  end.
(* the u64 subtraction of the arm does not go below zero (a panic in builds with overflow checks) *)
Definition bvp_verify_safe (rr : rrproof) (explicit_val : N) (asset_gen value_commit : gel) : bool :=
  match rr_verify rr value_commit [] asset_gen with
  | Some e => src_bvp_accept_safe e explicit_val
  | None => true
  end.

(* BlindAssetProofs::blind_asset_proof / blind_asset_proof_verify *)
Definition bap_new (asset : N) (abf : Z) : option sproof := sp_new asset abf [(gH asset, Some asset, 0)].
Definition bap_verify (sp : sproof) (asset : N) (asset_commit : gel) : bool := sp_verify sp asset_commit [gH asset].
