(* C13 — one live `SighashCache` driven by a sequence of operations (src/sighash.rs).  The cache object, its three lazily
   filled caches and every query are in Model/SighashImpl.v; here: the operations a caller can issue, `step`, `run`, and the
   reference semantics "a freshly created cache on the transaction with the witness updates so far". *)
From Coq Require Import List NArith Bool.
From Coq.Strings Require Import Byte.
From EV Require Import Base.Bytes Base.Codec Gen.Tables Model.Tx Model.SighashImpl.
Import ListNotations.
Open Scope N_scope.

Inductive op :=
| OLegacy (idx : nat) (script_pubkey : bytes) (ty : ecdsa_ty)                                   (* legacy_sighash *)
| OSegwit (idx : nat) (script_code : bytes) (value : cvalue) (ty : ecdsa_ty)                    (* segwitv0_sighash *)
| OTaproot (idx : nat) (pv : prevouts) (annex : option bytes) (leaf : option (bytes * N)) (ty : schnorr_ty) (genesis : bytes)   (* Annex::new + taproot_sighash *)
| OTapKey (idx : nat) (pv : prevouts) (ty : schnorr_ty) (genesis : bytes)                      (* taproot_key_spend_signature_hash *)
| OTapScript (idx : nat) (pv : prevouts) (leaf_hash : bytes) (ty : schnorr_ty) (genesis : bytes)   (* taproot_script_spend_signature_hash *)
| OWitnessMut (i : nat) (w : list bytes).                                                        (* *witness_mut(i)? = w *)
Inductive result := RHash (r : sres bytes) | RWit (in_range : bool).

Section CACHE.
Variable pt_ok : bytes -> bool.
Variable maxvec : N.
Variable H : bytes -> bytes.
Variable Htag : bytes -> bytes.

Definition query (o : op) : M bytes :=
  match o with
  | OLegacy idx sc ty => legacy_sighash pt_ok maxvec H idx sc ty
  | OSegwit idx sc v ty => segwit_sighash pt_ok maxvec H idx sc v ty
  | OTaproot idx pv a l ty g => a' <- lift (annex_opt a) ;; taproot_sighash pt_ok maxvec H Htag idx pv a' l ty g   (* Annex::new, then the query *)
  | OTapKey idx pv ty g => taproot_key_spend pt_ok maxvec H Htag idx pv ty g
  | OTapScript idx pv lh ty g => taproot_script_spend pt_ok maxvec H Htag idx pv lh ty g
  | OWitnessMut _ _ => ret []
  end.
Definition step (s : state) (o : op) : state * result :=
  match o with
  | OWitnessMut i w => let (s', b) := witness_mut i w s in (s', RWit b)
  | _ => let (s', r) := query o s in (s', RHash r)
  end.
Fixpoint run (s : state) (ops : list op) : list result :=
  match ops with [] => [] | o :: r => let (s', x) := step s o in x :: run s' r end.

(* reference: every operation is answered by a cache created for it alone, on the transaction as the caller has left it *)
Definition apply_wit (t : tx) (o : op) : tx := match o with OWitnessMut i w => set_script_witness t i w | _ => t end.
Fixpoint fresh_answers (t : tx) (ops : list op) : list result :=
  match ops with [] => [] | o :: r => snd (step (init t) o) :: fresh_answers (apply_wit t o) r end.

(* "unchanged transaction ... with the prevouts given as All": every `All` carries the same list of spent outputs.
   (`One` needs no side condition for coherence: it never reaches a cache.) *)
Definition op_prevouts (o : op) : option prevouts :=
  match o with OTaproot _ pv _ _ _ _ => Some pv | OTapKey _ pv _ _ => Some pv | OTapScript _ pv _ _ _ => Some pv | _ => None end.
Definition consistent_prevouts (spent : list txout) (o : op) : Prop :=
  match op_prevouts o with Some (PAll l) => l = spent | _ => True end.
End CACHE.

Definition schnorr_acp (t : schnorr_ty) : bool := snd (schnorr_split t).
