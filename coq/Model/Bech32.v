(* Model of the bech32 0.11 crate's checksum engine, character set, HRP handling, 8<->5 bit regrouping, encoder and
   segwit decoder, parametric in the code (generator table, checksum length, target residue) so that the same
   functions serve bech32, bech32m (upstream crate) and blech32, blech32m (src/blech32/mod.rs, src/blech32/decode.rs).
   Strings are byte lists (the Rust `&str` is UTF-8; every byte >= 128 is rejected exactly where a non-ASCII `char`
   is rejected in the Rust code).  No proofs here. *)
From Coq Require Import List NArith Bool.
From Coq.Strings Require Import Byte.
From EV Require Import Base.Bytes Gen.Tables.
Import ListNotations.
Open Scope N_scope.

(* ------------------------------------------------------------------------------------------------------------ *)
(* checksum engine: primitives/checksum.rs `Engine::input_fe` with `PackedFe32::mul_by_x_then_add`              *)
(* ------------------------------------------------------------------------------------------------------------ *)
Record code := mkCode { c_gen : list N;     (* GENERATOR_SH *)
                        c_len : nat;        (* CHECKSUM_LENGTH, in symbols *)
                        c_target : N }.     (* TARGET_RESIDUE *)

Definition sel (b : bool) (g : N) : N := if b then g else 0.
(* `for i in 0..5 { if xn & (1 << i) != 0 { residue ^= GENERATOR_SH[i] } }` *)
Fixpoint mix (top : N) (i : N) (gen : list N) : N :=
  match gen with [] => 0 | g :: r => N.lxor (sel (N.testbit top i) g) (mix top (i + 1) r) end.
(* `sh` = 5 * (CHECKSUM_LENGTH - 1).  The Rust code clears the five bits at `sh`, shifts left by 5 inside a u32/u64
   and ors the new symbol in; on residues below 2^(sh+5) (an invariant, see Proofs: feed_bound) that is
   `(s mod 2^sh) << 5 | v`, which is what is written here. *)
Definition step (gen : list N) (sh : N) (s v : N) : N :=
  let top := N.land (N.shiftr s sh) 31 in
  N.lxor (N.lor (N.shiftl (N.land s (N.ones sh)) 5) v) (mix top 0 gen).
Definition shift_of (c : code) : N := 5 * (N.of_nat (c_len c) - 1).
Definition cstep (c : code) : N -> N -> N := step (c_gen c) (shift_of c).
Definition feed (c : code) (s : N) (w : list N) : N := fold_left (cstep c) w s.
(* `Engine::new()` starts from ONE *)
Definition residue (c : code) (w : list N) : N := feed c 1 w.
Definition valid_codeword (c : code) (w : list N) : bool := N.eqb (residue c w) (c_target c).

(* `unpack(n)` = (r >> 5n) & 31; most significant symbol first, as `input_target_residue` and the encoder read it *)
Definition unpack (r : N) (n : nat) : N := N.land (N.shiftr r (5 * N.of_nat n)) 31.
Fixpoint unpack_all (k : nat) (r : N) : list N := match k with O => [] | S k' => unpack r k' :: unpack_all k' r end.
(* `Checksummed::next` after the data ran out: feed the target residue, then emit the residue's symbols *)
Definition checksum_syms (c : code) (pre : list N) : list N :=
  unpack_all (c_len c) (feed c (feed c 1 pre) (unpack_all (c_len c) (c_target c))).

(* ------------------------------------------------------------------------------------------------------------ *)
(* characters                                                                                                  *)
(* ------------------------------------------------------------------------------------------------------------ *)
Definition is_upper (b : byte) : bool := (65 <=? b2n b) && (b2n b <=? 90).
Definition is_lower (b : byte) : bool := (97 <=? b2n b) && (b2n b <=? 122).
Definition to_lower (b : byte) : byte := if is_upper b then n2b (b2n b + 32) else b.
Definition to_upper (b : byte) : byte := if is_lower b then n2b (b2n b - 32) else b.
Definition lower (s : bytes) : bytes := map to_lower s.
Definition upper (s : bytes) : bytes := map to_upper s.

(* gf32.rs CHARS_LOWER *)
Definition charset : bytes := "qpzry9x8gf2tvdw0s3jn54khce6mua7l"%lb.
Definition to_char (v : N) : byte := nth (N.to_nat v) charset x3f.
Fixpoint index_of (c : byte) (l : bytes) (i : N) : option N :=
  match l with [] => None | x :: r => if byte_eqb x c then Some i else index_of c r (i + 1) end.
(* gf32.rs `Fe32::from_char` (CHARS_INV is the inverse of CHARS_LOWER for both letter cases, -1 elsewhere) *)
Definition from_char (c : byte) : option N := if b2n c <? 128 then index_of (to_lower c) charset 0 else None.
Fixpoint all_some {A} (l : list (option A)) : option (list A) :=
  match l with [] => Some [] | Some x :: r => match all_some r with Some t => Some (x :: t) | None => None end | None :: _ => None end.
Definition syms_of (data : bytes) : option (list N) := all_some (map from_char data).

(* checksum.rs HrpFe32Iter: high bits of every lower-cased byte, a zero, the low bits *)
Definition hrp_expand (hrp : bytes) : list N :=
  map (fun b => b2n (to_lower b) / 32) hrp ++ [0] ++ map (fun b => b2n (to_lower b) mod 32) hrp.

(* ------------------------------------------------------------------------------------------------------------ *)
(* 8 <-> 5 bit regrouping (iter.rs BytesToFes / FesToBytes), written over bit lists, most significant bit first  *)
(* ------------------------------------------------------------------------------------------------------------ *)
Definition bits_of (k : nat) (v : N) : list bool := map (fun i => N.testbit v (N.of_nat i)) (rev (seq 0 k)).
Fixpoint val_of (bs : list bool) (acc : N) : N := match bs with [] => acc | b :: r => val_of r (2 * acc + (if b then 1 else 0)) end.
Definition bits_of_bytes (bs : bytes) : list bool := flat_map (fun b => bits_of 8 (b2n b)) bs.
Definition bits_of_syms (vs : list N) : list bool := flat_map (bits_of 5) vs.
(* groups of five, the last one padded with zero bits (`next.unwrap_or(0)`) *)
Fixpoint chunk5 (bs : list bool) : list N :=
  match bs with
  | [] => []
  | a :: b :: c :: d :: e :: r => val_of [a; b; c; d; e] 0 :: chunk5 r
  | [a; b; c; d] => [val_of [a; b; c; d; false] 0]
  | [a; b; c] => [val_of [a; b; c; false; false] 0]
  | [a; b] => [val_of [a; b; false; false; false] 0]
  | [a] => [val_of [a; false; false; false; false] 0]
  end.
(* groups of eight, an incomplete last group is dropped (`let next1 = self.last_fe?`) *)
Fixpoint chunk8 (bs : list bool) : bytes :=
  match bs with
  | a :: b :: c :: d :: e :: f :: g :: h :: r => n2b (val_of [a; b; c; d; e; f; g; h] 0) :: chunk8 r
  | _ => []
  end.
Definition bytes_to_fes (bs : bytes) : list N := chunk5 (bits_of_bytes bs).
Definition fes_to_bytes (vs : list N) : bytes := chunk8 (bits_of_syms vs).

(* ------------------------------------------------------------------------------------------------------------ *)
(* encoder: encode.rs CharIter over Checksummed<WitnessVersionIter<..>>                                         *)
(* ------------------------------------------------------------------------------------------------------------ *)
Definition encode_segwit (c : code) (hrp : bytes) (ver : N) (data : bytes) : bytes :=
  let body := ver :: bytes_to_fes data in
  lower hrp ++ [x31] ++ map to_char (body ++ checksum_syms c (hrp_expand hrp ++ body)).

(* ------------------------------------------------------------------------------------------------------------ *)
(* decoder                                                                                                     *)
(* ------------------------------------------------------------------------------------------------------------ *)
Inductive b32err :=
  | EInvalidChar | EMixedCase | EMissingSep                              (* CharError *)
  | EHrpEmpty | EHrpTooLong | EHrpNonAscii | EHrpInvalidByte | EHrpMixedCase   (* hrp::Error *)
  | ENoData            (* upstream NoData / local MissingWitnessVersion *)
  | ETooLong           (* upstream only: more than 90 characters *)
  | EWitVer            (* InvalidWitnessVersion *)
  | ECkCodeLength | ECkLength | ECkResidue                               (* ChecksumError *)
  | EPadTooMuch | EPadNonZero                                            (* PaddingError *)
  | EWlShort | EWlLong | EWlV0.                                          (* WitnessLengthError *)
Inductive res (A : Type) := Ok (a : A) | Err (e : b32err).
Arguments Ok {A} a. Arguments Err {A} e.

(* split at the LAST occurrence of `sep`: Some (before, after) *)
Fixpoint rsplit (sep : byte) (s : bytes) : option (bytes * bytes) :=
  match s with
  | [] => None
  | c :: r => match rsplit sep r with
              | Some (p, q) => Some (c :: p, q)
              | None => if byte_eqb c sep then Some ([], r) else None end end.

(* decode.rs check_characters: walks the string from the end; characters after the last '1' must be bech32 characters
   (first failure is reported at once), then the mixed-case test over the whole string, then the missing separator *)
Definition check_characters (s : bytes) : res (bytes * bytes) :=
  let '(must, sp) := match rsplit x31 s with Some (h, d) => (d, Some (h, d)) | None => (s, None) end in
  if negb (forallb (fun c => match from_char c with Some _ => true | None => false end) must) then Err EInvalidChar
  else if existsb is_upper s && existsb is_lower s then Err EMixedCase
  else match sp with Some hd => Ok hd | None => Err EMissingSep end.

(* hrp.rs Hrp::parse *)
Fixpoint hrp_chars (h : bytes) (has_lower has_upper : bool) : res unit :=
  match h with
  | [] => Ok tt
  | b :: r =>
      if 128 <=? b2n b then Err EHrpNonAscii
      else if negb ((33 <=? b2n b) && (b2n b <=? 126)) then Err EHrpInvalidByte
      else if is_lower b then (if has_upper then Err EHrpMixedCase else hrp_chars r true has_upper)
      else if is_upper b then (if has_lower then Err EHrpMixedCase else hrp_chars r has_lower true)
      else hrp_chars r has_lower has_upper end.
Definition hrp_parse (h : bytes) : res unit :=
  match h with [] => Err EHrpEmpty | _ => if Nat.ltb 83 (length h) then Err EHrpTooLong else hrp_chars h false false end.

(* UncheckedHrpstring::new *)
Definition unchecked_new (s : bytes) : res (bytes * bytes) :=
  match check_characters s with
  | Err e => Err e
  | Ok (h, d) => match hrp_parse h with Err e => Err e | Ok _ => Ok (h, d) end end.

(* the two SegwitHrpstring implementations differ in these knobs *)
Record segwit_cfg := mkCfg {
  sw_max_string : option nat;       (* upstream: MAX_STRING_LENGTH = 90; local copy: no test *)
  sw_code_length : option nat;      (* upstream validate_checksum: hrpstring_length > CODE_LENGTH; local copy: no test *)
  sw_max_version : N;
  sw_code_v0 : code;                (* VERSION_0 => ... *)
  sw_code_v1 : code;                (* _ => ... *)
  sw_len_min : nat; sw_len_max : nat; sw_len_v0_a : nat; sw_len_v0_b : nat }.

(* UncheckedHrpstring::validate_checksum *)
Definition validate_checksum (cfg : segwit_cfg) (c : code) (slen : nat) (hrp : bytes) (syms : list N) : res unit :=
  if match sw_code_length cfg with Some cl => Nat.ltb cl slen | None => false end then Err ECkCodeLength
  else if Nat.eqb (c_len c) 0 then Ok tt
  else if Nat.ltb (length syms) (c_len c) then Err ECkLength
  else if negb (valid_codeword c (hrp_expand hrp ++ syms)) then Err ECkResidue
  else Ok tt.

(* CheckedHrpstring::validate_padding (after the witness version was removed) *)
Definition validate_padding (syms : list N) : res unit :=
  match syms with
  | [] => Ok tt
  | _ => let pad := Nat.modulo (length syms * 5) 8 in
         if Nat.ltb 4 pad then Err EPadTooMuch
         else if negb (N.eqb (N.land (last syms 0) (N.ones (N.of_nat pad))) 0) then Err EPadNonZero else Ok tt end.

(* validate_witness_program_length: `len` is FesToBytes::len() = n*5/8 *)
Definition validate_wpl (cfg : segwit_cfg) (ver : N) (syms : list N) : res unit :=
  let len := Nat.div (length syms * 5) 8 in
  if Nat.ltb len (sw_len_min cfg) then Err EWlShort
  else if Nat.ltb (sw_len_max cfg) len then Err EWlLong
  else if (N.eqb ver 0) && negb (Nat.eqb len (sw_len_v0_a cfg)) && negb (Nat.eqb len (sw_len_v0_b cfg)) then Err EWlV0
  else Ok tt.

(* SegwitHrpstring::new followed by (witness_version(), byte_iter().collect()) *)
Definition segwit_decode (cfg : segwit_cfg) (s : bytes) : res (N * bytes) :=
  if match sw_max_string cfg with Some m => Nat.ltb m (length s) | None => false end then Err ETooLong else
  match unchecked_new s with
  | Err e => Err e
  | Ok (h, d) =>
    match syms_of d with
    | None => Err EInvalidChar            (* unreachable: check_characters vetted every data character *)
    | Some [] => Err ENoData
    | Some ((ver :: _) as syms) =>
        if sw_max_version cfg <? ver then Err EWitVer else
        let c := if N.eqb ver 0 then sw_code_v0 cfg else sw_code_v1 cfg in
        match validate_checksum cfg c (length s) h syms with
        | Err e => Err e
        | Ok _ =>
          (* remove_checksum, then validate_segwit *)
          match firstn (length syms - c_len c) syms with
          | [] => Err ENoData
          | ver' :: body =>
              (* upstream validate_segwit repeats the 90-character test; it cannot fire here *)
              match validate_padding body with
              | Err e => Err e
              | Ok _ => match validate_wpl cfg ver' body with
                        | Err e => Err e
                        | Ok _ => Ok (ver', fes_to_bytes body) end end end end end end.

(* ------------------------------------------------------------------------------------------------------------ *)
(* the four codes                                                                                              *)
(* ------------------------------------------------------------------------------------------------------------ *)
(* upstream bech32-0.11.1 src/primitives/mod.rs — transcribed by hand (the crate is not part of /repo/src):
   const GEN: [u32; 5] = [0x3b6a_57b2, 0x2650_8e6d, 0x1ea1_19fa, 0x3d42_33dd, 0x2a14_62b3];
   Bech32: CHECKSUM_LENGTH 6, TARGET_RESIDUE 1, CODE_LENGTH 1023; Bech32m: TARGET_RESIDUE 0x2bc830a3 *)
Definition BECH32_GEN : list N := [0x3b6a57b2; 0x26508e6d; 0x1ea119fa; 0x3d4233dd; 0x2a1462b3].
Definition bech32 : code := mkCode BECH32_GEN 6 1.
Definition bech32m : code := mkCode BECH32_GEN 6 0x2bc830a3.
(* src/blech32/mod.rs — regenerated by the translator *)
Definition blech32 : code := mkCode Blech32_GENERATOR_SH (N.to_nat Blech32_CHECKSUM_LENGTH) Blech32_TARGET_RESIDUE.
Definition blech32m : code := mkCode Blech32m_GENERATOR_SH (N.to_nat Blech32m_CHECKSUM_LENGTH) Blech32m_TARGET_RESIDUE.

(* upstream primitives/decode.rs + primitives/segwit.rs (by hand): 90 characters, CODE_LENGTH 1023, versions 0..16,
   program 2..40 bytes, 20 or 32 for version 0 *)
Definition cfg_bech : segwit_cfg := mkCfg (Some 90%nat) (Some 1023%nat) 16 bech32 bech32m 2 40 20 32.
(* src/blech32/decode.rs (limits and checksum selection regenerated by the translator) *)
Definition blech_code (k : N) : code := if N.eqb k 0 then blech32 else blech32m.
Definition cfg_blech : segwit_cfg :=
  mkCfg None None BLECH_MAX_WITNESS_VERSION (blech_code BLECH_V0_CODE) (blech_code BLECH_V1PLUS_CODE)
        (N.to_nat BLECH_WPL_MIN) (N.to_nat BLECH_WPL_MAX) (N.to_nat BLECH_WPL_V0_A) (N.to_nat BLECH_WPL_V0_B).
