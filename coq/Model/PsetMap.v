(* PSET key-value maps at the level C08 and C14 need (DESIGN C07 "representation decision"):
   a map is   unk : field -> option value     (Option<T> and mandatory scalar fields of the Rust struct)
              kyd : field -> alist            (BTreeMap<K,V> fields and the scalar set; strictly key-sorted association lists)
   fields are named by the Rust struct field name (Gen/Tables.v lists them), values and keys are the canonical byte strings
   the crate's `pset::serialize::Serialize` produces for that field.  No proofs here. *)
From Coq Require Import List NArith Bool.
From Coq.Strings Require Import Byte.
From EV Require Import Base.Bytes Gen.Tables.
Import ListNotations.
Open Scope N_scope.

Definition field := bytes.
Definition alist := list (bytes * bytes).

(* byte-lexicographic order: the model's canonical order of keys *)
Fixpoint bytes_cmp (a b : bytes) : comparison :=
  match a, b with
  | [], [] => Eq | [], _ :: _ => Lt | _ :: _, [] => Gt
  | x :: a', y :: b' => match N.compare (b2n x) (b2n y) with Eq => bytes_cmp a' b' | c => c end
  end.

(* BTreeMap::insert: insert or replace *)
Fixpoint al_insert (k v : bytes) (l : alist) : alist :=
  match l with
  | [] => [(k, v)]
  | (k', v') :: r => match bytes_cmp k k' with
                     | Lt => (k, v) :: l
                     | Eq => (k, v) :: r
                     | Gt => (k', v') :: al_insert k v r end
  end.
Fixpoint al_find (k : bytes) (l : alist) : option bytes :=
  match l with [] => None | (k', v') :: r => if bytes_eqb k k' then Some v' else al_find k r end.
(* BTreeMap::extend(other): every pair of other is inserted, replacing an existing value *)
Definition al_extend (self other : alist) : alist := fold_left (fun acc kv => al_insert (fst kv) (snd kv) acc) other self.
Definition al_of_list (l : alist) : alist := al_extend [] l.
Definition al_mem (k : bytes) (l : alist) : bool := match al_find k l with Some _ => true | None => false end.

Record pmap := mkmap { unk : field -> option bytes; kyd : field -> alist }.
Definition empty_map : pmap := mkmap (fun _ => None) (fun _ => []).
Definition set_unk (m : pmap) (f : field) (v : option bytes) : pmap :=
  mkmap (fun g => if bytes_eqb g f then v else unk m g) (kyd m).
Definition set_kyd (m : pmap) (f : field) (l : alist) : pmap :=
  mkmap (unk m) (fun g => if bytes_eqb g f then l else kyd m g).

Record pset := mkpset { pglobal : pmap; pinputs : list pmap; poutputs : list pmap }.

(* the crate's pset::Error variants that the modelled functions can return, and the panic sites *)
Inductive perr := E_UniqueIdMismatch | E_MergeConflict | E_LocktimeConflict | E_InputCountMismatch | E_OutputCountMismatch
                | E_MissingOutputValue | E_MissingOutputAsset.
Inductive psite := P_xpub_slice_underflow | P_locktime_unreachable | P_model.
Inductive outcome (A : Type) := Val (a : A) | Fail (e : perr) | Panic (s : psite).
Arguments Val {A} a. Arguments Fail {A} e. Arguments Panic {A} s.
Definition obind {A B} (x : outcome A) (f : A -> outcome B) : outcome B :=
  match x with Val a => f a | Fail e => Fail e | Panic s => Panic s end.

Definition perr_eqb (a b : perr) : bool :=
  match a, b with
  | E_UniqueIdMismatch, E_UniqueIdMismatch | E_MergeConflict, E_MergeConflict | E_LocktimeConflict, E_LocktimeConflict
  | E_InputCountMismatch, E_InputCountMismatch | E_OutputCountMismatch, E_OutputCountMismatch
  | E_MissingOutputValue, E_MissingOutputValue | E_MissingOutputAsset, E_MissingOutputAsset => true
  | _, _ => false end.

(* typed views of canonical values *)
Definition u32_of (v : bytes) : N := le_val v.              (* u32 / LockTime / Sequence / Height / Time: 4 bytes little endian *)
Definition opt_u32 (v : option bytes) : option N := option_map u32_of v.

(* field names used by the hand-written parts of the models; the complete lists are Gen.Tables.pset_*_fields *)
Definition F_tx_version := fld "tx_data.version".
Definition F_fallback := fld "tx_data.fallback_locktime".
Definition F_input_count := fld "tx_data.input_count".
Definition F_output_count := fld "tx_data.output_count".
Definition F_prev_txid := fld "previous_txid".
Definition F_prev_index := fld "previous_output_index".
Definition F_sequence := fld "sequence".
Definition F_req_time := fld "required_time_locktime".
Definition F_req_height := fld "required_height_locktime".
Definition F_final_script_sig := fld "final_script_sig".
Definition F_final_script_witness := fld "final_script_witness".
Definition F_pegin_witness := fld "pegin_witness".
Definition F_iss_amount := fld "issuance_value_amount".
Definition F_iss_comm := fld "issuance_value_comm".
Definition F_iss_keys := fld "issuance_inflation_keys".
Definition F_iss_keys_comm := fld "issuance_inflation_keys_comm".
Definition F_iss_nonce := fld "issuance_blinding_nonce".
Definition F_iss_entropy := fld "issuance_asset_entropy".
Definition F_iss_value_rangeproof := fld "issuance_value_rangeproof".
Definition F_iss_keys_rangeproof := fld "issuance_keys_rangeproof".
Definition F_amount := fld "amount".
Definition F_amount_comm := fld "amount_comm".
Definition F_asset := fld "asset".
Definition F_asset_comm := fld "asset_comm".
Definition F_script_pubkey := fld "script_pubkey".
Definition F_ecdh_pubkey := fld "ecdh_pubkey".
Definition F_blinding_key := fld "blinding_key".
Definition F_value_rangeproof := fld "value_rangeproof".
Definition F_asset_surjection_proof := fld "asset_surjection_proof".
