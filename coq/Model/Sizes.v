(* Size / weight arithmetic of src/transaction.rs (scaled_size, size, weight, vsize, discount_weight, discount_vsize)
   and src/block.rs (Block::size, Block::weight), term by term as written in the Rust. *)
From Coq Require Import List NArith Bool.
From Coq.Strings Require Import Byte.
From EV Require Import Base.Bytes Base.Codec Model.Tx Model.Block.
Import ListNotations.
Open Scope N_scope.

Definition nsum (l : list N) : N := fold_right N.add 0 l.
Definition blen (b : bytes) : N := N.of_nat (length b).
Definition optlen (o : option bytes) : N := match o with None => 0 | Some b => blen b end.       (* map_or(0, |x| x.len()) *)
Definition stack_size (s : list bytes) : N := vi_size (N.of_nat (length s)) + nsum (map (fun w => vi_size (blen w) + blen w) s).

Definition input_base (i : txin) : N :=
  32 + 4 + 4 + vi_size (blen (in_script i)) + blen (in_script i)
  + (if has_issuance i then 64 + value_len (i_amount (in_iss i)) + value_len (i_keys (in_iss i)) else 0).
Definition input_wit (i : txin) : N :=
  let w := in_wit i in
  vi_size (optlen (w_amount_rp w)) + optlen (w_amount_rp w) + vi_size (optlen (w_keys_rp w)) + optlen (w_keys_rp w)
  + stack_size (w_script w) + stack_size (w_pegin w).
Definition output_base (o : txout) : N :=
  asset_len (out_asset o) + value_len (out_value o) + nonce_len (out_nonce o) + vi_size (blen (out_script o)) + blen (out_script o).
Definition output_wit (o : txout) : N :=
  let w := out_wit o in
  vi_size (optlen (w_surj w)) + optlen (w_surj w) + vi_size (optlen (w_range w)) + optlen (w_range w).

Definition scaled_size (k : N) (t : tx) : N :=
  let flag := has_witness t in
  let input_weight := nsum (map (fun i => k * input_base i + (if flag then input_wit i else 0)) (tx_in t)) in
  let output_weight := nsum (map (fun o => k * output_base o + (if flag then output_wit o else 0)) (tx_out t)) in
  k * (4 + 4 + vi_size (N.of_nat (length (tx_in t))) + vi_size (N.of_nat (length (tx_out t))) + 1) + input_weight + output_weight.
Definition tx_size (t : tx) : N := scaled_size 1 t.
Definition tx_weight (t : tx) : N := scaled_size 4 t.
Definition div_ceil4 (w : N) : N := (w + 3) / 4.
Definition tx_vsize (t : tx) : N := div_ceil4 (tx_weight t).
Definition value_is_conf (v : cvalue) : bool := match v with VConf _ => true | _ => false end.
Definition nonce_is_conf (v : cnonce) : bool := match v with NConf _ => true | _ => false end.
(* what discount_weight subtracts for one output *)
Definition output_discount (o : txout) : N :=
  (output_wit o - 2)                                   (* witness_weight.saturating_sub(2) *)
  + (if value_is_conf (out_value o) then 96 else 0) + (if nonce_is_conf (out_nonce o) then 128 else 0).
(* `weight -= ...` on usize: each subtraction is modelled as truncated subtraction; Proofs/Sizes.v shows it never truncates *)
Definition discount_weight (t : tx) : N := fold_left (fun w o => w - (output_wit o - 2) - (if value_is_conf (out_value o) then 96 else 0) - (if nonce_is_conf (out_nonce o) then 128 else 0)) (tx_out t) (tx_weight t).
Definition discount_vsize (t : tx) : N := div_ceil4 (discount_weight t).

Section BLOCKSIZE.
Variables maxvec cap_vecu8 : N.
Definition block_size (b : block) : N :=
  blen (enc (c_header maxvec cap_vecu8) (b_header b)) + vi_size (N.of_nat (length (b_txs b))) + nsum (map tx_size (b_txs b)).
Definition block_weight (b : block) : N :=
  4 * (blen (enc (c_header maxvec cap_vecu8) (b_header b)) + vi_size (N.of_nat (length (b_txs b)))) + nsum (map tx_weight (b_txs b)).
End BLOCKSIZE.
