(* C20 — the serde_derive-generated (de)serializers of the PSET types, as codec combinators over the serde data model of Model/Serde.v.

   serde_derive output is regular: a struct is `serialize_struct` with one `serialize_field` per field in declaration order, and a visitor that
   accepts a map (unknown keys ignored, a repeated key is an error, a missing field is an error unless its type is Option) or a sequence
   (positional).  So a derived impl is determined by the field list and the attributes of the struct, and these are read from the Rust source by
   translator/tables_C20.py (Gen/Tables.v: pset_serde_<Struct> = [(field name, "type|attribute")]).  `codec_table` maps every "type|attribute"
   string that occurs to the codec of that type; a field whose type has no entry makes `fields_known` false (and is a translator error).

   In-memory values are untyped trees `fval` (numbers, byte strings, options, lists, tuples); a struct value is the tuple of its field values; a
   BTreeMap is the list of its (key, value) pairs in iteration order (deserialization returns the pairs in wire order and keeps repeated keys,
   where Rust keeps the last: this only matters for inputs no serializer produces).  TxOut / Transaction values are their consensus encodings.
   Types whose Serialize / Deserialize live in a dependency (bitcoin::PublicKey, secp256k1 XOnlyPublicKey and schnorr::Signature, bip32 KeySource
   and Xpub, bitcoin::Transaction) and pset::TapTree (derived over the private fields of TaprootBuilder) are Section-variable leaf codecs
   `leaf_ser / leaf_de kind` over the value's canonical bytes, with the round trip as a premise; in correspondence runs they are instantiated from
   a table the harness records from the real crate for exactly the values in the case.

   serde_utils (src/serde_utils.rs): btreemap_as_seq (human readable: sequence of (key, value) tuples; else the plain map), btreemap_byte_values
   (human readable: map with hex-string values; else the plain map, values as sequences of numbers), btreemap_as_seq_byte_values (human readable:
   sequence of (key, hex string) tuple structs; else the plain map), hex_bytes (human readable: hex string; else sequence of numbers). *)
From Coq Require Import List NArith Bool.
From Coq.Strings Require Import Byte.
From EV Require Import Base.Bytes Base.Codec Gen.Tables Model.Tx Model.Block Model.Text Model.Serde.
Import ListNotations.
Open Scope N_scope.

Inductive fval := FN (n : N) | FB (b : bytes) | FBool (b : bool) | FOpt (o : option fval) | FList (l : list fval) | FTup (l : list fval).

Record scodec := {
  s_ser : bool -> fval -> sval;
  s_de : bool -> sval -> res fval;
  s_wf : fval -> bool;
  s_missing : option fval }.      (* what the derived visitor uses when the field's key is absent (Some None for Option<T>) *)

(* ---------- leaves ---------- *)
Definition sc_num (ser : bool -> N -> sval) (de : bool -> sval -> res N) (wf : N -> bool) : scodec :=
  {| s_ser := fun hr x => match x with FN n => ser hr n | _ => VUnit end;
     s_de := fun hr v => rbind (de hr v) (fun n => Ok (FN n));
     s_wf := fun x => match x with FN n => wf n | _ => false end; s_missing := None |}.
Definition sc_bytes (ser : bool -> bytes -> sval) (de : bool -> sval -> res bytes) (wf : bytes -> bool) : scodec :=
  {| s_ser := fun hr x => match x with FB b => ser hr b | _ => VUnit end;
     s_de := fun hr v => rbind (de hr v) (fun b => Ok (FB b));
     s_wf := fun x => match x with FB b => wf b | _ => false end; s_missing := None |}.
Definition sc_uint (bound : N) : scodec := sc_num (fun _ n => VU64 n) (fun _ => de_u bound) (fun n => n <? bound).
Definition sc_bool : scodec :=
  {| s_ser := fun _ x => match x with FBool b => VBool b | _ => VUnit end; s_de := fun _ v => rbind (de_bool v) (fun b => Ok (FBool b));
     s_wf := fun x => match x with FBool _ => true | _ => false end; s_missing := None |}.
Definition always {A} (_ : A) : bool := true.
Definition sc_vecu8 : scodec := sc_bytes (fun _ => ser_vecu8) (fun _ => de_vecu8) always.                     (* Vec<u8> *)
Definition sc_hexbytes : scodec :=                                                                             (* #[serde(with = hex_bytes)] Vec<u8> *)
  sc_bytes (fun hr b => if hr then VStr (hex_of_bytes b) else ser_vecu8 b)
           (fun hr v => if hr then match v with VStr s | VBytes s => hex_decode_var s | _ => ety end else de_vecu8 v) always.
Definition sc_array32 : scodec := sc_bytes (fun _ => ser_array) (fun _ => de_array 32) (len_is 32).            (* [u8; 32] *)
Definition sc_script : scodec := sc_bytes (fun _ => ser_script) (fun _ => de_script) always.
Definition sc_hash (len : N) (db pb : bool) : scodec := sc_bytes (fun hr => ser_hash hr db) (fun hr => de_hash hr len pb) (fun b => N.of_nat (length b) =? len).
Definition sc_midstate : scodec := sc_bytes ser_midstate de_midstate (len_is 32).
Definition sc_tweak : scodec := sc_bytes ser_tweak de_tweak (fun b => len_is 32 b && tweak_ok b).
Definition sc_sequence : scodec := sc_num (fun _ => ser_sequence) (fun _ => de_sequence) u32_ok.
Definition sc_height : scodec := sc_num (fun _ n => VNewtype "Height"%lb (VU64 n)) (fun _ => de_height) (fun n => n <? C20_LOCK_TIME_THRESHOLD).
Definition sc_time : scodec := sc_num (fun _ n => VNewtype "Time"%lb (VU64 n)) (fun _ => de_time) (fun n => (C20_LOCK_TIME_THRESHOLD <=? n) && (n <? u32_bound)).
(* LockTime by its consensus value *)
Definition sc_locktime : scodec :=
  sc_num (fun _ n => ser_locktime (locktime_from_consensus n)) (fun _ v => rbind (de_locktime v) (fun l => Ok (locktime_to_consensus l))) u32_ok.
Definition sc_psbt_sighash : scodec := sc_num (fun _ => ser_string print_psbt_sighash) (fun _ => de_string parse_psbt_sighash) u32_ok.
Definition sc_schnorr_sighash : scodec :=
  sc_num (fun _ => ser_string print_schnorr_sighash) (fun _ => de_string parse_schnorr_sighash) (is_variant schnorr_sighash_variants).
(* taproot::LeafVersion: serialize_u8(as_u8()); deserialize: a u8 that from_u8 accepts *)
Definition leafver_ok (v : N) : bool := (v <? 256) && (N.land v 254 =? v) && negb (v =? 80).
Definition sc_leafver : scodec := sc_num (fun _ n => VU64 n) (fun _ v => rbind (de_u 256 v) (fun n => if leafver_ok n then Ok n else Err "leafver"%lb)) leafver_ok.
(* secp256k1::Parity: serialize_u8(to_u8()); read back by taproot::deserialize_parity (a u8 through Parity::from_u8) *)
Definition sc_parity : scodec := sc_num (fun _ n => VU64 n) (fun _ v => rbind (de_u 256 v) (fun n => if n <? 2 then Ok n else Err "parity"%lb)) (fun n => n <? 2).

(* ---------- combinators ---------- *)
Definition sc_option (c : scodec) : scodec :=
  {| s_ser := fun hr x => match x with FOpt (Some y) => VSome (s_ser c hr y) | _ => VNone end;
     s_de := fun hr v => match v with VUnit => Ok (FOpt None) | _ => rbind (s_de c hr v) (fun y => Ok (FOpt (Some y))) end;
     s_wf := fun x => match x with FOpt (Some y) => s_wf c y | FOpt None => true | _ => false end;
     s_missing := Some (FOpt None) |}.
Definition sc_vec (c : scodec) : scodec :=
  {| s_ser := fun hr x => match x with FList l => VSeq (map (s_ser c hr) l) | _ => VUnit end;
     s_de := fun hr v => match v with VSeq l => rbind (de_list (s_de c hr) l) (fun r => Ok (FList r)) | _ => ety end;
     s_wf := fun x => match x with FList l => forallb (s_wf c) l | _ => false end; s_missing := None |}.
Definition sc_newtype (name : bytes) (c : scodec) : scodec :=
  {| s_ser := fun hr x => VNewtype name (s_ser c hr x); s_de := s_de c; s_wf := s_wf c; s_missing := None |}.
(* tuples / tuple structs: a fixed-length sequence *)
Fixpoint ser_tuple (cs : list scodec) (hr : bool) (xs : list fval) : list sval :=
  match cs, xs with c :: cs', x :: xs' => s_ser c hr x :: ser_tuple cs' hr xs' | _, _ => [] end.
Fixpoint de_tuple (cs : list scodec) (hr : bool) (vs : list sval) : res (list fval) :=
  match cs, vs with
  | [], [] => Ok []
  | c :: cs', v :: vs' => rbind (s_de c hr v) (fun x => rbind (de_tuple cs' hr vs') (fun r => Ok (x :: r)))
  | _, _ => Err "length"%lb end.
Fixpoint wf_tuple (cs : list scodec) (xs : list fval) : bool :=
  match cs, xs with [], [] => true | c :: cs', x :: xs' => s_wf c x && wf_tuple cs' xs' | _, _ => false end.
Definition sc_tuple (cs : list scodec) : scodec :=
  {| s_ser := fun hr x => match x with FTup xs => VTuple (ser_tuple cs hr xs) | _ => VUnit end;
     s_de := fun hr v => match v with VSeq vs => rbind (de_tuple cs hr vs) (fun r => Ok (FTup r)) | _ => ety end;
     s_wf := fun x => match x with FTup xs => wf_tuple cs xs | _ => false end; s_missing := None |}.

(* maps: FList [FTup [k; v]; ...] *)
Definition pair_of (x : fval) : fval * fval := match x with FTup [k; v] => (k, v) | _ => (FN 0, FN 0) end.
Definition is_pair (kc vc : scodec) (x : fval) : bool := match x with FTup [k; v] => s_wf kc k && s_wf vc v | _ => false end.
Definition ser_entries (kc vc : scodec) (hr : bool) (l : list fval) : list (sval * sval) :=
  map (fun e => (s_ser kc hr (fst (pair_of e)), s_ser vc hr (snd (pair_of e)))) l.
Fixpoint de_entries (kc vc : scodec) (hr : bool) (kvs : list (sval * sval)) : res (list fval) :=
  match kvs with [] => Ok [] | (k, v) :: r =>
    rbind (s_de kc hr k) (fun k' => rbind (s_de vc hr v) (fun v' => rbind (de_entries kc vc hr r) (fun t => Ok (FTup [k'; v'] :: t)))) end.
(* a BTreeMap<K, V> through its own Serialize / Deserialize: a map *)
Definition sc_map (kc vc : scodec) : scodec :=
  {| s_ser := fun hr x => match x with FList l => VMap (ser_entries kc vc hr l) | _ => VUnit end;
     s_de := fun hr v => match v with VMap kvs => rbind (de_entries kc vc hr kvs) (fun r => Ok (FList r)) | _ => ety end;
     s_wf := fun x => match x with FList l => forallb (is_pair kc vc) l | _ => false end; s_missing := None |}.
(* serde_utils::btreemap_as_seq *)
Definition sc_map_as_seq (kc vc : scodec) : scodec :=
  {| s_ser := fun hr x => if hr then s_ser (sc_vec (sc_tuple [kc; vc])) hr x else s_ser (sc_map kc vc) hr x;
     s_de := fun hr v => if hr then s_de (sc_vec (sc_tuple [kc; vc])) hr v else s_de (sc_map kc vc) hr v;
     s_wf := s_wf (sc_map kc vc); s_missing := None |}.
(* the hex-string value of btreemap_byte_values (read as String) and of OwnedPair (hex_bytes::deserialize) *)
Definition sc_hexstr : scodec :=
  sc_bytes (fun _ b => VStr (hex_of_bytes b)) (fun _ v => match v with VStr s => hex_decode_var s | _ => ety end) always.
Definition sc_hexstr_or_bytes : scodec :=
  sc_bytes (fun _ b => VStr (hex_of_bytes b)) (fun _ v => match v with VStr s | VBytes s => hex_decode_var s | _ => ety end) always.
(* serde_utils::btreemap_byte_values *)
Definition sc_map_byte_values (kc : scodec) : scodec :=
  {| s_ser := fun hr x => if hr then s_ser (sc_map kc sc_hexstr) hr x else s_ser (sc_map kc sc_vecu8) hr x;
     s_de := fun hr v => if hr then s_de (sc_map kc sc_hexstr) hr v else s_de (sc_map kc sc_vecu8) hr v;
     s_wf := s_wf (sc_map kc sc_vecu8); s_missing := None |}.
(* serde_utils::btreemap_as_seq_byte_values *)
Definition sc_map_as_seq_byte_values (kc : scodec) : scodec :=
  {| s_ser := fun hr x => if hr then s_ser (sc_vec (sc_tuple [kc; sc_hexstr_or_bytes])) hr x else s_ser (sc_map kc sc_vecu8) hr x;
     s_de := fun hr v => if hr then s_de (sc_vec (sc_tuple [kc; sc_hexstr_or_bytes])) hr v else s_de (sc_map kc sc_vecu8) hr v;
     s_wf := s_wf (sc_map kc sc_vecu8); s_missing := None |}.

(* ---------- derived structs ---------- *)
Definition sfields := list (bytes * scodec).
Fixpoint ser_fields (F : sfields) (hr : bool) (xs : list fval) : list (bytes * sval) :=
  match F, xs with (n, c) :: F', x :: xs' => (n, s_ser c hr x) :: ser_fields F' hr xs' | _, _ => [] end.
Fixpoint str_keys (kvs : list (sval * sval)) : res (list (bytes * sval)) :=       (* the field identifier is read from a text key *)
  match kvs with [] => Ok [] | (VStr k, v) :: r => rbind (str_keys r) (fun t => Ok ((k, v) :: t)) | _ => Err "key"%lb end.
Definition lookup_all (k : bytes) (kvs : list (bytes * sval)) : list sval := map snd (filter (fun kv => bytes_eqb (fst kv) k) kvs).
(* visit_map, described per field: exactly one entry with the field's name -> its value; none -> the missing-field rule; several -> duplicate field.
   (Entries with other names are skipped as IgnoredAny.) *)
Fixpoint de_fields (F : sfields) (hr : bool) (kvs : list (bytes * sval)) : res (list fval) :=
  match F with
  | [] => Ok []
  | (n, c) :: F' =>
      rbind (match lookup_all n kvs with
             | [] => match s_missing c with Some d => Ok d | None => Err "missing"%lb end
             | [v] => s_de c hr v
             | _ => Err "duplicate"%lb end)
            (fun x => rbind (de_fields F' hr kvs) (fun r => Ok (x :: r))) end.
Fixpoint wf_fields (F : sfields) (xs : list fval) : bool :=
  match F, xs with [], [] => true | (_, c) :: F', x :: xs' => s_wf c x && wf_fields F' xs' | _, _ => false end.
Definition sc_struct (name : bytes) (F : sfields) : scodec :=
  {| s_ser := fun hr x => match x with FTup xs => VStruct name (ser_fields F hr xs) | _ => VUnit end;
     s_de := fun hr v => match v with
                         | VMap kvs => rbind (str_keys kvs) (fun l => rbind (de_fields F hr l) (fun r => Ok (FTup r)))
                         | VSeq vs => rbind (de_tuple (map snd F) hr vs) (fun r => Ok (FTup r))          (* visit_seq: positional *)
                         | _ => ety end;
     s_wf := fun x => match x with FTup xs => wf_fields F xs | _ => false end; s_missing := None |}.
Definition sc_fail : scodec := {| s_ser := fun _ _ => VUnit; s_de := fun _ _ => Err "nocodec"%lb; s_wf := fun _ => false; s_missing := None |}.

(* the field list of a struct: names and "type|attribute" keys from Gen/Tables.v, codecs from a table *)
Definition ctable := list (bytes * scodec).
Definition fields_of (T : ctable) (l : list (bytes * bytes)) : sfields :=
  map (fun nk => (fst nk, match assoc (snd nk) T with Some c => c | None => sc_fail end)) l.
Definition fields_known (T : ctable) (l : list (bytes * bytes)) : bool :=
  forallb (fun nk => match assoc (snd nk) T with Some _ => true | None => false end) l.
Fixpoint nodup_names (l : list bytes) : bool := match l with [] => true | n :: r => negb (existsb (bytes_eqb n) r) && nodup_names r end.

Section PSET.
Variable pt_ok : bytes -> bool.
Variables maxvec cap_txin cap_txout cap_vecu8 : N.
(* dependency leaves, by kind name, over canonical bytes *)
Variable leaf_ser : bytes -> bool -> bytes -> sval.
Variable leaf_de : bytes -> bool -> sval -> res bytes.
Variable leaf_ok : bytes -> bytes -> bool.
Definition sc_leaf (kind : blit) : scodec := sc_bytes (leaf_ser kind) (leaf_de kind) (leaf_ok kind).

(* values carried as their consensus encoding *)
Definition via_codec {A} (c : codec A) (ser : bool -> A -> sval) (de : bool -> sval -> res A) : scodec :=
  sc_bytes (fun hr b => match deserialize c b with Some v => ser hr v | None => VStr []  end)
           (fun hr v => rbind (de hr v) (fun a => Ok (enc c a)))
           (fun b => match deserialize c b with Some _ => true | None => false end).
Definition sc_txout : scodec := via_codec (c_txout pt_ok maxvec) ser_txout (de_txout pt_ok).
Definition sc_tx : scodec := via_codec (c_tx pt_ok maxvec cap_txin cap_txout cap_vecu8) ser_tx (de_tx pt_ok).
Definition sc_point (lo hi : N) : scodec := sc_bytes ser_point (fun hr => de_point pt_ok hr lo hi) (conf_wf pt_ok lo hi).
Definition sc_proof (ok : bytes -> bool) : scodec := sc_bytes ser_proof (de_proof ok) ok.

Definition K (s : blit) : bytes := s.
(* every "type|attribute" that occurs in TxData, Key, ProprietaryKey, SchnorrSig, ControlBlock *)
Definition table0 : ctable := [
  (K "u8|", sc_uint 256); (K "Subtype|", sc_uint 256); (K "u32|", sc_uint u32_bound); (K "usize|", sc_uint u64_bound);
  (K "Option<u8>|", sc_option (sc_uint 256)); (K "Option<u32>|", sc_option (sc_uint u32_bound)); (K "Option<u64>|", sc_option (sc_uint u64_bound));
  (K "Option<LockTime>|", sc_option sc_locktime);
  (K "Vec<u8>|hex_bytes", sc_hexbytes);
  (K "secp256k1_zkp::schnorr::Signature|", sc_leaf "SchnorrSignature"); (K "SchnorrSighashType|", sc_schnorr_sighash);
  (K "LeafVersion|", sc_leafver); (K "secp256k1_zkp::Parity|deserialize_parity", sc_parity); (K "UntweakedPublicKey|", sc_leaf "XOnlyPublicKey");
  (K "TaprootMerkleBranch|", sc_newtype "TaprootMerkleBranch"%lb (sc_vec (sc_hash hashlen_TapNodeHash hash_display_backward_TapNodeHash hash_parse_backward_TapNodeHash))) ].
Definition sc_txdata : scodec := sc_struct "TxData"%lb (fields_of table0 pset_serde_TxData).
Definition sc_rawkey : scodec := sc_struct "Key"%lb (fields_of table0 pset_serde_Key).
Definition sc_propkey : scodec := sc_struct "ProprietaryKey"%lb (fields_of table0 pset_serde_ProprietaryKey).
Definition sc_schnorrsig : scodec := sc_struct "SchnorrSig"%lb (fields_of table0 pset_serde_SchnorrSig).
Definition sc_controlblock : scodec := sc_struct "ControlBlock"%lb (fields_of table0 pset_serde_ControlBlock).

Definition sc_xonly := sc_leaf "XOnlyPublicKey".
Definition sc_keysource := sc_leaf "KeySource".
Definition sc_tapleafhash := sc_hash hashlen_TapLeafHash hash_display_backward_TapLeafHash hash_parse_backward_TapLeafHash.
(* the plain hashes of bitcoin_hashes: forward hex except sha256d *)
Definition sc_plainhash (len : N) (backward : bool) := sc_hash len backward backward.
(* every "type|attribute" of Global, Input, Output *)
Definition table1 : ctable := table0 ++ [
  (K "TxData|", sc_txdata);
  (K "BTreeMap<Xpub,KeySource>|", sc_map (sc_leaf "Xpub") sc_keysource);
  (K "Vec<Tweak>|", sc_vec sc_tweak);
  (K "BTreeMap<raw::ProprietaryKey,Vec<u8>>|btreemap_as_seq_byte_values", sc_map_as_seq_byte_values sc_propkey);
  (K "BTreeMap<raw::Key,Vec<u8>>|btreemap_as_seq_byte_values", sc_map_as_seq_byte_values sc_rawkey);
  (K "Option<Transaction>|", sc_option sc_tx); (K "Option<TxOut>|", sc_option sc_txout);
  (K "BTreeMap<PublicKey,Vec<u8>>|btreemap_byte_values", sc_map_byte_values (sc_leaf "PublicKey"));
  (K "Option<PsbtSighashType>|", sc_option sc_psbt_sighash);
  (K "Option<Script>|", sc_option sc_script); (K "Script|", sc_script);
  (K "BTreeMap<PublicKey,KeySource>|btreemap_as_seq", sc_map_as_seq (sc_leaf "PublicKey") sc_keysource);
  (K "Option<Vec<Vec<u8>>>|", sc_option (sc_vec sc_vecu8)); (K "Option<Vec<u8>>|", sc_option sc_vecu8);
  (K "BTreeMap<ripemd160::Hash,Vec<u8>>|btreemap_byte_values", sc_map_byte_values (sc_plainhash 20 false));
  (K "BTreeMap<sha256::Hash,Vec<u8>>|btreemap_byte_values", sc_map_byte_values (sc_plainhash 32 false));
  (K "BTreeMap<hash160::Hash,Vec<u8>>|btreemap_byte_values", sc_map_byte_values (sc_plainhash 20 false));
  (K "BTreeMap<sha256d::Hash,Vec<u8>>|btreemap_byte_values", sc_map_byte_values (sc_plainhash 32 true));
  (K "Txid|", sc_hash hashlen_Txid hash_display_backward_Txid hash_parse_backward_Txid);
  (K "Option<Sequence>|", sc_option sc_sequence);
  (K "Option<locktime::Time>|", sc_option sc_time); (K "Option<locktime::Height>|", sc_option sc_height);
  (K "Option<schnorr::SchnorrSig>|", sc_option sc_schnorrsig);
  (K "BTreeMap<(XOnlyPublicKey,TapLeafHash),schnorr::SchnorrSig>|btreemap_as_seq", sc_map_as_seq (sc_tuple [sc_xonly; sc_tapleafhash]) sc_schnorrsig);
  (K "BTreeMap<ControlBlock,(Script,LeafVersion)>|btreemap_as_seq", sc_map_as_seq sc_controlblock (sc_tuple [sc_script; sc_leafver]));
  (K "BTreeMap<XOnlyPublicKey,(Vec<TapLeafHash>,KeySource)>|btreemap_as_seq", sc_map_as_seq sc_xonly (sc_tuple [sc_vec sc_tapleafhash; sc_keysource]));
  (K "Option<XOnlyPublicKey>|", sc_option sc_xonly);
  (K "Option<TapNodeHash>|", sc_option (sc_hash hashlen_TapNodeHash hash_display_backward_TapNodeHash hash_parse_backward_TapNodeHash));
  (K "Option<secp256k1_zkp::PedersenCommitment>|", sc_option (sc_point 8 9)); (K "Option<secp256k1_zkp::Generator>|", sc_option (sc_point 10 11));
  (K "Option<Box<RangeProof>>|", sc_option (sc_proof rangeproof_ok)); (K "Option<Box<SurjectionProof>>|", sc_option (sc_proof surjproof_ok));
  (K "Option<bitcoin::Transaction>|", sc_option (sc_leaf "BtcTransaction"));
  (K "Option<BlockHash>|", sc_option (sc_hash hashlen_BlockHash hash_display_backward_BlockHash hash_parse_backward_BlockHash));
  (K "Option<Tweak>|", sc_option sc_tweak); (K "Option<[u8;32]>|", sc_option sc_array32);
  (K "Option<AssetId>|", sc_option sc_midstate); (K "Option<issuance::AssetId>|", sc_option sc_midstate);
  (K "Option<TapTree>|", sc_option (sc_leaf "TapTree"));
  (K "Option<bitcoin::PublicKey>|", sc_option (sc_leaf "PublicKey")) ].
Definition sc_global : scodec := sc_struct "Global"%lb (fields_of table1 pset_serde_Global).
Definition sc_input : scodec := sc_struct "Input"%lb (fields_of table1 pset_serde_Input).
Definition sc_output : scodec := sc_struct "Output"%lb (fields_of table1 pset_serde_Output).
Definition table2 : ctable := [ (K "Global|", sc_global); (K "Vec<Input>|", sc_vec sc_input); (K "Vec<Output>|", sc_vec sc_output) ].
Definition sc_pset : scodec := sc_struct "PartiallySignedTransaction"%lb (fields_of table2 pset_serde_PartiallySignedTransaction).
End PSET.
