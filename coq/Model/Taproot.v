(* C15 — model of src/taproot.rs (TaprootBuilder, NodeInfo, TaprootSpendInfo, ControlBlock, TaprootMerkleBranch,
   LeafVersion) and of the public-key half of src/schnorr.rs (TapTweak for UntweakedPublicKey).
   Hand-written, executable; no proofs here.  Hash functions and every secp256k1 operation are Section variables.
   The constants and tag strings come from Gen/Tables.v (regenerated from the Rust text on every run). *)
From Coq Require Import List Arith NArith ZArith Bool.
From Coq.Strings Require Import Byte.
From EV Require Import Base.Bytes Base.Codec Gen.Tables.
Import ListNotations.
Open Scope N_scope.

Definition MAXD : nat := N.to_nat TAPROOT_CONTROL_MAX_NODE_COUNT.
Definition NODE_SIZE : nat := N.to_nat TAPROOT_CONTROL_NODE_SIZE.
Definition BASE_SIZE : nat := N.to_nat TAPROOT_CONTROL_BASE_SIZE.

(* TaprootBuilderError (InvalidInternalKey is never constructed by taproot.rs) *)
Inductive berr := InvalidMerkleTreeDepth (d : N) | NodeNotInDfsOrder | OverCompleteTree | IncompleteTree | EmptyTree.
(* TaprootError (EmptyTree is only used by pset code) *)
Inductive terr := InvalidMerkleBranchSize (n : N) | InvalidMerkleTreeDepthT (n : N) | InvalidTaprootLeafVersion (v : N)
                | InvalidControlBlockSize (n : N) | InvalidInternalKey.
Inductive res (E A : Type) := Ok (a : A) | Err (e : E).
Arguments Ok {E A}. Arguments Err {E A}.
(* the `expect`s on the modelled path *)
Inductive site := ScalarRange       (* "hash value greater than curve order" (to_scalar / verify_taproot_commitment) *)
                | TweakFailed       (* "Tap tweak failed" (tap_tweak) *)
                | BuilderInvariant  (* finalize's former `expect("Builder invariant ...")`; not produced any more since fix c723f02 *)
                | HuffmanPop        (* "len must be at least two" / "huffman tree algorithm is broken" *)
                | OutOfFuel.        (* model artefact (loops run on fuel); excluded by theorem *)
Inductive outcome (A : Type) := Val (a : A) | Fail (e : berr) | Panic (s : site).
Arguments Val {A}. Arguments Fail {A}. Arguments Panic {A}.

(* derived `Ord` of Vec<T>/[u8; 32]/Box<[u8]>: lexicographic, a proper prefix is smaller *)
Fixpoint list_cmp {A} (c : A -> A -> comparison) (a b : list A) : comparison :=
  match a, b with
  | [], [] => Eq | [], _ :: _ => Lt | _ :: _, [] => Gt
  | x :: a', y :: b' => match c x y with Eq => list_cmp c a' b' | r => r end
  end.
Definition byte_cmp (x y : byte) : comparison := N.compare (b2n x) (b2n y).
Definition bytes_cmp : bytes -> bytes -> comparison := list_cmp byte_cmp.
Definition bytes_ltb (a b : bytes) : bool := match bytes_cmp a b with Lt => true | _ => false end.
(* `if a < b { a || b } else { b || a }` *)
Definition sortpair (a b : bytes) : bytes := if bytes_ltb a b then a ++ b else b ++ a.

(* LeafInfo / NodeInfo *)
Record leafinfo := { l_script : bytes; l_ver : byte; l_branch : list bytes }.
Record node := { n_hash : bytes; n_leaves : list leafinfo }.
Definition br := list (option node).   (* TaprootBuilder.branch, DEEPEST FIRST: head = branch[len-1] *)

Record spendinfo := { si_internal : bytes; si_root : option bytes; si_parity : bool; si_outkey : bytes;
                      si_map : list ((bytes * byte) * list (list bytes)) }.   (* BTreeMap<(Script, LeafVersion), BTreeSet<branch>> *)
Record cblock := { cb_ver : byte; cb_parity : bool; cb_key : bytes; cb_branch : list bytes }.

Inductive item := ILeaf (d : N) (script : bytes) (ver : byte) | IHidden (d : N) (h : bytes).
Definition item_depth (it : item) : N := match it with ILeaf d _ _ => d | IHidden d _ => d end.

(* the script tree the property speaks about *)
Inductive tree := Leaf (script : bytes) (ver : byte) | Hidden (h : bytes) | Node (a b : tree).
Fixpoint height (t : tree) : nat := match t with Node a b => S (Nat.max (height a) (height b)) | _ => 0%nat end.
Fixpoint dfs (t : tree) (d : nat) : list item :=
  match t with Leaf s v => [ILeaf (N.of_nat d) s v] | Hidden h => [IHidden (N.of_nat d) h] | Node a b => dfs a (S d) ++ dfs b (S d) end.

(* BTreeMap / BTreeSet orders *)
Definition key_cmp (k1 k2 : bytes * byte) : comparison :=
  match bytes_cmp (fst k1) (fst k2) with Eq => byte_cmp (snd k1) (snd k2) | r => r end.
Definition branch_cmp : list bytes -> list bytes -> comparison := list_cmp bytes_cmp.
Fixpoint set_insert (x : list bytes) (s : list (list bytes)) : list (list bytes) :=
  match s with
  | [] => [x]
  | y :: r => match branch_cmp x y with Lt => x :: s | Eq => s | Gt => y :: set_insert x r end
  end.
Fixpoint map_insert (k : bytes * byte) (v : list bytes) (m : list ((bytes * byte) * list (list bytes))) :=
  match m with
  | [] => [(k, [v])]
  | (k', s) :: r => match key_cmp k k' with Lt => (k, [v]) :: m | Eq => (k', set_insert v s) :: r | Gt => (k', s) :: map_insert k v r end
  end.
Fixpoint map_get (k : bytes * byte) (m : list ((bytes * byte) * list (list bytes))) : option (list (list bytes)) :=
  match m with [] => None | (k', s) :: r => match key_cmp k k' with Eq => Some s | _ => map_get k r end end.
(* Iterator::min_by(len): the first of the shortest *)
Fixpoint shortest (best : list bytes) (s : list (list bytes)) : list bytes :=
  match s with [] => best | x :: r => if (length x <? length best)%nat then shortest x r else shortest best r end.

Fixpoint chunks (fuel k : nat) (bs : bytes) : list bytes :=
  match fuel with O => [] | S f => match bs with [] => [] | _ => firstn k bs :: chunks f k (skipn k bs) end end.

Section TAP.
(* tagged hashes: sha256t with the three /elements tags *)
Variables Hleaf Hbranch Htweak : bytes -> bytes.
(* secp256k1: XOnlyPublicKey::from_slice accepts; Scalar::from_be_bytes accepts; XOnlyPublicKey::add_tweak; tweak_add_check *)
Variable xonly_valid : bytes -> bool.
Variable scalar_ok : bytes -> bool.
Variable tweak : bytes -> bytes -> option (bytes * bool).
Variable tweak_check : bytes -> bytes -> bool -> bytes -> bool.

(* TapLeafHash::from_script: ver.consensus_encode (1 byte) then script.consensus_encode (varint length + bytes) *)
Definition leaf_msg (ver : byte) (script : bytes) : bytes := ver :: vi_enc (N.of_nat (length script)) ++ script.
Definition leaf_hash (ver : byte) (script : bytes) : bytes := Hleaf (leaf_msg ver script).

Definition new_leaf (script : bytes) (ver : byte) : node :=
  {| n_hash := leaf_hash ver script; n_leaves := [ {| l_script := script; l_ver := ver; l_branch := [] |} ] |}.
Definition new_hidden (h : bytes) : node := {| n_hash := h; n_leaves := [] |}.
Definition item_node (it : item) : node := match it with ILeaf _ s v => new_leaf s v | IHidden _ h => new_hidden h end.

(* TaprootMerkleBranch::push *)
Definition push (h : bytes) (l : leafinfo) : res berr leafinfo :=
  if (MAXD <=? length (l_branch l))%nat then Err (InvalidMerkleTreeDepth (N.of_nat (length (l_branch l))))
  else Ok {| l_script := l_script l; l_ver := l_ver l; l_branch := l_branch l ++ [h] |}.
Fixpoint push_all (h : bytes) (ls : list leafinfo) : res berr (list leafinfo) :=
  match ls with
  | [] => Ok []
  | l :: r => match push h l with Err e => Err e | Ok l' => match push_all h r with Err e => Err e | Ok r' => Ok (l' :: r') end end
  end.
(* NodeInfo::combine(a, b) *)
Definition combine (a b : node) : res berr node :=
  match push_all (n_hash b) (n_leaves a) with Err e => Err e | Ok la =>
  match push_all (n_hash a) (n_leaves b) with Err e => Err e | Ok lb =>
  Ok {| n_hash := Hbranch (sortpair (n_hash a) (n_hash b)); n_leaves := la ++ lb |} end end.

(* TaprootBuilder::insert after its two early checks: the `while self.branch.len() == depth + 1` loop, then the
   extend-with-None and `self.branch[depth] = Some(node)` *)
Definition place (n : node) (d : nat) (b : br) : br := Some n :: repeat None (d - length b) ++ b.
Fixpoint ins (n : node) (d : nat) (b : br) {struct b} : res berr br :=
  match b with
  | Some c :: rest =>
      if (length b =? d + 1)%nat then
        match d with
        | O => Err OverCompleteTree
        | S d' => match combine c n with Ok m => ins m d' rest | Err e => Err e end      (* NodeInfo::combine(child, node), fix aee9a45 *)
        end
      else Ok (place n d b)
  | None :: rest => if (length b =? d + 1)%nat then Ok (Some n :: rest) else Ok (place n d b)
  | [] => Ok (place n d [])
  end.
Definition insert (n : node) (d : N) (b : br) : res berr br :=
  if TAPROOT_CONTROL_MAX_NODE_COUNT <? d then Err (InvalidMerkleTreeDepth d)
  else if (N.to_nat d + 1 <? length b)%nat then Err NodeNotInDfsOrder
  else ins n (N.to_nat d) b.
(* add_leaf_with_ver / add_hidden, one after the other, starting from TaprootBuilder::new() *)
Fixpoint run (items : list item) (b : br) : res berr br :=
  match items with [] => Ok b | it :: r => match insert (item_node it) (item_depth it) b with Ok b' => run r b' | Err e => Err e end end.
Definition is_complete (b : br) : bool := match b with [Some _] => true | _ => false end.

(* TapTweakHash::from_key_and_tweak, UntweakedPublicKey::tap_tweak *)
Definition tap_tweak_hash (P : bytes) (root : option bytes) : bytes := Htweak (P ++ match root with Some h => h | None => [] end).
Definition tap_tweak (P : bytes) (root : option bytes) : outcome (bytes * bool) :=
  let t := tap_tweak_hash P root in
  if scalar_ok t then match tweak P t with Some r => Val r | None => Panic TweakFailed end else Panic ScalarRange.

(* TaprootSpendInfo::new_key_spend / from_node_info *)
Definition new_key_spend (P : bytes) (root : option bytes) : outcome spendinfo :=
  match tap_tweak P root with
  | Val (Q, par) => Val {| si_internal := P; si_root := root; si_parity := par; si_outkey := Q; si_map := [] |}
  | Fail e => Fail e | Panic s => Panic s
  end.
Definition build_map (ls : list leafinfo) := fold_left (fun m l => map_insert (l_script l, l_ver l) (l_branch l) m) ls [].
Definition from_node_info (P : bytes) (n : node) : outcome spendinfo :=
  match new_key_spend P (Some (n_hash n)) with
  | Val i => Val {| si_internal := si_internal i; si_root := si_root i; si_parity := si_parity i; si_outkey := si_outkey i;
                    si_map := build_map (n_leaves n) |}
  | o => o
  end.
(* TaprootBuilder::finalize *)
Definition finalize (b : br) (P : bytes) : outcome spendinfo :=
  if (1 <? length b)%nat then Fail IncompleteTree
  else match b with
       | [] => Fail EmptyTree
       | None :: _ => Fail IncompleteTree          (* `.ok_or(IncompleteTree)?` since fix c723f02 (was an `expect`) *)
       | Some n :: _ => from_node_info P n
       end.
(* the whole API path: TaprootBuilder::new(), the add_* calls in order, finalize *)
Definition build (items : list item) (P : bytes) : outcome spendinfo :=
  match run items [] with Ok b => finalize b P | Err e => Fail e end.
(* TaprootSpendInfo::control_block *)
Definition control_block (i : spendinfo) (k : bytes * byte) : option cblock :=
  match map_get k (si_map i) with
  | None => None
  | Some [] => None      (* `expect("Invariant: Script map key must contain non-empty set value")`: sets are never empty *)
  | Some (x :: r) => Some {| cb_ver := snd k; cb_parity := si_parity i; cb_key := si_internal i; cb_branch := shortest x r |}
  end.

(* ControlBlock::serialize / size / from_slice *)
Definition cb_serialize (c : cblock) : bytes :=
  n2b (N.lor (if cb_parity c then 1 else 0) (b2n (cb_ver c))) :: cb_key c ++ concat (cb_branch c).
Definition cb_size (c : cblock) : N := TAPROOT_CONTROL_BASE_SIZE + TAPROOT_CONTROL_NODE_SIZE * N.of_nat (length (cb_branch c)).
Definition leafver_from_u8 (v : N) : res terr byte :=
  if (N.land v TAPROOT_LEAF_MASK =? v) && negb (v =? TAPROOT_LEAF_FORBIDDEN) then Ok (n2b v) else Err (InvalidTaprootLeafVersion v).
Definition branch_from_slice (sl : bytes) : res terr (list bytes) :=
  let n := N.of_nat (length sl) in
  if negb (n mod TAPROOT_CONTROL_NODE_SIZE =? 0) then Err (InvalidMerkleBranchSize n)
  else if TAPROOT_CONTROL_NODE_SIZE * TAPROOT_CONTROL_MAX_NODE_COUNT <? n then Err (InvalidMerkleTreeDepthT (n / TAPROOT_CONTROL_NODE_SIZE))
  else Ok (chunks (length sl) NODE_SIZE sl).
Definition cb_from_slice (sl : bytes) : res terr cblock :=
  let n := N.of_nat (length sl) in
  if (n <? TAPROOT_CONTROL_BASE_SIZE) || negb ((n - TAPROOT_CONTROL_BASE_SIZE) mod TAPROOT_CONTROL_NODE_SIZE =? 0)
  then Err (InvalidControlBlockSize n)
  else match sl with
       | [] => Err (InvalidControlBlockSize n)
       | b0 :: rest =>
           let parity := N.land (b2n b0) 1 =? 1 in
           match leafver_from_u8 (N.land (b2n b0) TAPROOT_LEAF_MASK) with
           | Err e => Err e
           | Ok ver =>
               let key := firstn (BASE_SIZE - 1) rest in
               if negb (xonly_valid key) then Err InvalidInternalKey
               else match branch_from_slice (skipn (BASE_SIZE - 1) rest) with
                    | Err e => Err e
                    | Ok brn => Ok {| cb_ver := ver; cb_parity := parity; cb_key := key; cb_branch := brn |}
                    end
           end
       end.

(* ControlBlock::verify_taproot_commitment *)
Definition merkle_step (cur e : bytes) : bytes := Hbranch (sortpair cur e).
Definition cb_root (c : cblock) (script : bytes) : bytes := fold_left merkle_step (cb_branch c) (leaf_hash (cb_ver c) script).
Definition verify (c : cblock) (Q : bytes) (script : bytes) : outcome bool :=
  let t := tap_tweak_hash (cb_key c) (Some (cb_root c script)) in
  if scalar_ok t then Val (tweak_check (cb_key c) Q (cb_parity c) t) else Panic ScalarRange.

(* ---- the specification side: merkle root and leaf paths of a tree, independent of the builder ---- *)
Fixpoint root (t : tree) : bytes :=
  match t with Leaf s v => leaf_hash v s | Hidden h => h | Node a b => Hbranch (sortpair (root a) (root b)) end.
Definition snoc (h : bytes) (l : leafinfo) : leafinfo := {| l_script := l_script l; l_ver := l_ver l; l_branch := l_branch l ++ [h] |}.
(* every leaf with its sibling hashes, deepest sibling first, in depth-first (insertion) order *)
Fixpoint leaf_paths (t : tree) : list leafinfo :=
  match t with
  | Leaf s v => [ {| l_script := s; l_ver := v; l_branch := [] |} ]
  | Hidden _ => []
  | Node a b => map (snoc (root b)) (leaf_paths a) ++ map (snoc (root a)) (leaf_paths b)
  end.
(* hidden nodes with their paths *)
Fixpoint hidden_paths (t : tree) : list (bytes * list bytes) :=
  match t with
  | Leaf _ _ => []
  | Hidden h => [(h, [])]
  | Node a b => map (fun x => (fst x, snd x ++ [root b])) (hidden_paths a) ++ map (fun x => (fst x, snd x ++ [root a])) (hidden_paths b)
  end.
(* what the builder holds for a finished subtree: NodeInfo::combine(earlier, later) all the way down, no depth checks *)
Definition combine_tot (a b : node) : node :=
  {| n_hash := Hbranch (sortpair (n_hash a) (n_hash b));
     n_leaves := map (snoc (n_hash b)) (n_leaves a) ++ map (snoc (n_hash a)) (n_leaves b) |}.
Fixpoint node_of (t : tree) : node :=
  match t with Leaf s v => new_leaf s v | Hidden h => new_hidden h | Node a b => combine_tot (node_of a) (node_of b) end.
End TAP.

(* ---- src/schnorr.rs, `impl TapTweak for UntweakedKeypair`, together with the two libsecp256k1 functions it and the public-key
   path rest on, written over an ABSTRACT group (points `pt`, generator multiples `mulG`), so that their agreement is a theorem
   about group laws rather than an assumption:
     secp256k1_xonly_pubkey_tweak_add:  lift the x-only key to the even-Y point, add t*G, fail on infinity, return (x, parity)
     secp256k1_keypair_xonly_tweak_add: negate the secret if its public key has odd Y, add t mod n, fail on zero            ---- *)
Section SCHNORR.
Variable Htweak : bytes -> bytes.
Variable scalar_ok : bytes -> bool.
Variable pt : Type.
Variable padd : pt -> pt -> pt.
Variable pneg : pt -> pt.
Variable mulG : Z -> pt.
Variable xonly_of : pt -> option (bytes * bool).     (* None: the point at infinity *)
Variable lift_x : bytes -> option pt.                 (* the point with that x and even Y *)
Definition scalar_of (t : bytes) : Z := Z.of_N (be_val t).
(* XOnlyPublicKey::add_tweak *)
Definition xonly_tweak (P t : bytes) : option (bytes * bool) :=
  match lift_x P with Some p => xonly_of (padd p (mulG (scalar_of t))) | None => None end.
(* Keypair::x_only_public_key / Keypair::add_xonly_tweak; a key pair is its secret scalar *)
Definition kp_xonly (sk : Z) : option (bytes * bool) := xonly_of (mulG sk).
Definition kp_add_xonly_tweak (sk : Z) (t : bytes) : option Z :=
  match kp_xonly sk with
  | Some (_, par) => let sk' := ((if par then - sk else sk) + scalar_of t)%Z in
                     match xonly_of (mulG sk') with Some _ => Some sk' | None => None end
  | None => None end.
(* UntweakedKeypair::tap_tweak *)
Definition keypair_tap_tweak (sk : Z) (root : option bytes) : outcome Z :=
  match kp_xonly sk with
  | None => Panic TweakFailed        (* not a key pair *)
  | Some (P, _) =>
      let t := tap_tweak_hash Htweak P root in
      if scalar_ok t then match kp_add_xonly_tweak sk t with Some sk' => Val sk' | None => Panic TweakFailed end else Panic ScalarRange
  end.
End SCHNORR.
