(* C18: fast_merkle_root (src/fast_merkle_root.rs). Abstract node type H, abstract compression cmp.
   fmr_spec : the property's definition (level by level; pair left to right; promote an unpaired last node).
   fmr_ctr  : the incremental algorithm of the code: `inner[k]` is Some exactly when bit k of `count` is set
              (the Rust keeps stale entries where the bit is clear and never reads them); `incr` is the carry loop
              run for one leaf, `fin` the final sweep over the rightmost branch. *)
From Coq Require Import List Arith.
Import ListNotations.
Section FMR.
Variable H : Type. Variable zero : H. Variable cmp : H -> H -> H.

Fixpoint pairup (l : list H) : list H := match l with x :: y :: r => cmp x y :: pairup r | _ => l end.
Fixpoint levels (fuel : nat) (l : list H) : H :=
  match l with [] => zero | [x] => x | _ => match fuel with O => zero | S f => levels f (pairup l) end end.
Definition fmr_spec (l : list H) : H := levels (length l) l.

Definition ctr := list (option H).
Fixpoint incr (h : H) (c : ctr) : ctr :=
  match c with [] => [Some h] | None :: r => Some h :: r | Some x :: r => None :: incr (cmp x h) r end.
Fixpoint fin (c : ctr) (acc : option H) : option H :=
  match c with [] => acc | None :: r => fin r acc
  | Some x :: r => fin r (Some (match acc with None => x | Some a => cmp x a end)) end.
Definition fmr_ctr (l : list H) : H :=
  match fin (fold_left (fun c h => incr h c) l []) None with Some r => r | None => zero end.
End FMR.
Arguments pairup {H}. Arguments levels {H}. Arguments fmr_spec {H}. Arguments incr {H}. Arguments fin {H}. Arguments fmr_ctr {H}.

(* ---------------------------------------------------------------------------------------------------------------------
   fmr_impl: the code of fast_merkle_root as written — a 32-entry array `inner` (stale entries are kept, never read), a
   counter `count`, the carry loop `while count & (1 << level) == 0` and the final sweep — with every loop on fuel 32 (the
   number of levels a u32 counter can address; `1u32 << 32` would be a shift overflow) and `None` when the fuel runs out.
   Proofs/FastMerkleImpl.v shows it never runs out below 2^32 leaves and returns fmr_ctr, hence fmr_spec. *)
From Coq Require Import NArith.
Section FMRIMPL.
Variable H : Type. Variable zero : H. Variable cmp : H -> H -> H.
Fixpoint set_nth (k : nat) (x : H) (l : list H) : list H :=
  match l, k with [], _ => [] | _ :: r, O => x :: r | y :: r, S k' => y :: set_nth k' x r end.
Definition bit (count : N) (level : nat) : bool := N.testbit count (N.of_nat level).      (* count & (1 << level) != 0 *)
(* while count & (1 << level) == 0 { temp = cmp(inner[level], temp); level += 1 } *)
Fixpoint carry (fuel : nat) (inner : list H) (count : N) (level : nat) (temp : H) : option (nat * H) :=
  match fuel with O => None | S f =>
    if bit count level then Some (level, temp) else carry f inner count (S level) (cmp (nth level inner zero) temp) end.
Definition push_leaf (st : list H * N) (leaf : H) : option (list H * N) :=
  let '(inner, count) := st in
  let count' := (count + 1)%N in
  if N.leb 4294967296 count' then None else
  match carry 33 inner count' 0 leaf with
  | Some (level, temp) => if Nat.ltb level 32 then Some (set_nth level temp inner, count') else None
  | None => None end.
Fixpoint push_all (st : list H * N) (ls : list H) : option (list H * N) :=
  match ls with [] => Some st | l :: r => match push_leaf st l with Some st' => push_all st' r | None => None end end.
(* while count & (1 << level) == 0 { level += 1 } *)
Fixpoint lowest (fuel : nat) (count : N) (level : nat) : option nat :=
  match fuel with O => None | S f => if bit count level then Some level else lowest f count (S level) end.
(* while count != (1 << level) { count += 1 << level; level += 1; <carry loop on result> } *)
Fixpoint sweep (fuel : nat) (inner : list H) (count : N) (level : nat) (result : H) : option H :=
  match fuel with O => None | S f =>
    if N.eqb count (N.shiftl 1 (N.of_nat level)) then Some result
    else let count' := (count + N.shiftl 1 (N.of_nat level))%N in
         if N.leb 4294967296 count' then None            (* `count += 1 << level` would overflow the u32 counter *)
         else match carry 33 inner count' (S level) result with
         | Some (level', result') => sweep f inner count' level' result'
         | None => None end end.
Definition fmr_impl (ls : list H) : option H :=
  match ls with
  | [] => Some zero
  | _ => match push_all (repeat zero 32, 0%N) ls with
         | Some (inner, count) => match lowest 33 count 0 with
                                  | Some level => sweep 33 inner count level (nth level inner zero)
                                  | None => None end
         | None => None end end.
End FMRIMPL.
Arguments fmr_impl {H}.
