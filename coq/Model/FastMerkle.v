(* C18: fast_merkle_root (src/fast_merkle_root.rs). Abstract node type H, abstract compression cmp.
   fmr_spec : the property's definition (level by level; pair left to right; promote an unpaired last node).
   fmr_ctr  : the incremental algorithm of the code: `inner[k]` is Some exactly when bit k of `count` is set
              (the Rust keeps stale entries where the bit is clear and never reads them); `incr` is the carry loop
              run for one leaf, `fin` the final sweep over the rightmost branch. *)
From Coq Require Import List Arith.
Import ListNotations.
Section FMR.
Variable H : Type. Variable zero : H. Variable cmp : H -> H -> H.

Fixpoint pairup (l : list H) : list H := match l with x :: y :: r => cmp x y :: pairup r | _ => l end.
Fixpoint levels (fuel : nat) (l : list H) : H :=
  match l with [] => zero | [x] => x | _ => match fuel with O => zero | S f => levels f (pairup l) end end.
Definition fmr_spec (l : list H) : H := levels (length l) l.

Definition ctr := list (option H).
Fixpoint incr (h : H) (c : ctr) : ctr :=
  match c with [] => [Some h] | None :: r => Some h :: r | Some x :: r => None :: incr (cmp x h) r end.
Fixpoint fin (c : ctr) (acc : option H) : option H :=
  match c with [] => acc | None :: r => fin r acc
  | Some x :: r => fin r (Some (match acc with None => x | Some a => cmp x a end)) end.
Definition fmr_ctr (l : list H) : H :=
  match fin (fold_left (fun c h => incr h c) l []) None with Some r => r | None => zero end.
End FMR.
Arguments pairup {H}. Arguments levels {H}. Arguments fmr_spec {H}. Arguments incr {H}. Arguments fin {H}. Arguments fmr_ctr {H}.
