(* C05 — Transaction::verify_tx_amt_proofs (src/blind.rs) in the ideal-commitment world, statement by statement:
   same checks, same order, same error variants (including the quirk that an OUTPUT's get_value_commit error is reported
   as SpentTxOutError(i, _)). An output whose get_value_commit is ZeroValueCommitment is skipped (repair b3b2d40 of finding
   F13); for a SPENT output that error is still reported.
   No proofs here. *)
From Coq Require Import List NArith ZArith Bool.
From Coq.Strings Require Import Byte.
From EV Require Import Base.Bytes Base.Zn Base.FreeMod Model.Script Model.Ideal.
Import ListNotations.
Open Scope Z_scope.

Inductive txout_err := UnExpectedNullValue | UnExpectedNullAsset | NonUnspendableZeroValue | ZeroValueCommitment.
Inductive verr :=
  | RangeProofError (i : nat) | RangeProofMissing (i : nat)
  | SurjectionProofVerificationError (i : nat) | SurjectionProofMissing (i : nat)
  | SpentTxOutError (i : nat) (e : txout_err) | TxOutError (i : nat) (e : txout_err)
  | IssuanceTransactionInput (i : nat)      (* since 3c38a91 (C10 finding F21): an explicit issuance amount of zero *)
  | UtxoInputLenMismatch | BalanceCheckFailed.

(* Asset::into_asset_gen / TxOut::get_asset_gen *)
Definition get_asset_gen (o : txout) : oc txout_err gel :=
  match o_asset o with
  | ANull => OFail UnExpectedNullAsset
  | AExp a => OVal (gH a)                      (* Generator::new_unblinded *)
  | AConf g => OVal g
  end.
(* PedersenCommitment::new_unblinded(value, gen) = value·gen; the library asserts the result is not the point at infinity *)
Definition pedersen_unblinded {E} (v : Z) (gen : gel) : oc E gel :=
  let c := commit v gen 0 in if geqb c gzero then OPanic PPedersenInfinity else OVal c.
(* TxOut::get_value_commit *)
Definition get_value_commit (o : txout) : oc txout_err gel :=
  match o_value o with
  | VNull => OFail UnExpectedNullValue
  | VExp value =>
      if value =? 0 then
        if is_provably_unspendable (o_script o) then OFail ZeroValueCommitment else OFail NonUnspendableZeroValue
      else
        let* asset_comm := get_asset_gen o in
        pedersen_unblinded value asset_comm
  | VConf c => OVal c
  end.
Definition map_err {E E' A} (f : E -> E') (o : oc E A) : oc E' A :=
  match o with OVal a => OVal a | OFail e => OFail (f e) | OPanic p => OPanic p end.

(* the two pseudo-inputs of an issuance: (amount, asset id), (inflation keys, token id) *)
Definition issuance_commits (i : txin) : oc verr (list gel * list gel) :=      (* (domain entries, in_commits entries) *)
  if has_issuance i then
    let arr := [(is_amount (in_iss i), is_asset (in_iss i)); (is_keys (in_iss i), is_token (in_iss i))] in
    fold_left (fun acc e =>
      let* (dom, com) := acc in
      match fst e with
      | VNull => OVal (dom, com)
      | VExp v => if v =? 0 then OFail (IssuanceTransactionInput 0)      (* `if *v == 0 { return Err(IssuanceTransactionInput(i)) }`; *)
                  else let gen := gH (snd e) in                          (* the input index is put in by verify_inputs (at_input)  *)
                  let* c := pedersen_unblinded v gen in
                  OVal (dom ++ [gen], com ++ [c])
      | VConf c => OVal (dom ++ [gH (snd e)], com ++ [c])
      end) arr (OVal ([], []))
  else OVal ([], []).

Definition at_input (i : nat) (e : verr) : verr := match e with IssuanceTransactionInput _ => IssuanceTransactionInput i | _ => e end.
(* first loop: for (i, inp) in self.input.iter().enumerate() *)
Fixpoint verify_inputs (ins : list txin) (spent : list txout) (i : nat) : oc verr (list gel * list gel) :=
  match ins, spent with
  | inp :: ins', utxo :: spent' =>
      let* gen := map_err (SpentTxOutError i) (get_asset_gen utxo) in
      let* c := map_err (SpentTxOutError i) (get_value_commit utxo) in
      let* (idom, icom) := map_err (at_input i) (issuance_commits inp) in
      let* (dom, com) := verify_inputs ins' spent' (S i) in
      OVal (gen :: idom ++ dom, c :: icom ++ com)
  | _, _ => OVal ([], [])
  end.

(* second loop: for (i, out) in self.output.iter().enumerate() *)
Definition verify_output (domain : list gel) (i : nat) (out : txout) : oc verr gel :=
  let* out_commit := map_err (SpentTxOutError i) (get_value_commit out) in
  let* _ :=
    match o_value out with
    | VConf comm =>
        let* gen := map_err (TxOutError i) (get_asset_gen out) in
        match o_rp out with
        | None => OFail (RangeProofMissing i)
        | Some rp => if rp_verify rp comm (o_script out) gen then OVal tt else OFail (RangeProofError i)
        end
    | _ => OVal tt
    end in
  let* _ :=
    match o_asset out with
    | AConf gen =>
        match o_sp out with
        | None => OFail (SurjectionProofMissing i)
        | Some sp => if sp_verify sp gen domain then OVal tt else OFail (SurjectionProofVerificationError i)
        end
    | _ => OVal tt
    end in
  OVal out_commit.
(* `Err(TxOutError::ZeroValueCommitment) => continue`: an explicit zero amount on a provably unspendable script carries no value;
   the iteration is left before anything is pushed or checked *)
Definition skipped (out : txout) : bool :=
  match get_value_commit out with OFail ZeroValueCommitment => true | _ => false end.
(* one iteration: None = `continue`, Some c = the commitment pushed to out_commits *)
Definition verify_output_step (domain : list gel) (i : nat) (out : txout) : oc verr (option gel) :=
  if skipped out then OVal None else let* c := verify_output domain i out in OVal (Some c).
Fixpoint verify_outputs (domain : list gel) (outs : list txout) (i : nat) : oc verr (list (option gel)) :=
  match outs with
  | [] => OVal []
  | out :: r => let* c := verify_output_step domain i out in
                let* cs := verify_outputs domain r (S i) in
                OVal (c :: cs)
  end.
Definition out_commits (l : list (option gel)) : list gel := flat_map (fun o => match o with Some c => [c] | None => [] end) l.

(* secp256k1_pedersen_verify_tally: Σ a − Σ b is the point at infinity *)
Definition verify_commitments_sum_to_equal (a b : list gel) : bool := geqb (gsum a) (gsum b).

Definition verify_tx_amt_proofs (t : tx) (spent_utxos : list txout) : oc verr unit :=
  if negb (Nat.eqb (length spent_utxos) (length (t_in t))) then OFail UtxoInputLenMismatch else
  let* (domain, in_commits) := verify_inputs (t_in t) spent_utxos 0 in
  let* pushed := verify_outputs domain (t_out t) 0 in
  if negb (verify_commitments_sum_to_equal in_commits (out_commits pushed)) then OFail BalanceCheckFailed else
  OVal tt.
