(* Textual forms (Display / FromStr pairs) of rust-elements, as coded:
     hash newtypes            hashes::impl_hex_for_newtype!, impl_sha256_midstate_wrapper! (src/hash_types.rs, src/issuance.rs,
                              src/dynafed.rs, src/block.rs, src/taproot.rs, src/internal_macros.rs) over hex-conservative
     blinding factors         AssetBlindingFactor / ValueBlindingFactor (src/confidential.rs): reversed hex + Tweak::from_inner
     u32 decimals             Sequence, LockTime, Height, Time (src/transaction.rs, src/locktime.rs, src/parse.rs) over core's u32::from_str
     OutPoint                 src/transaction.rs over bitcoin::OutPoint::from_str (bitcoin 0.32: length cap 75, one ':', canonical vout)
     sighash types            EcdsaSighashType, SchnorrSighashType, PsbtSighashType — string tables regenerated from the source (Gen/Tables.v)
   Strings are byte lists (UTF-8 bytes of the Rust &str); every parser below works on bytes exactly as the Rust code does
   (`str::len` is the byte length; the hex and integer parsers iterate over bytes).
   Which directions are reversed, the prefix/separator strings, the lock-time threshold and all sighash strings come from Gen/Tables.v. *)
From Coq Require Import List NArith Bool.
From Coq.Strings Require Import Byte.
From EV Require Import Base.Bytes Gen.Tables Model.Tx.
Import ListNotations.
Open Scope N_scope.

Inductive res (A : Type) := Ok (a : A) | Err (e : bytes).
Arguments Ok {A} a. Arguments Err {A} e.
Definition rbind {A B} (r : res A) (f : A -> res B) : res B := match r with Ok a => f a | Err e => Err e end.

(* ---------- hex ---------- *)
(* hex-conservative `decode_to_array::<N>` / `<[u8; N]>::from_hex`: the byte length must be exactly 2N, then pairs of digits of either case *)
Fixpoint hex_pairs (s : bytes) : res bytes :=
  match s with
  | [] => Ok []
  | a :: b :: r => match unhexdigit a, unhexdigit b with
                   | Some x, Some y => rbind (hex_pairs r) (fun t => Ok (n2b (16 * x + y) :: t))
                   | _, _ => Err "hexchar"%lb end
  | _ => Err "hexchar"%lb end.
Definition hex_decode_fixed (n : N) (s : bytes) : res bytes :=
  if N.of_nat (length s) =? 2 * n then hex_pairs s else Err "hexlen"%lb.
Definition maybe_rev (r : bool) (b : bytes) : bytes := if r then rev b else b.

(* hash newtypes: LowerHex over the (reversed) bytes; FromStr = decode_to_array then (reverse) *)
Definition print_hash (display_backward : bool) (b : bytes) : bytes := hex_of_bytes (maybe_rev display_backward b).
Definition parse_hash (len : N) (parse_backward : bool) (s : bytes) : res bytes :=
  rbind (hex_decode_fixed len s) (fun b => Ok (maybe_rev parse_backward b)).

(* blinding factors: as a hash newtype, then Tweak::from_inner (zero or a valid secret key: big-endian value below the group order) *)
Definition print_bf (display_backward : bool) (b : bytes) : bytes := print_hash display_backward b.
Definition parse_bf (len : N) (parse_backward : bool) (s : bytes) : res bytes :=
  rbind (parse_hash len parse_backward s) (fun b => if tweak_ok b then Ok b else Err "tweak"%lb).

(* ---------- integers ---------- *)
(* core::fmt Display / LowerHex for unsigned integers: minimal digits, "0" for zero *)
Fixpoint digits (radix : N) (fuel : nat) (n : N) (acc : bytes) : bytes :=
  match fuel with O => acc | S f => let acc' := hexdigit (n mod radix) :: acc in
    if n / radix =? 0 then acc' else digits radix f (n / radix) acc' end.
Definition print_radix (radix n : N) : bytes := digits radix (S (N.to_nat (N.log2 n))) n [].
Definition print_dec (n : N) : bytes := print_radix 10 n.

(* char::to_digit(radix) for radix <= 16 *)
Definition undigit (radix : N) (c : byte) : option N :=
  match unhexdigit c with Some d => if d <? radix then Some d else None | None => None end.
(* the digit loop of core's from_str_radix for an unsigned type with `bound` values: checked_mul / checked_add on every digit *)
Fixpoint parse_digits (radix bound : N) (s : bytes) (acc : N) : res N :=
  match s with
  | [] => Ok acc
  | c :: r => match undigit radix c with
              | None => Err "digit"%lb
              | Some d => let a := acc * radix + d in if a <? bound then parse_digits radix bound r a else Err "overflow"%lb end end.
Definition plus : byte := x2b. Definition minus : byte := x2d. Definition zero_ch : byte := x30. Definition colon : byte := x3a.
(* <uN as FromStr>::from_str / uN::from_str_radix: empty is an error; a lone sign is an error; one leading '+' is skipped;
   '-' is not a sign for unsigned types (it then fails as a digit) *)
Definition parse_uint (radix bound : N) (s : bytes) : res N :=
  match s with
  | [] => Err "empty"%lb
  | c :: r =>
      if (byte_eqb c plus || byte_eqb c minus) && (match r with [] => true | _ => false end) then Err "digit"%lb
      else if byte_eqb c plus then parse_digits radix bound r 0 else parse_digits radix bound s 0 end.
Definition u32_bound : N := 4294967296.
Definition parse_u32 (s : bytes) : res N := parse_uint 10 u32_bound s.       (* parse::int::<u32> *)

(* Sequence: impl_parse_str_through_int!(Sequence) *)
Definition print_sequence (n : N) : bytes := print_dec n.
Definition parse_sequence (s : bytes) : res N := parse_u32 s.
(* LockTime: Display prints the inner height / time; FromStr = parse::int then LockTime::from_consensus *)
Inductive locktime := Blocks (h : N) | Seconds (t : N).
Definition locktime_from_consensus (n : N) : locktime := if n <? C20_LOCK_TIME_THRESHOLD then Blocks n else Seconds n.
Definition locktime_to_consensus (l : locktime) : N := match l with Blocks h => h | Seconds t => t end.
Definition locktime_wf (l : locktime) : bool :=
  match l with Blocks h => h <? C20_LOCK_TIME_THRESHOLD | Seconds t => (C20_LOCK_TIME_THRESHOLD <=? t) && (t <? u32_bound) end.
Definition print_locktime (l : locktime) : bytes := print_dec (locktime_to_consensus l).
Definition parse_locktime (s : bytes) : res locktime := rbind (parse_u32 s) (fun n => Ok (locktime_from_consensus n)).
(* Height / Time: parse::int then from_consensus, which checks the side of the threshold *)
Definition print_height (h : N) : bytes := print_dec h.
Definition parse_height (s : bytes) : res N := rbind (parse_u32 s) (fun n => if n <? C20_LOCK_TIME_THRESHOLD then Ok n else Err "notheight"%lb).
Definition print_time (t : N) : bytes := print_dec t.
Definition parse_time (s : bytes) : res N := rbind (parse_u32 s) (fun n => if C20_LOCK_TIME_THRESHOLD <=? n then Ok n else Err "nottime"%lb).

(* ---------- OutPoint ---------- *)
Fixpoint starts_with (p s : bytes) : bool :=
  match p, s with [] , _ => true | a :: p', b :: s' => byte_eqb a b && starts_with p' s' | _, [] => false end.
Fixpoint find_byte (c : byte) (s : bytes) : option nat :=
  match s with [] => None | x :: r => if byte_eqb x c then Some O else match find_byte c r with Some i => Some (S i) | None => None end end.
Fixpoint rfind_byte (c : byte) (s : bytes) : option nat :=
  match s with [] => None | x :: r => match rfind_byte c r with Some i => Some (S i) | None => if byte_eqb x c then Some O else None end end.
Definition opt_nat_eqb (a b : option nat) : bool :=
  match a, b with Some x, Some y => Nat.eqb x y | None, None => true | _, _ => false end.
Definition print_outpoint (o : outpoint) : bytes :=
  outpoint_display_prefix ++ print_hash hash_display_backward_Txid (o_txid o) ++ outpoint_display_sep ++ print_dec (o_vout o).
(* bitcoin::blockdata::transaction::parse_vout *)
Definition parse_vout (s : bytes) : res N :=
  match s with
  | c :: _ :: _ => if byte_eqb c zero_ch || byte_eqb c plus then Err "vout-noncanonical"%lb else parse_u32 s
  | _ => parse_u32 s end.
(* bitcoin::OutPoint::from_str; bitcoin::Txid is displayed backward *)
Definition parse_btc_outpoint (s : bytes) : res outpoint :=
  if Nat.ltb 75 (length s) then Err "toolong"%lb else
  match find_byte colon s with
  | None => Err "format"%lb
  | Some i =>
      if negb (opt_nat_eqb (Some i) (rfind_byte colon s)) then Err "format"%lb
      else if Nat.eqb i 0 || Nat.eqb i (length s - 1) then Err "format"%lb
      else match parse_hash 32 true (firstn i s) with
           | Err _ => Err "txid"%lb
           | Ok t => rbind (parse_vout (skipn (S i) s)) (fun v => Ok {| o_txid := t; o_vout := v |}) end end.
Definition parse_outpoint (s : bytes) : res outpoint :=
  parse_btc_outpoint (if starts_with outpoint_parse_prefix s then skipn (N.to_nat outpoint_parse_skip) s else s).

(* ---------- sighash types (string tables from the source) ---------- *)
Fixpoint assoc {B} (k : bytes) (l : list (bytes * B)) : option B :=
  match l with [] => None | (k', v) :: r => if bytes_eqb k k' then Some v else assoc k r end.
Fixpoint assocN {B} (k : N) (l : list (N * B)) : option B :=
  match l with [] => None | (k', v) :: r => if k =? k' then Some v else assocN k r end.
Fixpoint rassocN (v : N) (l : list (bytes * N)) : option bytes :=
  match l with [] => None | (k, v') :: r => if v =? v' then Some k else rassocN v r end.
(* an enum value is modelled by its discriminant; `name_of` / `value_of` go through the enum declaration *)
Definition enum_print (variants : list (bytes * N)) (display : list (bytes * bytes)) (v : N) : bytes :=
  match rassocN v variants with Some name => match assoc name display with Some s => s | None => [] end | None => [] end.
Definition enum_parse (variants : list (bytes * N)) (fromstr : list (bytes * bytes)) (s : bytes) : res N :=
  match assoc s fromstr with
  | Some name => match assoc name variants with Some v => Ok v | None => Err "variant"%lb end
  | None => Err "unrecognized"%lb end.
Definition print_ecdsa_sighash := enum_print ecdsa_sighash_variants ecdsa_sighash_display.
Definition parse_ecdsa_sighash := enum_parse ecdsa_sighash_variants ecdsa_sighash_fromstr.
Definition print_schnorr_sighash := enum_print schnorr_sighash_variants schnorr_sighash_display.
Definition parse_schnorr_sighash := enum_parse schnorr_sighash_variants schnorr_sighash_fromstr.
Definition is_variant (variants : list (bytes * N)) (v : N) : bool := match rassocN v variants with Some _ => true | None => false end.
Definition reserved_name : bytes := "Reserved"%lb.

(* PsbtSighashType { inner: u32 } *)
Definition psbt_schnorr_name (inner : N) : option bytes :=          (* schnorr_hash_ty, as a variant name *)
  if psbt_sighash_u8_max <? inner then None else assocN inner schnorr_sighash_from_u8.
Definition print_psbt_sighash (inner : N) : bytes :=
  match psbt_schnorr_name inner with
  | Some name => if bytes_eqb name reserved_name then "0x"%lb ++ print_radix 16 inner
                 else match assoc name schnorr_sighash_display with Some s => s | None => [] end
  | None => "0x"%lb ++ print_radix 16 inner end.                                 (* {:#x} *)
(* str::trim_start_matches(pat): strips the pattern repeatedly *)
Fixpoint trim_start_matches (fuel : nat) (p s : bytes) : bytes :=
  match fuel with O => s | S f =>
    match p with [] => s | _ => if starts_with p s then trim_start_matches f p (skipn (length p) s) else s end end.
Definition parse_psbt_sighash (s : bytes) : res N :=
  match assoc s schnorr_sighash_fromstr with
  | Some name =>
      if bytes_eqb name reserved_name then Err "unrecognized"%lb
      else match assoc name schnorr_sighash_variants with Some v => Ok v | None => Err "variant"%lb end
  | None =>
      match parse_uint psbt_sighash_radix u32_bound (trim_start_matches (length s) psbt_sighash_prefix s) with
      | Ok v => Ok v
      | Err _ => Err "unrecognized"%lb end end.
