(* Transaction / block identifiers (src/transaction.rs txid, wtxid; src/block.rs block_hash), dynafed parameter roots
   (src/dynafed.rs, src/block.rs) and issuance ids (src/issuance.rs, src/transaction.rs, src/pset/map/input.rs).
   The double-SHA256 `H` and the SHA256 compression `cmp` of fast_merkle_root are parameters. *)
From Coq Require Import List NArith Bool.
From Coq.Strings Require Import Byte.
From EV Require Import Base.Bytes Base.Codec Model.Tx Model.Block Model.FastMerkle.
Import ListNotations.
Open Scope N_scope.

Section IDS.
Variable H : bytes -> bytes.                 (* sha256d *)
Variable cmp : bytes -> bytes -> bytes.      (* sha256 compression of the 64-byte concatenation, from the initial state *)
Variable pt_ok : bytes -> bool.
Variables maxvec cap_txin cap_txout cap_vecu8 cap_tx : N.
Notation TX := (c_tx pt_ok maxvec cap_txin cap_txout cap_vecu8).
Notation fmr := (fmr_ctr zero32 cmp).

(* ---- C02 ---- *)
Definition txid (t : tx) : bytes := H (txid_preimage pt_ok maxvec cap_txin cap_txout t).
Definition wtxid (t : tx) : bytes := H (enc TX t).
Definition block_hash (h : header) : bytes := H (block_hash_preimage maxvec cap_vecu8 h).

(* ---- C19: dynafed roots ---- *)
Definition serialize_hash {A} (c : codec A) (x : A) : bytes := H (enc c x).
Definition full_extra_root (f : fullparams) : bytes :=
  fmr [serialize_hash (c_script maxvec) (fp_program f); serialize_hash (c_script maxvec) (fp_script f); serialize_hash (c_stack maxvec cap_vecu8) (fp_ext f)].
Definition compact_root (sbs : bytes) (limit : N) : bytes := fmr [serialize_hash (c_script maxvec) sbs; serialize_hash c_u32 limit].
Definition full_calculate_root (f : fullparams) : bytes :=            (* FullParams::calculate_root *)
  fmr [compact_root (fp_sbs f) (fp_limit f); full_extra_root f].
Definition params_extra_root (p : params) : bytes :=
  match p with PNull => zero32 | PCompact _ _ e => e | PFull f => full_extra_root f end.
Definition params_calculate_root (p : params) : bytes :=              (* Params::calculate_root *)
  match p with
  | PNull => zero32
  | PCompact s l _ => fmr [compact_root s l; params_extra_root p]
  | PFull f => fmr [compact_root (fp_sbs f) (fp_limit f); params_extra_root p] end.
Definition full_into_compact (f : fullparams) : params := PCompact (fp_sbs f) (fp_limit f) (full_extra_root f).
Definition params_into_compact (p : params) : option params :=
  match p with PNull => None | PCompact _ _ _ => Some p | PFull f => Some (full_into_compact f) end.
Definition header_dynafed_root (h : header) : option bytes :=
  match h_ext h with EProof _ _ => None | EDynafed c p _ => Some (fmr [params_calculate_root c; params_calculate_root p]) end.

(* ---- C11: issuance ids ---- *)
Definition one32 : bytes := x01 :: repeat x00 31.
Definition two32 : bytes := x02 :: repeat x00 31.
Definition generate_asset_entropy (op : outpoint) (contract : bytes) : bytes := fmr [H (enc c_outpoint op); contract].
Definition asset_from_entropy (e : bytes) : bytes := fmr [e; zero32].
Definition token_from_entropy (e : bytes) (confidential : bool) : bytes := fmr [e; if confidential then two32 else one32].
Definition value_is_confidential (v : cvalue) : bool := match v with VConf _ => true | _ => false end.
Definition txin_issuance_ids (i : txin) : bytes * bytes :=            (* TxIn::issuance_ids *)
  let iss := in_iss i in
  let entropy := if bytes_eqb (i_nonce iss) zero32 then generate_asset_entropy (in_prev i) (i_entropy iss) else i_entropy iss in
  (asset_from_entropy entropy, token_from_entropy entropy (value_is_confidential (i_amount iss))).

(* the fields of pset::Input that matter for issuance ids and for the round trip of an input *)
Record psetin := { pi_txid : bytes; pi_index : N; pi_nonce : option bytes; pi_entropy : option bytes;
  pi_amount : option N; pi_amount_comm : option bytes; pi_keys : option N; pi_keys_comm : option bytes;
  pi_seq : option N; pi_final_sig : option bytes }.
Definition psetin_from_txin (i : txin) : psetin :=                    (* Input::from_txin, issuance-relevant part *)
  let hi := has_issuance i in
  let iss := in_iss i in
  {| pi_txid := o_txid (in_prev i);
     pi_index := N.lor (N.lor (o_vout (in_prev i)) (if in_pegin i then bit30 else 0)) (if hi then Tx.bit31 else 0);
     pi_nonce := if hi then Some (i_nonce iss) else None;
     pi_entropy := if hi then Some (i_entropy iss) else None;
     pi_amount := if hi then match i_amount iss with VExplicit x => Some x | _ => None end else None;
     pi_amount_comm := if hi then match i_amount iss with VConf c => Some c | _ => None end else None;
     pi_keys := if hi then match i_keys iss with VExplicit x => Some x | _ => None end else None;
     pi_keys_comm := if hi then match i_keys iss with VConf c => Some c | _ => None end else None;
     pi_seq := Some (in_seq i); pi_final_sig := Some (in_script i) |}.
Definition opt_default {A} (d : A) (o : option A) : A := match o with Some x => x | None => d end.
Definition psetin_issuance_ids (p : psetin) : bytes * bytes :=        (* pset::Input::issuance_ids *)
  let nonce := opt_default zero32 (pi_nonce p) in
  let ent := opt_default zero32 (pi_entropy p) in
  (* the stored index carries the pegin / issuance flag bits; the entropy commits to the plain index (coinbase index exempt) *)
  let vout := if pi_index p =? u32max then pi_index p else N.land (pi_index p) 1073741823 in
  let entropy := if bytes_eqb nonce zero32 then generate_asset_entropy {| o_txid := pi_txid p; o_vout := vout |} ent else ent in
  (asset_from_entropy entropy, token_from_entropy entropy (match pi_amount_comm p with Some _ => true | None => false end)).
Definition psetin_asset_issuance (p : psetin) : issuance :=
  {| i_nonce := opt_default zero32 (pi_nonce p); i_entropy := opt_default zero32 (pi_entropy p);
     i_amount := match pi_amount p, pi_amount_comm p with None, None => VNull | _, Some c => VConf c | Some x, None => VExplicit x end;
     i_keys := match pi_keys p, pi_keys_comm p with None, None => VNull | _, Some c => VConf c | Some x, None => VExplicit x end |}.
Definition psetin_is_pegin (p : psetin) : bool := negb (pi_index p =? u32max) && negb (N.land (pi_index p) bit30 =? 0).
Definition psetin_extract (p : psetin) : txin :=                      (* the input built by extract_tx (witness left out) *)
  {| in_prev := {| o_txid := pi_txid p; o_vout := if pi_index p =? u32max then pi_index p else N.land (pi_index p) 1073741823 |};
     in_pegin := psetin_is_pegin p; in_script := opt_default [] (pi_final_sig p); in_seq := opt_default u32max (pi_seq p);
     in_iss := psetin_asset_issuance p; in_wit := empty_inwit |}.
End IDS.
