(* Consensus encoding of dynafed parameters, block headers and blocks (src/dynafed.rs, src/block.rs). *)
From Coq Require Import List NArith Bool.
From Coq.Strings Require Import Byte.
From EV Require Import Base.Bytes Base.Codec Model.Tx.
Import ListNotations.
Open Scope N_scope.

Record fullparams := { fp_sbs : bytes; fp_limit : N; fp_program : bytes; fp_script : bytes; fp_ext : list bytes }.
Inductive params := PNull | PCompact (sbs : bytes) (limit : N) (elided : bytes) | PFull (f : fullparams).
Inductive extdata := EProof (challenge solution : bytes) | EDynafed (cur prop : params) (wit : list bytes).
Record header := { h_version : N; h_prev : bytes; h_merkle : bytes; h_time : N; h_height : N; h_ext : extdata }.
Record block := { b_header : header; b_txs : list tx }.

Definition c_reject {A} : codec A := {| enc := fun _ => []; dec := fun _ => None; wf := fun _ => false; elen := fun _ => 0 |}.

Section BLOCK.
Variable pt_ok : bytes -> bool.
Variable maxvec : N.
Variables cap_txin cap_txout cap_vecu8 cap_tx : N.
Notation c_script := (c_script maxvec).
Notation c_stack := (c_stack maxvec cap_vecu8).

Definition c_fullparams : codec fullparams :=
  c_conv (c_pair c_script (c_pair c_u32 (c_pair c_script (c_pair c_script c_stack))))
    (fun '(a, (l, (p, (s, e)))) => Some {| fp_sbs := a; fp_limit := l; fp_program := p; fp_script := s; fp_ext := e |})
    (fun f => (fp_sbs f, (fp_limit f, (fp_program f, (fp_script f, fp_ext f))))) (fun _ => true).

Definition params_tag (p : params) : N := match p with PNull => 0 | PCompact _ _ _ => 1 | PFull _ => 2 end.
Definition c_params_body (tag : N) : codec params :=
  if tag =? 0 then c_conv c_unit (fun _ => Some PNull) (fun _ => tt) (fun p => match p with PNull => true | _ => false end)
  else if tag =? 1 then
    c_conv (c_pair c_script (c_pair c_u32 c_hash32))
      (fun '(s, (l, e)) => Some (PCompact s l e))
      (fun p => match p with PCompact s l e => (s, (l, e)) | _ => ([], (0, [])) end)
      (fun p => match p with PCompact _ _ _ => true | _ => false end)
  else if tag =? 2 then
    c_conv c_fullparams (fun f => Some (PFull f))
      (fun p => match p with PFull f => f | _ => {| fp_sbs := []; fp_limit := 0; fp_program := []; fp_script := []; fp_ext := [] |} end)
      (fun p => match p with PFull _ => true | _ => false end)
  else c_reject.                                         (* "bad serialize type for dynafed parameters" *)
Definition c_params : codec params :=
  c_conv (c_dep c_u8 c_params_body) (fun '(_, p) => Some p) (fun p => (params_tag p, p)) (fun _ => true).

(* header: bit 31 of the serialized version selects the dynafed form and is not part of `version` *)
Definition bit31 : N := 2147483648.
Definition c_ext_proof : codec extdata :=
  c_conv (c_pair c_script c_script) (fun '(c, s) => Some (EProof c s))
    (fun e => match e with EProof c s => (c, s) | _ => ([], []) end) (fun e => match e with EProof _ _ => true | _ => false end).
Definition c_ext_dynafed : codec extdata :=
  c_conv (c_pair c_params (c_pair c_params c_stack)) (fun '(c, (p, w)) => Some (EDynafed c p w))
    (fun e => match e with EDynafed c p w => (c, (p, w)) | _ => (PNull, (PNull, [])) end) (fun e => match e with EDynafed _ _ _ => true | _ => false end).
Definition wire_is_dyna (wv : N) : bool := N.shiftr wv 31 =? 1.                   (* version >> 31 == 1 *)
Definition header_head := (N * (bytes * (bytes * (N * N))))%type.
Definition c_header_head : codec header_head := c_pair c_u32 (c_pair c_hash32 (c_pair c_hash32 (c_pair c_u32 c_u32))).
Definition c_header_wire := c_dep c_header_head (fun h => if wire_is_dyna (fst h) then c_ext_dynafed else c_ext_proof).
Definition ext_is_dynafed (e : extdata) : bool := match e with EDynafed _ _ _ => true | _ => false end.
Definition header_of_wire (w : header_head * extdata) : option header :=
  let '((wv, (p, (m, (t, h)))), e) := w in
  Some {| h_version := (if wire_is_dyna wv then N.land wv 2147483647 else wv); h_prev := p; h_merkle := m; h_time := t; h_height := h; h_ext := e |}.
Definition wire_version (h : header) : N := if ext_is_dynafed (h_ext h) then N.lor (h_version h) bit31 else h_version h.
Definition wire_of_header (h : header) : header_head * extdata :=
  ((wire_version h, (h_prev h, (h_merkle h, (h_time h, h_height h)))), h_ext h).
Definition c_header : codec header := c_conv c_header_wire header_of_wire wire_of_header (fun h => h_version h <? bit31).

Definition c_block : codec block :=
  c_conv (c_pair c_header (c_vec (c_tx pt_ok maxvec cap_txin cap_txout cap_vecu8) cap_tx))
    (fun '(h, t) => Some {| b_header := h; b_txs := t |}) (fun b => (b_header b, b_txs b)) (fun _ => true).

(* block hash pre-image: everything except the solution / signblock witness *)
Definition block_hash_preimage (h : header) : bytes :=
  enc c_u32 (wire_version h) ++ h_prev h ++ h_merkle h ++ enc c_u32 (h_time h) ++ enc c_u32 (h_height h) ++
  match h_ext h with EProof c _ => enc c_script c | EDynafed c p _ => enc c_params c ++ enc c_params p end.
Definition clear_witness (h : header) : header :=
  {| h_version := h_version h; h_prev := h_prev h; h_merkle := h_merkle h; h_time := h_time h; h_height := h_height h;
     h_ext := match h_ext h with EProof c _ => EProof c [] | EDynafed c p _ => EDynafed c p [] end |}.
End BLOCK.
