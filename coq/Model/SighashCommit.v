(* C03 — the committed view of a signature-hash query: for each algorithm, hash type and input index the exact list of
   in-memory fields the signing message commits to (statement vocabulary of C03_committed_iff_* in Props/C03.v).
   `fv` is a small universe of field values; a committed view is a `list fv`.  No proofs here. *)
From Coq Require Import List NArith Bool.
From Coq.Strings Require Import Byte.
From EV Require Import Base.Bytes Base.Codec Model.Tx Model.SighashSpec.
Import ListNotations.
Open Scope N_scope.

Inductive fv := FNum (n : N) | FBytes (b : bytes) | FVal (v : cvalue) | FAst (a : casset) | FNon (n : cnonce)
              | FNone | FSome (x : fv) | FList (l : list fv).

Definition fv_bool (b : bool) : fv := FNum (if b then 1 else 0).
Definition fv_outpoint (o : outpoint) : fv := FList [FBytes (o_txid o); FNum (o_vout o)].
Definition fv_issuance (i : issuance) : fv := FList [FBytes (i_nonce i); FBytes (i_entropy i); FVal (i_amount i); FVal (i_keys i)].
(* an input's issuance: absent iff null (CAssetIssuance::IsNull) *)
Definition fv_iss_opt (i : txin) : fv := if issuance_null i then FNone else FSome (fv_issuance (in_iss i)).
Definition fv_txout (o : txout) : fv := FList [FAst (out_asset o); FVal (out_value o); FNon (out_nonce o); FBytes (out_script o)].
Definition proof_bytes (p : option bytes) : bytes := match p with Some b => b | None => [] end.   (* an absent proof is the empty byte vector *)
Definition fv_issproofs (i : txin) : fv := FList [FBytes (proof_bytes (w_amount_rp (in_wit i))); FBytes (proof_bytes (w_keys_rp (in_wit i)))].
Definition fv_outwit (o : txout) : fv := FList [FBytes (proof_bytes (w_surj (out_wit o))); FBytes (proof_bytes (w_range (out_wit o)))].
Definition fv_flags (i : txin) : fv := FList [fv_bool (in_pegin i); fv_bool (negb (issuance_null i))].   (* the outpoint flags *)

(* ---------------------------------------------------------------- legacy (flags in the index: Q1 = true) ----------------------------------------------------------------
   per serialized input: outpoint, the two flags, the issuance, the script that is signed at this position (the script code for the
   signed input, empty otherwise) and the sequence that is signed (0 for the others under SINGLE/NONE) *)
Definition legacy_in_view (ht : N) (nIn : nat) (script_code : bytes) (n : nat) (i : txin) : fv :=
  FList [fv_outpoint (in_prev i); fv_flags i; fv_iss_opt i;
         FBytes (if Nat.eqb n nIn then script_code else []);
         FNum (if negb (Nat.eqb n nIn) && (hash_single ht || hash_none ht) then 0 else in_seq i)].
Definition legacy_out_view (ht : N) (nIn : nat) (n : nat) (o : txout) : fv :=
  if hash_single ht && negb (Nat.eqb n nIn) then fv_txout null_txout else fv_txout o.
Definition legacy_committed (t : tx) (nIn : nat) (script_code : bytes) (ht : N) : list fv :=
  match nth_error (tx_in t) nIn with
  | None => []
  | Some me =>
      if legacy_single_bug t nIn ht then [FBytes uint256_one]            (* nothing of the transaction: the digest is the constant *)
      else [FNum (tx_version t);
            FList (if anyone_can_pay ht then [legacy_in_view ht nIn script_code nIn me] else mapi (legacy_in_view ht nIn script_code) (tx_in t));
            FList (if hash_none ht then [] else if hash_single ht then mapi (legacy_out_view ht nIn) (firstn (nIn + 1) (tx_out t)) else map fv_txout (tx_out t));
            FNum (tx_lock t); FNum ht]
  end.

(* ---------------------------------------------------------------- segwit v0 ----------------------------------------------------------------
   RESIDUAL: hashIssuance is the hash of the concatenation of "0x00 or the issuance" per input, with neither a count nor a flag in
   front; that concatenation does not determine the individual issuances (Props/C03.v, C03_segwit_issuance_concat_ambiguous), so the
   view carries the concatenation itself. *)
Definition segwit_committed (pt_ok : bytes -> bool) (t : tx) (nIn : nat) (script_code : bytes) (amount : cvalue) (ht : N) : list fv :=
  match nth_error (tx_in t) nIn with
  | None => []
  | Some me =>
      [FNum (tx_version t);
       (if anyone_can_pay ht then FNone else FSome (FList (map (fun i => fv_outpoint (in_prev i)) (tx_in t))));
       (if negb (anyone_can_pay ht) && negb (hash_single ht) && negb (hash_none ht) then FSome (FList (map (fun i => FNum (in_seq i)) (tx_in t))) else FNone);
       (if anyone_can_pay ht then FNone else FSome (FBytes (concat (map (issuance_or_zero pt_ok) (tx_in t)))));
       fv_outpoint (in_prev me); FBytes script_code; FVal amount; FNum (in_seq me); fv_iss_opt me;
       (if negb (hash_single ht) && negb (hash_none ht) then FSome (FList (map fv_txout (tx_out t)))
        else if hash_single ht then match nth_error (tx_out t) nIn with Some o => FSome (fv_txout o) | None => FNone end
        else FNone);
       FNum (tx_lock t); FNum ht]
  end.

(* ---------------------------------------------------------------- taproot ---------------------------------------------------------------- *)
Definition taproot_committed (t : tx) (spent : list txout) (in_pos : nat) (annex : option bytes) (leaf : option (bytes * N)) (ht : N) (genesis : bytes) : list fv :=
  match nth_error (tx_in t) in_pos, nth_error spent in_pos with
  | Some me, Some prev =>
      [FBytes genesis; FNum ht; FNum (tx_version t); FNum (tx_lock t)]
      ++ (if tap_input_acp ht then [] else
            [FList (map fv_flags (tx_in t)); FList (map (fun i => fv_outpoint (in_prev i)) (tx_in t));
             FList (map (fun o => FList [FAst (out_asset o); FVal (out_value o)]) spent); FList (map (fun o => FBytes (out_script o)) spent);
             FList (map (fun i => FNum (in_seq i)) (tx_in t)); FList (map fv_iss_opt (tx_in t)); FList (map fv_issproofs (tx_in t))])
      ++ (if tap_output_type ht =? SIGHASH_ALL then [FList (map fv_txout (tx_out t)); FList (map fv_outwit (tx_out t))] else [])
      ++ [fv_bool (if leaf then true else false); (match annex with Some a => FSome (FBytes a) | None => FNone end)]
      ++ (if tap_input_acp ht then
            [fv_flags me; fv_outpoint (in_prev me); FAst (out_asset prev); FVal (out_value prev); FBytes (out_script prev); FNum (in_seq me);
             fv_iss_opt me; (if issuance_null me then FNone else FSome (fv_issproofs me))]
          else [FNum (N.of_nat in_pos)])
      ++ (if tap_output_type ht =? SIGHASH_SINGLE then match nth_error (tx_out t) in_pos with Some o => [fv_txout o; fv_outwit o] | None => [] end else [])
      ++ (match leaf with Some (h, pos) => [FBytes h; FNum 0; FNum pos] | None => [] end)
  | _, _ => []
  end.

(* ---------------------------------------------------------------- canonical values ----------------------------------------------------------------
   what the sensitivity theorems need of the in-memory values: exactly what decoding from consensus bytes guarantees
   (32-byte hashes, u32 ranges, valid confidential prefixes/points, byte strings and lists shorter than 2^64) *)
Definition len_ok (b : bytes) : bool := N.of_nat (length b) <? 18446744073709551616.
Definition BIG : N := 18446744073709551616.
Section CANON.
Variable pt_ok : bytes -> bool.
Definition canon_in (i : txin) : bool :=
  wf (c_txin pt_ok BIG) (strip_in i) && len_ok (proof_bytes (w_amount_rp (in_wit i))) && len_ok (proof_bytes (w_keys_rp (in_wit i))).
Definition canon_out (o : txout) : bool :=
  wf (c_txout pt_ok BIG) (strip_out o) && len_ok (proof_bytes (w_surj (out_wit o))) && len_ok (proof_bytes (w_range (out_wit o))).
Definition canon_tx (t : tx) : bool :=
  (tx_version t <? 4294967296) && (tx_lock t <? 4294967296) &&
  forallb canon_in (tx_in t) && forallb canon_out (tx_out t) &&
  (N.of_nat (length (tx_in t)) <? BIG) && (N.of_nat (length (tx_out t)) <? BIG).
End CANON.

(* side conditions on the non-transaction arguments of a taproot query: 32-byte genesis and leaf hashes, u32 code-separator position
   and input index, annex shorter than 2^64 *)
Definition tap_query_ok (genesis : bytes) (annex : option bytes) (leaf : option (bytes * N)) (in_pos : nat) : bool :=
  Nat.eqb (length genesis) 32 && (match annex with Some a => len_ok a | None => true end) &&
  (match leaf with Some (h, pos) => Nat.eqb (length h) 32 && (pos <? 4294967296) | None => true end) && (N.of_nat in_pos <? 4294967296).
(* side conditions on the non-transaction arguments of a legacy / segwit query *)
Definition seg_query_ok (pt_ok : bytes -> bool) (script_code : bytes) (amount : cvalue) (ht : N) : bool :=
  len_ok script_code && wf (c_value pt_ok) amount && (ht <? 4294967296).
Definition leg_query_ok (script_code : bytes) (ht : N) : bool := len_ok script_code && (ht <? 4294967296).
