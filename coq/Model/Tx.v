(* Consensus encoding of Elements transactions (src/transaction.rs, src/confidential.rs, src/encode.rs, src/ext.rs).
   Every codec is assembled from the combinators of Base/Codec.v, so the wire layout is visible in the definitions:
   the in-memory records on one side, the tuple that is read from / written to the wire on the other, and the
   conversion (with the canonicity checks of the decoder) between them.

   External library behaviour appears as parameters of the Section:
     pt_ok   : validity of a 33-byte curve point encoding (secp256k1: Generator / PedersenCommitment / PublicKey ::from_slice)
     cap_*   : MAX_VEC_SIZE / size_of::<T>() element caps of Vec<T> decoding (layout dependent; reported by the harness)
   Range and surjection proof acceptance is the header/format check of libsecp256k1-zkp, transcribed below. *)
From Coq Require Import List NArith Bool.
From Coq.Strings Require Import Byte.
From EV Require Import Base.Bytes Base.Codec.
Import ListNotations.
Open Scope N_scope.

(* ---------- proofs: accepted iff the library's parser accepts; stored and re-serialised verbatim ---------- *)
Definition nthb (bs : bytes) (i : nat) : N := b2n (nth i bs x00).
(* secp256k1_rangeproof_getheader_impl *)
Fixpoint scale10 (k : nat) (mx : N) : option N :=
  match k with O => Some mx | S k' => if 18446744073709551615 / 10 <? mx then None else scale10 k' (mx * 10) end.
Definition rangeproof_ok (p : bytes) : bool :=
  if Nat.ltb (length p) 65 then false else
  let h := nthb p 0 in
  if N.testbit h 7 then false else
  let has_nz := N.testbit h 6 in let has_min := N.testbit h 5 in
  let exp := N.land h 31 in
  if has_nz && (18 <? exp) then false else
  let mant := nthb p 1 + 1 in
  if has_nz && (64 <? mant) then false else
  let mx0 := if has_nz then N.shiftr 18446744073709551615 (64 - mant) else 0 in
  match (if has_nz then scale10 (N.to_nat exp) mx0 else Some mx0) with
  | None => false
  | Some mx =>
      let off := if has_nz then 2%nat else 1%nat in
      (* plen >= 65 so the 8 bytes of a minimum value are always there *)
      let mn := if has_min then be_val (firstn 8 (skipn off p)) else 0 in
      negb (18446744073709551615 - mn <? mx) end.
(* secp256k1_surjectionproof_parse *)
Fixpoint popcount_byte (fuel : nat) (n : N) : N := match fuel with O => 0 | S f => (n mod 2) + popcount_byte f (n / 2) end.
Definition popcount (bs : bytes) : N := fold_right (fun b s => popcount_byte 8 (b2n b) + s) 0 bs.
Definition surjproof_ok (p : bytes) : bool :=
  if Nat.ltb (length p) 2 then false else
  let n := nthb p 0 + 256 * nthb p 1 in
  if 256 <? n then false else
  let bm := (n + 7) / 8 in
  if N.of_nat (length p) <? 2 + bm then false else
  let padding_ok := if n mod 8 =? 0 then true else N.land (nthb p (N.to_nat (2 + bm - 1))) (N.land (N.shiftl 255 (n mod 8)) 255) =? 0 in
  if negb padding_ok then false else
  N.of_nat (length p) =? 2 + bm + 32 * (1 + popcount (firstn (N.to_nat bm) (skipn 2 p))).

Definition group_order : N := 0xFFFFFFFFFFFFFFFFFFFFFFFFFFFFFFFEBAAEDCE6AF48A03BBFD25E8CD0364141.
Definition tweak_ok (b : bytes) : bool := be_val b <? group_order.   (* Tweak::from_inner: zero or a valid secret key *)

(* ---------- in-memory types ---------- *)
Inductive cvalue := VNull | VExplicit (n : N) | VConf (c : bytes).
Inductive casset := ANull | AExplicit (id : bytes) | AConf (c : bytes).
Inductive cnonce := NNull | NExplicit (b : bytes) | NConf (c : bytes).
Record issuance := { i_nonce : bytes; i_entropy : bytes; i_amount : cvalue; i_keys : cvalue }.
Record outpoint := { o_txid : bytes; o_vout : N }.
Record inwit := { w_amount_rp : option bytes; w_keys_rp : option bytes; w_script : list bytes; w_pegin : list bytes }.
Record txin := { in_prev : outpoint; in_pegin : bool; in_script : bytes; in_seq : N; in_iss : issuance; in_wit : inwit }.
Record outwit := { w_surj : option bytes; w_range : option bytes }.
Record txout := { out_asset : casset; out_value : cvalue; out_nonce : cnonce; out_script : bytes; out_wit : outwit }.
Record tx := { tx_version : N; tx_lock : N; tx_in : list txin; tx_out : list txout }.

Definition zero32 : bytes := repeat x00 32.
Definition null_issuance : issuance := {| i_nonce := zero32; i_entropy := zero32; i_amount := VNull; i_keys := VNull |}.
Definition empty_inwit : inwit := {| w_amount_rp := None; w_keys_rp := None; w_script := []; w_pegin := [] |}.
Definition empty_outwit : outwit := {| w_surj := None; w_range := None |}.
Definition value_is_null (v : cvalue) : bool := match v with VNull => true | _ => false end.
Definition issuance_is_null (i : issuance) : bool := value_is_null (i_amount i) && value_is_null (i_keys i).
Definition issuance_is_default (i : issuance) : bool :=
  bytes_eqb (i_nonce i) zero32 && bytes_eqb (i_entropy i) zero32 && issuance_is_null i.
Definition has_issuance (i : txin) : bool := negb (issuance_is_null (in_iss i)).
Definition inwit_is_empty (w : inwit) : bool :=
  match w_amount_rp w, w_keys_rp w, w_script w, w_pegin w with None, None, [], [] => true | _, _, _, _ => false end.
Definition outwit_is_empty (w : outwit) : bool := match w_surj w, w_range w with None, None => true | _, _ => false end.
Definition has_witness (t : tx) : bool :=
  existsb (fun i => negb (inwit_is_empty (in_wit i))) (tx_in t) || existsb (fun o => negb (outwit_is_empty (out_wit o))) (tx_out t).

Section TX.
Variable pt_ok : bytes -> bool.
Variable maxvec : N.                      (* MAX_VEC_SIZE, the byte cap of Vec<u8> *)
Variables cap_txin cap_txout cap_vecu8 cap_tx : N.   (* element caps of Vec<TxIn>, Vec<TxOut>, Vec<Vec<u8>>, Vec<Transaction> *)

Definition c_script : codec bytes := c_varbytes maxvec.
Definition c_hash32 : codec bytes := c_fixed 32.

(* ---------- confidential value / asset / nonce: one prefix byte selects the form ---------- *)
Definition value_enc (v : cvalue) : bytes :=
  match v with VNull => [x00] | VExplicit n => x01 :: be_enc 8 n | VConf c => c end.
Definition value_dec (bs : bytes) : option (cvalue * bytes) :=
  match bs with [] => None | b :: r =>
    let p := b2n b in
    if p =? 0 then Some (VNull, r)
    else if p =? 1 then match be_dec 8 r with Some (n, r') => Some (VExplicit n, r') | None => None end
    else if (p =? 8) || (p =? 9) then match take 32 r with Some (x, r') => if pt_ok (b :: x) then Some (VConf (b :: x), r') else None | None => None end
    else None end.
Definition conf_wf (lo hi : N) (c : bytes) : bool :=
  match c with [] => false | b :: x => ((b2n b =? lo) || (b2n b =? hi)) && Nat.eqb (length x) 32 && pt_ok c end.
Definition value_wf (v : cvalue) : bool :=
  match v with VNull => true | VExplicit n => wf (c_be 8) n | VConf c => conf_wf 8 9 c end.
Definition value_len (v : cvalue) : N := match v with VNull => 1 | VExplicit _ => 9 | VConf _ => 33 end.   (* encoded_length *)
Definition c_value : codec cvalue := {| enc := value_enc; dec := value_dec; wf := value_wf; elen := value_len |}.

Definition asset_enc (v : casset) : bytes :=
  match v with ANull => [x00] | AExplicit id => x01 :: id | AConf c => c end.
Definition asset_dec (bs : bytes) : option (casset * bytes) :=
  match bs with [] => None | b :: r =>
    let p := b2n b in
    if p =? 0 then Some (ANull, r)
    else if p =? 1 then match take 32 r with Some (id, r') => Some (AExplicit id, r') | None => None end
    else if (p =? 10) || (p =? 11) then match take 32 r with Some (x, r') => if pt_ok (b :: x) then Some (AConf (b :: x), r') else None | None => None end
    else None end.
Definition asset_wf (v : casset) : bool :=
  match v with ANull => true | AExplicit id => Nat.eqb (length id) 32 | AConf c => conf_wf 10 11 c end.
Definition asset_len (v : casset) : N := match v with ANull => 1 | _ => 33 end.
Definition c_asset : codec casset := {| enc := asset_enc; dec := asset_dec; wf := asset_wf; elen := asset_len |}.

Definition nonce_enc (v : cnonce) : bytes :=
  match v with NNull => [x00] | NExplicit b => x01 :: b | NConf c => c end.
Definition nonce_dec (bs : bytes) : option (cnonce * bytes) :=
  match bs with [] => None | b :: r =>
    let p := b2n b in
    if p =? 0 then Some (NNull, r)
    else if p =? 1 then match take 32 r with Some (id, r') => Some (NExplicit id, r') | None => None end
    else if (p =? 2) || (p =? 3) then match take 32 r with Some (x, r') => if pt_ok (b :: x) then Some (NConf (b :: x), r') else None | None => None end
    else None end.
Definition nonce_wf (v : cnonce) : bool :=
  match v with NNull => true | NExplicit b => Nat.eqb (length b) 32 | NConf c => conf_wf 2 3 c end.
Definition nonce_len (v : cnonce) : N := match v with NNull => 1 | _ => 33 end.
Definition c_nonce : codec cnonce := {| enc := nonce_enc; dec := nonce_dec; wf := nonce_wf; elen := nonce_len |}.

(* ---------- Option<Box<proof>>: a byte vector; empty <-> None; non-empty must satisfy the library's parser ---------- *)
Definition c_optproof (ok : bytes -> bool) : codec (option bytes) :=
  c_conv (c_varbytes maxvec)
    (fun b => match b with [] => Some None | _ => if ok b then Some (Some b) else None end)
    (fun o => match o with None => [] | Some b => b end)
    (fun o => match o with None => true | Some b => negb (Nat.eqb (length b) 0) && ok b end).
Definition c_rangeproof := c_optproof rangeproof_ok.
Definition c_surjproof := c_optproof surjproof_ok.

(* ---------- issuance, outpoint ---------- *)
Definition c_tweak : codec bytes := c_guard (c_fixed 32) tweak_ok.
Definition c_issuance : codec issuance :=
  c_conv (c_pair c_tweak (c_pair c_hash32 (c_pair c_value c_value)))
    (fun '(n, (e, (a, k))) => Some {| i_nonce := n; i_entropy := e; i_amount := a; i_keys := k |})
    (fun i => (i_nonce i, (i_entropy i, (i_amount i, i_keys i))))
    (fun _ => true).
Definition c_outpoint : codec outpoint :=
  c_conv (c_pair c_hash32 c_u32)
    (fun '(t, v) => Some {| o_txid := t; o_vout := v |})
    (fun o => (o_txid o, o_vout o)) (fun _ => true).

(* ---------- witnesses ---------- *)
Definition c_stack : codec (list bytes) := c_vec c_script cap_vecu8.     (* Vec<Vec<u8>> *)
Definition c_inwit : codec inwit :=
  c_conv (c_pair c_rangeproof (c_pair c_rangeproof (c_pair c_stack c_stack)))
    (fun '(a, (k, (s, p))) => Some {| w_amount_rp := a; w_keys_rp := k; w_script := s; w_pegin := p |})
    (fun w => (w_amount_rp w, (w_keys_rp w, (w_script w, w_pegin w)))) (fun _ => true).
Definition c_outwit : codec outwit :=
  c_conv (c_pair c_surjproof c_rangeproof)
    (fun '(s, r) => Some {| w_surj := s; w_range := r |})
    (fun w => (w_surj w, w_range w)) (fun _ => true).

(* ---------- TxIn: the pegin / issuance flags live in bits 30 and 31 of the serialized output index,
   unless the index is 0xffffffff (coinbase) ---------- *)
Definition bit30 : N := 1073741824. Definition bit31 : N := 2147483648. Definition u32max : N := 4294967295.
Definition wire_vout (i : txin) : N :=      (* TxIn::consensus_encode *)
  N.lor (N.lor (o_vout (in_prev i)) (if in_pegin i then bit30 else 0)) (if has_issuance i then bit31 else 0).
Definition wire_has_issuance (w : N) : bool := if w =? u32max then false else N.testbit w 31.
Definition wire_is_pegin (w : N) : bool := if w =? u32max then false else N.testbit w 30.
Definition wire_plain_vout (w : N) : N := if w =? u32max then w else N.land w 1073741823.
(* wire tuple: ((txid, vout_with_flags), script_sig, sequence), then the issuance iff bit 31 *)
Definition c_txin_head := c_pair (c_pair c_hash32 c_u32) (c_pair c_script c_u32).
Definition c_txin_wire := c_dep c_txin_head (fun h => if wire_has_issuance (snd (fst h)) then c_issuance else c_conv c_unit (fun _ => Some null_issuance) (fun _ => tt) issuance_is_default).
Definition txin_of_wire (w : (bytes * N * (bytes * N)) * issuance) : option txin :=
  let '((t, v), (s, q), iss) := w in
  if wire_has_issuance v && issuance_is_null iss then None      (* "superfluous asset issuance" *)
  else Some {| in_prev := {| o_txid := t; o_vout := wire_plain_vout v |}; in_pegin := wire_is_pegin v; in_script := s; in_seq := q;
               in_iss := (if wire_has_issuance v then iss else null_issuance); in_wit := empty_inwit |}.
Definition wire_of_txin (i : txin) : (bytes * N * (bytes * N)) * issuance :=
  ((o_txid (in_prev i), wire_vout i), (in_script i, in_seq i), in_iss i).
(* canonical TxIn (without its witness, which travels separately): the plain index is below 2^30 (but not 0x3fffffff with
   both flags, which would encode to the coinbase index), or it is the coinbase index with both flags clear; a null
   issuance is exactly the default one *)
Definition txin_wfB (i : txin) : bool :=
  let v := o_vout (in_prev i) in
  (((v <? bit30) && negb ((v =? 1073741823) && in_pegin i && has_issuance i)) || ((v =? u32max) && negb (in_pegin i) && negb (has_issuance i)))
  && (has_issuance i || issuance_is_default (in_iss i))
  && inwit_is_empty (in_wit i).
Definition c_txin_nowit : codec txin := c_conv c_txin_wire txin_of_wire wire_of_txin txin_wfB.

(* ---------- TxOut (witness separately) ---------- *)
Definition c_txout_nowit : codec txout :=
  c_conv (c_pair c_asset (c_pair c_value (c_pair c_nonce c_script)))
    (fun '(a, (v, (n, s))) => Some {| out_asset := a; out_value := v; out_nonce := n; out_script := s; out_wit := empty_outwit |})
    (fun o => (out_asset o, (out_value o, (out_nonce o, out_script o))))
    (fun o => outwit_is_empty (out_wit o)).

(* ---------- Transaction: version, flag byte, inputs, outputs, lock time, then (flag = 1) one witness per input and output ---------- *)
Definition strip_in (i : txin) : txin := {| in_prev := in_prev i; in_pegin := in_pegin i; in_script := in_script i; in_seq := in_seq i; in_iss := in_iss i; in_wit := empty_inwit |}.
Definition strip_out (o : txout) : txout := {| out_asset := out_asset o; out_value := out_value o; out_nonce := out_nonce o; out_script := out_script o; out_wit := empty_outwit |}.
Definition set_inwit (i : txin) (w : inwit) : txin := {| in_prev := in_prev i; in_pegin := in_pegin i; in_script := in_script i; in_seq := in_seq i; in_iss := in_iss i; in_wit := w |}.
Definition set_outwit (o : txout) (w : outwit) : txout := {| out_asset := out_asset o; out_value := out_value o; out_nonce := out_nonce o; out_script := out_script o; out_wit := w |}.
Fixpoint zip_with {A B C} (f : A -> B -> C) (l : list A) (m : list B) : list C :=
  match l, m with a :: l', b :: m' => f a b :: zip_with f l' m' | _, _ => [] end.

Definition tx_head := (N * (N * (list txin * (list txout * N))))%type.
Definition c_tx_head : codec tx_head := c_pair c_u32 (c_pair c_u8 (c_pair (c_vec c_txin_nowit cap_txin) (c_pair (c_vec c_txout_nowit cap_txout) c_u32))).
Definition head_flag (h : tx_head) : N := fst (snd h).
Definition head_ins (h : tx_head) : list txin := fst (snd (snd h)).
Definition head_outs (h : tx_head) : list txout := fst (snd (snd (snd h))).
Definition c_tx_wits (h : tx_head) : codec (list inwit * list outwit) :=
  if head_flag h =? 1 then c_pair (c_vecn c_inwit (length (head_ins h))) (c_vecn c_outwit (length (head_outs h)))
  else c_conv c_unit (fun _ => Some ([], [])) (fun _ => tt) (fun p => match p with ([], []) => true | _ => false end).
Definition c_tx_wire := c_dep c_tx_head c_tx_wits.
Definition tx_of_wire (w : tx_head * (list inwit * list outwit)) : option tx :=
  let '((ver, (flag, (ins, (outs, lock)))), (iw, ow)) := w in
  if flag =? 0 then Some {| tx_version := ver; tx_lock := lock; tx_in := ins; tx_out := outs |}
  else if flag =? 1 then
    if forallb inwit_is_empty iw && forallb outwit_is_empty ow then None      (* "witness flag set but no witnesses were given" *)
    else Some {| tx_version := ver; tx_lock := lock; tx_in := zip_with set_inwit ins iw; tx_out := zip_with set_outwit outs ow |}
  else None.                                                                  (* "bad witness flag in tx" *)
Definition wire_of_tx (t : tx) : tx_head * (list inwit * list outwit) :=
  let f := has_witness t in
  ((tx_version t, ((if f then 1 else 0), (map strip_in (tx_in t), (map strip_out (tx_out t), tx_lock t)))),
   (if f then (map in_wit (tx_in t), map out_wit (tx_out t)) else ([], []))).
Definition c_tx : codec tx := c_conv c_tx_wire tx_of_wire wire_of_tx (fun _ => true).

(* TxIn / TxOut as standalone consensus objects (their Encodable/Decodable impls ignore the witness) *)
Definition c_txin : codec txin := c_txin_nowit.
Definition c_txout : codec txout := c_txout_nowit.

(* txid: version, a zero flag byte, inputs, outputs, lock time — no witnesses *)
Definition txid_preimage (t : tx) : bytes :=
  enc c_u32 (tx_version t) ++ [x00] ++ enc (c_vec c_txin_nowit cap_txin) (map strip_in (tx_in t))
  ++ enc (c_vec c_txout_nowit cap_txout) (map strip_out (tx_out t)) ++ enc c_u32 (tx_lock t).
Definition strip_tx (t : tx) : tx := {| tx_version := tx_version t; tx_lock := tx_lock t; tx_in := map strip_in (tx_in t); tx_out := map strip_out (tx_out t) |}.
End TX.
