(* C05 — the single-location tampers of the property, as data: `apply` performs one on (transaction, spent outputs),
   `applicable` says the location exists and holds a field of the kind being changed, `changes` says the new content is
   a different one (for group elements: a different group element; for exchanged proofs: proofs of different statements).
   No proofs here. *)
From Coq Require Import List NArith ZArith Bool.
From Coq.Strings Require Import Byte.
From EV Require Import Base.Bytes Base.Zn Base.FreeMod Model.Script Model.Ideal Model.Verify.
Import ListNotations.
Open Scope Z_scope.

Inductive which_amount := IssAmount | IssKeys.
Inductive tamper :=
  | TOutValue (j : nat) (v : cvalue)      (* change an explicit amount / replace a value commitment of output j *)
  | TOutAsset (j : nat) (a : casset)      (* change an explicit asset / replace an asset commitment of output j *)
  | TSwapValue (j k : nat)                (* exchange the value fields of outputs j and k *)
  | TSwapAsset (j k : nat)                (* exchange the asset fields *)
  | TRemoveRp (j : nat) | TSwapRp (j k : nat) | TCorruptRp (j : nat)
  | TRemoveSp (j : nat) | TSwapSp (j k : nat) | TCorruptSp (j : nat)
  | TScript (j : nat) (s : bytes)         (* change the script of a blinded output *)
  | TIssuance (i : nat) (w : which_amount) (v : cvalue)   (* change an issuance amount of input i *)
  | TSpentValue (i : nat) (v : cvalue)    (* present a spent output with a different amount / value commitment *)
  | TSpentAsset (i : nat) (a : casset).   (* present a spent output with a different asset / asset commitment *)

Definition upd {A} (l : list A) (i : nat) (f : A -> A) : list A :=
  match nth_error l i with Some x => set_nth l i (f x) | None => l end.
Definition set_value (v : cvalue) (o : txout) : txout := mkOut (o_asset o) v (o_nonce o) (o_script o) (o_rp o) (o_sp o).
Definition set_asset (a : casset) (o : txout) : txout := mkOut a (o_value o) (o_nonce o) (o_script o) (o_rp o) (o_sp o).
Definition set_rp (r : option rproof) (o : txout) : txout := mkOut (o_asset o) (o_value o) (o_nonce o) (o_script o) r (o_sp o).
Definition set_sp (s : option sproof) (o : txout) : txout := mkOut (o_asset o) (o_value o) (o_nonce o) (o_script o) (o_rp o) s.
Definition set_script (s : bytes) (o : txout) : txout := mkOut (o_asset o) (o_value o) (o_nonce o) s (o_rp o) (o_sp o).
Definition corrupt_rp (r : rproof) : rproof :=
  mkRP (rp_commit r) (rp_script r) (rp_gen r) (rp_value r) (rp_vbf r) (rp_msg r) (rp_key r) false.
Definition corrupt_sp (s : sproof) : sproof := mkSP (sp_gen s) (sp_domain s) (sp_idx s) (sp_diff s) false.
Definition set_iss (w : which_amount) (v : cvalue) (i : txin) : txin :=
  match w with
  | IssAmount => mkIn (mkIss v (is_keys (in_iss i)) (is_asset (in_iss i)) (is_token (in_iss i)))
  | IssKeys => mkIn (mkIss (is_amount (in_iss i)) v (is_asset (in_iss i)) (is_token (in_iss i)))
  end.
Definition swap_with {A} (l : list A) (j k : nat) (f : A -> A -> A) : list A :=
  match nth_error l j, nth_error l k with
  | Some x, Some y => set_nth (set_nth l j (f x y)) k (f y x)
  | _, _ => l
  end.

Definition apply (t : tamper) (x : tx * list txout) : tx * list txout :=
  let '(T, spent) := x in
  let outs f := (mkTx (t_in T) (f (t_out T)), spent) in
  match t with
  | TOutValue j v => outs (fun l => upd l j (set_value v))
  | TOutAsset j a => outs (fun l => upd l j (set_asset a))
  | TSwapValue j k => outs (fun l => swap_with l j k (fun x y => set_value (o_value y) x))
  | TSwapAsset j k => outs (fun l => swap_with l j k (fun x y => set_asset (o_asset y) x))
  | TRemoveRp j => outs (fun l => upd l j (set_rp None))
  | TSwapRp j k => outs (fun l => swap_with l j k (fun x y => set_rp (o_rp y) x))
  | TCorruptRp j => outs (fun l => upd l j (fun o => set_rp (option_map corrupt_rp (o_rp o)) o))
  | TRemoveSp j => outs (fun l => upd l j (set_sp None))
  | TSwapSp j k => outs (fun l => swap_with l j k (fun x y => set_sp (o_sp y) x))
  | TCorruptSp j => outs (fun l => upd l j (fun o => set_sp (option_map corrupt_sp (o_sp o)) o))
  | TScript j s => outs (fun l => upd l j (set_script s))
  | TIssuance i w v => (mkTx (upd (t_in T) i (set_iss w v)) (t_out T), spent)
  | TSpentValue i v => (T, upd spent i (set_value v))
  | TSpentAsset i a => (T, upd spent i (set_asset a))
  end.

(* same kind of field (an explicit amount stays explicit, a commitment stays a commitment) *)
Definition value_kind_eq (a b : cvalue) : bool :=
  match a, b with VExp _, VExp _ => true | VConf _, VConf _ => true | _, _ => false end.
Definition asset_kind_eq (a b : casset) : bool :=
  match a, b with AExp _, AExp _ => true | AConf _, AConf _ => true | _, _ => false end.
Definition value_eqb (a b : cvalue) : bool :=
  match a, b with VNull, VNull => true | VExp x, VExp y => x =? y | VConf c, VConf d => geqb c d | _, _ => false end.
Definition asset_eqb (a b : casset) : bool :=
  match a, b with ANull, ANull => true | AExp x, AExp y => N.eqb x y | AConf c, AConf d => geqb c d | _, _ => false end.
Definition u64b (v : Z) : bool := (0 <=? v) && (v <? 2 ^ 64).
Definition value_u64 (v : cvalue) : bool := match v with VExp x => u64b x | _ => true end.
Definition out_at (T : tx) (j : nat) (f : txout -> bool) : bool := match nth_error (t_out T) j with Some o => f o | None => false end.
Definition out2_at (T : tx) (j k : nat) (f : txout -> txout -> bool) : bool :=
  negb (Nat.eqb j k) && match nth_error (t_out T) j, nth_error (t_out T) k with Some x, Some y => f x y | _, _ => false end.
Definition iss_field (w : which_amount) (i : txin) : cvalue := match w with IssAmount => is_amount (in_iss i) | IssKeys => is_keys (in_iss i) end.
(* an output the verifier looks at: not an explicit zero amount on a provably unspendable script (those are skipped entirely —
   neither their asset nor a surjection proof on them is ever read, so changing those is not detectable and not claimed) *)
Definition live (o : txout) : bool := negb (skipped o).
Definition has_conf_asset_output (T : tx) : bool := existsb (fun o => live o && match o_asset o with AConf _ => true | _ => false end) (t_out T).

Definition applicable (t : tamper) (x : tx * list txout) : bool :=
  let '(T, spent) := x in
  match t with
  | TOutValue j v => out_at T j (fun o => value_kind_eq (o_value o) v) && value_u64 v
  | TOutAsset j a => out_at T j (fun o => live o && asset_kind_eq (o_asset o) a)
  (* exchanging is about COMMITMENTS (two explicit amounts of one asset can of course be exchanged without unbalancing) *)
  | TSwapValue j k => out2_at T j k (fun x y => value_is_conf (o_value x) && value_is_conf (o_value y))
  | TSwapAsset j k => out2_at T j k (fun x y => live x && live y && match o_asset x, o_asset y with AConf _, AConf _ => true | _, _ => false end)
  | TRemoveRp j | TCorruptRp j => out_at T j (fun o => value_is_conf (o_value o) && match o_rp o with Some _ => true | None => false end)
  | TSwapRp j k => out2_at T j k (fun x y => value_is_conf (o_value x) && value_is_conf (o_value y) && asset_kind_eq (o_asset x) (o_asset y))
  | TRemoveSp j | TCorruptSp j => out_at T j (fun o => live o && match o_asset o, o_sp o with AConf _, Some _ => true | _, _ => false end)
  | TSwapSp j k => out2_at T j k (fun x y => live x && live y && match o_asset x, o_asset y with AConf _, AConf _ => true | _, _ => false end)
  | TScript j s => out_at T j (fun o => value_is_conf (o_value o))
  | TIssuance i w v => match nth_error (t_in T) i with
                       | Some inp => value_is_explicit (iss_field w inp) && value_is_explicit v && value_u64 v
                       | None => false end
  | TSpentValue i v => match nth_error spent i with Some u => value_kind_eq (o_value u) v && value_u64 v | None => false end
  (* a spent output's asset is read only to build the surjection domain and to turn an EXPLICIT spent amount into a
     commitment; with a confidential spent amount and no confidential-asset output the function never uses it.
     (An explicit amount under a CONFIDENTIAL spent asset with no surjection proof in the transaction is left out too:
     rejecting it needs the amount to be invertible modulo the group order, i.e. primality of n, which is not proved here.) *)
  | TSpentAsset i a => match nth_error spent i with
                       | Some u => asset_kind_eq (o_asset u) a
                                   && (has_conf_asset_output T || (value_is_explicit (o_value u) && asset_is_explicit (o_asset u)))
                       | None => false end
  end.

Definition rp_statement_eqb (x y : txout) : bool :=
  value_eqb (o_value x) (o_value y) && bytes_eqb (o_script x) (o_script y) && asset_eqb (o_asset x) (o_asset y).
Definition changes (t : tamper) (x : tx * list txout) : bool :=
  let '(T, spent) := x in
  match t with
  | TOutValue j v => out_at T j (fun o => negb (value_eqb (o_value o) v))
  | TOutAsset j a => out_at T j (fun o => negb (asset_eqb (o_asset o) a))
  | TSwapValue j k => out2_at T j k (fun x y => negb (value_eqb (o_value x) (o_value y)))
  | TSwapAsset j k => out2_at T j k (fun x y => negb (asset_eqb (o_asset x) (o_asset y)))
  | TRemoveRp _ | TCorruptRp _ | TRemoveSp _ | TCorruptSp _ => true
  (* exchanged proofs must be proofs of different statements *)
  | TSwapRp j k => out2_at T j k (fun x y => negb (rp_statement_eqb x y))
  | TSwapSp j k => out2_at T j k (fun x y => negb (asset_eqb (o_asset x) (o_asset y)))
  | TScript j s => out_at T j (fun o => negb (bytes_eqb (o_script o) s))
  | TIssuance i w v => match nth_error (t_in T) i with Some inp => negb (value_eqb (iss_field w inp) v) | None => false end
  | TSpentValue i v => match nth_error spent i with Some u => negb (value_eqb (o_value u) v) | None => false end
  | TSpentAsset i a => match nth_error spent i with Some u => negb (asset_eqb (o_asset u) a) | None => false end
  end.
