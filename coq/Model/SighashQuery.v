(* C03 — one signature-hash query seen from both sides: the implementation model's pre-image writer and digest on a FRESH
   cache (Model/SighashImpl.v), and the specification's message and digest (Model/SighashSpec.v). *)
From Coq Require Import List NArith Bool.
From Coq.Strings Require Import Byte.
From EV Require Import Base.Bytes Base.Codec Gen.Tables Model.Tx Model.SighashImpl Model.SighashCache Model.SighashSpec.
Import ListNotations.
Open Scope N_scope.

Section QUERY.
Variable pt_ok : bytes -> bool.
Variable maxvec : N.
Variable H : bytes -> bytes.
Variable Htag : bytes -> bytes.
Variable legacy_flags_in_index : bool.

(* the three `*_encode_signing_data_to` writers, per operation *)
Definition preimage (o : op) : M bytes :=
  match o with
  | OLegacy idx sc ty => legacy_encode pt_ok maxvec idx sc ty
  | OSegwit idx sc v ty => segwit_encode pt_ok maxvec H idx sc v ty
  | OTaproot idx pv a l ty g => a' <- lift (annex_opt a) ;; taproot_encode pt_ok maxvec H idx pv a' l ty g
  | OTapKey idx pv ty g => taproot_encode pt_ok maxvec H idx pv None None ty g
  | OTapScript idx pv lh ty g => taproot_encode pt_ok maxvec H idx pv None (Some (lh, DEFAULT_CODESEP_POS)) ty g
  | OWitnessMut _ _ => ret []
  end.
Definition impl_msg (t : tx) (o : op) : sres bytes := snd (preimage o (init t)).
Definition impl_digest (t : tx) (o : op) : sres bytes := snd (query pt_ok maxvec H Htag o (init t)).

(* the specification's view of the same query. For Prevouts::One(j, o) the spent outputs are `spent` with entry j replaced,
   and the comparison is only meaningful when j is the signed input and the type has ANYONECANPAY (`comparable`). *)
Fixpoint replace_nth {A} (n : nat) (x : A) (l : list A) : list A :=
  match l, n with [], _ => [] | _ :: r, O => x :: r | a :: r, S n' => a :: replace_nth n' x r end.
Definition spec_spent (spent : list txout) (pv : prevouts) : list txout :=
  match pv with PAll l => l | POne j o => replace_nth j o spent end.
Definition comparable (o : op) : bool :=
  match o with
  | OTaproot idx (POne j _) _ _ ty _ | OTapKey idx (POne j _) ty _ | OTapScript idx (POne j _) _ ty _ => Nat.eqb idx j && schnorr_acp ty
  | _ => true end.
Definition spec_msg (t : tx) (spent : list txout) (o : op) : option bytes :=
  match o with
  | OLegacy idx sc ty => spec_legacy_msg pt_ok legacy_flags_in_index t idx sc (ecdsa_u32 ty)
  | OSegwit idx sc v ty => spec_segwit_msg pt_ok H t idx sc v (ecdsa_u32 ty)
  | OTaproot idx pv a l ty g => spec_taproot_msg pt_ok H t (spec_spent spent pv) idx a l (schnorr_u8 ty) g
  | OTapKey idx pv ty g => spec_taproot_msg pt_ok H t (spec_spent spent pv) idx None None (schnorr_u8 ty) g
  | OTapScript idx pv lh ty g => spec_taproot_msg pt_ok H t (spec_spent spent pv) idx None (Some (lh, 4294967295)) (schnorr_u8 ty) g
  | OWitnessMut _ _ => None
  end.
Definition spec_digest (t : tx) (spent : list txout) (o : op) : option bytes :=
  match o with
  | OLegacy idx sc ty => spec_legacy_digest pt_ok H legacy_flags_in_index t idx sc (ecdsa_u32 ty)
  | OSegwit _ _ _ _ => option_map (fun m => H (H m)) (spec_msg t spent o)
  | OWitnessMut _ _ => None
  | _ => option_map Htag (spec_msg t spent o)
  end.
End QUERY.

(* ---------- vocabulary of the irrelevance statements (C03_uncommitted_irrelevant) ---------- *)
(* two inputs that differ at most in script_sig, script witness and pegin witness *)
Definition in_sig_eq (a b : txin) : Prop :=
  in_prev a = in_prev b /\ in_pegin a = in_pegin b /\ in_seq a = in_seq b /\ in_iss a = in_iss b /\
  w_amount_rp (in_wit a) = w_amount_rp (in_wit b) /\ w_keys_rp (in_wit a) = w_keys_rp (in_wit b).
(* ... at most in script_sig and in ANY witness field *)
Definition in_core_eq (a b : txin) : Prop :=
  in_prev a = in_prev b /\ in_pegin a = in_pegin b /\ in_seq a = in_seq b /\ in_iss a = in_iss b.
(* two outputs that differ at most in their witness (surjection proof, range proof) *)
Definition out_core_eq (a b : txout) : Prop :=
  out_asset a = out_asset b /\ out_value a = out_value b /\ out_nonce a = out_nonce b /\ out_script a = out_script b.
Definition tx_sig_eq (t t' : tx) : Prop :=
  tx_version t = tx_version t' /\ tx_lock t = tx_lock t' /\ Forall2 in_sig_eq (tx_in t) (tx_in t') /\ tx_out t = tx_out t'.
Definition tx_core_eq (t t' : tx) : Prop :=
  tx_version t = tx_version t' /\ tx_lock t = tx_lock t' /\ Forall2 in_core_eq (tx_in t) (tx_in t') /\ Forall2 out_core_eq (tx_out t) (tx_out t').
(* same version, lock time and inputs; outputs arbitrary *)
Definition tx_eq_but_outputs (t t' : tx) : Prop := tx_version t = tx_version t' /\ tx_lock t = tx_lock t' /\ tx_in t = tx_in t'.
(* same version, lock time, outputs, and the same input at position idx; the other inputs (and their number) arbitrary *)
Definition tx_eq_at_input (idx : nat) (t t' : tx) : Prop :=
  tx_version t = tx_version t' /\ tx_lock t = tx_lock t' /\ tx_out t = tx_out t' /\ nth_error (tx_in t) idx = nth_error (tx_in t') idx.
(* same version, lock time, inputs, and the same output at position idx *)
Definition tx_eq_at_output (idx : nat) (t t' : tx) : Prop :=
  tx_version t = tx_version t' /\ tx_lock t = tx_lock t' /\ tx_in t = tx_in t' /\ nth_error (tx_out t) idx = nth_error (tx_out t') idx.
(* the inputs with the sequence numbers of all inputs other than idx erased *)
Definition set_seq (i : txin) (q : N) : txin :=
  {| in_prev := in_prev i; in_pegin := in_pegin i; in_script := in_script i; in_seq := q; in_iss := in_iss i; in_wit := in_wit i |}.
Definition erase_other_sequences (idx : nat) (l : list txin) : list txin := mapi (fun n i => if Nat.eqb n idx then i else set_seq i 0) l.
Definition tx_eq_but_other_sequences (idx : nat) (t t' : tx) : Prop :=
  tx_version t = tx_version t' /\ tx_lock t = tx_lock t' /\ tx_out t = tx_out t' /\
  erase_other_sequences idx (tx_in t) = erase_other_sequences idx (tx_in t').
