(* The serde side of C20.

   `sval` is the serde data model: what a `Serialize` impl tells the serializer (serialize_u32, serialize_str, serialize_bytes,
   serialize_seq, serialize_tuple, serialize_struct, serialize_newtype_struct, serialize_newtype_variant, serialize_none/some ...).
   Every hand-written `Serialize` of rust-elements is a function  T -> sval  that may branch on `is_human_readable`;
   every `Deserialize` is a function  sval -> res T  over the tree a self-describing deserializer presents to the visitors
   (again branching on `is_human_readable`).  `json_view` / `cbor_view` say what serde_json 1.0 resp. serde_cbor 0.8.2 put on the
   wire for an sval, as a tree in the format's own data model (null / bool / unsigned / text / bytes / array / map):
       JSON  (human readable):  bytes -> array of numbers, tuple -> array, struct -> object keyed by field name, newtype struct ->
                                its content, newtype variant -> {"Variant": content}, none/unit -> null, some -> content
       CBOR  (not human readable, "unpacked"): bytes kept as a byte string, struct -> map keyed by field-name text,
                                newtype variant -> [ "Variant", content ], the rest as JSON.
   The deserializers of both formats select the visitor method from the wire node (serde_cbor forwards every hint to
   deserialize_any; serde_json checks the hint against the node and otherwise does the same), so a `Deserialize` impl is modelled
   by the node kinds its visitor accepts.  Sequence visitors must consume every element (both formats report trailing elements).

   Transcribed impls:  serde_struct_impl! / serde_struct_human_string_impl! (src/internal_macros.rs: map keyed by field name; unknown keys
   skipped; a repeated key overwrites; missing field is an error; the non-human-readable OutPoint also accepts a sequence),
   confidential Value / Asset / Nonce (sequence with a tag; explicit u64 byte-swapped), ExtData and Params (variant chosen by the keys
   that are present), hash newtypes, Script, blinding factors, Tweak, Address, and — from the dependencies, because they are leaves of the
   above — secp256k1-zkp's Generator / PedersenCommitment / RangeProof / SurjectionProof / Tweak, secp256k1's PublicKey, bitcoin's
   ScriptBuf, bitcoin_hashes' newtype serde, and the serde_derive output for Sequence, LockTime/Height/Time and TxOutSecrets.
   Field names, tags and direction flags are the regenerated definitions of Gen/Tables.v. *)
From Coq Require Import List NArith Bool.
From Coq.Strings Require Import Byte.
From EV Require Import Base.Bytes Base.Codec Gen.Tables Model.Tx Model.Block Model.Text.
Import ListNotations.
Open Scope N_scope.

Inductive sval :=
| VUnit | VNone | VSome (v : sval) | VBool (b : bool) | VU64 (n : N) | VStr (s : bytes) | VBytes (b : bytes)
| VSeq (l : list sval) | VTuple (l : list sval) | VMap (l : list (sval * sval))
| VStruct (name : bytes) (fields : list (bytes * sval)) | VNewtype (name : bytes) (v : sval) | VVariant (enum variant : bytes) (v : sval).

Definition byte_nums (b : bytes) : list sval := map (fun x => VU64 (b2n x)) b.

Fixpoint json_view (v : sval) : sval :=
  match v with
  | VUnit | VNone => VUnit
  | VSome x => json_view x
  | VBool b => VBool b | VU64 n => VU64 n | VStr s => VStr s
  | VBytes b => VSeq (byte_nums b)
  | VSeq l | VTuple l => VSeq (map json_view l)
  | VMap l => VMap (map (fun kv => (json_view (fst kv), json_view (snd kv))) l)
  | VStruct _ fs => VMap (map (fun kv => (VStr (fst kv), json_view (snd kv))) fs)
  | VNewtype _ x => json_view x
  | VVariant _ var x => VMap [(VStr var, json_view x)] end.

Fixpoint cbor_view (v : sval) : sval :=
  match v with
  | VUnit | VNone => VUnit
  | VSome x => cbor_view x
  | VBool b => VBool b | VU64 n => VU64 n | VStr s => VStr s
  | VBytes b => VBytes b
  | VSeq l | VTuple l => VSeq (map cbor_view l)
  | VMap l => VMap (map (fun kv => (cbor_view (fst kv), cbor_view (snd kv))) l)
  | VStruct _ fs => VMap (map (fun kv => (VStr (fst kv), cbor_view (snd kv))) fs)
  | VNewtype _ x => cbor_view x
  | VVariant _ var x => VSeq [VStr var; cbor_view x] end.

Definition view (hr : bool) : sval -> sval := if hr then json_view else cbor_view.

(* ---------- primitives ---------- *)
Definition ety {A} : res A := Err "type"%lb.
Definition de_u (bound : N) (v : sval) : res N :=            (* the integer visitors: any unsigned wire integer, then the range check *)
  match v with VU64 n => if n <? bound then Ok n else Err "range"%lb | _ => ety end.
Definition de_bool (v : sval) : res bool := match v with VBool b => Ok b | _ => ety end.
Fixpoint de_list {A} (de : sval -> res A) (l : list sval) : res (list A) :=
  match l with [] => Ok [] | v :: r => rbind (de v) (fun a => rbind (de_list de r) (fun t => Ok (a :: t))) end.
Definition de_vec {A} (de : sval -> res A) (v : sval) : res (list A) := match v with VSeq l => de_list de l | _ => ety end.   (* Vec<T> *)
Definition de_u8 (v : sval) : res byte := rbind (de_u 256 v) (fun n => Ok (n2b n)).
Definition ser_vecu8 (b : bytes) : sval := VSeq (byte_nums b).                        (* Vec<u8>: a sequence of numbers in every format *)
Definition de_vecu8 : sval -> res bytes := de_vec de_u8.
Definition ser_stack (l : list bytes) : sval := VSeq (map ser_vecu8 l).                (* Vec<Vec<u8>> *)
Definition de_stack : sval -> res (list bytes) := de_vec de_vecu8.
Definition ser_array (b : bytes) : sval := VTuple (byte_nums b).                       (* [u8; N]: a tuple *)
Definition de_array (n : nat) (v : sval) : res bytes :=
  match v with VSeq l => if Nat.eqb (length l) n then de_list de_u8 l else Err "length"%lb | _ => ety end.
Definition de_option {A} (de : sval -> res A) (v : sval) : res (option A) :=      (* deserialize_option: null is None *)
  match v with VUnit => Ok None | _ => rbind (de v) (fun a => Ok (Some a)) end.
Definition hex_decode_var (s : bytes) : res bytes := hex_pairs s.                   (* hex::decode_to_vec / Vec::from_hex *)

(* "hex string when human readable, byte string otherwise" leaves *)
(* bitcoin_hashes impl_serde_traits! (HexVisitor: visit_str / visit_bytes(utf8); BytesVisitor<N>: visit_bytes with the length check) *)
Definition ser_hash (hr db : bool) (b : bytes) : sval := if hr then VStr (print_hash db b) else VBytes b.
Definition de_hash (hr : bool) (len : N) (pb : bool) (v : sval) : res bytes :=
  if hr then match v with VStr s | VBytes s => parse_hash len pb s | _ => ety end
  else match v with VBytes b => if N.of_nat (length b) =? len then Ok b else Err "length"%lb | _ => ety end.
(* impl_sha256_midstate_wrapper!: "cheats" through sha256d::Hash, which is displayed backward *)
Definition ser_midstate (hr : bool) (b : bytes) : sval := ser_hash hr true b.
Definition de_midstate (hr : bool) (v : sval) : res bytes := de_hash hr 32 true v.
(* elements::Script: a hex string in every format *)
Definition ser_script (b : bytes) : sval := VStr (hex_of_bytes b).
Definition de_script (v : sval) : res bytes := match v with VStr s => hex_decode_var s | _ => ety end.
(* bitcoin::ScriptBuf *)
Definition ser_btc_script (hr : bool) (b : bytes) : sval := if hr then VStr (hex_of_bytes b) else VBytes b.
Definition de_btc_script (hr : bool) (v : sval) : res bytes :=
  if hr then match v with VStr s => hex_decode_var s | _ => ety end else match v with VBytes b => Ok b | _ => ety end.
(* dynafed HexBytes (ser) / HexBytes (de, deserialize_any: hex text, byte string or array of numbers) *)
Definition ser_hexbytes (hr : bool) (b : bytes) : sval := if hr then VStr (hex_of_bytes b) else VBytes b.
Definition de_hexbytes (v : sval) : res bytes :=
  match v with VStr s => hex_decode_var s | VBytes b => Ok b | VSeq l => de_list de_u8 l | _ => ety end.
(* blinding factors *)
Definition ser_bf (hr db : bool) (b : bytes) : sval := if hr then VStr (print_bf db b) else VBytes b.
Definition de_bf (hr pb : bool) (v : sval) : res bytes :=
  if hr then match v with VStr s | VBytes s => parse_bf 32 pb s | _ => ety end
  else match v with VBytes b => if Nat.eqb (length b) 32 then (if tweak_ok b then Ok b else Err "tweak"%lb) else Err "length"%lb | _ => ety end.
(* secp256k1-zkp Tweak: forward hex (from_hex into 32 bytes, then from_inner) / bytes (from_slice) *)
Definition ser_tweak (hr : bool) (b : bytes) : sval := if hr then VStr (hex_of_bytes b) else VBytes b.
Definition de_tweak (hr : bool) (v : sval) : res bytes :=
  if hr then match v with VStr s => rbind (hex_decode_fixed 32 s) (fun b => if tweak_ok b then Ok b else Err "tweak"%lb) | _ => ety end
  else match v with VBytes b => if Nat.eqb (length b) 32 then (if tweak_ok b then Ok b else Err "tweak"%lb) else Err "length"%lb | _ => ety end.

Section SERDE.
Variable pt_ok : bytes -> bool.          (* secp256k1 point validity, as in Model/Tx.v *)

(* secp256k1-zkp Generator / PedersenCommitment: lower-case hex of the 33 bytes (FromStr: from_hex into 33 bytes, then from_slice) /
   byte string (from_slice).  secp256k1 PublicKey: hex / a 33-tuple of numbers (uncompressed hex keys are not modelled). *)
Definition ser_point (hr : bool) (c : bytes) : sval := if hr then VStr (hex_of_bytes c) else VBytes c.
Definition de_point (hr : bool) (lo hi : N) (v : sval) : res bytes :=
  let chk c := if conf_wf pt_ok lo hi c then Ok c else Err "point"%lb in
  if hr then match v with VStr s => rbind (hex_decode_fixed 33 s) chk | _ => ety end
  else match v with VBytes c => chk c | _ => ety end.
Definition ser_pubkey (hr : bool) (c : bytes) : sval := if hr then VStr (hex_of_bytes c) else VTuple (byte_nums c).
Definition de_pubkey (hr : bool) (v : sval) : res bytes :=
  let chk c := if conf_wf pt_ok 2 3 c then Ok c else Err "point"%lb in
  if hr then match v with VStr s => rbind (hex_decode_fixed 33 s) chk | _ => ety end
  else rbind (de_array 33 v) chk.
(* RangeProof / SurjectionProof: hex of the serialized proof / bytes; FromStr = from_hex into len/2 bytes then from_slice *)
Definition ser_proof (hr : bool) (p : bytes) : sval := if hr then VStr (hex_of_bytes p) else VBytes p.
Definition de_proof (ok : bytes -> bool) (hr : bool) (v : sval) : res bytes :=
  let chk p := if ok p then Ok p else Err "proof"%lb in
  if hr then match v with VStr s => rbind (hex_decode_var s) chk | _ => ety end
  else match v with VBytes p => chk p | _ => ety end.
Definition ser_optproof (hr : bool) (o : option bytes) : sval := match o with None => VNone | Some p => VSome (ser_proof hr p) end.
Definition de_optproof (ok : bytes -> bool) (hr : bool) : sval -> res (option bytes) := de_option (de_proof ok hr).

(* ---------- confidential Value / Asset / Nonce: a sequence [tag] or [tag, payload] ---------- *)
Definition tag_of (name : blit) (tbl : list (bytes * N)) : N := match assoc name tbl with Some t => t | None => 255 end.
Definition variant_of (tag : N) (tbl : list (N * bytes)) : bytes := match assocN tag tbl with Some n => n | None => [] end.
Definition bswap64 (n : N) : N := be_val (le_enc 8 n).                                     (* u64::swap_bytes *)
Definition ser_value (hr : bool) (v : cvalue) : sval :=
  match v with
  | VNull => VSeq [VU64 (tag_of "Null" conf_ser_tags_Value)]
  | VExplicit n => VSeq [VU64 (tag_of "Explicit" conf_ser_tags_Value); VU64 (if value_ser_swaps then bswap64 n else n)]
  | VConf c => VSeq [VU64 (tag_of "Confidential" conf_ser_tags_Value); ser_point hr c] end.
(* visit_seq: next_element::<u8>() for the prefix, then the payload; anything left over is a trailing-elements error *)
Definition de_tagged {A} (tbl : list (N * bytes)) (null : A) (explicit conf : sval -> res A) (v : sval) : res A :=
  match v with
  | VSeq (t :: rest) =>
      rbind (de_u 256 t) (fun tag =>
        let name := variant_of tag tbl in
        if bytes_eqb name "Null"%lb then match rest with [] => Ok null | _ => Err "trailing"%lb end
        else if bytes_eqb name "Explicit"%lb then match rest with [x] => explicit x | [] => Err "missing"%lb | _ => rbind (explicit (hd VUnit rest)) (fun _ => Err "trailing"%lb) end
        else if bytes_eqb name "Confidential"%lb then match rest with [x] => conf x | [] => Err "missing"%lb | _ => rbind (conf (hd VUnit rest)) (fun _ => Err "trailing"%lb) end
        else Err "prefix"%lb)
  | VSeq [] => Err "prefix"%lb
  | _ => ety end.
Definition u64_bound : N := 18446744073709551616.
Definition de_value (hr : bool) : sval -> res cvalue :=
  de_tagged conf_de_tags_Value VNull
    (fun x => rbind (de_u u64_bound x) (fun n => Ok (VExplicit (if value_de_swaps then bswap64 n else n))))
    (fun x => rbind (de_point hr 8 9 x) (fun c => Ok (VConf c))).
Definition ser_asset (hr : bool) (a : casset) : sval :=
  match a with
  | ANull => VSeq [VU64 (tag_of "Null" conf_ser_tags_Asset)]
  | AExplicit id => VSeq [VU64 (tag_of "Explicit" conf_ser_tags_Asset); ser_midstate hr id]
  | AConf c => VSeq [VU64 (tag_of "Confidential" conf_ser_tags_Asset); ser_point hr c] end.
Definition de_asset (hr : bool) : sval -> res casset :=
  de_tagged conf_de_tags_Asset ANull
    (fun x => rbind (de_midstate hr x) (fun id => Ok (AExplicit id)))
    (fun x => rbind (de_point hr 10 11 x) (fun c => Ok (AConf c))).
Definition ser_nonce (hr : bool) (a : cnonce) : sval :=
  match a with
  | NNull => VSeq [VU64 (tag_of "Null" conf_ser_tags_Nonce)]
  | NExplicit b => VSeq [VU64 (tag_of "Explicit" conf_ser_tags_Nonce); ser_array b]
  | NConf c => VSeq [VU64 (tag_of "Confidential" conf_ser_tags_Nonce); ser_pubkey hr c] end.
Definition de_nonce (hr : bool) : sval -> res cnonce :=
  de_tagged conf_de_tags_Nonce NNull
    (fun x => rbind (de_array 32 x) (fun b => Ok (NExplicit b)))
    (fun x => rbind (de_pubkey hr x) (fun c => Ok (NConf c))).

(* ---------- structs keyed by field name ---------- *)
Definition fld (l : list bytes) (i : nat) : bytes := nth i l [].
(* visit_map: keys are read with deserialize_str (a non-text key is an error), every recognised value is deserialized when it is met *)
Fixpoint fold_fields {S} (step : bytes -> sval -> S -> res S) (kvs : list (sval * sval)) (st : S) : res S :=
  match kvs with
  | [] => Ok st
  | (VStr k, v) :: r => rbind (step k v st) (fold_fields step r)
  | _ => Err "key"%lb end.
Definition de_map {S T} (init : S) (step : bytes -> sval -> S -> res S) (finish : S -> res T) (v : sval) : res T :=
  match v with VMap kvs => rbind (fold_fields step kvs init) finish | _ => ety end.
Definition need {A} (o : option A) : res A := match o with Some a => Ok a | None => Err "missing"%lb end.
Definition is_fld (k : bytes) (l : list bytes) (i : nat) : bool := bytes_eqb k (fld l i).

(* OutPoint: serde_struct_human_string_impl! — a string when human readable; otherwise a struct whose visitor also takes a sequence *)
Definition ser_txid (hr : bool) (b : bytes) : sval := ser_hash hr hash_display_backward_Txid b.
Definition de_txid (hr : bool) : sval -> res bytes := de_hash hr hashlen_Txid hash_parse_backward_Txid.
Definition ser_outpoint (hr : bool) (o : outpoint) : sval :=
  if hr then VStr (print_outpoint o)
  else VStruct "OutPoint"%lb [(fld serde_fields_OutPoint 0, ser_txid hr (o_txid o)); (fld serde_fields_OutPoint 1, VU64 (o_vout o))].
Definition de_outpoint (hr : bool) (v : sval) : res outpoint :=
  if hr then match v with VStr s => parse_outpoint s | _ => ety end
  else match v with
       | VSeq l => match l with
                   | [a; b] => rbind (de_txid hr a) (fun t => rbind (de_u u32_bound b) (fun n => Ok {| o_txid := t; o_vout := n |}))
                   | [] | [_] => Err "length"%lb
                   | _ => Err "trailing"%lb end
       | _ => de_map (None, None)
                (fun k x st => if is_fld k serde_fields_OutPoint 0 then rbind (de_txid hr x) (fun t => Ok (Some t, snd st))
                               else if is_fld k serde_fields_OutPoint 1 then rbind (de_u u32_bound x) (fun n => Ok (fst st, Some n))
                               else Ok st)
                (fun st => rbind (need (fst st)) (fun t => rbind (need (snd st)) (fun n => Ok {| o_txid := t; o_vout := n |}))) v end.

(* AssetIssuance *)
Definition ser_issuance (hr : bool) (i : issuance) : sval :=
  let f := fld serde_fields_AssetIssuance in
  VStruct "AssetIssuance"%lb [(f 0%nat, ser_tweak hr (i_nonce i)); (f 1%nat, ser_array (i_entropy i)); (f 2%nat, ser_value hr (i_amount i)); (f 3%nat, ser_value hr (i_keys i))].
Definition de_issuance (hr : bool) : sval -> res issuance :=
  let F := serde_fields_AssetIssuance in
  de_map (None, None, None, None)
    (fun k x '(a, b, c, d) =>
       if is_fld k F 0 then rbind (de_tweak hr x) (fun y => Ok (Some y, b, c, d))
       else if is_fld k F 1 then rbind (de_array 32 x) (fun y => Ok (a, Some y, c, d))
       else if is_fld k F 2 then rbind (de_value hr x) (fun y => Ok (a, b, Some y, d))
       else if is_fld k F 3 then rbind (de_value hr x) (fun y => Ok (a, b, c, Some y))
       else Ok (a, b, c, d))
    (fun '(a, b, c, d) => rbind (need a) (fun a => rbind (need b) (fun b => rbind (need c) (fun c => rbind (need d) (fun d =>
       Ok {| i_nonce := a; i_entropy := b; i_amount := c; i_keys := d |}))))).

(* TxInWitness / TxOutWitness *)
Definition ser_inwit (hr : bool) (w : inwit) : sval :=
  let f := fld serde_fields_TxInWitness in
  VStruct "TxInWitness"%lb [(f 0%nat, ser_optproof hr (w_amount_rp w)); (f 1%nat, ser_optproof hr (w_keys_rp w)); (f 2%nat, ser_stack (w_script w)); (f 3%nat, ser_stack (w_pegin w))].
Definition de_inwit (hr : bool) : sval -> res inwit :=
  let F := serde_fields_TxInWitness in
  de_map (None, None, None, None)
    (fun k x '(a, b, c, d) =>
       if is_fld k F 0 then rbind (de_optproof rangeproof_ok hr x) (fun y => Ok (Some y, b, c, d))
       else if is_fld k F 1 then rbind (de_optproof rangeproof_ok hr x) (fun y => Ok (a, Some y, c, d))
       else if is_fld k F 2 then rbind (de_stack x) (fun y => Ok (a, b, Some y, d))
       else if is_fld k F 3 then rbind (de_stack x) (fun y => Ok (a, b, c, Some y))
       else Ok (a, b, c, d))
    (fun '(a, b, c, d) => rbind (need a) (fun a => rbind (need b) (fun b => rbind (need c) (fun c => rbind (need d) (fun d =>
       Ok {| w_amount_rp := a; w_keys_rp := b; w_script := c; w_pegin := d |}))))).
Definition ser_outwit (hr : bool) (w : outwit) : sval :=
  let f := fld serde_fields_TxOutWitness in
  VStruct "TxOutWitness"%lb [(f 0%nat, ser_optproof hr (w_surj w)); (f 1%nat, ser_optproof hr (w_range w))].
Definition de_outwit (hr : bool) : sval -> res outwit :=
  let F := serde_fields_TxOutWitness in
  de_map (None, None)
    (fun k x '(a, b) =>
       if is_fld k F 0 then rbind (de_optproof surjproof_ok hr x) (fun y => Ok (Some y, b))
       else if is_fld k F 1 then rbind (de_optproof rangeproof_ok hr x) (fun y => Ok (a, Some y))
       else Ok (a, b))
    (fun '(a, b) => rbind (need a) (fun a => rbind (need b) (fun b => Ok {| w_surj := a; w_range := b |}))).

(* TxIn: Sequence is a derived newtype struct around u32 *)
Definition ser_sequence (n : N) : sval := VNewtype "Sequence"%lb (VU64 n).
Definition de_sequence : sval -> res N := de_u u32_bound.
Definition ser_txin (hr : bool) (i : txin) : sval :=
  let f := fld serde_fields_TxIn in
  VStruct "TxIn"%lb [(f 0%nat, ser_outpoint hr (in_prev i)); (f 1%nat, VBool (in_pegin i)); (f 2%nat, ser_script (in_script i));
                     (f 3%nat, ser_sequence (in_seq i)); (f 4%nat, ser_issuance hr (in_iss i)); (f 5%nat, ser_inwit hr (in_wit i))].
Definition de_txin (hr : bool) : sval -> res txin :=
  let F := serde_fields_TxIn in
  de_map (None, None, None, None, None, None)
    (fun k x '(a, b, c, d, e, g) =>
       if is_fld k F 0 then rbind (de_outpoint hr x) (fun y => Ok (Some y, b, c, d, e, g))
       else if is_fld k F 1 then rbind (de_bool x) (fun y => Ok (a, Some y, c, d, e, g))
       else if is_fld k F 2 then rbind (de_script x) (fun y => Ok (a, b, Some y, d, e, g))
       else if is_fld k F 3 then rbind (de_sequence x) (fun y => Ok (a, b, c, Some y, e, g))
       else if is_fld k F 4 then rbind (de_issuance hr x) (fun y => Ok (a, b, c, d, Some y, g))
       else if is_fld k F 5 then rbind (de_inwit hr x) (fun y => Ok (a, b, c, d, e, Some y))
       else Ok (a, b, c, d, e, g))
    (fun '(a, b, c, d, e, g) => rbind (need a) (fun a => rbind (need b) (fun b => rbind (need c) (fun c => rbind (need d) (fun d =>
       rbind (need e) (fun e => rbind (need g) (fun g =>
       Ok {| in_prev := a; in_pegin := b; in_script := c; in_seq := d; in_iss := e; in_wit := g |}))))))).

(* TxOut *)
Definition ser_txout (hr : bool) (o : txout) : sval :=
  let f := fld serde_fields_TxOut in
  VStruct "TxOut"%lb [(f 0%nat, ser_asset hr (out_asset o)); (f 1%nat, ser_value hr (out_value o)); (f 2%nat, ser_nonce hr (out_nonce o));
                      (f 3%nat, ser_script (out_script o)); (f 4%nat, ser_outwit hr (out_wit o))].
Definition de_txout (hr : bool) : sval -> res txout :=
  let F := serde_fields_TxOut in
  de_map (None, None, None, None, None)
    (fun k x '(a, b, c, d, e) =>
       if is_fld k F 0 then rbind (de_asset hr x) (fun y => Ok (Some y, b, c, d, e))
       else if is_fld k F 1 then rbind (de_value hr x) (fun y => Ok (a, Some y, c, d, e))
       else if is_fld k F 2 then rbind (de_nonce hr x) (fun y => Ok (a, b, Some y, d, e))
       else if is_fld k F 3 then rbind (de_script x) (fun y => Ok (a, b, c, Some y, e))
       else if is_fld k F 4 then rbind (de_outwit hr x) (fun y => Ok (a, b, c, d, Some y))
       else Ok (a, b, c, d, e))
    (fun '(a, b, c, d, e) => rbind (need a) (fun a => rbind (need b) (fun b => rbind (need c) (fun c => rbind (need d) (fun d =>
       rbind (need e) (fun e => Ok {| out_asset := a; out_value := b; out_nonce := c; out_script := d; out_wit := e |})))))).

(* LockTime: serde_derive on `enum LockTime { Blocks(Height), Seconds(Time) }`; Height(u32) / Time(u32) serialize as derived newtype structs and
   deserialize through a hand-written impl with the derived wire format that ends in Height::from_consensus / Time::from_consensus
   (src/locktime.rs impl_validated_newtype_deserialize!, the repair of finding F17), so the threshold is checked.
   (Variant indices and single-entry CBOR maps, which serde_derive / serde_cbor also accept, are not modelled.) *)
Definition ser_locktime (l : locktime) : sval :=
  match l with Blocks h => VVariant "LockTime"%lb "Blocks"%lb (VNewtype "Height"%lb (VU64 h))
             | Seconds t => VVariant "LockTime"%lb "Seconds"%lb (VNewtype "Time"%lb (VU64 t)) end.
Definition de_height (v : sval) : res N := rbind (de_u u32_bound v) (fun n => if n <? C20_LOCK_TIME_THRESHOLD then Ok n else Err "notheight"%lb).
Definition de_time (v : sval) : res N := rbind (de_u u32_bound v) (fun n => if C20_LOCK_TIME_THRESHOLD <=? n then Ok n else Err "nottime"%lb).
Definition de_locktime (v : sval) : res locktime :=
  let pick k x := if bytes_eqb k "Blocks"%lb then rbind (de_height x) (fun n => Ok (Blocks n))
                  else if bytes_eqb k "Seconds"%lb then rbind (de_time x) (fun n => Ok (Seconds n)) else Err "variant"%lb in
  match v with
  | VMap [(VStr k, x)] => pick k x
  | VSeq [VStr k; x] => pick k x
  | _ => ety end.

(* Transaction (lock_time is kept as its consensus u32 in Model/Tx.v) *)
Definition ser_tx (hr : bool) (t : tx) : sval :=
  let f := fld serde_fields_Transaction in
  VStruct "Transaction"%lb [(f 0%nat, VU64 (tx_version t)); (f 1%nat, ser_locktime (locktime_from_consensus (tx_lock t)));
                            (f 2%nat, VSeq (map (ser_txin hr) (tx_in t))); (f 3%nat, VSeq (map (ser_txout hr) (tx_out t)))].
Definition de_tx (hr : bool) : sval -> res tx :=
  let F := serde_fields_Transaction in
  de_map (None, None, None, None)
    (fun k x '(a, b, c, d) =>
       if is_fld k F 0 then rbind (de_u u32_bound x) (fun y => Ok (Some y, b, c, d))
       else if is_fld k F 1 then rbind (de_locktime x) (fun y => Ok (a, Some (locktime_to_consensus y), c, d))
       else if is_fld k F 2 then rbind (de_vec (de_txin hr) x) (fun y => Ok (a, b, Some y, d))
       else if is_fld k F 3 then rbind (de_vec (de_txout hr) x) (fun y => Ok (a, b, c, Some y))
       else Ok (a, b, c, d))
    (fun '(a, b, c, d) => rbind (need a) (fun a => rbind (need b) (fun b => rbind (need c) (fun c => rbind (need d) (fun d =>
       Ok {| tx_version := a; tx_lock := b; tx_in := c; tx_out := d |}))))).

(* ---------- dynafed Params: the variant is chosen from the keys that are present ---------- *)
Definition ser_params (hr : bool) (p : params) : sval :=
  match p with
  | PNull => VStruct "Params"%lb []
  | PCompact sbs limit elided =>
      let f := fld params_ser_compact in
      VStruct "Params"%lb [(f 0%nat, ser_script sbs); (f 1%nat, VU64 limit); (f 2%nat, ser_midstate hr elided)]
  | PFull fp =>
      let f := fld params_ser_full in
      VStruct "Params"%lb [(f 0%nat, ser_script (fp_sbs fp)); (f 1%nat, VU64 (fp_limit fp)); (f 2%nat, ser_btc_script hr (fp_program fp));
                           (f 3%nat, ser_hexbytes hr (fp_script fp)); (f 4%nat, VSeq (map (ser_hexbytes hr) (fp_ext fp)))] end.
Definition de_params (hr : bool) : sval -> res params :=
  de_map (None, None, None, None, None, None)
    (fun k x '(sbs, lim, eli, prog, fscr, ext) =>
       match assoc k params_de_keys with
       | None => Ok (sbs, lim, eli, prog, fscr, ext)                                     (* Enum::Unknown: IgnoredAny *)
       | Some e =>
           if bytes_eqb e "SignblockScript"%lb then rbind (de_script x) (fun y => Ok (Some y, lim, eli, prog, fscr, ext))
           else if bytes_eqb e "SignblockWitnessLimit"%lb then rbind (de_u u32_bound x) (fun y => Ok (sbs, Some y, eli, prog, fscr, ext))
           else if bytes_eqb e "ElidedRoot"%lb then rbind (de_midstate hr x) (fun y => Ok (sbs, lim, Some y, prog, fscr, ext))
           else if bytes_eqb e "FedpegProgram"%lb then rbind (de_btc_script hr x) (fun y => Ok (sbs, lim, eli, Some y, fscr, ext))
           else if bytes_eqb e "FedpegScript"%lb then rbind (de_hexbytes x) (fun y => Ok (sbs, lim, eli, prog, Some y, ext))
           else if bytes_eqb e "ExtSpace"%lb then rbind (de_vec de_hexbytes x) (fun y => Ok (sbs, lim, eli, prog, fscr, Some y))
           else Ok (sbs, lim, eli, prog, fscr, ext) end)
    (fun '(sbs, lim, eli, prog, fscr, ext) =>
       match sbs, lim, prog, fscr, ext with
       | Some s, Some l, Some p, Some f, Some e => Ok (PFull {| fp_sbs := s; fp_limit := l; fp_program := p; fp_script := f; fp_ext := e |})
       | _, _, _, _, _ =>
           match sbs, lim, eli with
           | Some s, Some l, Some r => Ok (PCompact s l r)
           | _, _, _ => Ok PNull end end).                                                (* "We should probably be stricter about errors here" *)

(* ---------- block header ExtData ---------- *)
Definition ser_extdata (hr : bool) (e : extdata) : sval :=
  match e with
  | EProof c s => let f := fld extdata_ser_proof in VStruct "ExtData"%lb [(f 0%nat, ser_script c); (f 1%nat, ser_script s)]
  | EDynafed cur prop wit =>
      let f := fld extdata_ser_dynafed in
      VStruct "ExtData"%lb [(f 0%nat, ser_params hr cur); (f 1%nat, ser_params hr prop); (f 2%nat, ser_stack wit)] end.
Definition de_extdata (hr : bool) : sval -> res extdata :=
  de_map (None, None, None, None, None)
    (fun k x '(chal, soln, cur, prop, wit) =>
       match assoc k extdata_de_keys with
       | None => Ok (chal, soln, cur, prop, wit)
       | Some e =>
           if bytes_eqb e "Challenge"%lb then rbind (de_script x) (fun y => Ok (Some y, soln, cur, prop, wit))
           else if bytes_eqb e "Solution"%lb then rbind (de_script x) (fun y => Ok (chal, Some y, cur, prop, wit))
           else if bytes_eqb e "Current"%lb then rbind (de_params hr x) (fun y => Ok (chal, soln, Some y, prop, wit))
           else if bytes_eqb e "Proposed"%lb then rbind (de_params hr x) (fun y => Ok (chal, soln, cur, Some y, wit))
           else if bytes_eqb e "Witness"%lb then rbind (de_stack x) (fun y => Ok (chal, soln, cur, prop, Some y))
           else Ok (chal, soln, cur, prop, wit) end)
    (fun '(chal, soln, cur, prop, wit) =>
       match chal, soln with
       | Some c, Some s => Ok (EProof c s)
       | _, _ => match cur, prop, wit with
                 | Some c, Some p, Some w => Ok (EDynafed c p w)
                 | _, _, _ => Err "missing"%lb end end).

(* BlockHeader / Block *)
Definition ser_header (hr : bool) (h : header) : sval :=
  let f := fld serde_fields_BlockHeader in
  VStruct "BlockHeader"%lb [(f 0%nat, VU64 (h_version h)); (f 1%nat, ser_hash hr hash_display_backward_BlockHash (h_prev h));
                            (f 2%nat, ser_hash hr hash_display_backward_TxMerkleNode (h_merkle h)); (f 3%nat, VU64 (h_time h));
                            (f 4%nat, VU64 (h_height h)); (f 5%nat, ser_extdata hr (h_ext h))].
Definition de_header (hr : bool) : sval -> res header :=
  let F := serde_fields_BlockHeader in
  de_map (None, None, None, None, None, None)
    (fun k x '(a, b, c, d, e, g) =>
       if is_fld k F 0 then rbind (de_u u32_bound x) (fun y => Ok (Some y, b, c, d, e, g))
       else if is_fld k F 1 then rbind (de_hash hr hashlen_BlockHash hash_parse_backward_BlockHash x) (fun y => Ok (a, Some y, c, d, e, g))
       else if is_fld k F 2 then rbind (de_hash hr hashlen_TxMerkleNode hash_parse_backward_TxMerkleNode x) (fun y => Ok (a, b, Some y, d, e, g))
       else if is_fld k F 3 then rbind (de_u u32_bound x) (fun y => Ok (a, b, c, Some y, e, g))
       else if is_fld k F 4 then rbind (de_u u32_bound x) (fun y => Ok (a, b, c, d, Some y, g))
       else if is_fld k F 5 then rbind (de_extdata hr x) (fun y => Ok (a, b, c, d, e, Some y))
       else Ok (a, b, c, d, e, g))
    (fun '(a, b, c, d, e, g) => rbind (need a) (fun a => rbind (need b) (fun b => rbind (need c) (fun c => rbind (need d) (fun d =>
       rbind (need e) (fun e => rbind (need g) (fun g =>
       Ok {| h_version := a; h_prev := b; h_merkle := c; h_time := d; h_height := e; h_ext := g |}))))))).
Definition ser_block (hr : bool) (b : block) : sval :=
  let f := fld serde_fields_Block in
  VStruct "Block"%lb [(f 0%nat, ser_header hr (b_header b)); (f 1%nat, VSeq (map (ser_tx hr) (b_txs b)))].
Definition de_block (hr : bool) : sval -> res block :=
  let F := serde_fields_Block in
  de_map (None, None)
    (fun k x '(a, b) =>
       if is_fld k F 0 then rbind (de_header hr x) (fun y => Ok (Some y, b))
       else if is_fld k F 1 then rbind (de_vec (de_tx hr) x) (fun y => Ok (a, Some y))
       else Ok (a, b))
    (fun '(a, b) => rbind (need a) (fun a => rbind (need b) (fun b => Ok {| b_header := a; b_txs := b |}))).

(* ---------- TxOutSecrets (serde_derive: a struct; duplicate keys are an error; a sequence is accepted too) ---------- *)
Record secrets := { s_asset : bytes; s_abf : bytes; s_value : N; s_vbf : bytes }.
Definition secrets_fields : list bytes := ["asset"%lb : bytes; "asset_bf"%lb : bytes; "value"%lb : bytes; "value_bf"%lb : bytes].
Definition ser_secrets (hr : bool) (s : secrets) : sval :=
  let f := fld secrets_fields in
  VStruct "TxOutSecrets"%lb [(f 0%nat, ser_midstate hr (s_asset s)); (f 1%nat, ser_bf hr hash_display_backward_AssetBlindingFactor (s_abf s));
                             (f 2%nat, VU64 (s_value s)); (f 3%nat, ser_bf hr hash_display_backward_ValueBlindingFactor (s_vbf s))].
Definition dup {A} (o : option A) : bool := match o with Some _ => true | None => false end.
Definition de_secrets (hr : bool) (v : sval) : res secrets :=
  let F := secrets_fields in
  let d_asset := de_midstate hr in
  let d_abf := de_bf hr hash_parse_backward_AssetBlindingFactor in
  let d_vbf := de_bf hr hash_parse_backward_ValueBlindingFactor in
  match v with
  | VSeq l => match l with
              | [a; b; c; d] => rbind (d_asset a) (fun a => rbind (d_abf b) (fun b => rbind (de_u u64_bound c) (fun c => rbind (d_vbf d) (fun d =>
                                  Ok {| s_asset := a; s_abf := b; s_value := c; s_vbf := d |}))))
              | _ => Err "length"%lb end
  | _ => de_map (None, None, None, None)
           (fun k x '(a, b, c, d) =>
              if is_fld k F 0 then (if dup a then Err "duplicate"%lb else rbind (d_asset x) (fun y => Ok (Some y, b, c, d)))
              else if is_fld k F 1 then (if dup b then Err "duplicate"%lb else rbind (d_abf x) (fun y => Ok (a, Some y, c, d)))
              else if is_fld k F 2 then (if dup c then Err "duplicate"%lb else rbind (de_u u64_bound x) (fun y => Ok (a, b, Some y, d)))
              else if is_fld k F 3 then (if dup d then Err "duplicate"%lb else rbind (d_vbf x) (fun y => Ok (a, b, c, Some y)))
              else Ok (a, b, c, d))
           (fun '(a, b, c, d) => rbind (need a) (fun a => rbind (need b) (fun b => rbind (need c) (fun c => rbind (need d) (fun d =>
              Ok {| s_asset := a; s_abf := b; s_value := c; s_vbf := d |}))))) v end.

(* ---------- Address, sighash types: a string in every format, through Display / FromStr ---------- *)
Definition ser_string {A} (print : A -> bytes) (a : A) : sval := VStr (print a).
Definition de_string {A} (parse : bytes -> res A) (v : sval) : res A := match v with VStr s => parse s | _ => ety end.

(* ---------- the invariants of the Rust types (what `for every value of the type` means) ---------- *)
Definition len_is (n : nat) (b : bytes) : bool := Nat.eqb (length b) n.
Definition u32_ok (n : N) : bool := n <? u32_bound.
Definition swf_value (v : cvalue) : bool := match v with VNull => true | VExplicit n => n <? u64_bound | VConf c => conf_wf pt_ok 8 9 c end.
Definition swf_asset (a : casset) : bool := match a with ANull => true | AExplicit id => len_is 32 id | AConf c => conf_wf pt_ok 10 11 c end.
Definition swf_nonce (a : cnonce) : bool := match a with NNull => true | NExplicit b => len_is 32 b | NConf c => conf_wf pt_ok 2 3 c end.
Definition swf_outpoint (o : outpoint) : bool := len_is 32 (o_txid o) && u32_ok (o_vout o).
Definition swf_issuance (i : issuance) : bool :=
  len_is 32 (i_nonce i) && tweak_ok (i_nonce i) && len_is 32 (i_entropy i) && swf_value (i_amount i) && swf_value (i_keys i).
Definition swf_optproof (ok : bytes -> bool) (o : option bytes) : bool := match o with None => true | Some p => ok p end.
Definition swf_inwit (w : inwit) : bool := swf_optproof rangeproof_ok (w_amount_rp w) && swf_optproof rangeproof_ok (w_keys_rp w).
Definition swf_outwit (w : outwit) : bool := swf_optproof surjproof_ok (w_surj w) && swf_optproof rangeproof_ok (w_range w).
Definition swf_txin (i : txin) : bool := swf_outpoint (in_prev i) && u32_ok (in_seq i) && swf_issuance (in_iss i) && swf_inwit (in_wit i).
Definition swf_txout (o : txout) : bool := swf_asset (out_asset o) && swf_value (out_value o) && swf_nonce (out_nonce o) && swf_outwit (out_wit o).
Definition swf_tx (t : tx) : bool := u32_ok (tx_version t) && u32_ok (tx_lock t) && forallb swf_txin (tx_in t) && forallb swf_txout (tx_out t).
Definition swf_params (p : params) : bool :=
  match p with PNull => true | PCompact _ l e => u32_ok l && len_is 32 e | PFull f => u32_ok (fp_limit f) end.
Definition swf_extdata (e : extdata) : bool := match e with EProof _ _ => true | EDynafed c p _ => swf_params c && swf_params p end.
Definition swf_header (h : header) : bool :=
  u32_ok (h_version h) && len_is 32 (h_prev h) && len_is 32 (h_merkle h) && u32_ok (h_time h) && u32_ok (h_height h) && swf_extdata (h_ext h).
Definition swf_block (b : block) : bool := swf_header (b_header b) && forallb swf_tx (b_txs b).
Definition swf_bf (b : bytes) : bool := len_is 32 b && tweak_ok b.
Definition swf_secrets (s : secrets) : bool := len_is 32 (s_asset s) && swf_bf (s_abf s) && (s_value s <? u64_bound) && swf_bf (s_vbf s).
End SERDE.
