(* C03 — the three Elements signing messages, written declaratively from the consensus definitions.

   TRUSTED BASE.  No Elements Core source is available offline; this file is a careful transcription, from memory of
   Elements Core's `SignatureHash` (SigVersion::BASE, ::WITNESS_V0), `CTransactionSignatureSerializer`, `SignatureHashSchnorr`
   and of BIP143 / BIP341 / BIP342, cross-checked against the doc comments of src/sighash.rs — NOT a copy of the Rust control
   flow.  It is written on the numeric hash type exactly as consensus does (`nHashType & 0x1f`, `& 0x80`, `& 3`), per field
   of the message, with no cache and no "transaction to sign" object.
   Only the primitive consensus encoders (integers, compact size, byte vectors, confidential value/asset, issuance, CTxOut)
   are shared with the implementation model: they are the codecs of Model/Tx.v, proved lawful for C01.

   Open question Q1 (DESIGN): whether the legacy input serializer writes the outpoint index with the pegin/issuance flag
   bits folded in (as CTxIn's own serialization does) or the plain COutPoint.  It is the explicit parameter
   `legacy_flags_in_index`; rust-elements implements `true`.  (The repository's pinned legacy vector with an issuing input,
   produced by Elements Core, is reproduced by `true` and not by `false`: Props/C03.v, C03_Q1_pinned_vector.)

   `None` means: consensus defines no message for this query (input index out of range, invalid hash type, missing spent
   outputs, SIGHASH_SINGLE without a matching output under taproot) — or, for the legacy algorithm with SIGHASH_SINGLE and
   no matching output, that the DIGEST is the constant `one` and no message is hashed at all. *)
From Coq Require Import List NArith Bool.
From Coq.Strings Require Import Byte.
From EV Require Import Base.Bytes Base.Codec Model.Tx.
Import ListNotations.
Open Scope N_scope.

(* hash type bits (script/interpreter.h) *)
Definition SIGHASH_DEFAULT : N := 0.
Definition SIGHASH_ALL : N := 1.
Definition SIGHASH_NONE : N := 2.
Definition SIGHASH_SINGLE : N := 3.
Definition SIGHASH_ANYONECANPAY : N := 128.
Definition SIGHASH_OUTPUT_MASK : N := 3.
Definition SIGHASH_INPUT_MASK : N := 128.
(* legacy and segwit v0: `nHashType & 0x1f` *)
Definition hash_single (ht : N) : bool := N.land ht 31 =? SIGHASH_SINGLE.
Definition hash_none (ht : N) : bool := N.land ht 31 =? SIGHASH_NONE.
Definition anyone_can_pay (ht : N) : bool := negb (N.land ht SIGHASH_ANYONECANPAY =? 0).
(* taproot *)
Definition tap_type_valid (ht : N) : bool := (ht <=? 3) || ((129 <=? ht) && (ht <=? 131)).
Definition tap_output_type (ht : N) : N := if ht =? SIGHASH_DEFAULT then SIGHASH_ALL else N.land ht SIGHASH_OUTPUT_MASK.
Definition tap_input_acp (ht : N) : bool := N.land ht SIGHASH_INPUT_MASK =? SIGHASH_ANYONECANPAY.

Definition uint256_one : bytes := x01 :: repeat x00 31.      (* uint256::ONE as stored in memory (little endian) *)
Definition zero256 : bytes := repeat x00 32.
(* CTxOut(): SetNull() — null asset, null value, null nonce, empty script *)
Definition null_txout : txout := {| out_asset := ANull; out_value := VNull; out_nonce := NNull; out_script := []; out_wit := empty_outwit |}.

Fixpoint mapi_from {A B} (n : nat) (f : nat -> A -> B) (l : list A) : list B :=
  match l with [] => [] | a :: r => f n a :: mapi_from (S n) f r end.
Definition mapi {A B} (f : nat -> A -> B) (l : list A) : list B := mapi_from 0 f l.

Section SPEC.
Variable pt_ok : bytes -> bool.
Variable maxvec : N.
Variable H : bytes -> bytes.                 (* SHA-256 *)
Variable Htag : bytes -> bytes.              (* tagged hash "TapSighash/elements" *)
Variable legacy_flags_in_index : bool.       (* Q1 *)

(* ---- primitive consensus serializations ---- *)
Definition ser_u32 (n : N) : bytes := le_enc 4 n.
Definition compact_size (n : N) : bytes := vi_enc n.
Definition ser_bytes (b : bytes) : bytes := compact_size (N.of_nat (length b)) ++ b.       (* byte vector / CScript *)
Definition ser_value : cvalue -> bytes := enc (c_value pt_ok).                              (* CConfidentialValue *)
Definition ser_asset : casset -> bytes := enc (c_asset pt_ok).                              (* CConfidentialAsset *)
Definition ser_nonce : cnonce -> bytes := enc (c_nonce pt_ok).
Definition ser_issuance (i : issuance) : bytes := i_nonce i ++ i_entropy i ++ ser_value (i_amount i) ++ ser_value (i_keys i).   (* CAssetIssuance *)
Definition ser_outpoint (o : outpoint) : bytes := o_txid o ++ ser_u32 (o_vout o).           (* COutPoint: hash, n *)
Definition ser_txout (o : txout) : bytes := ser_asset (out_asset o) ++ ser_value (out_value o) ++ ser_nonce (out_nonce o) ++ ser_bytes (out_script o).   (* CTxOut *)
Definition ser_proof (p : option bytes) : bytes := ser_bytes (match p with Some b => b | None => [] end).   (* a proof as a byte vector; absent = empty *)
Definition issuance_null (i : txin) : bool := issuance_is_null (in_iss i).                  (* CAssetIssuance::IsNull *)
Definition sha256d (b : bytes) : bytes := H (H b).

(* =====================================================================================================================
   1. Legacy (SigVersion::BASE): CTransactionSignatureSerializer, then the 4-byte hash type, hashed twice.
   ===================================================================================================================== *)
(* the index as CTxIn serializes it: flag bits set unless this is the coinbase index *)
Definition index_with_flags (i : txin) : N := wire_vout i.
Definition legacy_prevout (i : txin) : bytes :=
  o_txid (in_prev i) ++ ser_u32 (if legacy_flags_in_index then index_with_flags i else o_vout (in_prev i)).
(* SerializeInput(nInput) while signing input nIn *)
Definition legacy_input (ht : N) (nIn : nat) (script_code : bytes) (nInput : nat) (i : txin) : bytes :=
  legacy_prevout i
  ++ (if Nat.eqb nInput nIn then ser_bytes script_code else ser_bytes [])                    (* other inputs' scripts are blanked *)
  ++ ser_u32 (if negb (Nat.eqb nInput nIn) && (hash_single ht || hash_none ht) then 0 else in_seq i)   (* "let the others update at will" *)
  ++ (if issuance_null i then [] else ser_issuance (in_iss i)).
(* SerializeOutput(nOutput) *)
Definition legacy_output (ht : N) (nIn : nat) (nOutput : nat) (o : txout) : bytes :=
  if hash_single ht && negb (Nat.eqb nOutput nIn) then ser_txout null_txout else ser_txout o.
(* the SIGHASH_SINGLE out-of-range rule: the signature hash IS the constant one *)
Definition legacy_single_bug (t : tx) (nIn : nat) (ht : N) : bool := hash_single ht && Nat.leb (length (tx_out t)) nIn.

Definition spec_legacy_msg (t : tx) (nIn : nat) (script_code : bytes) (ht : N) : option bytes :=
  match nth_error (tx_in t) nIn with
  | None => None
  | Some me =>
      if legacy_single_bug t nIn ht then None else
      Some (ser_u32 (tx_version t)
            ++ (if anyone_can_pay ht then compact_size 1 ++ legacy_input ht nIn script_code nIn me
                else compact_size (N.of_nat (length (tx_in t))) ++ concat (mapi (legacy_input ht nIn script_code) (tx_in t)))
            ++ (if hash_none ht then compact_size 0
                else if hash_single ht then compact_size (N.of_nat (nIn + 1)) ++ concat (mapi (legacy_output ht nIn) (firstn (nIn + 1) (tx_out t)))
                else compact_size (N.of_nat (length (tx_out t))) ++ concat (map ser_txout (tx_out t)))
            ++ ser_u32 (tx_lock t)
            ++ ser_u32 ht)
  end.
Definition spec_legacy_digest (t : tx) (nIn : nat) (script_code : bytes) (ht : N) : option bytes :=
  match nth_error (tx_in t) nIn with
  | None => None
  | Some _ => if legacy_single_bug t nIn ht then Some uint256_one
              else option_map sha256d (spec_legacy_msg t nIn script_code ht)
  end.

(* =====================================================================================================================
   2. Segwit v0 (BIP143) with the Elements extensions: hashIssuance, confidential amount, the input's issuance.
   ===================================================================================================================== *)
Definition hash_prevouts (t : tx) : bytes := sha256d (concat (map (fun i => ser_outpoint (in_prev i)) (tx_in t))).
Definition hash_sequence (t : tx) : bytes := sha256d (concat (map (fun i => ser_u32 (in_seq i)) (tx_in t))).
Definition issuance_or_zero (i : txin) : bytes := if issuance_null i then [x00] else ser_issuance (in_iss i).
Definition hash_issuance (t : tx) : bytes := sha256d (concat (map issuance_or_zero (tx_in t))).
Definition hash_outputs (t : tx) : bytes := sha256d (concat (map ser_txout (tx_out t))).

Definition spec_segwit_msg (t : tx) (nIn : nat) (script_code : bytes) (amount : cvalue) (ht : N) : option bytes :=
  match nth_error (tx_in t) nIn with
  | None => None
  | Some me =>
      Some (ser_u32 (tx_version t)
            ++ (if anyone_can_pay ht then zero256 else hash_prevouts t)
            ++ (if negb (anyone_can_pay ht) && negb (hash_single ht) && negb (hash_none ht) then hash_sequence t else zero256)
            ++ (if anyone_can_pay ht then zero256 else hash_issuance t)
            ++ ser_outpoint (in_prev me)
            ++ ser_bytes script_code
            ++ ser_value amount
            ++ ser_u32 (in_seq me)
            ++ (if issuance_null me then [] else ser_issuance (in_iss me))
            ++ (if negb (hash_single ht) && negb (hash_none ht) then hash_outputs t
                else if hash_single ht then match nth_error (tx_out t) nIn with Some o => sha256d (ser_txout o) | None => zero256 end
                else zero256)
            ++ ser_u32 (tx_lock t)
            ++ ser_u32 ht)
  end.
Definition spec_segwit_digest t nIn script_code amount ht : option bytes := option_map sha256d (spec_segwit_msg t nIn script_code amount ht).

(* =====================================================================================================================
   3. Taproot (BIP341/342) with the Elements extensions: genesis hash twice instead of the epoch byte, outpoint flags,
      asset/amount of the spent outputs, issuances, issuance range proofs, output witnesses.
   ===================================================================================================================== *)
(* GetOutpointFlag: the pegin and issuance flag bits of the serialized index, shifted down by 24 *)
Definition outpoint_flag_byte (i : txin) : N := (if in_pegin i then 64 else 0) + (if issuance_null i then 0 else 128).
Definition issuance_proofs (i : txin) : bytes := ser_proof (w_amount_rp (in_wit i)) ++ ser_proof (w_keys_rp (in_wit i)).
Definition output_witness (o : txout) : bytes := ser_proof (w_surj (out_wit o)) ++ ser_proof (w_range (out_wit o)).   (* CTxOutWitness *)
Definition sha_outpoint_flags (t : tx) : bytes := H (map (fun i => n2b (outpoint_flag_byte i)) (tx_in t)).
Definition sha_prevouts (t : tx) : bytes := H (concat (map (fun i => ser_outpoint (in_prev i)) (tx_in t))).
Definition sha_asset_amounts (spent : list txout) : bytes := H (concat (map (fun o => ser_asset (out_asset o) ++ ser_value (out_value o)) spent)).
Definition sha_scriptpubkeys (spent : list txout) : bytes := H (concat (map (fun o => ser_bytes (out_script o)) spent)).
Definition sha_sequences (t : tx) : bytes := H (concat (map (fun i => ser_u32 (in_seq i)) (tx_in t))).
Definition sha_issuances (t : tx) : bytes := H (concat (map issuance_or_zero (tx_in t))).
Definition sha_issuance_rangeproofs (t : tx) : bytes := H (concat (map issuance_proofs (tx_in t))).
Definition sha_outputs (t : tx) : bytes := H (concat (map ser_txout (tx_out t))).
Definition sha_output_witnesses (t : tx) : bytes := H (concat (map output_witness (tx_out t))).
Definition annex_valid (a : option bytes) : bool := match a with None => true | Some (b :: _) => b2n b =? 80 | Some [] => false end.   (* 0x50 *)

Definition spec_taproot_msg (t : tx) (spent : list txout) (in_pos : nat) (annex : option bytes) (leaf : option (bytes * N))
                            (ht : N) (genesis : bytes) : option bytes :=
  if negb (tap_type_valid ht) then None else
  if negb (Nat.eqb (length spent) (length (tx_in t))) then None else         (* spent outputs must be known for every input *)
  if negb (annex_valid annex) then None else
  match nth_error (tx_in t) in_pos, nth_error spent in_pos with
  | Some me, Some prev =>
      match (if tap_output_type ht =? SIGHASH_SINGLE
             then option_map (fun o => H (ser_txout o) ++ H (output_witness o)) (nth_error (tx_out t) in_pos)   (* fails without the output *)
             else Some []) with
      | None => None
      | Some single_output =>
          Some (genesis ++ genesis                                           (* hash_genesis_block twice; no epoch byte *)
                ++ [n2b ht]
                ++ ser_u32 (tx_version t) ++ ser_u32 (tx_lock t)
                ++ (if tap_input_acp ht then [] else
                      sha_outpoint_flags t ++ sha_prevouts t ++ sha_asset_amounts spent ++ sha_scriptpubkeys spent
                      ++ sha_sequences t ++ sha_issuances t ++ sha_issuance_rangeproofs t)
                ++ (if tap_output_type ht =? SIGHASH_ALL then sha_outputs t ++ sha_output_witnesses t else [])
                ++ [n2b (2 * (if leaf then 1 else 0) + (if annex then 1 else 0))]          (* spend_type = ext_flag * 2 + annex_present *)
                ++ (if tap_input_acp ht then
                      [n2b (outpoint_flag_byte me)] ++ ser_outpoint (in_prev me)
                      ++ ser_asset (out_asset prev) ++ ser_value (out_value prev) ++ ser_bytes (out_script prev)
                      ++ ser_u32 (in_seq me)
                      ++ (if issuance_null me then [x00] else ser_issuance (in_iss me) ++ H (issuance_proofs me))
                    else ser_u32 (N.of_nat in_pos))
                ++ (match annex with Some a => H (ser_bytes a) | None => [] end)
                ++ single_output
                ++ (match leaf with Some (tapleaf_hash, codesep_pos) => tapleaf_hash ++ [x00] ++ ser_u32 codesep_pos | None => [] end))
      end
  | _, _ => None
  end.
Definition spec_taproot_digest t spent in_pos annex leaf ht genesis : option bytes :=
  option_map Htag (spec_taproot_msg t spent in_pos annex leaf ht genesis).
End SPEC.
