(* C11, JSON contract clause: ContractHash::from_json_contract (src/issuance.rs) parses the text into a
   BTreeMap<String, serde_json::Value> (serde_json's own Map is a BTreeMap too: feature `preserve_order` is off) and hashes
   the compact re-serialisation, i.e. the JSON tree printed with the keys of EVERY object in byte order of the key string.
   Scalars and key literals are kept as the tokens serde_json prints (number formatting and string escaping are serde_json's). *)
From Coq Require Import List NArith Bool.
From Coq.Strings Require Import Byte.
From EV Require Import Base.Bytes.
Import ListNotations.
Open Scope N_scope.

Inductive json :=
| JLeaf (tok : bytes)                               (* a number, string literal (with quotes), true, false or null, as printed *)
| JArr (l : list json)
| JObj (l : list (bytes * (bytes * json))).         (* (raw key bytes — the sort key —, (key literal as printed, value)) *)

(* byte-lexicographic order of Rust's `String: Ord` *)
Fixpoint bytes_leb (a b : bytes) : bool :=
  match a, b with
  | [], _ => true
  | _ :: _, [] => false
  | x :: a', y :: b' => if b2n x <? b2n y then true else if b2n y <? b2n x then false else bytes_leb a' b' end.

Section SORT.
Variable A : Type.
Fixpoint insert_by (e : bytes * A) (l : list (bytes * A)) : list (bytes * A) :=
  match l with [] => [e] | h :: t => if bytes_leb (fst e) (fst h) then e :: l else h :: insert_by e t end.
Fixpoint isort (l : list (bytes * A)) : list (bytes * A) :=
  match l with [] => [] | h :: t => insert_by h (isort t) end.
End SORT.
Arguments insert_by {A}. Arguments isort {A}.

Fixpoint join_with (sep : bytes) (l : list bytes) : bytes :=
  match l with [] => [] | [x] => x | x :: r => x ++ sep ++ join_with sep r end.

Fixpoint canon (j : json) : bytes :=
  match j with
  | JLeaf t => t
  | JArr l => [x5b] ++ join_with [x2c] (map canon l) ++ [x5d]
  | JObj l =>
      let rendered := map (fun e => match e with (k, (lit, v)) => (k, lit ++ [x3a] ++ canon v) end) l in
      [x7b] ++ join_with [x2c] (map snd (isort rendered)) ++ [x7d]
  end.
