(* C08 — the PSET <-> transaction view, BIP370 lock time selection and the unique id, following
   src/pset/mod.rs (from_tx, locktime, unique_id, sanity_check, extract_tx), src/pset/map/input.rs (from_txin, is_pegin,
   asset_issuance) and src/pset/map/output.rs (from_txout).  Transactions are records of fields (their consensus byte
   encoding is C01's model); field values are the canonical byte strings of the PSET value codecs.  No proofs here.
   Data read from the source on every run (Gen/Tables.v): the arm order of locktime()'s final match, the TxIn fields
   unique_id() resets, whether is_pegin() exempts the coinbase index, LOCK_TIME_THRESHOLD. *)
From Coq Require Import List NArith Bool.
From Coq.Strings Require Import Byte.
From EV Require Import Base.Bytes Base.Codec Gen.Tables Model.PsetMap.
Import ListNotations.
Open Scope N_scope.

(* ---------------------------------------------------------------- transactions as records of fields *)
Inductive cval := CNull | CExplicit (v : bytes) | CConf (c : bytes).    (* confidential::{Value, Asset, Nonce} *)
Record txin := mk_txin {
  ti_txid : bytes; ti_vout : N; ti_pegin : bool; ti_script_sig : bytes; ti_sequence : N;
  ti_iss_nonce : bytes; ti_iss_entropy : bytes; ti_iss_amount : cval; ti_iss_keys : cval;
  (* witness *)
  ti_amount_rangeproof : option bytes; ti_keys_rangeproof : option bytes; ti_script_witness : bytes; ti_pegin_witness : bytes }.
Record txout := mk_txout {
  to_asset : cval; to_value : cval; to_nonce : cval; to_spk : bytes;
  (* witness *)
  to_surjection_proof : option bytes; to_rangeproof : option bytes }.
Record tx := mk_tx { tx_version : N; tx_lock_time : N; tx_ins : list txin; tx_outs : list txout }.

Definition zero32 : bytes := repeat x00 32.
Definition empty_witness : bytes := [x00].          (* Vec<Vec<u8>>::default() in the PSET value codec: a zero count *)
Definition seq_max : N := 0xffffffff.
Definition cv_is_null (c : cval) : bool := match c with CNull => true | _ => false end.
Definition cv_is_conf (c : cval) : bool := match c with CConf _ => true | _ => false end.
Definition ti_has_issuance (i : txin) : bool := negb (cv_is_null (ti_iss_amount i) && cv_is_null (ti_iss_keys i)).
Definition to_is_partially_blinded (o : txout) : bool :=
  cv_is_conf (to_asset o) || cv_is_conf (to_value o)
  || negb (match to_surjection_proof o, to_rangeproof o with None, None => true | _, _ => false end).

(* ---------------------------------------------------------------- lock time (PartiallySignedTransaction::locktime) *)
(* enum Locktime<T> { Unconstrained, Minimum(T), Disallowed } with the derived Ord *)
Inductive lt3 := LU | LMin (x : N) | LD.
Definition lt3_max (a b : lt3) : lt3 :=      (* cmp::max(a, b): the second argument unless a > b *)
  match a, b with
  | LD, LD => b | LD, _ => a | _, LD => b
  | LMin x, LMin y => if y <? x then a else b
  | LMin _, LU => a | LU, _ => b
  end.
Definition req_time (i : pmap) : option N := opt_u32 (unk i F_req_time).
Definition req_height (i : pmap) : option N := opt_u32 (unk i F_req_height).
Definition lt_step (st : lt3 * lt3) (i : pmap) : lt3 * lt3 :=
  match req_time i, req_height i with
  | Some rt, Some rh => (lt3_max (fst st) (LMin rt), lt3_max (snd st) (LMin rh))
  | Some rt, None => (lt3_max (fst st) (LMin rt), LD)
  | None, Some rh => (LD, lt3_max (snd st) (LMin rh))
  | None, None => st
  end.
Definition lt_fold (ins : list pmap) : lt3 * lt3 := fold_left lt_step ins (LU, LU).
Definition pat_match (p : lt_pat) (v : lt3) : bool :=
  match p, v with LP_Any, _ => true | LP_U, LU => true | LP_Min, LMin _ => true | LP_D, LD => true | _, _ => false end.
Fixpoint select_arm (arms : list (lt_pat * lt_pat * lt_act)) (t h : lt3) : option lt_act :=
  match arms with
  | [] => None
  | (pt, ph, a) :: r => if pat_match pt t && pat_match ph h then Some a else select_arm r t h
  end.
Definition fallback_of (g : pmap) : N := match unk g F_fallback with Some v => u32_of v | None => 0 end.
Definition locktime_with (arms : list (lt_pat * lt_pat * lt_act)) (p : pset) : outcome N :=
  let st := lt_fold (pinputs p) in
  match select_arm arms (fst st) (snd st) with
  | Some LA_Fallback => Val (fallback_of (pglobal p))
  | Some LA_Time => match fst st with LMin x => Val x | _ => Panic P_model end
  | Some LA_Height => match snd st with LMin x => Val x | _ => Panic P_model end
  | Some LA_Conflict => Fail E_LocktimeConflict
  | Some LA_Unreachable => Panic P_locktime_unreachable
  | None => Panic P_model
  end.
Definition locktime : pset -> outcome N := locktime_with locktime_arms.

(* BIP370, written from the BIP text: "If none of the inputs have a required time or height lock time, the fallback (0 when
   absent) must be used.  Otherwise the field chosen is the one supported by all of the inputs that specify a lock time in
   either field (inputs specifying none, or both, support both); the lock time is the maximum value of the chosen type; if both
   types are possible the height must be chosen." and it is an error when no type is supported by all. *)
Definition constrains (i : pmap) : bool := match req_time i, req_height i with None, None => false | _, _ => true end.
Definition has_time (i : pmap) : bool := match req_time i with Some _ => true | None => false end.
Definition has_height (i : pmap) : bool := match req_height i with Some _ => true | None => false end.
Definition max_of (l : list (option N)) : N := fold_left (fun m o => match o with Some x => N.max m x | None => m end) l 0.
Definition bip370 (p : pset) : outcome N :=
  let cs := filter constrains (pinputs p) in
  match cs with
  | [] => Val (fallback_of (pglobal p))
  | _ => if forallb has_height cs then Val (max_of (map req_height cs))
         else if forallb has_time cs then Val (max_of (map req_time cs))
         else Fail E_LocktimeConflict
  end.

(* ---------------------------------------------------------------- extract_tx *)
Definition count_of (v : option bytes) : option N :=
  match v with Some b => match vi_dec b with Some (n, []) => Some n | _ => None end | None => None end.
Definition sanity_check (p : pset) : outcome unit :=
  match count_of (unk (pglobal p) F_input_count), count_of (unk (pglobal p) F_output_count) with
  | Some ni, Some no =>
      if negb (ni =? N.of_nat (length (pinputs p))) then Fail E_InputCountMismatch
      else if negb (no =? N.of_nat (length (poutputs p))) then Fail E_OutputCountMismatch
      else Val tt
  | _, _ => Panic P_model
  end.
Definition prev_index (i : pmap) : N := match unk i F_prev_index with Some v => u32_of v | None => 0 end.
Definition is_pegin_with (exempt : bool) (i : pmap) : bool :=
  if exempt && (prev_index i =? 0xffffffff) then false else N.testbit (prev_index i) 30.
Definition is_pegin : pmap -> bool := is_pegin_with is_pegin_exempts_coinbase.
Definition or_default (v : option bytes) (d : bytes) : bytes := match v with Some x => x | None => d end.
Definition conf_pair (explicit comm : option bytes) : cval :=           (* (_, Some(comm)) wins; then explicit; else Null *)
  match explicit, comm with _, Some c => CConf c | Some x, None => CExplicit x | None, None => CNull end.
Definition txin_of_with (exempt : bool) (i : pmap) : txin :=
  let idx := prev_index i in
  {| ti_txid := or_default (unk i F_prev_txid) zero32;
     ti_vout := if idx =? 0xffffffff then idx else N.land idx 0x3fffffff;        (* & !((1<<30)|(1<<31)) on a u32 *)
     ti_pegin := is_pegin_with exempt i;
     ti_script_sig := or_default (unk i F_final_script_sig) [];
     ti_sequence := match unk i F_sequence with Some v => u32_of v | None => seq_max end;
     ti_iss_nonce := or_default (unk i F_iss_nonce) zero32;
     ti_iss_entropy := or_default (unk i F_iss_entropy) zero32;
     ti_iss_amount := conf_pair (unk i F_iss_amount) (unk i F_iss_comm);
     ti_iss_keys := conf_pair (unk i F_iss_keys) (unk i F_iss_keys_comm);
     ti_amount_rangeproof := unk i F_iss_value_rangeproof;
     ti_keys_rangeproof := unk i F_iss_keys_rangeproof;
     ti_script_witness := or_default (unk i F_final_script_witness) empty_witness;
     ti_pegin_witness := or_default (unk i F_pegin_witness) empty_witness |}.
Definition txin_of : pmap -> txin := txin_of_with is_pegin_exempts_coinbase.
Definition txout_of (o : pmap) : outcome txout :=
  match unk o F_asset_comm, unk o F_asset with
  | None, None => Fail E_MissingOutputValue           (* sic: the code reports a missing asset as MissingOutputValue *)
  | ac, a =>
    match unk o F_amount_comm, unk o F_amount with
    | None, None => Fail E_MissingOutputAsset
    | vc, v =>
      Val {| to_asset := conf_pair a ac; to_value := conf_pair v vc;
             to_nonce := match unk o F_ecdh_pubkey with Some k => CConf k | None => CNull end;
             to_spk := or_default (unk o F_script_pubkey) [];
             to_surjection_proof := unk o F_asset_surjection_proof; to_rangeproof := unk o F_value_rangeproof |}
    end
  end.
Fixpoint outs_of (l : list pmap) : outcome (list txout) :=
  match l with [] => Val [] | o :: r => obind (txout_of o) (fun x => obind (outs_of r) (fun xs => Val (x :: xs))) end.
Definition tx_version_of (g : pmap) : N := match unk g F_tx_version with Some v => u32_of v | None => 2 end.
Definition extract_tx_with (arms : list (lt_pat * lt_pat * lt_act)) (exempt : bool) (p : pset) : outcome tx :=
  obind (sanity_check p) (fun _ =>
  obind (locktime_with arms p) (fun lt =>
  obind (outs_of (poutputs p)) (fun outs =>
  Val {| tx_version := tx_version_of (pglobal p); tx_lock_time := lt; tx_ins := map (txin_of_with exempt) (pinputs p); tx_outs := outs |}))).
Definition extract_tx : pset -> outcome tx := extract_tx_with locktime_arms is_pegin_exempts_coinbase.

(* ---------------------------------------------------------------- unique_id *)
(* what TxIn's consensus encoding without witness writes (src/transaction.rs, `impl Encodable for TxIn`): txid, the output index with the
   pegin and issuance flags folded into bits 30/31, script_sig, sequence, and the issuance only when it is non-null *)
Definition strip_in_witness (i : txin) : txin :=
  let hi := ti_has_issuance i in
  let v := N.lor (N.lor (ti_vout i) (if ti_pegin i then 2 ^ 30 else 0)) (if hi then 2 ^ 31 else 0) in
  mk_txin (ti_txid i) v false (ti_script_sig i) (ti_sequence i) (if hi then ti_iss_nonce i else zero32) (if hi then ti_iss_entropy i else zero32)
          (ti_iss_amount i) (ti_iss_keys i) None None [] [].
Definition strip_out_witness (o : txout) : txout := mk_txout (to_asset o) (to_value o) (to_nonce o) (to_spk o) None None.
Definition mem_field (f : field) (l : list field) : bool := existsb (bytes_eqb f) l.
(* `for inp in &mut tx.input { inp.sequence = Sequence::from_height(0); ... }` — the list of reset fields is read from the source *)
Definition uid_reset_in (cl : list field) (i : txin) : txin :=
  mk_txin (ti_txid i) (ti_vout i) (ti_pegin i)
          (if mem_field (fld "script_sig") cl then [] else ti_script_sig i)
          (if mem_field (fld "sequence") cl then 0 else ti_sequence i)
          (ti_iss_nonce i) (ti_iss_entropy i) (ti_iss_amount i) (ti_iss_keys i)
          (ti_amount_rangeproof i) (ti_keys_rangeproof i) (ti_script_witness i) (ti_pegin_witness i).
(* what the txid hashes: the transaction without witnesses (C02) *)
Definition txid_preimage (t : tx) : tx := mk_tx (tx_version t) (tx_lock_time t) (map strip_in_witness (tx_ins t)) (map strip_out_witness (tx_outs t)).
Definition uid_tx_with (cl : list field) (t : tx) : tx :=
  txid_preimage (mk_tx (tx_version t) (tx_lock_time t) (map (uid_reset_in cl) (tx_ins t)) (tx_outs t)).
Definition uid_preimage_with arms exempt cl (p : pset) : outcome tx := obind (extract_tx_with arms exempt p) (fun t => Val (uid_tx_with cl t)).
Definition uid_preimage : pset -> outcome tx := uid_preimage_with locktime_arms is_pegin_exempts_coinbase uid_cleared_txin_fields.
Section UniqueId.
  Context {id : Type} (H : tx -> id).      (* txid = H(transaction without witnesses): abstract in theorems, SHA-256d of a canonical text in runs *)
  Definition unique_id (p : pset) : outcome id := obind (uid_preimage p) (fun t => Val (H t)).
End UniqueId.

(* ---------------------------------------------------------------- from_tx *)
(* from_txin / from_txout / from_tx assign struct fields; written as the list of (field, assigned value) with None = left at its default *)
Definition u32_enc (n : N) : bytes := le_enc 4 n.
Definition of_entries (l : list (field * option bytes)) : pmap :=
  mkmap (fun f => match find (fun e => bytes_eqb f (fst e)) l with Some e => snd e | None => None end) (fun _ => []).
Definition txin_index (i : txin) : N :=
  let idx1 := if ti_pegin i then N.lor (ti_vout i) (2 ^ 30) else ti_vout i in
  if ti_has_issuance i then N.lor idx1 (2 ^ 31) else idx1.
Definition cv_explicit (c : cval) : option bytes := match c with CExplicit x => Some x | _ => None end.
Definition cv_conf (c : cval) : option bytes := match c with CConf x => Some x | _ => None end.
Definition txin_entries (i : txin) : list (field * option bytes) :=
  let hi := ti_has_issuance i in
  let when (b : bool) (v : option bytes) := if b then v else None in
  [ (F_prev_txid, Some (ti_txid i)); (F_prev_index, Some (u32_enc (txin_index i)));
    (F_sequence, Some (u32_enc (ti_sequence i))); (F_final_script_sig, Some (ti_script_sig i));
    (F_final_script_witness, Some (ti_script_witness i));
    (F_pegin_witness, when (ti_pegin i) (Some (ti_pegin_witness i)));
    (F_iss_nonce, when hi (Some (ti_iss_nonce i))); (F_iss_entropy, when hi (Some (ti_iss_entropy i)));
    (F_iss_amount, when hi (cv_explicit (ti_iss_amount i))); (F_iss_comm, when hi (cv_conf (ti_iss_amount i)));
    (F_iss_keys, when hi (cv_explicit (ti_iss_keys i))); (F_iss_keys_comm, when hi (cv_conf (ti_iss_keys i)));
    (F_iss_keys_rangeproof, when hi (ti_keys_rangeproof i)); (F_iss_value_rangeproof, when hi (ti_amount_rangeproof i)) ].
Definition from_txin (i : txin) : pmap := of_entries (txin_entries i).
Definition nonce_key (c : cval) : option bytes := match c with CConf k => Some k | _ => None end.   (* Nonce::commitment() *)
Definition txout_entries (o : txout) : list (field * option bytes) :=
  let pb := to_is_partially_blinded o in
  [ (F_amount, cv_explicit (to_value o)); (F_amount_comm, cv_conf (to_value o));
    (F_asset, cv_explicit (to_asset o)); (F_asset_comm, cv_conf (to_asset o));
    (F_ecdh_pubkey, if pb then nonce_key (to_nonce o) else None);
    (F_blinding_key, if pb then None else nonce_key (to_nonce o));
    (F_script_pubkey, Some (to_spk o)); (F_value_rangeproof, to_rangeproof o); (F_asset_surjection_proof, to_surjection_proof o) ].
Definition from_txout (o : txout) : pmap := of_entries (txout_entries o).
Definition from_tx (t : tx) : pset :=
  let g := of_entries [ (fld "version", Some (u32_enc 2)); (F_tx_version, Some (u32_enc (tx_version t)));
                        (F_fallback, Some (u32_enc (tx_lock_time t)));
                        (F_input_count, Some (vi_enc (N.of_nat (length (tx_ins t)))));
                        (F_output_count, Some (vi_enc (N.of_nat (length (tx_outs t))))) ] in
  mkpset g (map from_txin (tx_ins t)) (map from_txout (tx_outs t)).
