(* C10 — fallible public APIs are total.  Model of exactly those functions of rust-elements whose panic-freedom rests on
   arithmetic, indexing, slicing, `unwrap/expect` or `unreachable!` IN THE CRATE'S OWN CODE, written with explicit partial
   operations: every `s[i]`, `s[a..b]`, unchecked `a - b`, `expect`, `unreachable!`, out-of-range shift and overflowing `+`
   on the modelled path produces `Panic why`; a read through a slice pointer beyond the slice is `Panic WOobRead`.
   Where a total model of the same function already exists (Model/Script.v, Model/Taproot.v, Model/Bech32.v, Base/Codec.v)
   it is imported, and Proofs/Totality.v shows that the version written here, stripped of its Panic outcomes, is that
   function.  No proofs here.

   Profiles: `-`, `+`, `<<` on machine integers panic when overflow checks are on (Debug) and wrap when they are off
   (Release): `profile` is imported from Model/Script.v. *)
From Coq Require Import List Arith NArith ZArith Bool.
From Coq.Strings Require Import Byte.
From EV Require Import Base.Bytes Base.Codec Gen.Tables Model.Script Model.Taproot Model.Bech32 Model.Tx.
Import ListNotations.
Open Scope N_scope.

Inductive why :=
  | WIndex          (* s[i] with i >= len *)
  | WSlice          (* s[a..b] with a > b or b > len *)
  | WSub            (* a - b with b > a on an unsigned integer *)
  | WAdd            (* a + b beyond the integer's range, overflow checks on *)
  | WShl            (* x << n with n >= bit width, overflow checks on *)
  | WExpect         (* Option::expect / unwrap on None, Result::unwrap on Err *)
  | WUnreachable    (* unreachable!() *)
  | WOobRead        (* a C parser reads a fixed number of bytes through a pointer to a shorter slice *)
  | WFuel.          (* model artefact: a fuel bound ran out; excluded by theorem *)
Inductive outcome (A : Type) := Val (a : A) | Fail (e : bytes) | Panic (w : why).
Arguments Val {A}. Arguments Fail {A}. Arguments Panic {A}.
Definition bind {A B} (o : outcome A) (f : A -> outcome B) : outcome B :=
  match o with Val a => f a | Fail e => Fail e | Panic w => Panic w end.
Notation "'do' x <- o ; k" := (bind o (fun x => k)) (at level 200, x name, o at level 100, k at level 200).
Notation "'do' ' p <- o ; k" := (bind o (fun x => let p := x in k)) (at level 200, p pattern, o at level 100, k at level 200).
Definition E (s : blit) : bytes := s.
Definition is_panic {A} (o : outcome A) : bool := match o with Panic _ => true | _ => false end.

(* ---- the partial operations ---- *)
Definition idx {A} (s : list A) (i : nat) : outcome A := match nth_error s i with Some x => Val x | None => Panic WIndex end.
Definition slice {A} (s : list A) (a b : nat) : outcome (list A) :=
  if (a <=? b)%nat && (b <=? length s)%nat then Val (firstn (b - a) (skipn a s)) else Panic WSlice.
Definition slice_from {A} (s : list A) (a : nat) : outcome (list A) := slice s a (length s).
Definition slice_to {A} (s : list A) (b : nat) : outcome (list A) := slice s 0 b.
(* usize subtraction: Debug panics at the subtraction; Release wraps to 2^64 - (b - a), and every use below is a slice
   bound, which then panics — so the outcome is a panic in both profiles *)
Definition usub (a b : nat) : outcome nat := if (b <=? a)%nat then Val (a - b)%nat else Panic WSub.
Definition expect {A} (o : option A) : outcome A := match o with Some a => Val a | None => Panic WExpect end.
Definition lenN (s : bytes) : N := N.of_nat (length s).

(* ================================================================================================ src/ext.rs, src/encode.rs, src/pset/raw.rs *)
(* read_varint is Base/Codec.vi_dec; Vec<u8> / Vec<Vec<u8>> with their reservations are Model/Alloc.a_varbytes / a_vecvec.
   raw::Key: varint byte_size, 0 -> NoMorePairs; key_byte_size = byte_size - 1 (u64, guarded by the test before it);
   > MAX_VEC_SIZE refused; then the type byte is read; THEN Vec::with_capacity(key_byte_size); then the bytes one by one *)
Definition key_dec (maxvec : N) (bs : bytes) : outcome (N * bytes * bytes) * N :=
  match vi_dec bs with
  | None => (Fail (E "eof"), 0)
  | Some (byte_size, r) =>
      if byte_size =? 0 then (Fail (E "nomorepairs"), 0) else
      match (if 1 <=? byte_size then Val (byte_size - 1) else Panic WSub) with      (* `byte_size - 1` *)
      | Panic w => (Panic w, 0) | Fail e => (Fail e, 0)
      | Val k =>
          if maxvec <? k then (Fail (E "oversize"), 0) else
          match r with
          | [] => (Fail (E "eof"), 0)
          | t :: r' => match take (N.to_nat k) r' with
                       | Some (key, rest) => (Val (b2n t, key, rest), k)
                       | None => (Fail (E "eof"), k) end end end end.

(* ================================================================================================ src/script.rs *)
(* read_uint(data, size): `ret += (item as usize) << (i times 8)` *)
Fixpoint read_uint_loop (p : profile) (items : bytes) (i : N) (ret : N) : outcome N :=
  match items with
  | [] => Val ret
  | x :: r =>
      let sh := i * 8 in
      do v <- (if sh <? 64 then Val (N.shiftl (b2n x) sh mod 2 ^ 64)
               else match p with Debug => Panic WShl | Release => Val (N.shiftl (b2n x) (sh mod 64) mod 2 ^ 64) end);
      do s <- (if ret + v <? 2 ^ 64 then Val (ret + v) else match p with Debug => Panic WAdd | Release => Val ((ret + v) mod 2 ^ 64) end);
      read_uint_loop p r (i + 1) s
  end.
(* since 6050d64 (F19 repaired): `else if size > size_of::<usize>() { Err(NumericOverflow) }` between the length test and the loop
   (usize is 64 bit: 8 bytes) *)
Definition read_uint_p (p : profile) (data : bytes) (size : nat) : outcome N :=
  if (length data <? size)%nat then Fail (E "early")
  else if (8 <? size)%nat then Fail (E "overflow")
  else read_uint_loop p (firstn size data) 0 0.

(* the template predicates with their indexing written out: `&&` short-circuits, so an index is evaluated only when
   everything to its left was true *)
Definition andp (a : outcome bool) (b : outcome bool) : outcome bool := do x <- a; if x then b else Val false.
Definition orp (a : outcome bool) (b : outcome bool) : outcome bool := do x <- a; if x then Val true else b.
Definition at_eq (s : bytes) (i : nat) (v : N) : outcome bool := do b <- idx s i; Val (b2n b =? v).
Definition at_le (s : bytes) (i : nat) (v : N) : outcome bool := do b <- idx s i; Val (b2n b <=? v).
Definition at_ge (s : bytes) (i : nat) (v : N) : outcome bool := do b <- idx s i; Val (v <=? b2n b).
Definition lenb (s : bytes) (n : nat) : outcome bool := Val (Nat.eqb (length s) n).
Definition is_p2sh_p (s : bytes) := andp (lenb s 23) (andp (at_eq s 0 OP_HASH160) (andp (at_eq s 1 OP_PUSHBYTES_20) (at_eq s 22 OP_EQUAL))).
Definition is_p2pkh_p (s : bytes) :=
  andp (lenb s 25) (andp (at_eq s 0 OP_DUP) (andp (at_eq s 1 OP_HASH160) (andp (at_eq s 2 OP_PUSHBYTES_20) (andp (at_eq s 23 OP_EQUALVERIFY) (at_eq s 24 OP_CHECKSIG))))).
Definition is_p2pk_p (s : bytes) :=
  orp (andp (lenb s 67) (andp (at_eq s 0 OP_PUSHBYTES_65) (at_eq s 66 OP_CHECKSIG)))
      (andp (lenb s 35) (andp (at_eq s 0 OP_PUSHBYTES_33) (at_eq s 34 OP_CHECKSIG))).
Definition is_witness_program_p (s : bytes) :=
  andp (Val (4 <=? length s)%nat) (andp (Val (length s <=? 42)%nat)
  (andp (orp (at_eq s 0 0) (andp (at_ge s 0 OP_PUSHNUM_1) (at_le s 0 OP_PUSHNUM_16)))
  (andp (at_ge s 1 OP_PUSHBYTES_2) (andp (at_le s 1 OP_PUSHBYTES_40)
  (do l <- usub (length s) 2; do b <- idx s 1; Val (N.of_nat l =? b2n b)))))).
Definition is_v0_p2wsh_p (s : bytes) := andp (lenb s 34) (andp (at_eq s 0 OP_PUSHBYTES_0) (at_eq s 1 OP_PUSHBYTES_32)).
Definition is_v1_p2tr_p (s : bytes) := andp (lenb s 34) (andp (at_eq s 0 OP_PUSHNUM_1) (at_eq s 1 OP_PUSHBYTES_32)).
Definition is_v0_p2wpkh_p (s : bytes) := andp (lenb s 22) (andp (at_eq s 0 OP_PUSHBYTES_0) (at_eq s 1 OP_PUSHBYTES_20)).
Definition is_v1plus_p2witprog_p (s : bytes) :=
  andp (Val (1 <? length s)%nat) (andp (do b <- idx s 1; Val (lenN s =? b2n b + 2))
  (andp (at_ge s 0 OP_PUSHNUM_1) (andp (at_le s 0 OP_PUSHNUM_16) (andp (at_ge s 1 OP_PUSHBYTES_2) (at_le s 1 OP_PUSHBYTES_40))))).
Definition is_op_return_p (s : bytes) := andp (Val (negb (Script.is_empty s))) (at_eq s 0 OP_RETURN).

(* ================================================================================================ src/blech32/decode.rs *)
(* UncheckedHrpstring::new: `data.as_bytes()[1..]` after `split_at(sep_pos)` *)
Definition split_at_sep (s : bytes) : outcome (bytes * bytes) :=
  match Bech32.check_characters s with
  | Bech32.Err e => Fail (E "char")          (* refined below; the error name is recomputed by the runner from Bech32.v *)
  | Bech32.Ok (h, d) =>
      (* sep_pos = length h; split_at gives (h, '1' :: d); `[1..]` *)
      do d' <- slice_from (x31 :: d) 1; Val (h, d') end.
Inductive hres (A : Type) := HOk (a : A) | HErr (e : b32err) | HPanic (w : why).
Arguments HOk {A}. Arguments HErr {A}. Arguments HPanic {A}.
Definition hbind {A B} (o : hres A) (f : A -> hres B) : hres B := match o with HOk a => f a | HErr e => HErr e | HPanic w => HPanic w end.
Definition of_res {A} (r : Bech32.res A) : hres A := match r with Bech32.Ok a => HOk a | Bech32.Err e => HErr e end.
Definition of_outcome {A} (o : outcome A) : hres A := match o with Val a => HOk a | Fail _ => HErr EInvalidChar | Panic w => HPanic w end.
Definition unchecked_new_p (s : bytes) : hres (bytes * bytes) :=
  hbind (of_res (Bech32.check_characters s)) (fun '(h, d) =>
  hbind (of_outcome (slice_from (x31 :: d) 1)) (fun d' =>
  hbind (of_res (hrp_parse h)) (fun _ => HOk (h, d')))).
(* `Fe32::from_char(b.into()).unwrap()` on every data character *)
Fixpoint syms_p (d : bytes) : hres (list N) :=
  match d with [] => HOk [] | c :: r => match from_char c with Some v => hbind (syms_p r) (fun t => HOk (v :: t)) | None => HPanic WExpect end end.
(* validate_checksum: CHECKSUM_LENGTH == 0 -> Ok; data.len() < CHECKSUM_LENGTH -> InvalidChecksumLength; residue *)
Definition validate_checksum_p (c : code) (h d : bytes) : hres unit :=
  if Nat.eqb (c_len c) 0 then HOk tt
  else if (length d <? c_len c)%nat then HErr ECkLength
  else hbind (syms_p d) (fun syms => if valid_codeword c (hrp_expand h ++ syms) then HOk tt else HErr ECkResidue).
(* remove_checksum: `self.data.len() - Ck::CHECKSUM_LENGTH`, then `&self.data[..data_len]` *)
Definition remove_checksum_p (c : code) (d : bytes) : hres bytes :=
  hbind (of_outcome (usub (length d) (c_len c))) (fun n => of_outcome (slice_to d n)).
Definition checked_new_p (c : code) (s : bytes) : hres (bytes * bytes) :=
  hbind (unchecked_new_p s) (fun '(h, d) =>
  hbind (validate_checksum_p c h d) (fun _ => hbind (remove_checksum_p c d) (fun d' => HOk (h, d')))).
(* validate_padding: `fe_iter.last().expect("checked above")`, `_ => unreachable!("checked above")` *)
Definition validate_padding_p (d : bytes) : hres unit :=
  match d with
  | [] => HOk tt
  | _ => let pad := Nat.modulo (length d * 5) 8 in
         if (4 <? pad)%nat then HErr EPadTooMuch
         else hbind (syms_p d) (fun syms =>
              hbind (of_outcome (expect (match syms with [] => None | _ => Some (last syms 0) end))) (fun lastfe =>
              hbind (match pad with
                     | 0%nat => HOk false | 1%nat => HOk (0 <? N.land lastfe 1) | 2%nat => HOk (0 <? N.land lastfe 3)
                     | 3%nat => HOk (0 <? N.land lastfe 7) | 4%nat => HOk (0 <? N.land lastfe 15)
                     | _ => HPanic WUnreachable end) (fun nz => if nz then HErr EPadNonZero else HOk tt))) end.
Definition validate_wpl_p (ver : N) (d : bytes) : hres unit :=
  let len := Nat.div (length d * 5) 8 in
  if (len <? N.to_nat BLECH_WPL_MIN)%nat then HErr EWlShort
  else if (N.to_nat BLECH_WPL_MAX <? len)%nat then HErr EWlLong
  else if (ver =? 0) && negb (Nat.eqb len (N.to_nat BLECH_WPL_V0_A)) && negb (Nat.eqb len (N.to_nat BLECH_WPL_V0_B)) then HErr EWlV0
  else HOk tt.
(* CheckedHrpstring::validate_segwit: is_empty test, `self.data[0]`, `&self.data[1..]` *)
Definition validate_segwit_p (h d : bytes) : hres (bytes * N * bytes) :=
  match d with [] => HErr ENoData | _ =>
    hbind (of_outcome (idx d 0)) (fun c0 =>
    hbind (of_outcome (expect (from_char c0))) (fun ver =>
    hbind (of_outcome (slice_from d 1)) (fun d' =>
    hbind (validate_padding_p d') (fun _ => hbind (validate_wpl_p ver d') (fun _ => HOk (h, ver, d')))))) end.
(* SegwitHrpstring::new and (since a4bc64e, which repaired F1) new_bech32 both have the is_empty test before `unchecked.data[0]` *)
Definition segwit_front (s : bytes) : hres (bytes * bytes * N) :=
  hbind (unchecked_new_p s) (fun '(h, d) =>
  if Script.is_empty d then HErr ENoData else
  hbind (of_outcome (idx d 0)) (fun c0 =>
  hbind (of_outcome (expect (from_char c0))) (fun ver =>
  if BLECH_MAX_WITNESS_VERSION <? ver then HErr EWitVer else HOk (h, d, ver)))).
Definition segwit_new_p (s : bytes) : hres (bytes * N * bytes) :=
  hbind (segwit_front s) (fun '(h, d, ver) =>
  let c := if ver =? 0 then blech_code BLECH_V0_CODE else blech_code BLECH_V1PLUS_CODE in
  hbind (validate_checksum_p c h d) (fun _ => hbind (remove_checksum_p c d) (fun d' => validate_segwit_p h d'))).
Definition segwit_new_bech32_p (s : bytes) : hres (bytes * N * bytes) :=
  hbind (segwit_front s) (fun '(h, d, ver) =>
  let c := blech32 in
  hbind (validate_checksum_p c h d) (fun _ => hbind (remove_checksum_p c d) (fun d' => validate_segwit_p h d'))).
(* byte_iter().collect() *)
Definition data_bytes (d : bytes) : bytes := match syms_of d with Some syms => fes_to_bytes syms | None => [] end.

(* ================================================================================================ src/taproot.rs, src/schnorr.rs *)
Definition NODE := N.to_nat TAPROOT_CONTROL_NODE_SIZE.
Definition BASE := N.to_nat TAPROOT_CONTROL_BASE_SIZE.
(* TaprootMerkleBranch::from_slice: chunks_exact(32) with `<&[u8;32]>::try_from(chunk).expect(..)` *)
Fixpoint chunks_p (fuel : nat) (sl : bytes) : outcome (list bytes) :=
  match fuel with O => (match sl with [] => Val [] | _ => Panic WFuel end) | S f =>
    if (length sl <? NODE)%nat then Val []           (* chunks_exact drops an incomplete tail *)
    else let c := firstn NODE sl in
         do _ <- expect (if Nat.eqb (length c) 32 then Some tt else None);
         do r <- chunks_p f (skipn NODE sl); Val (c :: r) end.
Definition terr_name (e : terr) : bytes :=
  match e with
  | InvalidMerkleBranchSize n => E "branchsize:" ++ dec_of_N n | InvalidMerkleTreeDepthT n => E "depth:" ++ dec_of_N n
  | InvalidTaprootLeafVersion v => E "leafver:" ++ dec_of_N v | InvalidControlBlockSize n => E "cbsize:" ++ dec_of_N n
  | InvalidInternalKey => E "key" end.
Definition branch_from_slice_p (sl : bytes) : outcome (list bytes) :=
  let n := lenN sl in
  if negb (n mod TAPROOT_CONTROL_NODE_SIZE =? 0) then Fail (terr_name (InvalidMerkleBranchSize n))
  else if TAPROOT_CONTROL_NODE_SIZE * TAPROOT_CONTROL_MAX_NODE_COUNT <? n then Fail (terr_name (InvalidMerkleTreeDepthT (n / TAPROOT_CONTROL_NODE_SIZE)))
  else chunks_p (length sl) sl.
(* ControlBlock::from_slice: `||` short-circuits, so `sl.len() - BASE` is evaluated only when len >= BASE *)
Definition cb_from_slice_p (xonly_valid : bytes -> bool) (sl : bytes) : outcome cblock :=
  let n := lenN sl in
  do bad <- (if n <? TAPROOT_CONTROL_BASE_SIZE then Val true
             else do d <- usub (length sl) BASE; Val (negb (N.of_nat d mod TAPROOT_CONTROL_NODE_SIZE =? 0)));
  if (bad : bool) then Fail (terr_name (InvalidControlBlockSize n)) else
  do b0 <- idx sl 0;
  do par <- expect (let p := N.land (b2n b0) 1 in if (p =? 0) || (p =? 1) then Some (p =? 1) else None);
  do b0' <- idx sl 0;
  match leafver_from_u8 (N.land (b2n b0') TAPROOT_LEAF_MASK) with
  | Taproot.Err e => Fail (terr_name e)
  | Taproot.Ok ver =>
      do key <- slice sl 1 BASE;
      if negb (xonly_valid key) then Fail (terr_name InvalidInternalKey) else
      do rest <- slice_from sl BASE;
      do brn <- branch_from_slice_p rest;
      Val {| cb_ver := ver; cb_parity := par; cb_key := key; cb_branch := brn |} end.

(* SchnorrSighashType::from_u8 *)
Definition sighash_from_u8 (b : N) : option N := if existsb (N.eqb b) [0; 1; 2; 3; 0x81; 0x82; 0x83] then Some b else None.
(* SchnorrSig::from_slice; `sig_ok` is secp256k1's schnorr::Signature::from_slice on exactly 64 bytes *)
Definition schnorr_from_slice (sig_ok : bytes -> bool) (sl : bytes) : outcome (bytes * N) :=
  let sigparse (s : bytes) := Nat.eqb (length s) 64 && sig_ok s in
  if Nat.eqb (length sl) 64 then (if sigparse sl then Val (sl, 0) else Fail (E "sig"))
  else match rev sl with                       (* split_last *)
       | [] => Fail (E "sig")
       | t :: rsig => let sig := rev rsig in
           match sighash_from_u8 (b2n t) with
           | None => Fail (E "ty=" ++ dec_of_N (b2n t))
           | Some ty => if sigparse sig then Val (sig, ty) else Fail (E "sig") end end.
(* pset::serialize Deserialize for SchnorrSig: `bytes[64]`, `&bytes[..64]` behind `match bytes.len()` *)
Definition schnorr_pset (sig_ok : bytes -> bool) (bs : bytes) : outcome (bytes * N) :=
  if Nat.eqb (length bs) 65 then
    do t <- idx bs 64;
    match sighash_from_u8 (b2n t) with None => Fail (E "type") | Some ty =>
      do s <- slice_to bs 64; if sig_ok s then Val (s, ty) else Fail (E "sig") end
  else if Nat.eqb (length bs) 64 then do s <- slice_to bs 64; if sig_ok s then Val (s, 0) else Fail (E "sig")
  else Fail (E "len").

(* ================================================================================================ src/pset/serialize.rs *)
(* (Script, LeafVersion): `&bytes[..bytes.len() - 1]`, `bytes[bytes.len() - 1]` behind the is_empty test *)
Definition scriptver_p (bs : bytes) : outcome (bytes * byte) :=
  if Script.is_empty bs then Fail (E "eof") else
  do n <- usub (length bs) 1; do script <- slice_to bs n;
  do n' <- usub (length bs) 1; do last <- idx bs n';
  match leafver_from_u8 (b2n last) with Taproot.Ok v => Val (script, v) | Taproot.Err _ => Fail (E "leafver") end.
(* (XOnlyPublicKey, TapLeafHash): `&bytes[..32]`, `&bytes[32..]` behind `bytes.len() < 32`; the hash wants exactly 32 bytes *)
Definition xonlyleaf_p (xonly_valid : bytes -> bool) (bs : bytes) : outcome (bytes * bytes) :=
  if (length bs <? 32)%nat then Fail (E "eof") else
  do k <- slice_to bs 32; if negb (xonly_valid k) then Fail (E "key") else
  do h <- slice_from bs 32; if Nat.eqb (length h) 32 then Val (k, h) else Fail (E "hash").
(* KeySource: split_first_chunk::<4>, then u32s while the rest is non-empty *)
Fixpoint u32s (fuel : nat) (rest : bytes) : outcome (list N) :=
  match fuel with O => Panic WFuel | S f =>
    match rest with [] => Val [] | _ =>
      match le_dec 4 rest with Some (v, r) => do t <- u32s f r; Val (v :: t) | None => Fail (E "eof") end end end.
Definition keysource_p (bs : bytes) : outcome (bytes * list N) :=
  if (length bs <? 4)%nat then Fail (E "eof") else do path <- u32s (S (length bs)) (skipn 4 bs); Val (firstn 4 bs, path).
(* (Vec<TapLeafHash>, KeySource): deserialize_partial::<Vec<TapLeafHash>> (generic Vec<T>, 32-byte elements), `&bytes[consumed..]` *)
Definition leafks_p (maxvec : N) (bs : bytes) : outcome (list bytes * (bytes * list N)) :=
  match dec (c_vec (c_fixed 32) (maxvec / 32)) bs with
  | None => Fail (E "vec")
  | Some (hashes, rest) => do tail <- slice_from bs (length bs - length rest); do ks <- keysource_p tail; Val (hashes, ks) end.
(* TapTree: depth byte, version byte, script; `bytes_iter.nth(consumed - 1)` behind `consumed > 0` *)
Section TAPTREE.
Variables Hleaf Hbranch : bytes -> bytes.
Fixpoint taptree_loop (fuel : nat) (maxvec : N) (bs : bytes) (b : br) : outcome br :=
  match fuel with O => Panic WFuel | S f =>
    match bs with
    | [] => Val b
    | depth :: r1 =>
        match r1 with [] => Fail (E "builder") | version :: r2 =>
          match dec (c_varbytes maxvec) r2 with
          | None => Fail (E "script")
          | Some (script, r3) =>
              let consumed := (length r2 - length r3)%nat in
              do _ <- (if (0 <? consumed)%nat then usub consumed 1 else Val O);
              match leafver_from_u8 (b2n version) with
              | Taproot.Err _ => Fail (E "leafver")
              | Taproot.Ok v => match Taproot.insert Hbranch (new_leaf Hleaf script v) (b2n depth) b with
                                | Taproot.Ok b' => taptree_loop f maxvec r3 b'
                                | Taproot.Err _ => Fail (E "dfs") end end end end end end.
Definition taptree_p (maxvec : N) (bs : bytes) : outcome br :=
  do b <- taptree_loop (S (length bs)) maxvec bs []; if Taproot.is_complete b then Val b else Fail (E "incomplete").
(* TapTree::serialize length: per leaf depth byte, version byte, script with its length prefix *)
Definition taptree_ser_len (b : br) : N :=
  match b with [Some n] => fold_right (fun l s => 2 + vi_size (lenN (l_script l)) + lenN (l_script l) + s) 0 (n_leaves n) | _ => 0 end.
End TAPTREE.

(* ================================================================================================ src/pset/map/global.rs: merge, xpub branch *)
(* self holds (fingerprint2, derivation2); other brings (fingerprint1, derivation1) *)
Inductive xpub_res := XKeep | XReplace.
Definition merge_xpub (f2 : bytes) (d2 : list N) (f1 : bytes) (d1 : list N) : outcome xpub_res :=
  let eqp (a b : list N) := if list_eq_dec N.eq_dec a b then true else false in
  if eqp d1 d2 && bytes_eqb f1 f2 then Val XKeep else
  do c2 <- (if (length d1 <? length d2)%nat
            then do k <- usub (length d2) (length d1); do t <- slice_from d2 k; Val (eqp d1 t) else Val false);
  if (c2 : bool) then Val XKeep else
  (* since 4b01389 (which repaired F2): `derivation2.len() < derivation1.len() && derivation2[..] == derivation1[len1 - len2..]` *)
  do c3 <- (if (length d2 <? length d1)%nat
            then do k <- usub (length d1) (length d2); do t <- slice_from d1 k; Val (eqp d2 t) else Val false);
  if (c3 : bool) then Val XReplace else Fail (E "conflict").

(* ================================================================================================ src/blind.rs: Transaction::blind, output selection *)
(* per output: is_fee, nonce confidential, script is an address template *)
Record bout := { bo_fee : bool; bo_marked : bool; bo_addr : bool }.
Definition to_blind (o : bout) : bool := negb (bo_fee o) && bo_marked o.
Fixpoint blind_loop (outs : list bout) (i : nat) (num_to_blind num_blinded : nat) (last : option nat) (blinded : list nat) : outcome (option nat * list nat) :=
  match outs with
  | [] => Val (last, rev' blinded)
  | o :: r =>
      if bo_fee o || negb (bo_marked o) then blind_loop r (S i) num_to_blind num_blinded last blinded
      else if negb (bo_addr o) then Fail (E "address")
      else if (num_blinded + 1 <? num_to_blind)%nat then blind_loop r (S i) num_to_blind (S num_blinded) last (i :: blinded)
      else blind_loop r (S i) num_to_blind (S num_blinded) (Some i) blinded
  end.
Definition blind_select (outs : list bout) : outcome (list nat) :=
  let n := length (filter to_blind outs) in
  do '(last, blinded) <- blind_loop outs 0 n 0 None [];
  do li <- (match last with Some i => Val i | None => Fail (E "toofew") end);   (* since 8d5600e (F12): `ok_or(BlindError::TooFewBlindingOutputs)?` *)
  do _ <- idx outs li;                                         (* `&self.output[last_index]` *)
  Val (blinded ++ [li]).

(* ================================================================================================ src/pset/mod.rs: locktime *)
Inductive ltk := Unconstrained | Minimum (x : N) | Disallowed.
(* derived Ord: Unconstrained < Minimum _ < Disallowed, Minimum by value *)
Definition lt_max (a b : ltk) : ltk :=
  match a, b with
  | Disallowed, _ | _, Disallowed => Disallowed
  | Minimum x, Minimum y => Minimum (N.max x y)
  | Minimum x, Unconstrained | Unconstrained, Minimum x => Minimum x
  | Unconstrained, Unconstrained => Unconstrained end.
Definition lt_step (st : ltk * ltk) (inp : option N * option N) : ltk * ltk :=
  let '(t, h) := st in
  match inp with
  | (Some rt, Some rh) => (lt_max t (Minimum rt), lt_max h (Minimum rh))
  | (Some rt, None) => (lt_max t (Minimum rt), Disallowed)
  | (None, Some rh) => (Disallowed, lt_max h (Minimum rh))
  | (None, None) => (t, h) end.
Definition locktime_p (fallback : option N) (inputs : list (option N * option N)) : outcome N :=
  match fold_left lt_step inputs (Unconstrained, Unconstrained) with
  | (Unconstrained, Unconstrained) => Val (match fallback with Some f => f | None => 0 end)
  | (_, Minimum x) => Val x                   (* since d70d58d the height arm comes first (BIP370: height when both kinds are possible) *)
  | (Minimum x, _) => Val x
  | (Disallowed, Disallowed) => Fail (E "conflict")
  | (Unconstrained, Disallowed) => Panic WUnreachable
  | (Disallowed, Unconstrained) => Panic WUnreachable end.

(* ================================================================================================ src/transaction.rs *)
(* PeginData::from_pegin_witness: `<&[Vec<u8>; 6]>::try_from`, then array indexing 0..5, `split_first_chunk::<80>` *)
Record pegin := { pg_value : N; pg_asset : bytes; pg_genesis : bytes; pg_claim : bytes; pg_tx : bytes; pg_proof : bytes }.
Definition from_pegin_witness (w : list bytes) : outcome pegin :=
  if negb (Nat.eqb (length w) 6) then Fail (E "size-not-6") else
  do w5 <- idx w 5;
  if (length w5 <? 80)%nat then Fail (E "merkle-proof-too-short") else
  do w0 <- idx w 0; if negb (Nat.eqb (length w0) 8) then Fail (E "invalid-value") else
  do w1 <- idx w 1; if negb (Nat.eqb (length w1) 32) then Fail (E "invalid-asset") else
  do w2 <- idx w 2; if negb (Nat.eqb (length w2) 32) then Fail (E "invalid-genesis-hash") else
  do w3 <- idx w 3; do w4 <- idx w 4; do w5' <- idx w 5;
  Val {| pg_value := le_val w0; pg_asset := w1; pg_genesis := w2; pg_claim := w3; pg_tx := w4; pg_proof := w5' |}.

(* TxOut::is_null_data / pegout_data over the instruction stream of Model/Script.v *)
Definition is_null_data (s : bytes) : outcome bool :=
  match instructions false s with
  | IOp c :: rest =>
      if b2n c =? OP_RETURN then
        (fix go (l : list Script.item) : outcome bool :=
           match l with
           | [] => Val true
           | IOp op :: r => if OP_PUSHNUM_16 <? b2n op then Val false else go r
           | IErr _ :: _ => Val false
           | IPanic _ :: _ => Panic WExpect
           | IFuel :: _ => Panic WFuel
           | IPush _ :: r => go r end) rest
      else Val false
  | IPanic _ :: _ => Panic WExpect
  | IFuel :: _ => Panic WFuel
  | _ => Val false end.
Record pegout := { po_value : N; po_genesis : bytes; po_spk : bytes; po_extra : list bytes }.
Definition push_of (i : option Script.item) : option bytes := match i with Some (IPush d) => Some d | _ => None end.
Definition pegout_data (value : option N) (s : bytes) : outcome (option pegout) :=
  do nd <- is_null_data s;
  if negb nd then Val None else
  match value with None => Val None | Some v =>
    match instructions false s with
    | _ :: rest =>                                   (* iter.next(): skip OP_RETURN *)
        match push_of (hd_error rest) with None => Val None | Some g =>
          if negb (Nat.eqb (length g) 32) then Val None else
          match push_of (hd_error (tl rest)) with None => Val None | Some spk =>
            if Script.is_empty spk then Val None else
            let remainder := tl (tl rest) in
            if forallb (fun i => match i with IPush _ => true | _ => false end) remainder
            then Val (Some {| po_value := v; po_genesis := g; po_spk := spk;
                              po_extra := flat_map (fun i => match i with IPush d => [d] | _ => [] end) remainder |})
            else Val None end end
    | [] => Val None end end.

(* TxOut::minimum_value on a confidential value with a range proof `prf`: `prf[0]`, `&prf[2..10]`, `&prf[1..9]`;
   `deserialize::<u64>(..).expect("any 8 bytes is a u64")` then swap_bytes = big-endian value *)
Definition minimum_value_conf (opret : bool) (prf : bytes) : outcome N :=
  let min_value := if opret then 1 else 0 in
  do b0 <- idx prf 0;
  let has_nonzero_range := N.testbit (b2n b0) 6 in
  do b0' <- idx prf 0;
  let has_min := N.testbit (b2n b0') 5 in
  if negb has_min then Val min_value
  else if has_nonzero_range then do s <- slice prf 2 10; do _ <- expect (if Nat.eqb (length s) 8 then Some tt else None); Val (be_val s)
  else do s <- slice prf 1 9; do _ <- expect (if Nat.eqb (length s) 8 then Some tt else None); Val (be_val s).
Inductive vkind := VKNull | VKExplicit (n : N) | VKConf.
Definition minimum_value_p (v : vkind) (opret : bool) (prf : option bytes) : outcome N :=
  let min_value := if opret then 1 else 0 in
  match v with
  | VKNull => Val min_value
  | VKExplicit n => Val n
  | VKConf => match prf with None => Val min_value | Some p => minimum_value_conf opret p end end.

(* Transaction::fee_in / all_fees: the explicit u64 values of the fee outputs of one asset, in output order, added with
   `u64::saturating_add` since 7b7cbe8 (F17 repaired; before: `+`, panicking or wrapping at 2^64) *)
Definition U64_MAX : N := 2 ^ 64 - 1.
Definition sat_add (a b : N) : N := N.min (a + b) U64_MAX.
Fixpoint fee_sum (vals : list N) (acc : N) : N := match vals with [] => acc | v :: r => fee_sum r (sat_add acc v) end.
Definition fee_in (outs : list (N * N)) (asset : N) : outcome N :=
  Val (fee_sum (map snd (filter (fun o => fst o =? asset) outs)) 0).

(* ================================================================================================ src/confidential.rs, src/pset/serialize.rs: commitments from slices *)
(* Value::from_commitment / Asset::from_commitment / pset Deserialize for PedersenCommitment and Generator hand the slice to
   secp256k1-zkp 0.11's `from_slice`, which passes `bytes.as_ptr()` to a C parser that reads 33 bytes without looking at the length.
   Since 838e50c (which repaired F18) all four test `bytes.len() != 33` first; `read33` is the unguarded hand-over, kept as a
   partial operation so that the guard is what the theorem rests on.  `pt_ok` is the parser's verdict on 33 bytes. *)
Definition read33 (pt_ok : bytes -> bool) (sl : bytes) : outcome bool :=
  if Nat.eqb (length sl) 33 then Val (pt_ok sl) else Panic WOobRead.
Definition from_commitment_p (pt_ok : bytes -> bool) (sl : bytes) : outcome bool :=
  if negb (Nat.eqb (length sl) 33) then Fail (E "length") else read33 pt_ok sl.

(* ================================================================================================ src/sighash.rs: taproot index handling *)
Inductive prevouts := POne (i : nat) | PAll (n : nat).
(* split_anyonecanpay_flag on the byte values accepted by SchnorrSighashType::from_u8 *)
Definition split_acp (ty : N) : N * bool := if 0x80 <=? ty then (ty - 0x80, true) else (ty, false).
Definition tap_index (nin nout idx_ : nat) (pv : prevouts) (ty : N) : outcome unit :=
  (* check_all *)
  if match pv with PAll n => negb (Nat.eqb n nin) | POne _ => false end then Fail (E "prevoutssize") else
  let '(sh, acp) := split_acp ty in
  let get_all_fails := match pv with POne _ => true | PAll _ => false end in
  if negb acp && get_all_fails then Fail (E "prevoutkind") else
  (* since 539d5ee the output-witness hash lives in the common cache: no second `get_all()` for hash types other than NONE / SINGLE *)
  if acp && negb (idx_ <? nin)%nat then Fail (E "index") else
  if acp && match pv with POne i => negb (Nat.eqb idx_ i) | PAll n => negb (idx_ <? n)%nat end then Fail (E "prevoutindex") else
  if (sh =? 3) && negb (idx_ <? nout)%nat then Fail (E "single") else Val tt.

(* ================================================================================================ TaprootBuilder as the API and serde see it *)
Definition triv (_ : bytes) : bytes := [].
Definition api_builder (items : list item) : Taproot.res berr br := Taproot.run triv triv items [].
(* TaprootBuilder::finalize is Model/Taproot.finalize, which since c723f02 (F16 repaired) returns IncompleteTree on a trailing empty slot *)
Definition finalize_p (b : br) : Taproot.outcome spendinfo := Taproot.finalize triv (fun _ => true) (fun _ _ => Some ([], false)) b [].

(* ================================================================================================ src/pset/mod.rs: input / output count caps *)
(* `if inputs_len > 10_000 { return Err(TooLargePset) }` then `Vec::with_capacity(inputs_len)`: count * size_of::<Input>() bytes are
   reserved before the first input map is read *)
Definition PSET_MAX_COUNT : N := 10000.
Definition pset_reserve (sz count : N) : outcome unit * N :=
  if PSET_MAX_COUNT <? count then (Fail (E "toolarge"), 0) else (Val tt, count * sz).

(* ================================================================================================ the small fallible integer constructors *)
(* src/transaction.rs: Sequence::{from_height, from_512_second_intervals, from_seconds_floor, from_seconds_ceil} (u16 / u32 arguments);
   `u32::div_ceil` is quotient plus one when there is a remainder — no intermediate sum, so nothing can overflow *)
Definition seq_from_height (h : N) : N := h.
Definition seq_from_512 (i : N) : N := N.lor i C10_SEQ_LOCK_TYPE_MASK.
Definition u32_div_ceil (a b : N) : N := if 0 <? a mod b then a / b + 1 else a / b.
Definition seq_from_seconds_floor (s : N) : outcome N :=
  let i := s / C10_SEQ_FLOOR_INTERVAL in if i <? 65536 then Val (seq_from_512 i) else Fail (E "overflow").     (* u16::try_from *)
Definition seq_from_seconds_ceil (s : N) : outcome N :=
  let i := u32_div_ceil s C10_SEQ_CEIL_INTERVAL in if i <? 65536 then Val (seq_from_512 i) else Fail (E "overflow").
(* src/locktime.rs: LockTime::{from_consensus, from_height, from_time}, Height::from_consensus, Time::from_consensus *)
Definition is_block_height (n : N) : bool := n <? C10_LOCK_TIME_THRESHOLD.
Definition lt_from_height (n : N) : outcome N := if is_block_height n then Val n else Fail (E "notheight").
Definition lt_from_time (n : N) : outcome N := if is_block_height n then Fail (E "nottime") else Val n.
(* EcdsaSighashType::from_standard; PsbtSighashType::{ecdsa_hash_ty, schnorr_hash_ty} (`self.inner as u8` behind `inner > 0xff`) *)
Definition ecdsa_from_standard (n : N) : outcome N := if existsb (N.eqb n) C10_ECDSA_STANDARD then Val n else Fail (E "nonstandard").
Definition psbt_schnorr_hash_ty (n : N) : option N := if 0xff <? n then None else sighash_from_u8 (n mod 256).
(* opcodes::Ordinary::try_from_all *)
Definition ordinary_try_from_all (b : N) : option N := if Script.memN b ordinary_opcodes then Some b else None.
