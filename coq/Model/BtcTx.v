(* bitcoin::Transaction as rust-bitcoin 0.32 (consensus::encode) reads and writes it — the peg-in transaction of a PSET input.
     version (4 bytes LE) | inputs | outputs | lock time (4 bytes LE)                                   legacy form
     version | 0x00 0x01 | inputs | outputs | one witness per input | lock time                          BIP144 form
   The encoder uses the BIP144 form iff some input has a non-empty witness OR there is no input (uses_segwit_serialization);
   the decoder reads Vec<TxIn> first and takes an empty vector as the BIP144 marker, demands flag 1, and refuses a BIP144 form
   with inputs whose witnesses are all empty.  Vec<TxIn>/Vec<TxOut>/scripts have no size cap of their own (the finite reader
   runs out); a witness has at most MAX_VEC_SIZE elements and at most MAX_VEC_SIZE bytes of element encodings.  Compact sizes
   must be minimal.  Hand-written, executable; no proofs here. *)
From Coq Require Import List Arith NArith Bool.
From Coq.Strings Require Import Byte.
From EV Require Import Base.Bytes Base.Codec.
Import ListNotations.
Open Scope N_scope.

Record btcin := { bi_txid : bytes; bi_vout : N; bi_script : bytes; bi_seq : N }.
Record btcout := { bo_value : N; bo_script : bytes }.
Record btctx := { bt_version : N; bt_in : list btcin; bt_out : list btcout; bt_wit : list (list bytes); bt_lock : N }.

Definition nocap : N := 2 ^ 64 - 1.
Definition c_bscript : codec bytes := c_varbytes nocap.
Definition c_btcin : codec btcin :=
  c_conv (c_pair (c_pair (c_fixed 32) c_u32) (c_pair c_bscript c_u32))
    (fun '((t, v), (s, q)) => Some {| bi_txid := t; bi_vout := v; bi_script := s; bi_seq := q |})
    (fun i => ((bi_txid i, bi_vout i), (bi_script i, bi_seq i))) (fun _ => true).
Definition c_btcout : codec btcout :=
  c_conv (c_pair c_u64 c_bscript) (fun '(v, s) => Some {| bo_value := v; bo_script := s |}) (fun o => (bo_value o, bo_script o)) (fun _ => true).

Section BTC.
Variable maxvec : N.     (* bitcoin::consensus::encode::MAX_VEC_SIZE (the constant rust-elements re-exports) *)
Definition wit_bytes (w : list bytes) : N := vn_len c_bscript w.
Definition c_witness : codec (list bytes) := c_guard (c_vec c_bscript maxvec) (fun w => wit_bytes w <=? maxvec).

Definition all_empty (ws : list (list bytes)) : bool := forallb (fun w => match w with [] => true | _ => false end) ws.
Definition uses_segwit (t : btctx) : bool := negb (all_empty (bt_wit t)) || match bt_in t with [] => true | _ => false end.

(* the wire view: (version, first input vector), then what follows depending on whether that vector is empty *)
Definition body := (list btcin * (list btcout * (list (list bytes) * N)))%type.
Definition c_legacy_body : codec body :=
  c_conv (c_pair (c_vec c_btcout nocap) c_u32) (fun '(o, l) => Some ([], (o, ([], l)))) (fun b => (fst (snd b), snd (snd (snd b))))
         (fun b => match fst b, fst (snd (snd b)) with [], [] => true | _, _ => false end).
Definition c_segwit_body : codec body :=
  c_conv (c_pair (c_guard c_u8 (fun f => f =? 1))
                 (c_guard (c_dep (c_vec c_btcin nocap) (fun ins => c_pair (c_vec c_btcout nocap) (c_pair (c_vecn c_witness (length ins)) c_u32)))
                          (fun b => match fst b with [] => true | _ => negb (all_empty (fst (snd (snd b)))) end)))
         (fun '(_, b) => Some b) (fun b => (1, b)) (fun _ => true).
Definition c_btc_wire : codec ((N * list btcin) * body) :=
  c_dep (c_pair c_u32 (c_vec c_btcin nocap)) (fun h => match snd h with [] => c_segwit_body | _ => c_legacy_body end).
Definition tx_of_wire (w : (N * list btcin) * body) : option btctx :=
  let '((v, ins0), (ins1, (outs, (wits, lock)))) := w in
  Some match ins0 with
       | [] => {| bt_version := v; bt_in := ins1; bt_out := outs; bt_wit := wits; bt_lock := lock |}
       | _ => {| bt_version := v; bt_in := ins0; bt_out := outs; bt_wit := map (fun _ => []) ins0; bt_lock := lock |}
       end.
Definition wire_of_tx (t : btctx) : (N * list btcin) * body :=
  if uses_segwit t then ((bt_version t, []), (bt_in t, (bt_out t, (bt_wit t, bt_lock t))))
  else ((bt_version t, bt_in t), ([], (bt_out t, ([], bt_lock t)))).
Definition c_btctx : codec btctx :=
  c_conv c_btc_wire tx_of_wire wire_of_tx (fun t => Nat.eqb (length (bt_wit t)) (length (bt_in t))).
End BTC.
