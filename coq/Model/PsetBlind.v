(* C09 — PartiallySignedTransaction::{blind_checks, surjection_inputs, blind_non_last, blind_last, extract_tx (outputs)},
   Output::to_txout, TxOut::to_non_last_confidential, BlindValueProofs / BlindAssetProofs (src/pset/mod.rs, src/pset/map/output.rs,
   src/blind.rs) in the ideal-commitment world of Model/Ideal.v, statement by statement.
   A PSET is modelled by the fields these functions read or write (per input: witness UTXO, issuance amounts with the ids
   `issuance_ids()` derives, `blinded_issuance`; per output: asset, amount, script, blinding key, blinder index, the two
   commitments, ECDH key, range / surjection proof, explicit-value / explicit-asset proof; globally: the scalar list).
   `inp_txout_sec: HashMap<usize, TxOutSecrets>` is an association list with distinct keys; HashMap iteration order only
   enters through sums. Randomness is explicit as in Model/Blind.v (per blinded output abf, vbf, ephemeral sk; for the last
   output abf, ephemeral sk); draws inside proof creation have no counterpart.
   No proofs here. *)
From Coq Require Import List NArith ZArith Bool.
From Coq.Strings Require Import Byte.
From EV Require Import Base.Bytes Base.Zn Base.FreeMod Model.Script Model.Ideal Model.Verify Model.Blind.
Import ListNotations.
Open Scope Z_scope.

Record pout := mkPO {
  po_asset : option N; po_amount : option Z; po_script : bytes;
  po_blinding_key : option Z; po_blinder_index : option nat;
  po_asset_comm : option gel; po_amount_comm : option gel; po_ecdh : option Z;
  po_rp : option rproof; po_sp : option sproof;
  po_bvp : option rproof;            (* blind_value_proof *)
  po_bap : option sproof }.          (* blind_asset_proof *)
Record pin := mkPI { pi_utxo : option txout; pi_iss : issuance; pi_blinded_issuance : option N }.
Record pset := mkPset { ps_in : list pin; ps_out : list pout; ps_scalars : list Z }.

Inductive pset_err :=
  | PMustHaveExplicitTxOut (i : nat) | PMissingWitnessUtxo (i : nat)
  | PConfidentialTxOutError (i : nat) (e : blind_err) | PBlindingProofsCreationError (i : nat)
  | PBlindingIssuanceUnsupported (i : nat) | PBlinderIndexOutOfBounds (i b : nat) | PAtleastOneOutputBlind
  | PExtractMissingOutput.

Definition pin_has_issuance (i : pin) : bool := has_issuance (mkIn (pi_iss i)).
Fixpoint lookup (m : list (nat * secrets)) (i : nat) : option secrets :=
  match m with [] => None | (k, s) :: r => if Nat.eqb k i then Some s else lookup r i end.

(* blind_checks, first loop: issuances must be declared unblinded *)
Fixpoint check_issuances (ins : list pin) (i : nat) : oc pset_err unit :=
  match ins with
  | [] => OVal tt
  | inp :: r =>
      if pin_has_issuance inp && (match pi_blinded_issuance inp with Some x => N.eqb x 1 | None => true end)
      then OFail (PBlindingIssuanceUnsupported i) else check_issuances r (S i)
  end.
(* blind_checks, second loop: the outputs this party blinds *)
Fixpoint outs_to_blind (n_inputs : nat) (sec : list (nat * secrets)) (outs : list pout) (i : nat) : oc pset_err (list nat) :=
  match outs with
  | [] => OVal []
  | out :: r =>
      match po_blinding_key out with
      | None => outs_to_blind n_inputs sec r (S i)
      | Some _ =>
          match po_blinder_index out with
          | Some b =>
              if (n_inputs <=? b)%nat then OFail (PBlinderIndexOutOfBounds i b)
              else match lookup sec b with
                   | None => outs_to_blind n_inputs sec r (S i)
                   | Some _ => let* l := outs_to_blind n_inputs sec r (S i) in OVal (i :: l)
                   end
          | None => outs_to_blind n_inputs sec r (S i)
          end
      end
  end.
Definition blind_checks (p : pset) (sec : list (nat * secrets)) : oc pset_err (list (Z * Z * Z) * list nat) :=
  let* _ := check_issuances (ps_in p) 0 in
  let* idx := outs_to_blind (length (ps_in p)) sec (ps_out p) 0 in
  OVal (map (fun e => value_blind_inputs (snd e)) sec, idx).

(* surjection_inputs *)
Fixpoint surjection_inputs (ins : list pin) (sec : list (nat * secrets)) (i : nat) : oc pset_err (list sinput) :=
  match ins with
  | [] => OVal []
  | inp :: r =>
      match pi_utxo inp with
      | None => OFail (PMissingWitnessUtxo i)
      | Some utxo =>
          let target := match lookup sec i with Some s => sinput_of_secrets s | None => SUnknown (o_asset utxo) end in
          let iss := if pin_has_issuance inp then
                       (if value_is_null (is_amount (pi_iss inp)) then [] else [SKnown (is_asset (pi_iss inp)) 0])
                       ++ (if value_is_null (is_keys (pi_iss inp)) then [] else [SKnown (is_token (pi_iss inp)) 0])
                     else [] in
          let* rest := surjection_inputs r sec (S i) in
          OVal (target :: iss ++ rest)
      end
  end.

(* Output::to_txout *)
Definition is_partially_blinded (o : pout) : bool :=
  match po_blinding_key o with
  | None => false
  | Some _ => match po_amount_comm o, po_asset_comm o, po_rp o, po_sp o, po_ecdh o with
              | None, None, None, None, None => false | _, _, _, _, _ => true end
  end.
Definition is_fully_blinded (o : pout) : bool :=
  match po_blinding_key o, po_amount_comm o, po_asset_comm o, po_rp o, po_sp o, po_ecdh o with
  | Some _, Some _, Some _, Some _, Some _, Some _ => true | _, _, _, _, _, _ => false end.
Definition to_txout (o : pout) : txout :=
  mkOut (match po_asset_comm o, po_asset o with Some g, _ => AConf g | None, Some a => AExp a | None, None => ANull end)
        (match po_amount_comm o, po_amount o with Some c, _ => VConf c | None, Some v => VExp v | None, None => VNull end)
        (match (if is_partially_blinded o then po_ecdh o else po_blinding_key o) with Some pk => NConf pk | None => NNull end)
        (po_script o) (po_rp o) (po_sp o).

(* BlindAssetProofs::blind_asset_proof / BlindValueProofs::blind_value_proof and their verifiers *)
Definition blind_asset_proof (asset : N) (abf : Z) : option sproof := sp_new asset abf [(gH asset, Some asset, 0)].
Definition blind_asset_proof_verify (sp : sproof) (asset : N) (asset_commit : gel) : bool := sp_verify sp asset_commit [gH asset].
(* RangeProof::new(min_value = value, exp = -1): a proof for the exact value, no message, no extra commitment *)
Definition blind_value_proof (value : Z) (value_commit asset_gen : gel) (vbf : Z) : option rproof :=
  Some (mkRP value_commit [] asset_gen value vbf (0%N, 0) 0 true).
Definition blind_value_proof_verify (rp : rproof) (value : Z) (asset_gen value_commit : gel) : bool :=
  rp_verify rp value_commit [] asset_gen && (rp_value rp =? value).

Section Keys.
  Variable pubk : Z -> Z.
  Variable ecdh : Z -> Z -> Z.

  (* TxOut::to_non_last_confidential *)
  Definition to_non_last_confidential (p : profile) (rnd : list Z) (t : txout) (blinder : Z) (spent : list sinput)
    : oc blind_err (txout * Z * Z * Z * list Z) :=
    match o_value t with
    | VExp value =>
        let* oaddr := address_spk p (o_script t) in
        match oaddr with
        | None => OFail BInvalidAddress
        | Some spk =>
            match o_asset t with
            | AExp asset => new_not_last_confidential pubk ecdh rnd value spk blinder asset spent
            | _ => OFail BExpectedExplicitAsset
            end
        end
    | _ => OFail BExpectedExplicitValue
    end.

  Definition opt_err {A} (o : option A) (e : pset_err) : oc pset_err A := match o with Some a => OVal a | None => OFail e end.
  Definition lift_blind {A} (i : nat) (o : oc blind_err A) : oc pset_err A := map_err (PConfidentialTxOutError i) o.

  (* the part of the output that blinding writes *)
  Definition set_blinded (o : pout) (t : txout) (bvp : option rproof) (bap : option sproof) : pout :=
    mkPO (po_asset o) (po_amount o) (po_script o) (po_blinding_key o) (po_blinder_index o)
         (match o_asset t with AConf g => Some g | _ => None end)
         (match o_value t with VConf c => Some c | _ => None end)
         (match o_nonce t with NConf pk => Some pk | _ => None end)
         (o_rp t) (o_sp t) bvp bap.
  Definition set_blinder_index (o : pout) (b : option nat) : pout :=
    mkPO (po_asset o) (po_amount o) (po_script o) (po_blinding_key o) b (po_asset_comm o) (po_amount_comm o) (po_ecdh o)
         (po_rp o) (po_sp o) (po_bvp o) (po_bap o).

  (* the body of `for i in outs_to_blind` *)
  Definition blind_one (p : profile) (surject_inputs : list sinput) (outs : list pout) (rnd : list Z) (i : nat)
    : oc pset_err (list pout * (Z * Z * Z) * (Z * Z * Z) * list Z) :=       (* new outputs, (value, abf, vbf), (abf, vbf, esk), rnd *)
    match nth_error outs i with
    | None => OPanic PIndex
    | Some out =>
        let txout := to_txout out in
        let* blinder := opt_err (po_blinding_key out) (PMustHaveExplicitTxOut i) in
        let* (t', abf, vbf, ephemeral_sk, rnd) := lift_blind i (to_non_last_confidential p rnd txout blinder surject_inputs) in
        let* value := opt_err (po_amount out) (PMustHaveExplicitTxOut i) in
        let* asset_id := opt_err (po_asset out) (PMustHaveExplicitTxOut i) in
        let* bap := opt_err (blind_asset_proof asset_id abf) (PBlindingProofsCreationError i) in
        match o_asset t', o_value t' with
        | AConf asset_gen, VConf value_comm =>
            let* bvp := opt_err (blind_value_proof value value_comm asset_gen vbf) (PBlindingProofsCreationError i) in
            OVal (set_nth outs i (set_blinded out t' (Some bvp) (Some bap)), (value, abf, vbf), (abf, vbf, ephemeral_sk), rnd)
        | _, _ => OPanic PUnwrapExplicit     (* .expect("Blinding proof creation error") *)
        end
    end.
  Fixpoint blind_each (p : profile) (surject_inputs : list sinput) (outs : list pout) (rnd : list Z) (idx : list nat)
    : oc pset_err (list pout * list (Z * Z * Z) * list (nat * (Z * Z * Z)) * list Z) :=
    match idx with
    | [] => OVal (outs, [], [], rnd)
    | i :: r =>
        let* (outs1, osec, rep, rnd1) := blind_one p surject_inputs outs rnd i in
        let* (outs2, osecs, reps, rnd2) := blind_each p surject_inputs outs1 rnd1 r in
        OVal (outs2, osec :: osecs, (i, rep) :: reps, rnd2)
    end.

  (* PartiallySignedTransaction::blind_non_last *)
  Definition blind_non_last (p : profile) (ps : pset) (sec : list (nat * secrets)) (rnd : list Z)
    : oc pset_err (pset * list (nat * (Z * Z * Z)) * list Z) :=
    let* (inp_secrets, idx) := blind_checks ps sec in
    match idx with
    | [] => OVal (ps, [], rnd)
    | _ =>
        let* surject_inputs := surjection_inputs (ps_in ps) sec 0 in
        let* (outs, out_secrets, ret, rnd) := blind_each p surject_inputs (ps_out ps) rnd idx in
        match rev out_secrets with
        | [] => OPanic PIndex                                   (* out_secrets.pop().unwrap() *)
        | (value, abf, vbf) :: others_rev =>
            let vbf2 := last_vbf value abf inp_secrets (rev others_rev) in
            let vbf2 := zadd vbf2 (zneg vbf) in                 (* vbf2 += -vbf *)
            OVal (mkPset (ps_in ps) outs (ps_scalars ps ++ [vbf2]), ret, rnd)
        end
    end.

  Fixpoint explicit_out_secrets (outs : list pout) (i : nat) : oc pset_err (list (Z * Z * Z)) :=
    match outs with
    | [] => OVal []
    | out :: r =>
        match po_blinding_key out with
        | None => let* amt := opt_err (po_amount out) (PMustHaveExplicitTxOut i) in
                  let* l := explicit_out_secrets r (S i) in OVal ((amt, 0, 0) :: l)
        | Some _ => explicit_out_secrets r (S i)
        end
    end.

  (* PartiallySignedTransaction::blind_last *)
  Definition blind_last (p : profile) (ps : pset) (sec : list (nat * secrets)) (rnd : list Z)
    : oc pset_err (pset * list (nat * (Z * Z * Z)) * list Z) :=
    let* (inp_secrets, idx) := blind_checks ps sec in
    match rev idx with
    | [] => OFail PAtleastOneOutputBlind
    | last_out_index :: rest_rev =>
        let* (ps, ret, rnd, inp_secrets) :=
          match rest_rev with
          | [] => OVal (ps, [], rnd, inp_secrets)
          | _ =>
              match nth_error (ps_out ps) last_out_index with
              | None => OPanic PIndex
              | Some lo =>
                  let ind := po_blinder_index lo in
                  let ps1 := mkPset (ps_in ps) (set_nth (ps_out ps) last_out_index (set_blinder_index lo None)) (ps_scalars ps) in
                  let* (ps2, ret, rnd) := blind_non_last p ps1 sec rnd in
                  match nth_error (ps_out ps2) last_out_index with
                  | None => OPanic PIndex
                  | Some lo2 =>
                      OVal (mkPset (ps_in ps2) (set_nth (ps_out ps2) last_out_index (set_blinder_index lo2 ind)) (ps_scalars ps2),
                            ret, rnd, [])
                  end
              end
          end in
        let* surject_inputs := surjection_inputs (ps_in ps) sec 0 in
        match nth_error (ps_out ps) last_out_index with
        | None => OPanic PIndex
        | Some lo =>
            let* asset_id := opt_err (po_asset lo) (PMustHaveExplicitTxOut last_out_index) in
            let* (out_abf, rnd) := lift_blind last_out_index (draw rnd) in
            let* (out_asset_commitment, surjection_proof) := lift_blind last_out_index (asset_blind (AExp asset_id) out_abf surject_inputs) in
            let* value := opt_err (po_amount lo) (PMustHaveExplicitTxOut last_out_index) in
            let* exp_out_secrets := explicit_out_secrets (ps_out ps) 0 in
            let final_vbf := last_vbf value out_abf inp_secrets exp_out_secrets in
            let final_vbf := fold_left zadd (ps_scalars ps) final_vbf in
            let* receiver_blinding_pk := opt_err (po_blinding_key lo) (PMustHaveExplicitTxOut last_out_index) in
            let* (ephemeral_sk, rnd) := lift_blind last_out_index (draw rnd) in
            let msg := (asset_id, out_abf) in
            let* (value_commitment, nonce, rangeproof) :=
              lift_blind last_out_index (value_blind pubk ecdh (VExp value) final_vbf receiver_blinding_pk ephemeral_sk (po_script lo) msg) in
            let t' := mkOut out_asset_commitment value_commitment nonce (po_script lo) (Some rangeproof) (Some surjection_proof) in
            let* bap := opt_err (blind_asset_proof asset_id out_abf) (PBlindingProofsCreationError last_out_index) in
            match o_asset t', o_value t' with
            | AConf asset_gen, VConf value_comm =>
                let* bvp := opt_err (blind_value_proof value value_comm asset_gen final_vbf) (PBlindingProofsCreationError last_out_index) in
                OVal (mkPset (ps_in ps) (set_nth (ps_out ps) last_out_index (set_blinded lo t' (Some bvp) (Some bap))) [],
                      ret ++ [(last_out_index, (out_abf, final_vbf, ephemeral_sk))], rnd)
            | _, _ => OPanic PUnwrapExplicit
            end
        end
    end.

  (* the multi-party flow of examples/pset_blind_coinjoin.rs: the non-last parties (secrets, randomness) one after the other,
     the PSET handed on through `hop` (serialize, send, deserialize), then the last party *)
  Fixpoint run_nonlast (hop : pset -> pset) (p : profile) (ps : pset) (l : list (list (nat * secrets) * list Z)) : oc pset_err pset :=
    match l with
    | [] => OVal ps
    | (sec, rnd) :: r => let* (ps', _, _) := blind_non_last p ps sec rnd in run_nonlast hop p (hop ps') r
    end.
  Definition run_flow (hop : pset -> pset) (p : profile) (ps : pset) (l : list (list (nat * secrets) * list Z))
    (lastp : list (nat * secrets) * list Z) : oc pset_err (pset * list (nat * (Z * Z * Z))) :=
    let* ps1 := run_nonlast hop p ps l in
    let* (ps2, bl, _) := blind_last p ps1 (fst lastp) (snd lastp) in
    OVal (ps2, bl).

  (* extract_tx: inputs carry only the issuance here, outputs as in the code *)
  Fixpoint extract_outputs (outs : list pout) : oc pset_err (list txout) :=
    match outs with
    | [] => OVal []
    | o :: r =>
        match (match po_asset_comm o, po_asset o with Some g, _ => Some (AConf g) | None, Some a => Some (AExp a) | None, None => None end),
              (match po_amount_comm o, po_amount o with Some c, _ => Some (VConf c) | None, Some v => Some (VExp v) | None, None => None end) with
        | Some a, Some v =>
            let* l := extract_outputs r in
            OVal (mkOut a v (match po_ecdh o with Some pk => NConf pk | None => NNull end) (po_script o) (po_rp o) (po_sp o) :: l)
        | _, _ => OFail PExtractMissingOutput
        end
    end.
  Definition extract_tx (ps : pset) : oc pset_err tx :=
    let* outs := extract_outputs (ps_out ps) in
    OVal (mkTx (map (fun i => mkIn (pi_iss i)) (ps_in ps)) outs).
End Keys.
