(* C03 / C13 — model of src/sighash.rs following the Rust control flow: `SighashCache` with its three lazily filled
   caches (`get_or_insert_with`), the `Prevouts::{All,One}` access discipline, and the three pre-image writers
   `taproot_encode_signing_data_to`, `encode_segwitv0_signing_data_to`, `encode_legacy_signing_data_to` with their error
   order and their (documented) panics.  Hand-written, executable; no proofs here.
   The consensus encoders are the `enc` components of the codecs of Model/Tx.v (proved lawful for C01).
   A writer is modelled by the byte string written so far; a query is a state transformer
   `state -> state * sres bytes` so that a failed query may still have filled caches.
   Hash functions are Section variables: `H` = SHA-256 (sha256d x = H (H x)), `Htag` = the TapSighash/elements tagged hash. *)
From Coq Require Import List NArith Bool.
From Coq.Strings Require Import Byte.
From EV Require Import Base.Bytes Base.Codec Gen.Tables Model.Tx.
Import ListNotations.
Open Scope N_scope.

(* ---------- sighash types: numeric values and the ANYONECANPAY split are read from the Rust text (Gen/Tables.v) ---------- *)
Inductive ecdsa_ty := EAll | ENone | ESingle | EAllAcp | ENoneAcp | ESingleAcp.
Inductive schnorr_ty := SDefault | SAll | SNone | SSingle | SAllAcp | SNoneAcp | SSingleAcp | SReserved.
Definition ecdsa_u32 (t : ecdsa_ty) : N :=
  match t with EAll => ECDSA_All | ENone => ECDSA_None | ESingle => ECDSA_Single
             | EAllAcp => ECDSA_AllPlusAnyoneCanPay | ENoneAcp => ECDSA_NonePlusAnyoneCanPay | ESingleAcp => ECDSA_SinglePlusAnyoneCanPay end.
Definition schnorr_u8 (t : schnorr_ty) : N :=
  match t with SDefault => SCHNORR_Default | SAll => SCHNORR_All | SNone => SCHNORR_None | SSingle => SCHNORR_Single
             | SAllAcp => SCHNORR_AllPlusAnyoneCanPay | SNoneAcp => SCHNORR_NonePlusAnyoneCanPay | SSingleAcp => SCHNORR_SinglePlusAnyoneCanPay
             | SReserved => SCHNORR_Reserved end.
Definition ecdsa_all : list ecdsa_ty := [EAll; ENone; ESingle; EAllAcp; ENoneAcp; ESingleAcp].
Definition schnorr_all : list schnorr_ty := [SDefault; SAll; SNone; SSingle; SAllAcp; SNoneAcp; SSingleAcp; SReserved].
Definition ecdsa_of_u32 (n : N) : option ecdsa_ty := find (fun t => ecdsa_u32 t =? n) ecdsa_all.
Definition schnorr_of_u8 (n : N) : option schnorr_ty := find (fun t => schnorr_u8 t =? n) schnorr_all.
Fixpoint assocN {A} (n : N) (l : list (N * A)) : option A :=
  match l with [] => None | (k, v) :: r => if k =? n then Some v else assocN n r end.
(* split_anyonecanpay_flag *)
Definition ecdsa_split (t : ecdsa_ty) : ecdsa_ty * bool :=
  match assocN (ecdsa_u32 t) ECDSA_SPLIT with
  | Some (b, acp) => match ecdsa_of_u32 b with Some t' => (t', acp) | None => (t, false) end
  | None => (t, false) end.
Definition schnorr_split (t : schnorr_ty) : schnorr_ty * bool :=
  match assocN (schnorr_u8 t) SCHNORR_SPLIT with
  | Some (b, acp) => match schnorr_of_u8 b with Some t' => (t', acp) | None => (t, false) end
  | None => (t, false) end.
Definition ecdsa_eqb (a b : ecdsa_ty) : bool := ecdsa_u32 a =? ecdsa_u32 b.
Definition schnorr_eqb (a b : schnorr_ty) : bool := schnorr_u8 a =? schnorr_u8 b.

(* ---------- errors, results, prevouts ---------- *)
Inductive serr := IndexOutOfInputsBounds (index inputs_size : N) | SingleWithoutCorrespondingOutput (index outputs_size : N)
                | PrevoutsSize | PrevoutIndex | PrevoutKind | WrongAnnex.
(* SPanic: the documented panics (`assert!`, slice indexing) of the legacy and segwit writers, and `unreachable!()` *)
Inductive sres (A : Type) := SOk (a : A) | SErr (e : serr) | SPanic.
Arguments SOk {A}. Arguments SErr {A}. Arguments SPanic {A}.
Inductive prevouts := POne (index : nat) (o : txout) | PAll (l : list txout).

Definition check_all (p : prevouts) (t : tx) : sres unit :=
  match p with PAll l => if Nat.eqb (length l) (length (tx_in t)) then SOk tt else SErr PrevoutsSize | POne _ _ => SOk tt end.
Definition get_all (p : prevouts) : sres (list txout) := match p with PAll l => SOk l | POne _ _ => SErr PrevoutKind end.
Definition pv_get (p : prevouts) (input_index : nat) : sres txout :=
  match p with
  | POne index o => if Nat.eqb input_index index then SOk o else SErr PrevoutIndex
  | PAll l => match nth_error l input_index with Some o => SOk o | None => SErr PrevoutIndex end end.
(* Annex::new *)
Definition annex_new (b : bytes) : sres bytes :=
  match b with x :: _ => if b2n x =? ANNEX_PREFIX then SOk b else SErr WrongAnnex | [] => SErr WrongAnnex end.

Definition annex_opt (a : option bytes) : sres (option bytes) :=
  match a with None => SOk None | Some b => match annex_new b with SOk x => SOk (Some x) | SErr e => SErr e | SPanic => SPanic end end.

(* ---------- the cache object ---------- *)
Record common_cache := { cc_prevouts : bytes; cc_sequences : bytes; cc_outputs : bytes; cc_issuances : bytes;
                         cc_output_witnesses : bytes }.   (* (taproot only) depends on the transaction alone *)
Record segwit_cache := { sc_prevouts : bytes; sc_sequences : bytes; sc_issuances : bytes; sc_outputs : bytes }.
Record taproot_cache := { tc_script_pubkeys : bytes; tc_outpoint_flags : bytes; tc_asset_amounts : bytes;
                          tc_issuance_rangeproofs : bytes }.
Record state := { st_tx : tx; st_common : option common_cache; st_segwit : option segwit_cache; st_taproot : option taproot_cache }.
Definition init (t : tx) : state := {| st_tx := t; st_common := None; st_segwit := None; st_taproot := None |}.   (* SighashCache::new *)

Definition M (A : Type) := state -> state * sres A.
Definition ret {A} (a : A) : M A := fun s => (s, SOk a).
Definition lift {A} (r : sres A) : M A := fun s => (s, r).
Definition bind {A B} (m : M A) (k : A -> M B) : M B :=
  fun s => let (s1, r) := m s in match r with SOk a => k a s1 | SErr e => (s1, SErr e) | SPanic => (s1, SPanic) end.
Definition get_tx : M tx := fun s => (s, SOk (st_tx s)).
Notation "x <- m ;; k" := (bind m (fun x => k)) (at level 61, m at next level, right associativity).

(* TxIn::outpoint_flag *)
Definition outpoint_flag (i : txin) : N := N.lor (N.shiftl (if in_pegin i then 1 else 0) 6) (N.shiftl (if has_issuance i then 1 else 0) 7).
Definition e_u32 (n : N) : bytes := le_enc 4 n.
Definition opt_ok {A} (o : option A) (e : serr) : sres A := match o with Some a => SOk a | None => SErr e end.
Definition nat_u32 (n : nat) : N := N.of_nat n mod 4294967296.      (* `input_index as u32` *)

Section IMPL.
Variable pt_ok : bytes -> bool.
Variable maxvec : N.
Variable H : bytes -> bytes.
Variable Htag : bytes -> bytes.

Definition e_script : bytes -> bytes := enc (c_script maxvec).
Definition e_value : cvalue -> bytes := enc (c_value pt_ok).
Definition e_asset : casset -> bytes := enc (c_asset pt_ok).
Definition e_issuance : issuance -> bytes := enc (c_issuance pt_ok).
Definition e_outpoint : outpoint -> bytes := enc c_outpoint.
Definition e_txout : txout -> bytes := enc (c_txout pt_ok maxvec).
Definition e_rangeproof : option bytes -> bytes := enc (c_rangeproof maxvec).
Definition e_surjproof : option bytes -> bytes := enc (c_surjproof maxvec).
Definition e_outwit : outwit -> bytes := enc (c_outwit maxvec).
(* TxIn::consensus_encode, literally (`if self.has_issuance()`); it equals `enc (c_txin ..)` of Model/Tx.v on canonical inputs
   (Proofs/Sighash.v, e_txin_canonical) *)
Definition e_txin (i : txin) : bytes :=
  o_txid (in_prev i) ++ e_u32 (wire_vout i) ++ e_script (in_script i) ++ e_u32 (in_seq i) ++ (if has_issuance i then e_issuance (in_iss i) else []).
Definition e_txins (l : list txin) : bytes := vi_enc (N.of_nat (length l)) ++ flat_map e_txin l.       (* Vec<TxIn>::consensus_encode *)
Definition e_txouts (l : list txout) : bytes := vi_enc (N.of_nat (length l)) ++ flat_map e_txout l.   (* Vec<TxOut>::consensus_encode *)

(* the closures given to get_or_insert_with *)
Definition compute_common (t : tx) : common_cache :=
  {| cc_prevouts := H (flat_map (fun i => e_outpoint (in_prev i)) (tx_in t));
     cc_sequences := H (flat_map (fun i => e_u32 (in_seq i)) (tx_in t));
     cc_outputs := H (flat_map e_txout (tx_out t));
     cc_issuances := H (flat_map (fun i => if has_issuance i then e_issuance (in_iss i) else [x00]) (tx_in t));
     cc_output_witnesses := H (flat_map (fun o => e_surjproof (w_surj (out_wit o)) ++ e_rangeproof (w_range (out_wit o))) (tx_out t)) |}.
Definition compute_segwit (c : common_cache) : segwit_cache :=
  {| sc_prevouts := H (cc_prevouts c); sc_sequences := H (cc_sequences c); sc_outputs := H (cc_outputs c); sc_issuances := H (cc_issuances c) |}.
Definition compute_taproot (t : tx) (ps : list txout) : taproot_cache :=
  {| tc_asset_amounts := H (flat_map (fun o => e_asset (out_asset o) ++ e_value (out_value o)) ps);
     tc_script_pubkeys := H (flat_map (fun o => e_script (out_script o)) ps);
     tc_outpoint_flags := H (map (fun i => n2b (outpoint_flag i)) (tx_in t));
     tc_issuance_rangeproofs := H (flat_map (fun i => e_rangeproof (w_amount_rp (in_wit i)) ++ e_rangeproof (w_keys_rp (in_wit i))) (tx_in t)) |}.

(* common_cache / segwit_cache / taproot_cache : get_or_insert_with *)
Definition common_cache_get : M common_cache := fun s =>
  match st_common s with
  | Some c => (s, SOk c)
  | None => let c := compute_common (st_tx s) in
            ({| st_tx := st_tx s; st_common := Some c; st_segwit := st_segwit s; st_taproot := st_taproot s |}, SOk c) end.
Definition segwit_cache_get : M segwit_cache := fun s =>
  match st_segwit s with
  | Some c => (s, SOk c)
  | None => let (s1, r) := common_cache_get s in
            match r with
            | SOk cc => let c := compute_segwit cc in
                        ({| st_tx := st_tx s1; st_common := st_common s1; st_segwit := Some c; st_taproot := st_taproot s1 |}, SOk c)
            | SErr e => (s1, SErr e) | SPanic => (s1, SPanic) end end.
Definition taproot_cache_get (ps : list txout) : M taproot_cache := fun s =>
  match st_taproot s with
  | Some c => (s, SOk c)
  | None => let c := compute_taproot (st_tx s) ps in
            ({| st_tx := st_tx s; st_common := st_common s; st_segwit := st_segwit s; st_taproot := Some c |}, SOk c) end.

(* ---------- taproot_encode_signing_data_to ---------- *)
Definition taproot_encode (input_index : nat) (pv : prevouts) (annex : option bytes) (leaf : option (bytes * N))
                          (ty : schnorr_ty) (genesis : bytes) : M bytes :=
  t <- get_tx ;;
  _ <- lift (check_all pv t) ;;
  let '(sighash, anyone_can_pay) := schnorr_split ty in
  let w := genesis ++ genesis in
  let w := w ++ [n2b (schnorr_u8 ty)] in
  let w := w ++ e_u32 (tx_version t) in
  let w := w ++ e_u32 (tx_lock t) in
  w <- (if negb anyone_can_pay then
          ps <- lift (get_all pv) ;; tc <- taproot_cache_get ps ;; let w := w ++ tc_outpoint_flags tc in
          cc <- common_cache_get ;; let w := w ++ cc_prevouts cc in
          ps <- lift (get_all pv) ;; tc <- taproot_cache_get ps ;; let w := w ++ tc_asset_amounts tc in
          ps <- lift (get_all pv) ;; tc <- taproot_cache_get ps ;; let w := w ++ tc_script_pubkeys tc in
          cc <- common_cache_get ;; let w := w ++ cc_sequences cc in
          cc <- common_cache_get ;; let w := w ++ cc_issuances cc in
          ps <- lift (get_all pv) ;; tc <- taproot_cache_get ps ;; let w := w ++ tc_issuance_rangeproofs tc in
          ret w
        else ret w) ;;
  w <- (if negb (schnorr_eqb sighash SNone) && negb (schnorr_eqb sighash SSingle) then
          cc <- common_cache_get ;; let w := w ++ cc_outputs cc in
          cc <- common_cache_get ;; let w := w ++ cc_output_witnesses cc in
          ret w
        else ret w) ;;
  let spend_type := N.lor (if annex then 1 else 0) (if leaf then 2 else 0) in
  let w := w ++ [n2b spend_type] in
  w <- (if anyone_can_pay then
          txin <- lift (opt_ok (nth_error (tx_in t) input_index)
                               (IndexOutOfInputsBounds (N.of_nat input_index) (N.of_nat (length (tx_in t))))) ;;
          previous_output <- lift (pv_get pv input_index) ;;
          let w := w ++ [n2b (outpoint_flag txin)] in
          let w := w ++ e_outpoint (in_prev txin) in
          let w := w ++ e_asset (out_asset previous_output) in
          let w := w ++ e_value (out_value previous_output) in
          let w := w ++ e_script (out_script previous_output) in
          let w := w ++ e_u32 (in_seq txin) in
          if has_issuance txin then
            let w := w ++ e_issuance (in_iss txin) in
            let sha_single_issuance_rangeproofs := H (e_rangeproof (w_amount_rp (in_wit txin)) ++ e_rangeproof (w_keys_rp (in_wit txin))) in
            ret (w ++ sha_single_issuance_rangeproofs)
          else ret (w ++ [x00])
        else ret (w ++ e_u32 (nat_u32 input_index))) ;;
  let w := match annex with Some a => w ++ H (vi_enc (N.of_nat (length a)) ++ a) | None => w end in
  w <- (if schnorr_eqb sighash SSingle then
          out <- lift (opt_ok (nth_error (tx_out t) input_index)
                              (SingleWithoutCorrespondingOutput (N.of_nat input_index) (N.of_nat (length (tx_out t))))) ;;
          let w := w ++ H (e_txout out) in
          ret (w ++ H (e_outwit (out_wit out)))
        else ret w) ;;
  let w := match leaf with Some (h, pos) => w ++ h ++ [n2b KEY_VERSION_0] ++ e_u32 pos | None => w end in
  ret w.

Definition mapM {A B} (f : A -> B) (m : M A) : M B := x <- m ;; ret (f x).
(* taproot_sighash / taproot_key_spend_signature_hash / taproot_script_spend_signature_hash *)
Definition taproot_sighash idx pv annex leaf ty genesis : M bytes := mapM Htag (taproot_encode idx pv annex leaf ty genesis).
Definition taproot_key_spend idx pv ty genesis : M bytes := mapM Htag (taproot_encode idx pv None None ty genesis).
Definition taproot_script_spend idx pv (leaf_hash : bytes) ty genesis : M bytes :=
  mapM Htag (taproot_encode idx pv None (Some (leaf_hash, DEFAULT_CODESEP_POS)) ty genesis).

(* ---------- encode_segwitv0_signing_data_to ---------- *)
Definition zero_hash : bytes := repeat x00 32.
Definition segwit_encode (input_index : nat) (script_code : bytes) (value : cvalue) (ty : ecdsa_ty) : M bytes :=
  t <- get_tx ;;
  let '(sighash, anyone_can_pay) := ecdsa_split ty in
  let w := e_u32 (tx_version t) in
  w <- (if anyone_can_pay then ret (w ++ zero_hash) else sc <- segwit_cache_get ;; ret (w ++ sc_prevouts sc)) ;;
  w <- (if negb anyone_can_pay && negb (ecdsa_eqb sighash ESingle) && negb (ecdsa_eqb sighash ENone)
        then sc <- segwit_cache_get ;; ret (w ++ sc_sequences sc) else ret (w ++ zero_hash)) ;;
  w <- (if anyone_can_pay then ret (w ++ zero_hash) else sc <- segwit_cache_get ;; ret (w ++ sc_issuances sc)) ;;
  txin <- lift (match nth_error (tx_in t) input_index with Some i => SOk i | None => SPanic end) ;;   (* self.tx.input[input_index] *)
  let w := w ++ e_outpoint (in_prev txin) in
  let w := w ++ e_script script_code in
  let w := w ++ e_value value in
  let w := w ++ e_u32 (in_seq txin) in
  let w := if has_issuance txin then w ++ e_issuance (in_iss txin) else w in
  w <- (if negb (ecdsa_eqb sighash ESingle) && negb (ecdsa_eqb sighash ENone) then
          sc <- segwit_cache_get ;; ret (w ++ sc_outputs sc)
        else if ecdsa_eqb sighash ESingle && Nat.ltb input_index (length (tx_out t)) then
          out <- lift (match nth_error (tx_out t) input_index with Some o => SOk o | None => SPanic end) ;;
          ret (w ++ H (H (e_txout out)))
        else ret (w ++ zero_hash)) ;;
  let w := w ++ e_u32 (tx_lock t) in
  ret (w ++ e_u32 (ecdsa_u32 ty)).
Definition segwit_sighash idx script_code value ty : M bytes := mapM (fun m => H (H m)) (segwit_encode idx script_code value ty).

(* ---------- encode_legacy_signing_data_to (&self: no cache is read or written) ---------- *)
Definition default_txout : txout := {| out_asset := ANull; out_value := VNull; out_nonce := NNull; out_script := []; out_wit := empty_outwit |}.
Fixpoint enumerate_from {A} (n : nat) (l : list A) : list (nat * A) := match l with [] => [] | a :: r => (n, a) :: enumerate_from (S n) r end.
Definition legacy_encode_tx (t : tx) (input_index : nat) (script_pubkey : bytes) (ty : ecdsa_ty) : sres bytes :=
  if negb (Nat.ltb input_index (length (tx_in t))) then SPanic else                       (* assert! *)
  let '(sighash, anyone_can_pay) := ecdsa_split ty in
  if ecdsa_eqb sighash ESingle && Nat.leb (length (tx_out t)) input_index then SOk LEGACY_SINGLE_BUG_BYTES else
  match (if anyone_can_pay then
           match nth_error (tx_in t) input_index with
           | Some i => SOk [ {| in_prev := in_prev i; in_pegin := in_pegin i; in_script := script_pubkey; in_seq := in_seq i;
                               in_iss := in_iss i; in_wit := empty_inwit |} ]
           | None => SPanic end
         else
           SOk (map (fun '(n, input) =>
                  {| in_prev := in_prev input; in_pegin := in_pegin input;
                     in_script := (if Nat.eqb n input_index then script_pubkey else []);
                     in_seq := (if negb (Nat.eqb n input_index) && (ecdsa_eqb sighash ESingle || ecdsa_eqb sighash ENone) then 0 else in_seq input);
                     in_iss := in_iss input; in_wit := empty_inwit |}) (enumerate_from 0 (tx_in t)))) with
  | SOk inputs =>
      match (if ecdsa_eqb sighash EAll then SOk (tx_out t)
             else if ecdsa_eqb sighash ESingle then
               SOk (map (fun '(n, out) => if Nat.eqb n input_index then out else default_txout)
                        (enumerate_from 0 (firstn (input_index + 1) (tx_out t))))
             else if ecdsa_eqb sighash ENone then SOk []
             else SPanic (* unreachable!() *)) with
      | SOk outputs =>
          let w := e_u32 (tx_version t) in
          let w := w ++ e_txins inputs in
          let w := w ++ e_txouts outputs in
          let w := w ++ e_u32 (tx_lock t) in
          SOk (w ++ le_enc 4 (ecdsa_u32 ty))
      | SErr e => SErr e | SPanic => SPanic end
  | SErr e => SErr e | SPanic => SPanic end.
Definition legacy_encode (input_index : nat) (script_pubkey : bytes) (ty : ecdsa_ty) : M bytes :=
  t <- get_tx ;; lift (legacy_encode_tx t input_index script_pubkey ty).
(* legacy_sighash: the "SIGHASH_SINGLE bug" — without a corresponding output the constant 1 itself is the digest *)
Definition sighash_one : bytes := x01 :: repeat x00 31.        (* `let mut one = [0u8; 32]; one[0] = 1;` *)
Definition legacy_sighash idx script_pubkey ty : M bytes :=
  t <- get_tx ;;
  let '(sighash, _) := ecdsa_split ty in
  if ecdsa_eqb sighash ESingle && Nat.ltb idx (length (tx_in t)) && Nat.leb (length (tx_out t)) idx then ret sighash_one
  else mapM (fun m => H (H m)) (legacy_encode idx script_pubkey ty).

(* ---------- witness_mut(i): the caller overwrites the script witness of input i (None when out of range) ---------- *)
Definition set_script_witness_in (i : txin) (w : list bytes) : txin :=
  set_inwit i {| w_amount_rp := w_amount_rp (in_wit i); w_keys_rp := w_keys_rp (in_wit i); w_script := w; w_pegin := w_pegin (in_wit i) |}.
Fixpoint update_nth {A} (n : nat) (f : A -> A) (l : list A) : list A :=
  match l, n with [], _ => [] | a :: r, O => f a :: r | a :: r, S n' => a :: update_nth n' f r end.
Definition set_script_witness (t : tx) (i : nat) (w : list bytes) : tx :=
  {| tx_version := tx_version t; tx_lock := tx_lock t; tx_in := update_nth i (fun x => set_script_witness_in x w) (tx_in t); tx_out := tx_out t |}.
Definition witness_mut (i : nat) (w : list bytes) : state -> state * bool := fun s =>
  ({| st_tx := set_script_witness (st_tx s) i w; st_common := st_common s; st_segwit := st_segwit s; st_taproot := st_taproot s |},
   Nat.ltb i (length (tx_in (st_tx s)))).
End IMPL.
