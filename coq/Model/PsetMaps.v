(* C07 — the generic, table-driven model of the three PSET maps (src/pset/map/{global,input,output}.rs, macros.rs) and of
   PartiallySignedTransaction's Encodable/Decodable (src/pset/mod.rs).  Hand-written, executable; no proofs here.

   Representation (DESIGN C07, "Representation decision").  A decoded map is not a typed record: it is the list of its
   entries (field, key data, value) where the value (and the key data of a keyed field) is stored as the CANONICAL BYTE
   STRING of that field, i.e. what the Rust `Serialize` emits for what `Deserialize` returned.  The list is kept in the
   order `Map::get_pairs` emits (field position in the table, then the `Ord` of the Rust key type inside a BTreeMap
   field, insertion order inside a Vec field), so `unkeyed f` = the entry of field f with empty key data, `keyed f` = the
   sorted sub-list of field f (accessors `get_opt`, `get_keyed` below).  Every field (a `row` of the table) carries its
   canonisers `r_kcanon`, `r_vcanon` (= Deserialize followed by Serialize of the key / value type).  The tables
   themselves (type bytes, proprietary subtypes, keyed or not, value types, mandatory, emission position) are GENERATED from
   the Rust text (Gen/Tables.v, translator/tables_C07.py) and turned into rows in Model/PsetTables.v. *)
From Coq Require Import List Arith NArith Bool.
From Coq.Strings Require Import Byte.
From EV Require Import Base.Bytes Base.Codec Model.PsetRaw.
Import ListNotations.
Open Scope N_scope.

(* how a field stores what it receives *)
Inductive kind :=
  | KOpt        (* Option<T>:  key data must be empty; a second pair is DuplicateKey (impl_pset_insert_pair!, unkeyed arms) *)
  | KOptLast    (* Option<T> assigned without the is_none() test: a second pair silently replaces the first
                   (Global::consensus_decode, PSBT_ELEMENTS_GLOBAL_TX_MODIFIABLE) *)
  | KMap        (* BTreeMap<K, V> / Vec with a `contains` test: key data must be non-empty; an equal key is DuplicateKey *)
  | KReject.    (* a type that is always an error (PSET_GLOBAL_UNSIGNED_TX) *)
(* where the field lives in the key space *)
Inductive addr :=
  | APlain (t : byte)      (* raw key type t *)
  | APset (s : byte)       (* type 0xFC, proprietary prefix "pset", subtype s *)
  | AProp                  (* every other 0xFC key: the `proprietary` map, keyed by the whole ProprietaryKey *)
  | AUnk.                  (* every other type: the `unknown` map, keyed by the whole raw::Key *)
(* emission order inside one field *)
Inductive disc :=
  | DSorted (proj : bytes -> list bytes)   (* BTreeMap: ascending in the component-wise order of proj(key data) — the transcribed `Ord` *)
  | DAppend.                               (* Vec: order of arrival *)
Record row := {
  r_addr : addr;
  r_kind : kind;
  r_vfirst : bool;                          (* the value is parsed before the duplicate test (xpub, scalars) *)
  r_kcanon : bytes -> option bytes;         (* key data -> canonical key data *)
  r_vcanon : bytes -> bytes -> pres bytes;  (* canonical key data -> value -> canonical value *)
  r_disc : disc;
  r_mand : bool }.                          (* emitted unconditionally / required on decode *)
Definition table := list row.

Definition entry := (nat * bytes * bytes)%type.     (* (row index, canonical key data, canonical value) *)
Definition slot (e : entry) : nat := fst (fst e).
Definition ekey (e : entry) : bytes := snd (fst e).
Definition evalue (e : entry) : bytes := snd e.
Definition pmap := list entry.

Fixpoint find_idx {A} (p : A -> bool) (l : list A) : option nat :=
  match l with [] => None | x :: r => if p x then Some O else option_map S (find_idx p r) end.
Definition is_plain (t : byte) (r : row) : bool := match r_addr r with APlain t' => byte_eqb t t' | _ => false end.
Definition is_pset (s : byte) (r : row) : bool := match r_addr r with APset s' => byte_eqb s s' | _ => false end.
Definition is_prop (r : row) : bool := match r_addr r with AProp => true | _ => false end.
Definition is_unk (r : row) : bool := match r_addr r with AUnk => true | _ => false end.

Section MAPS.
Variable maxvec : N.

Section ONE.
Variable T : table.

(* the raw key `get_pairs` builds for an entry *)
Definition mk_key (e : entry) : rkey :=
  match nth_error T (slot e) with
  | Some r => match r_addr r with
              | APlain t => (t, ekey e)
              | APset s => (xfc, prop_enc maxvec pset_prefix s (ekey e))      (* ProprietaryKey::from_pset_pair(s, key).to_key() *)
              | AProp => (xfc, ekey e)
              | AUnk => match ekey e with t :: k => (t, k) | [] => (x00, []) end
              end
  | None => (x00, []) end.

(* the `match raw_key.type_value { ... }` of insert_pair / consensus_decode: which field a raw key addresses, and its key data *)
Definition classify (k : rkey) : pres (nat * bytes) :=
  let (t, kd) := k in
  match find_idx (is_plain t) T with
  | Some i => POk (i, kd)
  | None =>
      if byte_eqb t xfc then
        match prop_dec maxvec kd with
        | None => PErr EInvalid                                      (* ProprietaryKey::from_key(&raw_key)? *)
        | Some (pfx, s, d) =>
            match (if bytes_eqb pfx pset_prefix then find_idx (is_pset s) T else None) with
            | Some i => POk (i, d)
            | None => match find_idx is_prop T with Some i => POk (i, kd) | None => PErr EInvalid end
            end
        end
      else match find_idx is_unk T with Some i => POk (i, t :: kd) | None => PErr EInvalid end
  end.

Definition same (i : nat) (k : bytes) (x : entry) : bool := Nat.eqb (slot x) i && bytes_eqb (ekey x) k.
Definition has (m : pmap) (i : nat) (k : bytes) : bool := existsb (same i k) m.
Definition has_slot (m : pmap) (i : nat) : bool := existsb (fun x => Nat.eqb (slot x) i) m.
(* e is emitted before x *)
Definition before (e x : entry) : bool :=
  Nat.ltb (slot e) (slot x) ||
  (Nat.eqb (slot e) (slot x) &&
   match nth_error T (slot e) with
   | Some r => match r_disc r with
               | DSorted proj => match tcmp (proj (ekey e)) (proj (ekey x)) with Lt => true | _ => false end
               | DAppend => false end
   | None => false end).
Fixpoint ins (e : entry) (m : pmap) : pmap :=
  match m with [] => [e] | x :: r => if before e x then e :: m else x :: ins e r end.
Definition replace (i : nat) (k v : bytes) (m : pmap) : pmap := map (fun x => if same i k x then (i, k, v) else x) m.

Definition insert_pair (key : rkey) (v : bytes) (m : pmap) : pres pmap :=
  pbind (classify key) (fun ik =>
    let (i, kd) := ik in
    match nth_error T i with
    | None => PErr EInvalid
    | Some r =>
        match r_kind r with
        | KReject => PErr EInvalid
        | KOpt =>
            match kd with
            | _ :: _ => PErr EInvalid                                    (* Error::InvalidKey *)
            | [] => if has m i [] then PErr EDup
                    else pbind (r_vcanon r [] v) (fun c => POk (ins (i, [], c) m))
            end
        | KOptLast =>
            match kd with
            | _ :: _ => PErr EInvalid
            | [] => pbind (r_vcanon r [] v) (fun c => POk (if has m i [] then replace i [] c m else ins (i, [], c) m))
            end
        | KMap =>
            match kd with
            | [] => PErr EInvalid
            | _ :: _ =>
                match r_kcanon r kd with
                | None => PErr EInvalid
                | Some k =>
                    if r_vfirst r
                    then pbind (r_vcanon r k v) (fun c => if has m i k then PErr EDup else POk (ins (i, k, c) m))
                    else if has m i k then PErr EDup
                         else pbind (r_vcanon r k v) (fun c => POk (ins (i, k, c) m))
                end
            end
        end
    end).

(* the `loop { match raw::Pair::consensus_decode(&mut d) ... }` of the three Decodable impls; fuel = bytes left + 1 *)
Fixpoint dec_entries (fuel : nat) (bs : bytes) (m : pmap) : pres (pmap * bytes) :=
  match fuel with
  | O => PErr EInvalid
  | S f =>
      match dec_pair maxvec bs with
      | PErr e => PErr e
      | POk (None, rest) => POk (m, rest)
      | POk (Some (key, v), rest) => pbind (insert_pair key v m) (fun m' => dec_entries f rest m')
      end
  end.

(* mandatory fields *)
Definition missing (m : pmap) : bool :=
  existsb (fun i => match nth_error T i with Some r => r_mand r && negb (has_slot m i) | None => false end) (seq 0 (length T)).

Variable post : pmap -> option perr.    (* the checks after the loop (mandatory fields, version = 2, output completeness) *)
Definition dec_map (bs : bytes) : pres (pmap * bytes) :=
  pbind (dec_entries (S (length bs)) bs []) (fun mr =>
    match post (fst mr) with Some e => PErr e | None => POk mr end).

(* impl_psetmap_consensus_encoding!: the pairs of get_pairs, then 0x00 *)
Definition enc_entry (e : entry) : bytes := enc_pair maxvec (mk_key e, evalue e).
Definition enc_entries (m : pmap) : bytes := concat (map enc_entry m).
Definition enc_map (m : pmap) : bytes := enc_entries m ++ [x00].

(* typed views (DESIGN: `unkeyed f`, `keyed f`) *)
Definition get_opt (m : pmap) (i : nat) : option bytes := option_map evalue (find (same i []) m).
Definition get_keyed (m : pmap) (i : nat) : list (bytes * bytes) :=
  map (fun e => (ekey e, evalue e)) (filter (fun e => Nat.eqb (slot e) i) m).
(* BTreeMap::insert on a keyed field (used by the ELIP accessors): replace or insert at the sorted position *)
Definition set_keyed (m : pmap) (i : nat) (k v : bytes) : pmap := if has m i k then replace i k v m else ins (i, k, v) m.
Definition get_key (m : pmap) (i : nat) (k : bytes) : option bytes := option_map evalue (find (same i k) m).
End ONE.

(* ---------------------------------------------------------------- the whole PSET (src/pset/mod.rs) *)
Record pset := { p_global : pmap; p_inputs : list pmap; p_outputs : list pmap }.

Variables Tg Ti To : table.
Variables postg posti posto : pmap -> option perr.
Variables n_inputs n_outputs : pmap -> N.     (* Global::n_inputs / n_outputs read from the decoded global map *)
Variable cap : N.                             (* 10_000 *)

Definition magic : bytes := [x70; x73; x65; x74; xff].    (* b"pset", 0xff *)

Definition serialize (p : pset) : bytes :=
  magic ++ enc_map Tg (p_global p) ++ concat (map (enc_map Ti) (p_inputs p)) ++ concat (map (enc_map To) (p_outputs p)).

Fixpoint dec_maps (T : table) (post : pmap -> option perr) (n : nat) (bs : bytes) : pres (list pmap * bytes) :=
  match n with
  | O => POk ([], bs)
  | S n' => pbind (dec_map T post bs) (fun mr => pbind (dec_maps T post n' (snd mr)) (fun lr => POk (fst mr :: fst lr, snd lr)))
  end.

(* consensus_decode; the final `sanity_check` compares the declared counts with the number of maps just read (always equal) *)
Definition dec_pset (bs : bytes) : pres (pset * bytes) :=
  match bs with
  | x70 :: x73 :: x65 :: x74 :: xff :: r0 =>
      pbind (dec_map Tg postg r0) (fun gr =>
        let g := fst gr in
        if cap <? n_inputs g then PErr ETooLarge else
        pbind (dec_maps Ti posti (N.to_nat (n_inputs g)) (snd gr)) (fun ir =>
          if cap <? n_outputs g then PErr ETooLarge else
          pbind (dec_maps To posto (N.to_nat (n_outputs g)) (snd ir)) (fun or =>
            POk ({| p_global := g; p_inputs := fst ir; p_outputs := fst or |}, snd or))))
  | _ => PErr EInvalid end.
(* encode::deserialize: everything must be consumed *)
Definition deserialize (bs : bytes) : pres pset :=
  pbind (dec_pset bs) (fun pr => match snd pr with [] => POk (fst pr) | _ => PErr EInvalid end).
(* PartiallySignedTransaction::sanity_check *)
Definition sanity_check (p : pset) : bool :=
  (n_inputs (p_global p) =? N.of_nat (length (p_inputs p))) && (n_outputs (p_global p) =? N.of_nat (length (p_outputs p))).
End MAPS.
