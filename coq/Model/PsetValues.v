(* C07 — the value (and key) canonisers of src/pset/serialize.rs: for every Rust type T used as a PSET key or value,
     canon_T bytes = Serialize::serialize(Deserialize::deserialize(bytes)?)
   Hand-written, executable; no proofs here.  External libraries are Section variables (oracles):
     pt_ok    33-byte Pedersen commitments / generators (as in C01)          pk_ok     secp256k1 PublicKey::from_slice (33 or 65 bytes)
     xonly_ok XOnlyPublicKey::from_slice (32 bytes)                           Hrip, Hsha, Hh160, Hh256  the four preimage hashes
   bitcoin::Transaction (peg-in tx) is the concrete codec of Model/BtcTx.v; Xpub is its 78-byte framing with only the validity
   of the embedded compressed key left to the public-key oracle. *)
From Coq Require Import List Arith NArith Bool.
From Coq.Strings Require Import Byte.
From EV Require Import Base.Bytes Base.Codec Gen.Tables Model.Tx Model.BtcTx Model.Taproot Model.PsetRaw.
Import ListNotations.
Open Scope N_scope.

(* the Rust types that appear in the insert macros (the strings are what translator/tables_C07.py writes) *)
Inductive vty :=
  | TyU8 | TyU32 | TyU64 | TyTime | TyHeight | TyVarInt | TyBytes | TyHash32 | TyHash20 | TyTx | TyTxOut | TyPubKey | TyXOnly
  | TyKeySource | TyWitness | TySchnorrSig | TyXOnlyLeaf | TyControlBlock | TyScriptVer | TyLeafHashesKeySource | TyTapTree
  | TyTweak | TyPedersen | TyGenerator | TyRangeProof | TySurjProof | TyBtcTx | TyXpub | TyEmpty
  | TyPreRip | TyPreSha | TyPreH160 | TyPreH256 | TyNone | TyUnknownName.

Definition ty_names : list (blit * vty) := [
  (blit_of "u8"%lb, TyU8); (blit_of "u32"%lb, TyU32); (blit_of "u64"%lb, TyU64); (blit_of "LockTime"%lb, TyU32); (blit_of "Sequence"%lb, TyU32);
  (blit_of "PsbtSighashType"%lb, TyU32); (blit_of "locktime::Time"%lb, TyTime); (blit_of "locktime::Height"%lb, TyHeight);
  (blit_of "VarInt"%lb, TyVarInt); (blit_of "Script"%lb, TyBytes); (blit_of "Vec<u8>"%lb, TyBytes);
  (blit_of "Txid"%lb, TyHash32); (blit_of "TapNodeHash"%lb, TyHash32); (blit_of "BlockHash"%lb, TyHash32); (blit_of "[u8;32]"%lb, TyHash32);
  (blit_of "AssetId"%lb, TyHash32); (blit_of "sha256::Hash"%lb, TyHash32); (blit_of "sha256d::Hash"%lb, TyHash32);
  (blit_of "ripemd160::Hash"%lb, TyHash20); (blit_of "hash160::Hash"%lb, TyHash20);
  (blit_of "Transaction"%lb, TyTx); (blit_of "TxOut"%lb, TyTxOut); (blit_of "PublicKey"%lb, TyPubKey); (blit_of "XOnlyPublicKey"%lb, TyXOnly);
  (blit_of "KeySource"%lb, TyKeySource); (blit_of "Vec<Vec<u8>>"%lb, TyWitness); (blit_of "schnorr::SchnorrSig"%lb, TySchnorrSig);
  (blit_of "(XOnlyPublicKey,TapLeafHash)"%lb, TyXOnlyLeaf); (blit_of "ControlBlock"%lb, TyControlBlock); (blit_of "(Script,LeafVersion)"%lb, TyScriptVer);
  (blit_of "(Vec<TapLeafHash>,KeySource)"%lb, TyLeafHashesKeySource); (blit_of "TapTree"%lb, TyTapTree); (blit_of "Tweak"%lb, TyTweak);
  (blit_of "secp256k1_zkp::PedersenCommitment"%lb, TyPedersen); (blit_of "Generator"%lb, TyGenerator);
  (blit_of "Box<RangeProof>"%lb, TyRangeProof); (blit_of "Box<SurjectionProof>"%lb, TySurjProof); (blit_of "bitcoin::Transaction"%lb, TyBtcTx);
  (blit_of "Xpub"%lb, TyXpub); (blit_of "empty"%lb, TyEmpty);
  (blit_of "preimage:ripemd160"%lb, TyPreRip); (blit_of "preimage:sha256"%lb, TyPreSha); (blit_of "preimage:hash160"%lb, TyPreH160);
  (blit_of "preimage:sha256d"%lb, TyPreH256); (blit_of ""%lb, TyNone) ].
Fixpoint ty_lookup (l : list (blit * vty)) (name : bytes) : vty :=
  match l with [] => TyUnknownName | (n, t) :: r => if bytes_eqb (unlit n) name then t else ty_lookup r name end.
Definition ty_of_name (name : bytes) : vty := ty_lookup ty_names name.

Section VALUES.
Variable maxvec : N.
Variables cap_txin cap_txout cap_vecu8 cap_h32 : N.
Variables pt_ok pk_ok xonly_ok : bytes -> bool.
Variables Hrip Hsha Hh160 Hh256 : bytes -> bytes.

Definition xpub_main : bytes := [x04; x88; xb2; x1e].     (* VERSION_BYTES_MAINNET_PUBLIC *)
Definition xpub_test : bytes := [x04; x35; x87; xcf].     (* VERSION_BYTES_TESTNETS_PUBLIC *)
Definition len_is (k : nat) (b : bytes) : bool := Nat.eqb (length b) k.
Definition guard (c : bool) (b : bytes) : pres bytes := if c then POk b else PErr EInvalid.
Definition via {A} (c : codec A) (b : bytes) : pres bytes :=     (* encode::deserialize then encode::serialize *)
  match deserialize c b with Some v => POk (enc c v) | None => PErr EInvalid end.

Definition keysource_ok (b : bytes) : bool := (4 <=? length b)%nat && Nat.eqb (length b mod 4) 0.
Definition leafver_ok (v : N) : bool := (N.land v TAPROOT_LEAF_MASK =? v) && negb (v =? TAPROOT_LEAF_FORBIDDEN).
Definition schnorr_hashty_ok (v : N) : bool :=
  (v =? 0) || (v =? 1) || (v =? 2) || (v =? 3) || (v =? 0x81) || (v =? 0x82) || (v =? 0x83).
Definition canon_schnorr (b : bytes) : pres bytes :=
  if len_is 64 b then POk b
  else if len_is 65 b then
    let ty := b2n (last b x00) in
    if schnorr_hashty_ok ty then POk (if ty =? 0 then firstn 64 b else b)      (* SchnorrSighashType::Default is not written *)
    else PErr EInvalid
  else PErr EInvalid.
Definition controlblock_ok (b : bytes) : bool :=
  let n := N.of_nat (length b) in
  negb (n <? TAPROOT_CONTROL_BASE_SIZE) && ((n - TAPROOT_CONTROL_BASE_SIZE) mod TAPROOT_CONTROL_NODE_SIZE =? 0) &&
  ((n - TAPROOT_CONTROL_BASE_SIZE) / TAPROOT_CONTROL_NODE_SIZE <=? TAPROOT_CONTROL_MAX_NODE_COUNT) &&
  leafver_ok (N.land (b2n (hd x00 b)) TAPROOT_LEAF_MASK) && xonly_ok (firstn 32 (skipn 1 b)).
Definition scriptver_ok (b : bytes) : bool := match b with [] => false | _ => leafver_ok (b2n (last b x00)) end.
Definition leafhashes_keysource_ok (b : bytes) : bool :=
  match dec (c_vec (c_fixed 32) cap_h32) b with Some (_, rest) => keysource_ok rest | None => false end.

(* TapTree: Deserialize feeds (depth, version, script) triples to TaprootBuilder::add_leaf_with_ver and demands a complete
   tree; Serialize walks root.leaves writing (merkle_branch.len(), version, script).  The builder is the C15 model. *)
Variables Hleaf Hbranch : bytes -> bytes.
Fixpoint taptree_items (fuel : nat) (b : bytes) : option (list item) :=
  match fuel with O => None | S f =>
    match b with
    | [] => Some []
    | d :: [] => None
    | d :: v :: r =>
        match dec (c_varbytes maxvec) r with
        | None => None
        | Some (script, rest) =>
            if leafver_ok (b2n v) then
              match taptree_items f rest with Some l => Some (ILeaf (b2n d) script v :: l) | None => None end
            else None
        end
    end end.
Definition taptree_ser (n : node) : bytes :=
  flat_map (fun l => n2b (N.of_nat (length (l_branch l))) :: l_ver l :: enc (c_varbytes maxvec) (l_script l)) (n_leaves n).
Definition taptree_node (b : bytes) : option node :=
  match taptree_items (S (length b)) b with
  | None => None
  | Some items => match run Hleaf Hbranch items [] with
                  | Ok [Some n] => Some n
                  | _ => None end
  end.
Definition canon_taptree (b : bytes) : pres bytes :=
  match taptree_node b with Some n => POk (taptree_ser n) | None => PErr EInvalid end.
(* TapTree's PartialEq: the root hashes *)
Definition taptree_root (b : bytes) : option bytes := option_map n_hash (taptree_node b).

Definition preimage (H : bytes -> bytes) (k v : bytes) : pres bytes := if bytes_eqb (H v) k then POk v else PErr EPreimage.

(* value canoniser; k is the (canonical) key data of the pair *)
Definition vcanon (t : vty) (k v : bytes) : pres bytes :=
  match t with
  | TyU8 => guard (len_is 1 v) v
  | TyU32 => guard (len_is 4 v) v
  | TyU64 => guard (len_is 8 v) v
  | TyTime => guard (len_is 4 v && (C07_LOCK_TIME_THRESHOLD <=? le_val v)) v
  | TyHeight => guard (len_is 4 v && (le_val v <? C07_LOCK_TIME_THRESHOLD)) v
  | TyVarInt => match vi_dec v with Some (n, _) => POk (vi_enc n) | None => PErr EInvalid end     (* trailing bytes are ignored *)
  | TyBytes => POk v
  | TyHash32 => guard (len_is 32 v) v
  | TyHash20 => guard (len_is 20 v) v
  | TyTx => via (c_tx pt_ok maxvec cap_txin cap_txout cap_vecu8) v
  | TyTxOut => via (c_txout pt_ok maxvec) v
  | TyPubKey => guard ((len_is 33 v || (len_is 65 v && (b2n (hd x00 v) =? 4))) && pk_ok v) v
  | TyXOnly => guard (len_is 32 v && xonly_ok v) v
  | TyKeySource => guard (keysource_ok v) v
  | TyWitness => via (c_stack maxvec cap_vecu8) v
  | TySchnorrSig => canon_schnorr v
  | TyXOnlyLeaf => guard (len_is 64 v && xonly_ok (firstn 32 v)) v
  | TyControlBlock => guard (controlblock_ok v) v
  | TyScriptVer => guard (scriptver_ok v) v
  | TyLeafHashesKeySource => guard (leafhashes_keysource_ok v) v
  | TyTapTree => canon_taptree v
  | TyTweak => guard (len_is 32 v && tweak_ok v) v
  (* the PSET Deserialize impls test `bytes.len() != 33` before PedersenCommitment::from_slice / Generator::from_slice
     (fix 838e50c; anchored by translator/tables_C07.py) *)
  | TyPedersen => guard (conf_wf pt_ok 8 9 v) v
  | TyGenerator => guard (conf_wf pt_ok 10 11 v) v
  | TyRangeProof => guard (rangeproof_ok v) v
  | TySurjProof => guard (surjproof_ok v) v
  (* bitcoin::consensus::deserialize reads through `take(MAX_VEC_SIZE)` and demands full consumption: at most MAX_VEC_SIZE bytes *)
  | TyBtcTx => if N.of_nat (length v) <=? maxvec then via (c_btctx maxvec) v else PErr EInvalid
  (* Xpub::decode: 78 bytes, mainnet or testnet version bytes, a valid compressed key in the last 33 bytes; encode writes the same fields *)
  | TyXpub => guard (len_is 78 v && (bytes_eqb (firstn 4 v) xpub_main || bytes_eqb (firstn 4 v) xpub_test) && len_is 33 (skipn 45 v) && pk_ok (skipn 45 v)) v
  | TyEmpty => guard (len_is 0 v) v
  | TyPreRip => preimage Hrip k v
  | TyPreSha => preimage Hsha k v
  | TyPreH160 => preimage Hh160 k v
  | TyPreH256 => preimage Hh256 k v
  | TyNone => POk v
  | TyUnknownName => PErr EInvalid
  end.
Definition kcanon (t : vty) (k : bytes) : option bytes :=
  match vcanon t [] k with POk c => match c with [] => None | _ => Some c end | PErr _ => None end.

(* ---- the transcribed `Ord` of the Rust key types, as a projection to a tuple of byte strings compared component-wise ---- *)
Definition proj_bytes (k : bytes) : list bytes := [k].
(* bitcoin::PublicKey { compressed: bool, inner }: derived Ord = (compressed, inner); inner compares the COMPRESSED serialisation
   (secp256k1_ec_pubkey_cmp).  The raw key is appended as a tie-breaker so that the projection is injective by construction. *)
Definition proj_pubkey (k : bytes) : list bytes :=
  if len_is 33 k then [[x01]; k; k]
  else [[x00]; n2b (2 + b2n (last k x00) mod 2) :: firstn 32 (skipn 1 k); k].
(* Xpub { network, depth, parent_fingerprint, child_number, public_key, chain_code }: derived Ord in field order;
   NetworkKind::Main < Test; ChildNumber Normal < Hardened then index = the big-endian bytes *)
Definition proj_xpub (k : bytes) : list bytes :=
  [ [if bytes_eqb (firstn 4 k) xpub_main then x00 else x01]; firstn 1 (skipn 4 k); firstn 4 (skipn 5 k); firstn 4 (skipn 9 k);
    firstn 33 (skipn 45 k); firstn 32 (skipn 13 k); k ].
(* raw::ProprietaryKey { prefix, subtype, key }: derived Ord *)
Definition proj_prop (k : bytes) : list bytes :=
  match prop_dec maxvec k with Some (pfx, s, kd) => [pfx; [s]; kd; k] | None => [[]; []; []; k] end.
Definition key_proj (t : vty) : bytes -> list bytes :=
  match t with TyPubKey => proj_pubkey | TyXpub => proj_xpub | _ => proj_bytes end.
End VALUES.
