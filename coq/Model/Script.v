(* C16: script builder, script numbers, instruction iterator, output templates, Address::from_script.
   Hand-written model of src/script.rs (build_scriptint, read_scriptint, read_uint, Builder, Instructions::next,
   the Script::is_xxx predicates), the Legacy arm order of opcodes::All::classify (src/opcodes.rs) and Address::{from_script,
   script_pubkey} (src/address.rs). Opcode byte values, the `Ordinary` opcode list and MAX_SCRIPT_SIZE come from
   Gen/Tables.v (regenerated from the Rust text on every run). No proofs here.

   Conventions. i64 values are `Z` (callers supply values in range, `in_i64`); `usize`/`u64` are `N`.
   `-n` on i64::MIN panics when overflow checks are on (profile Debug) and wraps when they are off (Release).
   The builder's `Vec<u8>` is kept REVERSED (`rbytes`, last pushed byte first) so that push/extend/pop are the
   list head operations; `into_script` reverses once. *)
From Coq Require Import List NArith ZArith Bool.
From Coq.Strings Require Import Byte.
From EV Require Import Base.Bytes Gen.Tables.
Import ListNotations.
Open Scope N_scope.

Inductive panic_site :=
  | PNegOverflow      (* `-n` with n = i64::MIN, overflow checks on (build_scriptint) *)
  | PPushTooLarge     (* push_slice: "tried to put a 4bn+ sized object into a script!" *)
  | POrdinaryUnwrap   (* classify: Ordinary::try_from_all(..).unwrap() on None *)
  | PFromScript       (* from_script: `s[0] - 0x50` underflow / Fe32 `expect("0<32")` / try_into().unwrap() *)
  | PFuel.            (* model artefact: a fuel bound ran out; proved unreachable *)
Inductive outcome (A : Type) := Val (a : A) | Panic (p : panic_site).
Arguments Val {A}. Arguments Panic {A}.
Definition obind {A B} (o : outcome A) (f : A -> outcome B) : outcome B :=
  match o with Val a => f a | Panic p => Panic p end.

Inductive profile := Debug | Release.    (* overflow-checks = true / false *)

(* script::Error *)
Inductive serr := NonMinimalPush | EarlyEndOfScript | NumericOverflow.
Inductive sres (A : Type) := SOk (a : A) | SErr (e : serr).
Arguments SOk {A}. Arguments SErr {A}.

(* ------------------------------------------------------------------ i64 *)
Definition i64_min : Z := (- 2 ^ 63)%Z.
Definition i64_max : Z := (2 ^ 63 - 1)%Z.
Definition in_i64 (z : Z) : bool := ((i64_min <=? z) && (z <=? i64_max))%Z.
Definition wrap_i64 (z : Z) : Z := ((z + 2 ^ 63) mod 2 ^ 64 - 2 ^ 63)%Z.
Definition neg_i64 (p : profile) (n : Z) : outcome Z :=
  let r := (- n)%Z in
  if in_i64 r then Val r else match p with Debug => Panic PNegOverflow | Release => Val (wrap_i64 r) end.
Definition as_usize (z : Z) : N := Z.to_N (z mod 2 ^ 64).

(* ------------------------------------------------------------------ build_scriptint / read_scriptint *)
(* the `while abs > 0xFF` loop and the sign-byte tail; abs < 2^64 needs at most 8 rounds *)
Fixpoint si_loop (fuel : nat) (abs : N) (neg : bool) : outcome bytes :=
  match fuel with
  | O => Panic PFuel
  | S f =>
      if 0xFF <? abs then obind (si_loop f (N.shiftr abs 8) neg) (fun r => Val (n2b (N.land abs 0xFF) :: r))
      else if negb (N.land abs 0x80 =? 0) then Val [n2b abs; if neg then x80 else x00]
      else Val [n2b (N.lor abs (if neg then 0x80 else 0))]
  end.
Definition build_scriptint (p : profile) (n : Z) : outcome bytes :=
  if (n =? 0)%Z then Val []
  else let neg := (n <? 0)%Z in
       obind (if neg then neg_i64 p n else Val n) (fun a => si_loop 9 (as_usize a) neg).

Definition read_scriptint (v : bytes) : sres Z :=
  match length v with
  | O => SOk 0%Z
  | len =>
      if Nat.ltb 4 len then SErr NumericOverflow
      else let '(ret, sh) := fold_left (fun (st : Z * Z) (n : byte) => let '(acc, sh) := st in
                                          ((acc + Z.shiftl (Z.of_N (b2n n)) sh)%Z, (sh + 8)%Z)) v (0%Z, 0%Z) in
           if negb (N.land (b2n (last v x00)) 0x80 =? 0)
           then SOk (- Z.land ret (Z.shiftl 1 (sh - 1) - 1))%Z
           else SOk ret
  end.

Definition lenN (s : bytes) : N := N.of_nat (length s).

(* read_uint(data, size) *)
Definition read_uint (data : bytes) (size : nat) : sres N :=
  if Nat.ltb (length data) size then SErr EarlyEndOfScript else SOk (le_val (firstn size data)).

(* ------------------------------------------------------------------ opcodes::All::classify(ClassifyContext::Legacy) *)
Inductive oclass := CIllegal | CNoOp | CReturn | CPushNum (z : Z) | CPushBytes (n : N) | COrdinary (c : N) | CUnwrapNone.
Definition memN (c : N) (l : list N) : bool := existsb (N.eqb c) l.
Definition classify_legacy (c : N) : oclass :=
  if memN c [OP_VERIF; OP_VERNOTIF; OP_INVALIDOPCODE] then CIllegal
  else if memN c [OP_CAT; OP_SUBSTR; OP_LEFT; OP_RIGHT; OP_INVERT; OP_AND; OP_OR; OP_XOR;
                  OP_2MUL; OP_2DIV; OP_MUL; OP_DIV; OP_MOD; OP_LSHIFT; OP_RSHIFT] then CIllegal
  else if c =? OP_NOP then CNoOp
  else if (OP_NOP1 <=? c) && (c <=? OP_NOP10) then CNoOp
  else if c =? OP_RETURN then CReturn
  else if memN c [OP_RESERVED; OP_RESERVED1; OP_RESERVED2; OP_VER] then CReturn
  else if OP_CHECKSIGADD <=? c then CReturn
  else if c =? OP_PUSHNUM_NEG1 then CPushNum (-1)
  else if (OP_PUSHNUM_1 <=? c) && (c <=? OP_PUSHNUM_16) then CPushNum (1 + Z.of_N c - Z.of_N OP_PUSHNUM_1)
  else if c <=? OP_PUSHBYTES_75 then CPushBytes c
  else if memN c ordinary_opcodes then COrdinary c
  else CUnwrapNone.

(* ------------------------------------------------------------------ Instructions::next, Script::instructions(_minimal) *)
Inductive item := IPush (d : bytes) | IOp (c : byte) | IErr (e : serr) | IPanic (p : panic_site) | IFuel.

(* one PUSHDATAk arm; `minimal_first` = the NonMinimalPush test precedes the length test (true for PUSHDATA2/4) *)
Definition pushdata_arm (minimal : bool) (data tl : bytes) (k : nat) (min_n : N) (minimal_first : bool) : item * bytes :=
  if lenN data <? N.of_nat k + 1 then (IErr EarlyEndOfScript, [])
  else match read_uint tl k with
       | SErr e => (IErr e, [])
       | SOk n =>
           let short := lenN data <? n + N.of_nat k + 1 in
           let nonmin := minimal && (n <? min_n) in
           if minimal_first then
             if nonmin then (IErr NonMinimalPush, []) else if short then (IErr EarlyEndOfScript, [])
             else (IPush (firstn (N.to_nat n) (skipn k tl)), skipn (N.to_nat n) (skipn k tl))
           else
             if short then (IErr EarlyEndOfScript, []) else if nonmin then (IErr NonMinimalPush, [])
             else (IPush (firstn (N.to_nat n) (skipn k tl)), skipn (N.to_nat n) (skipn k tl))
       end.

(* None = iterator exhausted; after an error the remaining data is [] *)
Definition next (minimal : bool) (data : bytes) : option (item * bytes) :=
  match data with
  | [] => None
  | op :: tl =>
      match classify_legacy (b2n op) with
      | CPushBytes n =>
          if lenN data <? n + 1 then Some (IErr EarlyEndOfScript, [])
          else if minimal && (n =? 1) &&
                  (let d1 := b2n (nth 1 data x00) in (d1 =? 0x81) || ((0 <? d1) && (d1 <=? 16)))
               then Some (IErr NonMinimalPush, [])
          else Some (IPush (firstn (N.to_nat n) tl), skipn (N.to_nat n) tl)
      | COrdinary c =>
          if c =? OP_PUSHDATA1 then Some (pushdata_arm minimal data tl 1 76 false)
          else if c =? OP_PUSHDATA2 then Some (pushdata_arm minimal data tl 2 0x100 true)
          else if c =? OP_PUSHDATA4 then Some (pushdata_arm minimal data tl 4 0x10000 true)
          else Some (IOp op, tl)
      | CUnwrapNone => Some (IPanic POrdinaryUnwrap, [])
      | _ => Some (IOp op, tl)
      end
  end.

Fixpoint instrs (fuel : nat) (minimal : bool) (data : bytes) : list item :=
  match fuel with
  | O => [IFuel]
  | S f => match next minimal data with None => [] | Some (it, rest) => it :: instrs f minimal rest end
  end.
(* every step consumes at least one byte *)
Definition instructions (minimal : bool) (s : bytes) : list item := instrs (S (length s)) minimal s.

(* ------------------------------------------------------------------ Builder *)
Record builder := mkB { rbytes : bytes; last_op : option byte }.
Definition b_new : builder := mkB [] None.
Definition into_script (b : builder) : bytes := rev' (rbytes b).

Definition push_header (n : N) : outcome bytes :=
  if n <? OP_PUSHDATA1 then Val [n2b n]
  else if n <? 0x100 then Val [n2b OP_PUSHDATA1; n2b n]
  else if n <? 0x10000 then Val [n2b OP_PUSHDATA2; n2b (n mod 0x100); n2b (n / 0x100)]
  else if n <? 0x100000000 then
    Val [n2b OP_PUSHDATA4; n2b (n mod 0x100); n2b ((n / 0x100) mod 0x100); n2b ((n / 0x10000) mod 0x100); n2b (n / 0x1000000)]
  else Panic PPushTooLarge.
Definition push_slice (b : builder) (d : bytes) : outcome builder :=
  obind (push_header (lenN d)) (fun h => Val (mkB (rev_append d (rev_append h (rbytes b))) None)).
Definition push_opcode (b : builder) (c : byte) : builder := mkB (c :: rbytes b) (Some c).
Definition push_scriptint (p : profile) (b : builder) (n : Z) : outcome builder :=
  obind (build_scriptint p n) (push_slice b).
Definition push_int (p : profile) (b : builder) (data : Z) : outcome builder :=
  if ((data =? -1) || ((1 <=? data) && (data <=? 16)))%Z
  then Val (push_opcode b (n2b (Z.to_N ((data - 1 + Z.of_N OP_TRUE) mod 256))))
  else if (data =? 0)%Z then Val (push_opcode b (n2b OP_FALSE))
  else push_scriptint p b data.
(* the opcodes push_verify replaces by their VERIFY form *)
Definition verify_fold (c : N) : option N :=
  if c =? OP_EQUAL then Some OP_EQUALVERIFY
  else if c =? OP_NUMEQUAL then Some OP_NUMEQUALVERIFY
  else if c =? OP_CHECKSIG then Some OP_CHECKSIGVERIFY
  else if c =? OP_CHECKMULTISIG then Some OP_CHECKMULTISIGVERIFY
  else if c =? OP_CHECKSIGFROMSTACK then Some OP_CHECKSIGFROMSTACKVERIFY
  else None.
Definition push_verify (b : builder) : builder :=
  match last_op b with
  | Some c => match verify_fold (b2n c) with
              | Some v => push_opcode (mkB (tl (rbytes b)) (last_op b)) (n2b v)     (* self.0.pop(); push_opcode *)
              | None => push_opcode b (n2b OP_VERIFY) end
  | None => push_opcode b (n2b OP_VERIFY)
  end.

Inductive bop := BInt (n : Z) | BScriptInt (n : Z) | BSlice (d : bytes) | BOpcode (c : byte) | BVerify.
Definition step (p : profile) (b : builder) (op : bop) : outcome builder :=
  match op with
  | BInt n => push_int p b n
  | BScriptInt n => push_scriptint p b n
  | BSlice d => push_slice b d
  | BOpcode c => Val (push_opcode b c)
  | BVerify => Val (push_verify b)
  end.
Fixpoint run (p : profile) (ops : list bop) (b : builder) : outcome builder :=
  match ops with [] => Val b | op :: r => obind (step p b op) (run p r) end.
Definition build (p : profile) (ops : list bop) : outcome bytes :=
  obind (run p ops b_new) (fun b => Val (into_script b)).

(* ---- Script template predicates *)
Definition at_ (s : bytes) (i : nat) : N := b2n (nth i s x00).
Definition len_is (s : bytes) (n : nat) : bool := Nat.eqb (length s) n.
Definition is_empty (s : bytes) : bool := match s with [] => true | _ => false end.

Definition is_p2sh (s : bytes) : bool :=
  len_is s 23 && (at_ s 0 =? OP_HASH160) && (at_ s 1 =? OP_PUSHBYTES_20) && (at_ s 22 =? OP_EQUAL).
Definition is_p2pkh (s : bytes) : bool :=
  len_is s 25 && (at_ s 0 =? OP_DUP) && (at_ s 1 =? OP_HASH160) && (at_ s 2 =? OP_PUSHBYTES_20)
  && (at_ s 23 =? OP_EQUALVERIFY) && (at_ s 24 =? OP_CHECKSIG).
Definition is_p2pk (s : bytes) : bool :=
  (len_is s 67 && (at_ s 0 =? OP_PUSHBYTES_65) && (at_ s 66 =? OP_CHECKSIG))
  || (len_is s 35 && (at_ s 0 =? OP_PUSHBYTES_33) && (at_ s 34 =? OP_CHECKSIG)).
Definition is_witness_program (s : bytes) : bool :=
  let min_vernum := OP_PUSHNUM_1 in
  let max_vernum := OP_PUSHNUM_16 in
  (4 <=? lenN s) && (lenN s <=? 42)
  && ((at_ s 0 =? 0) || ((min_vernum <=? at_ s 0) && (at_ s 0 <=? max_vernum)))
  && (OP_PUSHBYTES_2 <=? at_ s 1) && (at_ s 1 <=? OP_PUSHBYTES_40)
  && (lenN s - 2 =? at_ s 1).
Definition is_v0_p2wsh (s : bytes) : bool :=
  len_is s 34 && (at_ s 0 =? OP_PUSHBYTES_0) && (at_ s 1 =? OP_PUSHBYTES_32).
Definition is_v1_p2tr (s : bytes) : bool :=
  len_is s 34 && (at_ s 0 =? OP_PUSHNUM_1) && (at_ s 1 =? OP_PUSHBYTES_32).
Definition is_v1plus_p2witprog (s : bytes) : bool :=
  (1 <? lenN s) && (lenN s =? at_ s 1 + 2)
  && (OP_PUSHNUM_1 <=? at_ s 0) && (at_ s 0 <=? OP_PUSHNUM_16)
  && (OP_PUSHBYTES_2 <=? at_ s 1) && (at_ s 1 <=? OP_PUSHBYTES_40).
Definition is_v0_p2wpkh (s : bytes) : bool :=
  len_is s 22 && (at_ s 0 =? OP_PUSHBYTES_0) && (at_ s 1 =? OP_PUSHBYTES_20).
Definition is_op_return (s : bytes) : bool := negb (is_empty s) && (at_ s 0 =? OP_RETURN).
Definition is_provably_unspendable (s : bytes) : bool :=
  (negb (is_empty s) && (at_ s 0 =? OP_RETURN)) || (MAX_SCRIPT_SIZE <? lenN s) || is_empty s.

(* ------------------------------------------------------------------ Address::from_script / script_pubkey (payload only) *)
Inductive payload := PubkeyHash (h : bytes) | ScriptHash (h : bytes) | WitnessProgram (version : N) (program : bytes).
(* s[a..b] *)
Definition slice (s : bytes) (a b : nat) : bytes := firstn (b - a) (skipn a s).
(* <[u8; 20]>::try_from(slice).unwrap() *)
Definition arr20 (h : bytes) : outcome bytes := if len_is h 20 then Val h else Panic PFromScript.

Definition from_script (s : bytes) : outcome (option payload) :=
  if is_p2pkh s then obind (arr20 (slice s 3 23)) (fun h => Val (Some (PubkeyHash h)))
  else if is_p2sh s then obind (arr20 (slice s 2 22)) (fun h => Val (Some (ScriptHash h)))
  else if is_v0_p2wpkh s then Val (Some (WitnessProgram 0 (slice s 2 22)))
  else if is_v0_p2wsh s then Val (Some (WitnessProgram 0 (slice s 2 34)))
  else if is_v1plus_p2witprog s then
    (* Fe32::try_from(s[0] - 0x50).expect("0<32"): the u8 subtraction panics (checks on) or wraps to a value >= 32 (off) *)
    if at_ s 0 <? 0x50 then Panic PFromScript
    else if 32 <=? at_ s 0 - 0x50 then Panic PFromScript
    else Val (Some (WitnessProgram (at_ s 0 - 0x50) (skipn 2 s)))
  else Val None.

Definition script_pubkey (p : profile) (a : payload) : outcome bytes :=
  match a with
  | PubkeyHash h => build p [BOpcode (n2b OP_DUP); BOpcode (n2b OP_HASH160); BSlice h;
                             BOpcode (n2b OP_EQUALVERIFY); BOpcode (n2b OP_CHECKSIG)]
  | ScriptHash h => build p [BOpcode (n2b OP_HASH160); BSlice h; BOpcode (n2b OP_EQUAL)]
  | WitnessProgram v prog => build p [BInt (Z.of_N v); BSlice prog]
  end.

(* ================================================================== specification side (used by Props/C16.v) *)
(* What iterating a built script must yield: the pushes and opcodes that were added, in order, with
   - push_int -1 / 1..16 shown as the opcodes 0x4f / 0x51..0x60, push_int 0 (and a raw opcode 0x00) as the empty push,
   - integers otherwise as a push of their script-number encoding,
   - push_verify after EQUAL(87) NUMEQUAL(9c) CHECKSIG(ac) CHECKMULTISIG(ae) CHECKSIGFROMSTACK(c1) replacing that opcode by
     its VERIFY form (88 9d ad af c2), and appending VERIFY(69) in every other situation.
   Byte values are literals here; Proofs/Script.v shows they agree with the constants read from src/opcodes.rs. *)
Definition scriptint_bytes (p : profile) (n : Z) : bytes := match build_scriptint p n with Val e => e | Panic _ => [] end.
Definition item_of_opcode (c : byte) : item := match c with x00 => IPush [] | _ => IOp c end.
Definition int_item (p : profile) (n : Z) : item :=
  if (n =? -1)%Z then IOp x4f
  else if ((1 <=? n) && (n <=? 16))%Z then IOp (n2b (Z.to_N (0x50 + n)))
  else if (n =? 0)%Z then IPush []
  else IPush (scriptint_bytes p n).
Definition fold_item (c : byte) : option byte :=
  match c with x87 => Some x88 | x9c => Some x9d | xac => Some xad | xae => Some xaf | xc1 => Some xc2 | _ => None end.
(* racc: the items so far, most recent first *)
Definition expected_step (p : profile) (racc : list item) (op : bop) : list item :=
  match op with
  | BInt n => int_item p n :: racc
  | BScriptInt n => IPush (scriptint_bytes p n) :: racc
  | BSlice d => IPush d :: racc
  | BOpcode c => item_of_opcode c :: racc
  | BVerify => match racc with
               | IOp c :: racc' => match fold_item c with Some v => IOp v :: racc' | None => IOp x69 :: racc end
               | _ => IOp x69 :: racc end
  end.
Definition expected (p : profile) (ops : list bop) : list item := rev (fold_left (expected_step p) ops []).

(* operations the read-back statement covers: integers are i64 values, raw opcodes are not push opcodes 0x01..0x4e *)
Definition op_ok (op : bop) : bool :=
  match op with
  | BInt n | BScriptInt n => in_i64 n
  | BOpcode c => negb ((1 <=? b2n c) && (b2n c <=? 0x4e))
  | _ => true end.
(* the data slice an operation pushes, if it pushes one *)
Definition pushed (p : profile) (op : bop) : option bytes :=
  match op with
  | BInt n => match int_item p n with IPush d => Some d | _ => None end
  | BScriptInt n => Some (scriptint_bytes p n)
  | BSlice d => Some d
  | BOpcode c => match item_of_opcode c with IPush d => Some d | _ => None end
  | BVerify => None end.
(* a one-byte slice that BIP62 wants pushed with OP_1..OP_16 / OP_1NEGATE *)
Definition bad_single (d : bytes) : bool :=
  match d with [x] => (b2n x =? 0x81) || ((1 <=? b2n x) && (b2n x <=? 16)) | _ => false end.
(* instructions_minimal stops with NonMinimalPush at the first such push *)
Fixpoint cut_nonminimal (l : list item) : list item :=
  match l with
  | [] => []
  | IPush d :: r => if bad_single d then [IErr NonMinimalPush] else IPush d :: cut_nonminimal r
  | i :: r => i :: cut_nonminimal r end.
Definition is_err (i : item) : bool := match i with IErr _ | IPanic _ | IFuel => true | _ => false end.

(* the four ways of writing a push of n bytes *)
Definition valid_header (h : bytes) (n : N) : Prop :=
  (h = [n2b n] /\ n <= 75) \/ (h = [x4c; n2b n] /\ n < 0x100) \/ (h = x4d :: le_enc 2 n /\ n < 0x10000)
  \/ (h = x4e :: le_enc 4 n /\ n < 0x100000000).

(* script numbers: little-endian magnitude, top bit of the last byte is the sign *)
Fixpoint sm_dec (bs : bytes) : bool * N :=
  match bs with
  | [] => (false, 0)
  | [b] => (128 <=? b2n b, b2n b mod 128)
  | b :: r => let '(s, m) := sm_dec r in (s, b2n b + 256 * m) end.
Definition sm_val (bs : bytes) : Z := let '(s, m) := sm_dec bs in if s then (- Z.of_N m)%Z else Z.of_N m.

(* payloads whose address text round-trips (C06's wf_addr restricted to the payload): 20-byte hashes;
   version <= 16 and a 2..40 byte program, 20 or 32 bytes for version 0 *)
Definition payload_wf (a : payload) : bool :=
  match a with
  | PubkeyHash h | ScriptHash h => len_is h 20
  | WitnessProgram v prog => (v <=? 16) && (2 <=? lenN prog) && (lenN prog <=? 40)
                             && (negb (v =? 0) || len_is prog 20 || len_is prog 32) end.
(* the scripts the property says have an address: p2pkh, p2sh, v0 with 20 or 32 bytes, v1..v16 with 2..40 bytes *)
Definition address_template (s : bytes) : Prop :=
  (exists h, length h = 20%nat /\ s = x76 :: xa9 :: x14 :: h ++ [x88; xac])
  \/ (exists h, length h = 20%nat /\ s = xa9 :: x14 :: h ++ [x87])
  \/ (exists h, length h = 20%nat /\ s = x00 :: x14 :: h)
  \/ (exists h, length h = 32%nat /\ s = x00 :: x20 :: h)
  \/ (exists v prog, 0x51 <= b2n v <= 0x60 /\ 2 <= lenN prog <= 40 /\ s = v :: n2b (lenN prog) :: prog).
(* the builder operations that panic *)
Definition op_panics (p : profile) (op : bop) : Prop :=
  match op with
  | BSlice d => 0x100000000 <= lenN d
  | BInt n | BScriptInt n => p = Debug /\ n = i64_min
  | _ => False end.
