(* C15 — model of TaprootSpendInfo::with_huffman_tree (src/taproot.rs).
   `BinaryHeap<(Reverse<u64>, NodeInfo)>` is modelled as a list (a multiset) with extract-maximum under the derived order
   of the tuple: the smaller weight wins; among equal weights the GREATER NodeInfo (hash bytes, then the leaves vector)
   is popped first.  Two elements that compare `Equal` are structurally equal values (all the `Ord`s involved are
   derived over byte strings), so which of them the real heap returns is unobservable. *)
From Coq Require Import List Arith NArith Bool.
From Coq.Strings Require Import Byte.
From EV Require Import Base.Bytes Gen.Tables Model.Taproot.
Import ListNotations.
Open Scope N_scope.

(* derived `Ord` of LeafInfo (script, ver, merkle_branch) and NodeInfo (hash, leaves) *)
Definition leafinfo_cmp (a b : leafinfo) : comparison :=
  match bytes_cmp (l_script a) (l_script b) with
  | Eq => match byte_cmp (l_ver a) (l_ver b) with Eq => branch_cmp (l_branch a) (l_branch b) | r => r end
  | r => r end.
Definition node_cmp (a b : node) : comparison :=
  match bytes_cmp (n_hash a) (n_hash b) with Eq => list_cmp leafinfo_cmp (n_leaves a) (n_leaves b) | r => r end.

Definition U64MAX : N := 18446744073709551615.
Definition sat_add (a b : N) : N := N.min (a + b) U64MAX.     (* u64::saturating_add *)

Section HUFF.
Variable X : Type.
Variable xcmp : X -> X -> comparison.
Variable xcomb : X -> X -> res berr X.
(* Ord of (Reverse<u64>, X) *)
Definition entry_cmp (a b : N * X) : comparison :=
  match N.compare (fst b) (fst a) with Eq => xcmp (snd a) (snd b) | r => r end.
(* BinaryHeap::pop on the non-empty multiset x :: l : the greatest element and the rest *)
Fixpoint pop_max (x : N * X) (l : list (N * X)) : (N * X) * list (N * X) :=
  match l with
  | [] => (x, [])
  | y :: r => let '(m, rest) := pop_max y r in
              match entry_cmp x m with Lt => (m, x :: rest) | _ => (x, l) end
  end.
(* `while node_weights.len() > 1 { pop; pop; push(combine(s1, s2)?) }` then the final pop *)
Fixpoint huff_loop (fuel : nat) (h : list (N * X)) : outcome X :=
  match h with
  | [] => Panic HuffmanPop
  | [x] => Val (snd x)
  | x :: r =>
      match fuel with
      | O => Panic OutOfFuel
      | S f =>
          let '(e1, h1) := pop_max x r in
          match h1 with
          | [] => Panic HuffmanPop
          | y :: r1 =>
              let '(e2, h2) := pop_max y r1 in
              match xcomb (snd e1) (snd e2) with
              | Err e => Fail e
              | Ok c => huff_loop f ((sat_add (fst e1) (fst e2), c) :: h2)
              end
          end
      end
  end.
Definition huffman (h : list (N * X)) : outcome X :=
  match h with [] => Fail IncompleteTree | _ => huff_loop (length h) h end.
End HUFF.

Section HUFFTAP.
Variables Hleaf Hbranch Htweak : bytes -> bytes.
Variable scalar_ok : bytes -> bool.
Variable tweak : bytes -> bytes -> option (bytes * bool).
Definition default_ver : byte := n2b TAPROOT_LEAF_TAPSCRIPT.      (* LeafVersion::default() *)
Definition huff_node (ws : list (N * bytes)) : outcome node :=
  huffman node node_cmp (combine Hbranch) (map (fun ws => (fst ws, new_leaf Hleaf (snd ws) default_ver)) ws).
Definition with_huffman_tree (P : bytes) (ws : list (N * bytes)) : outcome spendinfo :=
  match huff_node ws with
  | Val n => from_node_info Htweak scalar_ok tweak P n
  | Fail e => Fail e | Panic s => Panic s
  end.
End HUFFTAP.
