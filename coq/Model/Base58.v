(* Model of base58ck 0.1 (`bitcoin::base58`): decode, decode_check, encode_check.  The Rust code does the base conversion
   on byte/digit arrays with carries; here the same conversion is written with unbounded N (value of the digit string,
   minimal big-endian digits of that value) plus the leading-zero rule.  The double SHA-256 is a parameter. *)
From Coq Require Import List NArith Bool.
From Coq.Strings Require Import Byte.
From EV Require Import Base.Bytes Model.Bech32.
Import ListNotations.
Open Scope N_scope.

Definition b58chars : bytes := "123456789ABCDEFGHJKLMNPQRSTUVWXYZabcdefghijkmnopqrstuvwxyz"%lb.
(* BASE58_DIGITS: the inverse of BASE58_CHARS, None elsewhere and for bytes >= 128 *)
Definition b58_digit (c : byte) : option N := if b2n c <? 128 then index_of c b58chars 0 else None.
Definition b58_char (d : N) : byte := nth (N.to_nat d) b58chars x3f.

(* positional numerals, most significant digit first *)
Fixpoint value (b : N) (ds : list N) (acc : N) : N := match ds with [] => acc | d :: r => value b r (acc * b + d) end.
(* minimal digit list of v ([] for 0) *)
Fixpoint digits_aux (b : N) (fuel : nat) (v : N) (acc : list N) : list N :=
  match fuel with O => acc | S f => if v =? 0 then acc else digits_aux b f (v / b) (v mod b :: acc) end.
Definition digits (b : N) (v : N) : list N := digits_aux b (N.to_nat (N.size v)) v [].
Fixpoint count_leading {A} (p : A -> bool) (l : list A) : nat :=
  match l with x :: r => if p x then S (count_leading p r) else O | [] => O end.

Inductive b58err := B58InvalidChar | B58TooShort | B58Checksum.
Inductive res58 (A : Type) := Ok58 (a : A) | Err58 (e : b58err).
Arguments Ok58 {A} a. Arguments Err58 {A} e.

(* base58::decode *)
Definition b58_decode (s : bytes) : res58 bytes :=
  match all_some (map b58_digit s) with
  | None => Err58 B58InvalidChar
  | Some ds => Ok58 (repeat x00 (count_leading (byte_eqb x31) s) ++ map n2b (digits 256 (value 58 ds 0))) end.
(* base58::encode_iter / format_iter *)
Definition b58_encode (data : bytes) : bytes :=
  repeat x31 (count_leading (byte_eqb x00) data) ++ map b58_char (digits 58 (value 256 (map b2n data) 0)).

Section Check.
Variable H : bytes -> bytes.     (* sha256d *)
Definition b58_decode_check (s : bytes) : res58 bytes :=
  match b58_decode s with
  | Err58 e => Err58 e
  | Ok58 ret =>
      if Nat.ltb (length ret) 4 then Err58 B58TooShort else
      let k := (length ret - 4)%nat in
      if bytes_eqb (firstn 4 (H (firstn k ret))) (skipn k ret) then Ok58 (firstn k ret) else Err58 B58Checksum end.
Definition b58_encode_check (data : bytes) : bytes := b58_encode (data ++ firstn 4 (H data)).
End Check.
