(* C04/C05/C09 — the IDEAL-COMMITMENT world shared by Model/Verify.v, Model/Blind.v and Model/PsetBlind.v.
   Everything cryptographic lives inside libsecp256k1-zkp and is NOT proved here; it is replaced by ideal objects:
   * group elements (asset generators, Pedersen commitments) are formal linear combinations (Base/FreeMod.v);
   * an ideal RANGE PROOF carries the statement it was made for (commitment, script, generator), its witness
     (value, value blinding factor), the sealed message and the sealing key; it verifies iff it is intact, is presented
     with exactly that statement, and the witness opens the commitment inside [0, 2^64)  (soundness and binding made
     literal); rewinding with the sealing key returns exactly what was embedded;
   * an ideal SURJECTION PROOF carries its statement (output generator, domain) and its witness (index, difference of
     blinding factors); it verifies iff intact, presented with exactly that statement, and the witness is right;
   * public keys / ECDH are abstract functions `pubk`, `ecdh` (symmetry is a hypothesis of the theorems); asset ids are
     numbers (the 32-byte tag read big-endian), issuance asset/token ids are data (computing them is C11's property).
   No proofs here. *)
From Coq Require Import List NArith ZArith Bool.
From Coq.Strings Require Import Byte.
From EV Require Import Base.Bytes Base.Zn Base.FreeMod Gen.Tables.
Import ListNotations.
Open Scope Z_scope.

(* ---- outcomes: value / Err(..) / panic *)
Inductive panic_site :=
  | PUnwrapExplicit      (* .explicit().unwrap() on a non-explicit field (excluded by the all-explicit check) *)
  | PPedersenInfinity    (* PedersenCommitment::new: assert_eq!(ret, 1) — commitment to value 0 with blinding factor 0 *)
  | PAddress             (* Address::from_script internal slicing/Fe32 (excluded for real templates, see C16) *)
  | PIndex.              (* slice index out of range *)
Inductive oc (E A : Type) := OVal (a : A) | OFail (e : E) | OPanic (p : panic_site).
Arguments OVal {E A}. Arguments OFail {E A}. Arguments OPanic {E A}.
Definition obind {E A B} (o : oc E A) (f : A -> oc E B) : oc E B :=
  match o with OVal a => f a | OFail e => OFail e | OPanic p => OPanic p end.
Notation "'let*' x ':=' c1 'in' c2" := (obind c1 (fun x => c2)) (at level 61, x pattern, c1 at next level, right associativity).

(* ---- confidential fields *)
Inductive casset := ANull | AExp (a : N) | AConf (g : gel).
Inductive cvalue := VNull | VExp (v : Z) | VConf (c : gel).
Inductive cnonce := NNull | NExp | NConf (pk : Z).     (* a confidential nonce is a public key *)

Definition rp_message := (N * Z)%type.                  (* RangeProofMessage: asset id, asset blinding factor *)
Record rproof := mkRP {
  rp_commit : gel; rp_script : bytes; rp_gen : gel;      (* the statement *)
  rp_value : Z; rp_vbf : Z;                               (* the witness *)
  rp_msg : rp_message; rp_key : Z;                        (* sealed message, sealing key (ECDH shared secret) *)
  rp_intact : bool }.                                     (* false = the bytes were corrupted *)
Record sproof := mkSP {
  sp_gen : gel; sp_domain : list gel;                     (* the statement *)
  sp_idx : nat; sp_diff : Z;                              (* the witness: sp_gen = domain[idx] + diff·G *)
  sp_intact : bool }.

Record txout := mkOut { o_asset : casset; o_value : cvalue; o_nonce : cnonce; o_script : bytes;
                        o_rp : option rproof; o_sp : option sproof }.
(* AssetIssuance amounts + the ids `issuance_ids()` derives for this input *)
Record issuance := mkIss { is_amount : cvalue; is_keys : cvalue; is_asset : N; is_token : N }.
Record txin := mkIn { in_iss : issuance }.
Record tx := mkTx { t_in : list txin; t_out : list txout }.
(* TxOutSecrets *)
Record secrets := mkSec { s_asset : N; s_abf : Z; s_value : Z; s_vbf : Z }.

Definition value_is_null (v : cvalue) : bool := match v with VNull => true | _ => false end.
Definition value_is_explicit (v : cvalue) : bool := match v with VExp _ => true | _ => false end.
Definition value_is_conf (v : cvalue) : bool := match v with VConf _ => true | _ => false end.
Definition asset_is_explicit (a : casset) : bool := match a with AExp _ => true | _ => false end.
Definition nonce_is_conf (n : cnonce) : bool := match n with NConf _ => true | _ => false end.
Definition has_issuance (i : txin) : bool := negb (value_is_null (is_amount (in_iss i)) && value_is_null (is_keys (in_iss i))).
Definition null_issuance : issuance := mkIss VNull VNull 0%N 0%N.

(* ---- ideal range proofs.  RangeProof::new(min_value = 1, exp = 0, min_bits = 52): rangeproof_sign refuses
   min_value > value, and range_proveparams refuses value > i64::MAX when min_value <> 0 *)
Definition RANGEPROOF_MIN_VALUE : Z := Z.of_N CT_RANGEPROOF_MIN_VALUE.   (* regenerated from src/blind.rs on every run *)
Definition I64_MAX : Z := 2 ^ 63 - 1.
Definition rp_new (c : gel) (value vbf : Z) (msg : rp_message) (script : bytes) (key : Z) (gen : gel) : option rproof :=
  if (RANGEPROOF_MIN_VALUE <=? value) && (value <=? I64_MAX)
  then Some (mkRP c script gen value vbf msg key true) else None.
Definition rp_verify (rp : rproof) (c : gel) (script : bytes) (gen : gel) : bool :=
  rp_intact rp && geqb c (rp_commit rp) && bytes_eqb script (rp_script rp) && geqb gen (rp_gen rp)
  && geqb (rp_commit rp) (commit (rp_value rp) (rp_gen rp) (rp_vbf rp)) && (0 <=? rp_value rp) && (rp_value rp <? 2 ^ 64).
Definition rp_rewind (rp : rproof) (c : gel) (key : Z) (script : bytes) (gen : gel) : option (Z * Z * rp_message) :=
  if rp_verify rp c script gen && (key =? rp_key rp) then Some (rp_value rp, rp_vbf rp, rp_msg rp) else None.

(* ---- ideal surjection proofs.  Domain entries as SurjectionProof::new takes them: (generator, tag if known, blinding
   factor).  surjectionproof_initialize looks for an input whose tag equals the output tag. *)
Definition sdom := (gel * option N * Z)%type.
Fixpoint find_tag (t : N) (d : list sdom) (i : nat) : option (nat * Z) :=
  match d with
  | [] => None
  | (_, Some t', bf) :: r => if N.eqb t t' then Some (i, bf) else find_tag t r (S i)
  | (_, None, _) :: r => find_tag t r (S i)
  end.
Definition sp_new (tag : N) (abf : Z) (d : list sdom) : option sproof :=
  match find_tag tag d 0 with
  | Some (i, bf) => Some (mkSP (asset_gen tag abf) (map (fun e => fst (fst e)) d) i (zsub abf bf) true)
  | None => None
  end.
Definition sp_verify (sp : sproof) (gen : gel) (domain : list gel) : bool :=
  sp_intact sp && geqb gen (sp_gen sp) && geqb_list domain (sp_domain sp)
  && match nth_error (sp_domain sp) (sp_idx sp) with
     | Some d => geqb (sp_gen sp) (gadd d (gscale (sp_diff sp) gG))
     | None => false end.

(* list helpers *)
Fixpoint set_nth {A} (l : list A) (i : nat) (x : A) : list A :=
  match l, i with
  | [], _ => []
  | _ :: r, O => x :: r
  | y :: r, S j => y :: set_nth r j x
  end.
