(* C04 — Transaction::blind, TxOut::{new_not_last_confidential, with_txout_secrets, new_last_confidential,
   with_secrets_last, unblind}, Asset::blind, Value::{blind, blind_with_shared_secret}, SurjectionInput::surjection_target,
   RangeProofMessage::from_byte_array (src/blind.rs), ValueBlindingFactor::last (src/confidential.rs, = Base/Zn.last_vbf),
   in the ideal-commitment world of Model/Ideal.v, statement by statement.
   Randomness is explicit: `rnd` is the stream of scalars the code draws from its RNG, in program order
   (non-last output: abf, vbf, ephemeral sk; last output: abf, ephemeral sk). The draws inside SurjectionProof::new
   (which inputs to use) have no counterpart in the ideal proof object.
   `blind_issuances = false` only (observation O4 of DESIGN section 7: C04 quantifies over explicit issuances).
   No proofs here. *)
From Coq Require Import List NArith ZArith Bool.
From Coq.Strings Require Import Byte.
From EV Require Import Base.Bytes Base.Zn Base.FreeMod Gen.Tables Model.Script Model.Ideal Model.Verify.
Import ListNotations.
Open Scope Z_scope.

Inductive blind_err :=
  | BInvalidAddress | BTooFewBlindingOutputs | BMustHaveAllExplicitTxOuts
  | BTxOutError (i : nat) (e : txout_err)            (* ConfidentialTxOutError::TxOutError *)
  | BExpectedExplicitAsset | BExpectedExplicitValue | BNoBlindingKeyInAddress
  | BCannotProveSurjection | BCannotMakeRangeProof   (* ConfidentialTxOutError::Upstream(secp256k1_zkp::Error::..) *)
  | BRndExhausted.                                   (* model artefact: the explicit randomness list was too short *)

(* SurjectionInput *)
Inductive sinput := SUnknown (a : casset) | SKnown (asset : N) (abf : Z).
Definition sinput_of_secrets (s : secrets) : sinput := SKnown (s_asset s) (s_abf s).

(* SurjectionInput::surjection_target *)
Definition surjection_target (s : sinput) : oc txout_err sdom :=
  match s with
  | SUnknown ANull => OFail UnExpectedNullAsset
  | SUnknown (AExp a) => OVal (gH a, None, 0)
  | SUnknown (AConf g) => OVal (g, None, 0)
  | SKnown a bf => OVal (asset_gen a bf, Some a, bf)
  end.
Fixpoint surjection_targets (l : list sinput) (i : nat) : oc blind_err (list sdom) :=
  match l with
  | [] => OVal []
  | s :: r => let* t := map_err (BTxOutError i) (surjection_target s) in
              let* ts := surjection_targets r (S i) in
              OVal (t :: ts)
  end.

(* Asset::blind. SURJECTIONPROOF_MAX_N_INPUTS (a const of src/blind.rs, regenerated into Gen/Tables.v on every run) is the
   size limit of a surjection proof's domain in libsecp256k1-zkp: a larger domain is refused after the targets are collected
   and before the proof is attempted. *)
Definition asset_blind (a : casset) (asset_bf : Z) (spent : list sinput) : oc blind_err (casset * sproof) :=
  match a with
  | AExp asset =>
      let out_asset := AConf (asset_gen asset asset_bf) in
      let* inputs := surjection_targets spent 0 in
      if (CT_SURJECTIONPROOF_MAX_N_INPUTS <? N.of_nat (length inputs))%N then OFail BCannotProveSurjection else
      match sp_new asset asset_bf inputs with
      | Some p => OVal (out_asset, p)
      | None => OFail BCannotProveSurjection
      end
  | _ => OFail BExpectedExplicitAsset
  end.

(* PedersenCommitment::new (value·gen + vbf·G; the library asserts the result is not infinity) *)
Definition pedersen_new {E} (v : Z) (vbf : Z) (gen : gel) : oc E gel :=
  let c := commit v gen vbf in if geqb c gzero then OPanic PPedersenInfinity else OVal c.

(* Value::blind_with_shared_secret *)
Definition value_blind_with_shared_secret (v : cvalue) (vbf shared_secret : Z) (spk : bytes) (msg : rp_message)
  : oc blind_err (cvalue * rproof) :=
  match v with
  | VExp value =>
      (* since 17278a0 (C10 finding F20): a value below the range proof's minimum is refused before the commitment is computed *)
      if value <? RANGEPROOF_MIN_VALUE then OFail BCannotMakeRangeProof else
      let out_asset_commitment := asset_gen (fst msg) (snd msg) in
      let* value_commitment := pedersen_new value vbf out_asset_commitment in
      match rp_new value_commitment value vbf msg spk shared_secret out_asset_commitment with
      | Some rp => OVal (VConf value_commitment, rp)
      | None => OFail BCannotMakeRangeProof
      end
  | _ => OFail BExpectedExplicitValue
  end.

(* What the caller of Transaction::blind has to pass as `spent_utxo_secrets` (doc of new_not_last_confidential): for every
   input the secrets of the spent output, followed by one entry (id, abf 0, amount, vbf 0) for each explicit issuance
   amount / inflation-key amount of that input — the order in which verify_tx_amt_proofs builds its domain. *)
Definition iss_secrets (i : txin) : list secrets :=
  if has_issuance i then
    (match is_amount (in_iss i) with VExp v => [mkSec (is_asset (in_iss i)) 0 v 0] | _ => [] end)
    ++ (match is_keys (in_iss i) with VExp v => [mkSec (is_token (in_iss i)) 0 v 0] | _ => [] end)
  else [].

Section Keys.
  Variable pubk : Z -> Z.            (* PublicKey::from_secret_key *)
  Variable ecdh : Z -> Z -> Z.       (* Nonce::make_shared_secret(pk, sk) *)

  (* Value::blind *)
  Definition value_blind (v : cvalue) (vbf : Z) (receiver_blinding_pk ephemeral_sk : Z) (spk : bytes) (msg : rp_message)
    : oc blind_err (cvalue * cnonce * rproof) :=
    let nonce := NConf (pubk ephemeral_sk) in
    let shared_secret := ecdh receiver_blinding_pk ephemeral_sk in
    let* (value_commit, rangeproof) := value_blind_with_shared_secret v vbf shared_secret spk msg in
    OVal (value_commit, nonce, rangeproof).

  (* TxOut::with_txout_secrets *)
  Definition with_txout_secrets (spk : bytes) (receiver_blinding_pk ephemeral_sk : Z) (out_secrets : secrets)
    (spent : list sinput) : oc blind_err txout :=
    let* (out_asset, surjection_proof) := asset_blind (AExp (s_asset out_secrets)) (s_abf out_secrets) spent in
    let msg := (s_asset out_secrets, s_abf out_secrets) in
    let* (out_value, nonce, range_proof) :=
      value_blind (VExp (s_value out_secrets)) (s_vbf out_secrets) receiver_blinding_pk ephemeral_sk spk msg in
    OVal (mkOut out_asset out_value nonce spk (Some range_proof) (Some surjection_proof)).

  Definition draw (rnd : list Z) : oc blind_err (Z * list Z) :=
    match rnd with x :: r => OVal (x, r) | [] => OFail BRndExhausted end.

  (* Address::from_script(script, Some(blinder), ELEMENTS) followed by address.script_pubkey() *)
  Definition address_spk (p : profile) (script : bytes) : oc blind_err (option bytes) :=
    match from_script script with
    | Script.Panic _ => OPanic PAddress
    | Script.Val None => OVal None
    | Script.Val (Some a) => match script_pubkey p a with
                             | Script.Val s => OVal (Some s)
                             | Script.Panic _ => OPanic PAddress end
    end.

  (* TxOut::new_not_last_confidential (address already resolved to its script and blinding key) *)
  Definition new_not_last_confidential (rnd : list Z) (value : Z) (spk : bytes) (blinder : Z) (asset : N)
    (spent : list sinput) : oc blind_err (txout * Z * Z * Z * list Z) :=
    let* (asset_bf, rnd) := draw rnd in
    let* (value_bf, rnd) := draw rnd in
    let out_secrets := mkSec asset asset_bf value value_bf in
    let* (ephemeral_sk, rnd) := draw rnd in
    let* txout := with_txout_secrets spk blinder ephemeral_sk out_secrets spent in
    OVal (txout, asset_bf, value_bf, ephemeral_sk, rnd).

  Definition value_blind_inputs (s : secrets) : Z * Z * Z := (s_value s, s_abf s, s_vbf s).

  (* TxOut::with_secrets_last *)
  Definition with_secrets_last (value : Z) (spk : bytes) (blinder : Z) (asset : N) (ephemeral_sk out_abf : Z)
    (spent_utxo_secrets : list secrets) (output_secrets : list secrets) : oc blind_err (txout * Z) :=
    let value_blind_ins := map value_blind_inputs spent_utxo_secrets in
    let value_blind_outs := map value_blind_inputs output_secrets in
    let out_vbf := last_vbf value out_abf value_blind_ins value_blind_outs in
    let out_secrets := mkSec asset out_abf value out_vbf in
    let* txout := with_txout_secrets spk blinder ephemeral_sk out_secrets (map sinput_of_secrets spent_utxo_secrets) in
    OVal (txout, out_vbf).

  (* TxOut::new_last_confidential *)
  Definition new_last_confidential (rnd : list Z) (value : Z) (asset : N) (spk : bytes) (blinder : Z)
    (spent_utxo_secrets output_secrets : list secrets) : oc blind_err (txout * Z * Z * Z * list Z) :=
    let* (out_abf, rnd) := draw rnd in
    let* (ephemeral_sk, rnd) := draw rnd in
    let* (txout, out_vbf) := with_secrets_last value spk blinder asset ephemeral_sk out_abf spent_utxo_secrets output_secrets in
    OVal (txout, out_abf, out_vbf, ephemeral_sk, rnd).

  Definition is_fee (o : txout) : bool :=
    is_empty (o_script o) && value_is_explicit (o_value o) && asset_is_explicit (o_asset o).
  Definition marked (o : txout) : bool := negb (is_fee o) && nonce_is_conf (o_nonce o).
  Definition explicit_asset (o : txout) : oc blind_err N :=
    match o_asset o with AExp a => OVal a | _ => OPanic PUnwrapExplicit end.
  Definition explicit_value (o : txout) : oc blind_err Z :=
    match o_value o with VExp v => OVal v | _ => OPanic PUnwrapExplicit end.
  Definition nonce_commitment (o : txout) : oc blind_err Z :=
    match o_nonce o with NConf pk => OVal pk | _ => OPanic PUnwrapExplicit end.

  (* state of the output loop of Transaction::blind *)
  Record bstate := mkBS { bs_outs : list txout;                 (* outputs processed so far (new form), in order *)
                          bs_secrets : list secrets;            (* out_secrets *)
                          bs_last : option nat;                 (* last_output_index *)
                          bs_blinds : list (nat * (Z * Z * Z)); (* the returned map, keys ascending *)
                          bs_num_blinded : nat;
                          bs_rnd : list Z }.

  (* one iteration of `for (i, out) in self.output.iter_mut().enumerate()` *)
  Definition blind_step (p : profile) (num_to_blind : nat) (spent_utxo_secrets : list secrets)
    (st : bstate) (i : nat) (out : txout) : oc blind_err bstate :=
    if is_fee out || negb (nonce_is_conf (o_nonce out)) then
      let* a := explicit_asset out in
      let* v := explicit_value out in
      OVal (mkBS (bs_outs st ++ [out]) (bs_secrets st ++ [mkSec a 0 v 0]) (bs_last st) (bs_blinds st)
                 (bs_num_blinded st) (bs_rnd st))
    else
      let* blinder := nonce_commitment out in
      let* oaddr := address_spk p (o_script out) in
      match oaddr with
      | None => OFail BInvalidAddress
      | Some spk =>
          if (bs_num_blinded st + 1 <? num_to_blind)%nat then
            let* v := explicit_value out in
            let* a := explicit_asset out in
            let* (conf_out, abf, vbf, ephemeral_sk, rnd) :=
              new_not_last_confidential (bs_rnd st) v spk blinder a (map sinput_of_secrets spent_utxo_secrets) in
            OVal (mkBS (bs_outs st ++ [conf_out]) (bs_secrets st ++ [mkSec a abf v vbf]) (bs_last st)
                       (bs_blinds st ++ [(i, (abf, vbf, ephemeral_sk))]) (S (bs_num_blinded st)) rnd)
          else
            OVal (mkBS (bs_outs st ++ [out]) (bs_secrets st) (Some i) (bs_blinds st) (S (bs_num_blinded st)) (bs_rnd st))
      end.
  Fixpoint blind_loop (p : profile) (num_to_blind : nat) (spent_utxo_secrets : list secrets)
    (st : bstate) (i : nat) (outs : list txout) : oc blind_err bstate :=
    match outs with
    | [] => OVal st
    | out :: r => let* st' := blind_step p num_to_blind spent_utxo_secrets st i out in
                  blind_loop p num_to_blind spent_utxo_secrets st' (S i) r
    end.

  (* Transaction::blind(rng, secp, spent_utxo_secrets, blind_issuances = false)
     returns the new transaction and the blinds map as (output index, (abf, vbf, ephemeral sk)), keys ascending *)
  Definition blind (p : profile) (rnd : list Z) (spent_utxo_secrets : list secrets) (t : tx)
    : oc blind_err (tx * list (nat * (Z * Z * Z))) :=
    if negb (forallb (fun o => asset_is_explicit (o_asset o) && value_is_explicit (o_value o)) (t_out t))
    then OFail BMustHaveAllExplicitTxOuts else
    let num_to_blind := length (filter marked (t_out t)) in
    let* st := blind_loop p num_to_blind spent_utxo_secrets (mkBS [] [] None [] 0 rnd) 0 (t_out t) in
    match bs_last st with
    | None => OFail BTooFewBlindingOutputs       (* last_output_index.ok_or(BlindError::TooFewBlindingOutputs)? — repair 8d5600e of finding F12 *)
    | Some last_index =>
        match nth_error (bs_outs st) last_index with
        | None => OPanic PIndex
        | Some out =>
            let* blinder := nonce_commitment out in
            let* value := explicit_value out in
            let* asset := explicit_asset out in
            let spk := o_script out in
            let* (conf_out, abf, vbf, ephemeral_sk, _) :=
              new_last_confidential (bs_rnd st) value asset spk blinder spent_utxo_secrets (bs_secrets st) in
            OVal (mkTx (t_in t) (set_nth (bs_outs st) last_index conf_out),
                  bs_blinds st ++ [(last_index, (abf, vbf, ephemeral_sk))])
        end
    end.

  (* ---- TxOut::unblind *)
  Inductive unblind_err :=
    | UNotConfidential | UMissingNonce | UMissingRangeproof | URewind
    | UMsgBlindingFactorOutOfRange | UMsgConfidentialAssetMismatch.
  Definition unblind (o : txout) (blinding_key : Z) : oc unblind_err secrets :=
    match o_value o, o_asset o with
    | VConf commitment, AConf additional_generator =>
        match o_nonce o with
        | NConf sender_pk =>
            let shared_secret := ecdh sender_pk blinding_key in
            match o_rp o with
            | None => OFail UMissingRangeproof
            | Some rangeproof =>
                match rp_rewind rangeproof commitment shared_secret (o_script o) additional_generator with
                | None => OFail URewind
                | Some (value, value_bf, (asset_id, asset_bf)) =>
                    (* RangeProofMessage::from_byte_array(.., &self.asset) *)
                    if negb (in_znb asset_bf) then OFail UMsgBlindingFactorOutOfRange else
                    if negb (geqb (asset_gen asset_id asset_bf) additional_generator) then OFail UMsgConfidentialAssetMismatch else
                    OVal (mkSec asset_id asset_bf value value_bf)
                end
            end
        | _ => OFail UMissingNonce
        end
    | _, _ => OFail UNotConfidential
    end.
End Keys.
