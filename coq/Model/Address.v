(* Model of src/address.rs: AddressParams, Payload, Address, Display, find_prefix, match_prefix, from_bech32, from_base58,
   parse_with_params, FromStr.  The double SHA-256 of base58check and the validity test of a 33-byte public key
   (secp256k1) are parameters. *)
From Coq Require Import List NArith Bool.
From Coq.Strings Require Import Byte.
From EV Require Import Base.Bytes Gen.Tables Model.Bech32 Model.Base58.
Import ListNotations.
Open Scope N_scope.

Record params := mkParams { p_p2pkh : N; p_p2sh : N; p_blinded : N; p_bech : bytes; p_blech : bytes }.
(* regenerated from src/address.rs *)
Definition LIQUID : params := mkParams LIQUID_p2pkh_prefix LIQUID_p2sh_prefix LIQUID_blinded_prefix LIQUID_bech_hrp LIQUID_blech_hrp.
Definition ELEMENTS : params := mkParams ELEMENTS_p2pkh_prefix ELEMENTS_p2sh_prefix ELEMENTS_blinded_prefix ELEMENTS_bech_hrp ELEMENTS_blech_hrp.
Definition LIQUID_TESTNET : params :=
  mkParams LIQUID_TESTNET_p2pkh_prefix LIQUID_TESTNET_p2sh_prefix LIQUID_TESTNET_blinded_prefix LIQUID_TESTNET_bech_hrp LIQUID_TESTNET_blech_hrp.
(* `let net_arr = [liq, ele, liq_test];` *)
Definition builtin : list params := [LIQUID; ELEMENTS; LIQUID_TESTNET].

Inductive payload := PubkeyHash (h : bytes) | ScriptHash (h : bytes) | WitnessProgram (ver : N) (prog : bytes).
Record address := mkAddr { a_params : params; a_payload : payload; a_blinder : option bytes }.

Inductive aerr :=
  | ABase58 (e : b58err) | ABech32 (e : b32err) | ABlech32 (e : b32err)
  | AInvalidAddress | AInvalidSegwitV0Encoding | AInvalidBlindingPubKey | AInvalidLength | AInvalidAddressVersion
  | AInvalidWitnessProgramLength.
Inductive ares (A : Type) := AOk (a : A) | AErr (e : aerr).
Arguments AOk {A} a. Arguments AErr {A} e.

(* find_prefix: everything before the last '1', the whole string if there is none *)
Definition find_prefix (s : bytes) : bytes := match rsplit x31 s with Some (p, _) => p | None => s end.
(* match_prefix: same length and equal after lower-casing *)
Fixpoint eq_lower (a b : bytes) : bool :=
  match a, b with [], [] => true | x :: a', y :: b' => byte_eqb (to_lower x) (to_lower y) && eq_lower a' b' | _, _ => false end.
Definition match_prefix (prefix target : bytes) : bool := eq_lower target prefix.

Section Addr.
Variable H : bytes -> bytes.            (* sha256d *)
Variable pk_valid : bytes -> bool.      (* secp256k1_zkp::PublicKey::from_slice(..).is_ok() on 33 bytes *)

(* `if program.len() < 2 || program.len() > 40 { return Err(InvalidWitnessProgramLength) }` — after the blinding key was split off
   (commit 86be616, repair of finding F5); the two bounds are regenerated from src/address.rs *)
Definition prog_len_bad (program : bytes) : bool :=
  (N.of_nat (length program) <? ADDR_PROG_LEN_MIN) || (ADDR_PROG_LEN_MAX <? N.of_nat (length program)).

Definition from_bech32 (s : bytes) (blinded : bool) (p : params) : ares address :=
  if blinded then
    match segwit_decode cfg_blech s with
    | Err e => AErr (ABlech32 e)
    | Ok (ver, data) =>
        (* split_first_chunk::<33> *)
        if Nat.ltb (length data) 33 then AErr AInvalidSegwitV0Encoding
        else let pk := firstn 33 data in
             if pk_valid pk then
               (if prog_len_bad (skipn 33 data) then AErr AInvalidWitnessProgramLength
                else AOk (mkAddr p (WitnessProgram ver (skipn 33 data)) (Some pk)))
             else AErr AInvalidBlindingPubKey end
  else
    match segwit_decode cfg_bech s with
    | Err e => AErr (ABech32 e)
    | Ok (ver, data) =>
        if prog_len_bad data then AErr AInvalidWitnessProgramLength else AOk (mkAddr p (WitnessProgram ver data) None) end.

Definition from_base58 (data : bytes) (p : params) : ares address :=
  match data with
  | [] => AErr AInvalidLength
  | bp :: bd =>
      let finish (prefix : byte) (blinder : option bytes) (hash : bytes) : ares address :=
        if b2n prefix =? p_p2pkh p then AOk (mkAddr p (PubkeyHash hash) blinder)
        else if b2n prefix =? p_p2sh p then AOk (mkAddr p (ScriptHash hash) blinder)
        else AErr AInvalidAddressVersion in
      if b2n bp =? p_blinded p then
        match bd with
        | [] => AErr AInvalidLength
        | prefix :: pkh =>
            if negb (Nat.eqb (length pkh) 53) then AErr AInvalidLength
            else let pk := firstn 33 pkh in
                 if pk_valid pk then finish prefix (Some pk) (skipn 33 pkh) else AErr AInvalidBlindingPubKey end
      else if negb (Nat.eqb (length bd) 20) then AErr AInvalidLength
      else finish bp None bd end.

Definition too_long_for_base58 (s : bytes) : bool := BASE58_MAX_LEN <? N.of_nat (length s).

Definition parse_with_params (s : bytes) (p : params) : ares address :=
  let prefix := find_prefix s in
  let b32_ex := match_prefix prefix (p_bech p) in
  let b32_bl := match_prefix prefix (p_blech p) in
  if b32_ex || b32_bl then from_bech32 s b32_bl p
  else if too_long_for_base58 s then AErr AInvalidLength
  else match b58_decode_check H s with
       | Err58 e => AErr (ABase58 e)
       | Ok58 data => from_base58 data p end.

Fixpoint from_str_bech (s prefix : bytes) (nets : list params) : option (ares address) :=
  match nets with
  | [] => None
  | net :: r =>
      if match_prefix prefix (p_bech net) then Some (from_bech32 s false net)
      else if match_prefix prefix (p_blech net) then Some (from_bech32 s true net)
      else from_str_bech s prefix r end.
Fixpoint from_str_b58 (data : bytes) (pfx : N) (nets : list params) : ares address :=
  match nets with
  | [] => AErr AInvalidAddress
  | net :: r => if (pfx =? p_p2pkh net) || (pfx =? p_p2sh net) || (pfx =? p_blinded net) then from_base58 data net
                else from_str_b58 data pfx r end.
Definition from_str (s : bytes) : ares address :=
  match from_str_bech s (find_prefix s) builtin with
  | Some r => r
  | None =>
      if too_long_for_base58 s then AErr AInvalidLength
      else match b58_decode_check H s with
           | Err58 e => AErr (ABase58 e)
           | Ok58 [] => AErr AInvalidLength
           | Ok58 ((p0 :: _) as data) => from_str_b58 data (b2n p0) builtin end end.

(* impl Display for Address *)
Definition display (a : address) : bytes :=
  let p := a_params a in
  match a_payload a with
  | PubkeyHash h =>
      match a_blinder a with
      | Some bl => b58_encode_check H (n2b (p_blinded p) :: n2b (p_p2pkh p) :: bl ++ h)
      | None => b58_encode_check H (n2b (p_p2pkh p) :: h) end
  | ScriptHash h =>
      match a_blinder a with
      | Some bl => b58_encode_check H (n2b (p_blinded p) :: n2b (p_p2sh p) :: bl ++ h)
      | None => b58_encode_check H (n2b (p_p2sh p) :: h) end
  | WitnessProgram ver prog =>
      match a_blinder a with
      | Some bl => encode_segwit (if ver =? 0 then blech32 else blech32m) (p_blech p) ver (bl ++ prog)
      | None => encode_segwit (if ver =? 0 then bech32 else bech32m) (p_bech p) ver prog end
  end.
End Addr.
