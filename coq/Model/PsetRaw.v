(* C07 — model of src/pset/raw.rs: Key, Pair, ProprietaryKey framing.  Hand-written, executable; no proofs here.
     Key   = VarInt(1 + key.len()) | type_value (u8) | key bytes          (VarInt 0 = the map separator, `NoMorePairs`)
     Pair  = Key | Vec<u8> value (VarInt length, bytes)
     ProprietaryKey (inside the key bytes of a type-0xFC key) = Vec<u8> prefix | subtype (u8) | rest of the key bytes
   MAX_VEC_SIZE is a parameter (`maxvec`). *)
From Coq Require Import List Arith NArith Bool.
From Coq.Strings Require Import Byte.
From EV Require Import Base.Bytes Base.Codec.
Import ListNotations.
Open Scope N_scope.

(* error classes (coarse; what correspondence compares).  Everything that is not one of the named pset::Error variants
   is EInvalid (framing, value parse failures, InvalidKey, magic, separator, trailing bytes, ExpiredPsbtv0Field...). *)
Inductive perr := EDup | EMissing | EVersion | EPreimage | ETooLarge | EInvalid.
Inductive pres (A : Type) := POk (a : A) | PErr (e : perr).
Arguments POk {A}. Arguments PErr {A}.
Definition pbind {A B} (x : pres A) (f : A -> pres B) : pres B := match x with POk a => f a | PErr e => PErr e end.
Definition of_opt {A} (x : option A) : pres A := match x with Some a => POk a | None => PErr EInvalid end.

Definition rkey := (byte * bytes)%type.          (* raw::Key { type_value, key } *)
Definition rpair := (rkey * bytes)%type.         (* raw::Pair { key, value } *)

Section RAW.
Variable maxvec : N.

(* the length-prefixed key: n >= 1 and n - 1 <= MAX_VEC_SIZE, then n bytes of which the first is the type *)
Definition c_keylen : codec N := c_guard c_varint (fun n => (1 <=? n) && (n - 1 <=? maxvec)).
Definition c_keybody : codec (N * bytes) := c_dep c_keylen (fun n => c_fixed (N.to_nat n)).
Definition key_of_body (nb : N * bytes) : option rkey := match snd nb with t :: k => Some (t, k) | [] => None end.
Definition body_of_key (k : rkey) : N * bytes := (N.of_nat (S (length (snd k))), fst k :: snd k).
Definition c_key : codec rkey := c_conv c_keybody key_of_body body_of_key (fun _ => true).
Definition c_rawpair : codec rpair := c_pair c_key (c_varbytes maxvec).

Definition enc_key (k : rkey) : bytes := enc c_key k.
Definition enc_pair (p : rpair) : bytes := enc c_rawpair p.

(* raw::Pair::consensus_decode; `None` is Error::NoMorePairs (key length 0) *)
Definition dec_pair (bs : bytes) : pres (option rpair * bytes) :=
  match bs with
  | x00 :: rest => POk (None, rest)
  | _ => match dec c_rawpair bs with Some (p, rest) => POk (Some p, rest) | None => PErr EInvalid end
  end.

(* ProprietaryKey: consensus_encode / consensus_decode through `deserialize(&key.key)` (read_to_end: everything is consumed) *)
Definition prop_enc (prefix : bytes) (sub : byte) (kd : bytes) : bytes := enc (c_varbytes maxvec) prefix ++ sub :: kd.
Definition prop_dec (k : bytes) : option (bytes * byte * bytes) :=
  match dec (c_varbytes maxvec) k with
  | Some (prefix, sub :: kd) => Some (prefix, sub, kd)
  | _ => None end.
End RAW.

Definition pset_prefix : bytes := [x70; x73; x65; x74].    (* "pset" *)

(* derived `Ord` of Vec<u8>, [u8; N], tuples of them: lexicographic, a proper prefix is smaller *)
Fixpoint lex_cmp {A} (c : A -> A -> comparison) (a b : list A) : comparison :=
  match a, b with
  | [], [] => Eq | [], _ :: _ => Lt | _ :: _, [] => Gt
  | x :: a', y :: b' => match c x y with Eq => lex_cmp c a' b' | r => r end
  end.
Definition bcmp (x y : byte) : comparison := N.compare (b2n x) (b2n y).
Definition bscmp : bytes -> bytes -> comparison := lex_cmp bcmp.
(* a key projected to a tuple of byte strings, compared component-wise (derived Ord of a struct / tuple) *)
Definition tcmp : list bytes -> list bytes -> comparison := lex_cmp bscmp.
