(* C10, allocation: the consensus decoders of Model/Tx.v and Model/Block.v, re-assembled from INSTRUMENTED combinators.
   An instrumented codec pairs a codec of Base/Codec.v with `rsv bs`, the number of bytes the Rust decoder reserves through
   its own `vec![0; s]` (Vec<u8>, src/encode.rs) and `Vec::with_capacity(len)` (Vec<T>, src/encode.rs) calls while it
   decodes `bs` — whether or not decoding succeeds.  Both reservations happen BEFORE the elements are read, after the test
   against MAX_VEC_SIZE.  `sz_*` are `size_of::<T>()` of the element types (reported by the harness).
   The decoders themselves are not re-modelled: `ac (a_tx ..)` IS `c_tx ..` (Proofs/Alloc.v, by reflexivity).  No proofs here. *)
From Coq Require Import List NArith Bool.
From Coq.Strings Require Import Byte.
From EV Require Import Base.Bytes Base.Codec Model.Tx Model.Block.
Import ListNotations.
Open Scope N_scope.

Record acodec (A : Type) := { ac : codec A; rsv : bytes -> N }.
Arguments ac {A}. Arguments rsv {A}.

(* a codec that reserves nothing (fixed-width fields, prefix-selected confidential values) *)
Definition a_leaf {A} (c : codec A) : acodec A := {| ac := c; rsv := fun _ => 0 |}.
Definition a_pair {A B} (ca : acodec A) (cb : acodec B) : acodec (A * B) :=
  {| ac := c_pair (ac ca) (ac cb);
     rsv := fun bs => rsv ca bs + match dec (ac ca) bs with Some (_, r) => rsv cb r | None => 0 end |}.
Definition a_dep {A B} (ca : acodec A) (cb : A -> acodec B) : acodec (A * B) :=
  {| ac := c_dep (ac ca) (fun a => ac (cb a));
     rsv := fun bs => rsv ca bs + match dec (ac ca) bs with Some (a, r) => rsv (cb a) r | None => 0 end |}.
Definition a_conv {A B} (c : acodec A) (to : A -> option B) (from : B -> A) (wfB : B -> bool) : acodec B :=
  {| ac := c_conv (ac c) to from wfB; rsv := rsv c |}.
Definition a_guard {A} (c : acodec A) (p : A -> bool) : acodec A := {| ac := c_guard (ac c) p; rsv := rsv c |}.
Definition a_if {A} (b : bool) (x y : acodec A) : acodec A :=
  {| ac := if b then ac x else ac y; rsv := if b then rsv x else rsv y |}.
(* n elements one after the other *)
Fixpoint rsv_n {A} (c : acodec A) (n : nat) (bs : bytes) : N :=
  match n with O => 0 | S n' => rsv c bs + match dec (ac c) bs with Some (_, r) => rsv_n c n' r | None => 0 end end.
Definition a_vecn {A} (c : acodec A) (n : nat) : acodec (list A) := {| ac := c_vecn (ac c) n; rsv := rsv_n c n |}.
(* Vec<T>: `len * size_of::<T>() > MAX_VEC_SIZE` is refused; otherwise `Vec::with_capacity(len)` reserves len*size_of::<T>() bytes,
   then the elements are decoded one by one *)
Definition a_vec {A} (c : acodec A) (sz maxvec : N) : acodec (list A) :=
  {| ac := c_vec (ac c) (maxvec / sz);
     rsv := fun bs => match vi_dec bs with
                      | Some (n, r) => if maxvec / sz <? n then 0 else n * sz + rsv_n c (N.to_nat n) r
                      | None => 0 end |}.
(* Vec<u8>: `s > MAX_VEC_SIZE` is refused; otherwise `vec![0; s]` reserves s bytes, then `read_slice` fills them *)
Definition a_varbytes (maxvec : N) : acodec bytes :=
  {| ac := c_varbytes maxvec;
     rsv := fun bs => match vi_dec bs with Some (n, _) => if maxvec <? n then 0 else n | None => 0 end |}.

Section ATX.
Variable pt_ok : bytes -> bool.
Variable maxvec : N.
Variables sz_txin sz_txout sz_vecu8 sz_tx : N.

Definition a_script : acodec bytes := a_varbytes maxvec.
Definition a_hash32 : acodec bytes := a_leaf c_hash32.
Definition a_u32 : acodec N := a_leaf c_u32.
Definition a_optproof (ok : bytes -> bool) : acodec (option bytes) :=
  a_conv (a_varbytes maxvec)
    (fun b => match b with [] => Some None | _ => if ok b then Some (Some b) else None end)
    (fun o => match o with None => [] | Some b => b end)
    (fun o => match o with None => true | Some b => negb (Nat.eqb (length b) 0) && ok b end).
Definition a_stack : acodec (list bytes) := a_vec a_script sz_vecu8 maxvec.
Definition a_inwit : acodec inwit :=
  a_conv (a_pair (a_optproof rangeproof_ok) (a_pair (a_optproof rangeproof_ok) (a_pair a_stack a_stack)))
    (fun '(a, (k, (s, p))) => Some {| w_amount_rp := a; w_keys_rp := k; w_script := s; w_pegin := p |})
    (fun w => (w_amount_rp w, (w_keys_rp w, (w_script w, w_pegin w)))) (fun _ => true).
Definition a_outwit : acodec outwit :=
  a_conv (a_pair (a_optproof surjproof_ok) (a_optproof rangeproof_ok))
    (fun '(s, r) => Some {| w_surj := s; w_range := r |})
    (fun w => (w_surj w, w_range w)) (fun _ => true).
Definition a_txin_head := a_pair (a_pair a_hash32 a_u32) (a_pair a_script a_u32).
Definition a_txin_wire :=
  a_dep a_txin_head (fun h => a_if (wire_has_issuance (snd (fst h))) (a_leaf (c_issuance pt_ok))
                                   (a_leaf (c_conv c_unit (fun _ => Some null_issuance) (fun _ => tt) issuance_is_default))).
Definition a_txin_nowit : acodec txin := a_conv a_txin_wire txin_of_wire wire_of_txin txin_wfB.
Definition a_txout_nowit : acodec txout :=
  a_conv (a_pair (a_leaf (c_asset pt_ok)) (a_pair (a_leaf (c_value pt_ok)) (a_pair (a_leaf (c_nonce pt_ok)) a_script)))
    (fun '(a, (v, (n, s))) => Some {| out_asset := a; out_value := v; out_nonce := n; out_script := s; out_wit := empty_outwit |})
    (fun o => (out_asset o, (out_value o, (out_nonce o, out_script o))))
    (fun o => outwit_is_empty (out_wit o)).
Definition a_tx_head : acodec tx_head :=
  a_pair a_u32 (a_pair (a_leaf c_u8) (a_pair (a_vec a_txin_nowit sz_txin maxvec) (a_pair (a_vec a_txout_nowit sz_txout maxvec) a_u32))).
Definition a_tx_wits (h : tx_head) : acodec (list inwit * list outwit) :=
  a_if (head_flag h =? 1) (a_pair (a_vecn a_inwit (length (head_ins h))) (a_vecn a_outwit (length (head_outs h))))
       (a_leaf (c_conv c_unit (fun _ => Some ([], [])) (fun _ => tt) (fun p => match p with ([], []) => true | _ => false end))).
Definition a_tx_wire := a_dep a_tx_head a_tx_wits.
Definition a_tx : acodec tx := a_conv a_tx_wire tx_of_wire wire_of_tx (fun _ => true).

(* ---- dynafed parameters, header, block ---- *)
Definition a_fullparams : acodec fullparams :=
  a_conv (a_pair a_script (a_pair a_u32 (a_pair a_script (a_pair a_script a_stack))))
    (fun '(a, (l, (p, (s, e)))) => Some {| fp_sbs := a; fp_limit := l; fp_program := p; fp_script := s; fp_ext := e |})
    (fun f => (fp_sbs f, (fp_limit f, (fp_program f, (fp_script f, fp_ext f))))) (fun _ => true).
Definition a_params_body (tag : N) : acodec params :=
  a_if (tag =? 0) (a_leaf (c_conv c_unit (fun _ => Some PNull) (fun _ => tt) (fun p => match p with PNull => true | _ => false end)))
  (a_if (tag =? 1)
    (a_conv (a_pair a_script (a_pair a_u32 a_hash32))
      (fun '(s, (l, e)) => Some (PCompact s l e))
      (fun p => match p with PCompact s l e => (s, (l, e)) | _ => ([], (0, [])) end)
      (fun p => match p with PCompact _ _ _ => true | _ => false end))
  (a_if (tag =? 2)
    (a_conv a_fullparams (fun f => Some (PFull f))
      (fun p => match p with PFull f => f | _ => {| fp_sbs := []; fp_limit := 0; fp_program := []; fp_script := []; fp_ext := [] |} end)
      (fun p => match p with PFull _ => true | _ => false end))
    (a_leaf c_reject))).
Definition a_params : acodec params :=
  a_conv (a_dep (a_leaf c_u8) a_params_body) (fun '(_, p) => Some p) (fun p => (params_tag p, p)) (fun _ => true).
Definition a_ext_proof : acodec extdata :=
  a_conv (a_pair a_script a_script) (fun '(c, s) => Some (EProof c s))
    (fun e => match e with EProof c s => (c, s) | _ => ([], []) end) (fun e => match e with EProof _ _ => true | _ => false end).
Definition a_ext_dynafed : acodec extdata :=
  a_conv (a_pair a_params (a_pair a_params a_stack)) (fun '(c, (p, w)) => Some (EDynafed c p w))
    (fun e => match e with EDynafed c p w => (c, (p, w)) | _ => (PNull, (PNull, [])) end) (fun e => match e with EDynafed _ _ _ => true | _ => false end).
Definition a_header_head : acodec header_head := a_pair a_u32 (a_pair a_hash32 (a_pair a_hash32 (a_pair a_u32 a_u32))).
Definition a_header_wire := a_dep a_header_head (fun h => a_if (wire_is_dyna (fst h)) a_ext_dynafed a_ext_proof).
Definition a_header : acodec header := a_conv a_header_wire header_of_wire wire_of_header (fun h => h_version h <? Block.bit31).
Definition a_block : acodec block :=
  a_conv (a_pair a_header (a_vec a_tx sz_tx maxvec))
    (fun '(h, t) => Some {| b_header := h; b_txs := t |}) (fun b => (b_header b, b_txs b)) (fun _ => true).

(* ---- the constants of the bound `rsv <= K + c * |input|` ---- *)
Definition cdiv (a b : N) : N := (a + b - 1) / b.
Definition k_stack : N := 1 + sz_vecu8.                                   (* every stack element consumes at least its length byte *)
Definition k_tx : N := N.max (N.max (1 + cdiv sz_txin 41) (1 + cdiv sz_txout 4)) k_stack.    (* a TxIn is >= 41 bytes on the wire, a TxOut >= 4 *)
Definition k_block : N := N.max (k_tx + cdiv sz_tx 11) k_stack.            (* a Transaction is >= 11 bytes on the wire *)
End ATX.

(* the standalone low-level decoders of the harness kinds vecu8 / vecvec / key *)
Definition a_vecvec (sz_vecu8 maxvec : N) : acodec (list bytes) := a_vec (a_varbytes maxvec) sz_vecu8 maxvec.
