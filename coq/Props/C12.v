(* C12 — size, weight, vsize and discount weight equal the real serialized sizes. Statements only; proofs in Proofs/Sizes.v.
   tx_size / tx_weight / discount_weight / block_size are the Rust accessors transcribed term by term (Model/Sizes.v);
   enc (c_tx ..) is the consensus encoder of C01. For every curve oracle and every allocation cap. *)
From Coq Require Import List NArith Bool.
From Coq.Strings Require Import Byte.
From EV Require Import Base.Bytes Base.Codec Model.Tx Model.Block Model.Sizes Proofs.Sizes.
Import ListNotations.
Open Scope N_scope.

(* The scale factors and discounts of the model are those of the source now (Gen/Tables.v is regenerated on every run). *)
From EV Require Gen.Tables Proofs.TablesTie.
From EV Require Gen.SrcPreds Gen.SrcSizes Proofs.SrcPreds Proofs.SrcSizes.
Theorem C12_constants_from_source : forall t o,
  tx_weight t = scaled_size Tables.c12_weight_scale t /\ tx_size t = scaled_size Tables.c12_size_scale t
  /\ tx_vsize t = (tx_weight t + (Tables.c12_vsize_div - 1)) / Tables.c12_vsize_div
  /\ discount_vsize t = (discount_weight t + (Tables.c12_discount_vsize_div - 1)) / Tables.c12_discount_vsize_div
  /\ output_discount o = (output_wit o - Tables.c12_discount_witness_keep) + (if value_is_conf (out_value o) then Tables.c12_discount_value else 0)
                         + (if nonce_is_conf (out_nonce o) then Tables.c12_discount_nonce else 0).
Proof. intros t o. repeat split; reflexivity. Qed.

Section C12.
Variable pt_ok : bytes -> bool.
Variables maxvec cap_txin cap_txout cap_vecu8 cap_tx : N.
Notation TX := (c_tx pt_ok maxvec cap_txin cap_txout cap_vecu8).
Notation BLOCK := (c_block pt_ok maxvec cap_txin cap_txout cap_vecu8 cap_tx).

Theorem C12_size : forall t, wf TX t = true -> tx_size t = N.of_nat (length (enc TX t)).
Proof. exact (size_is_length pt_ok maxvec cap_txin cap_txout cap_vecu8). Qed.
(* weight = 3 x witness-stripped length + full length *)
Theorem C12_weight : forall t, wf TX t = true ->
  tx_weight t = 3 * N.of_nat (length (enc TX (strip_tx t))) + N.of_nat (length (enc TX t)).
Proof. exact (weight_is_lengths pt_ok maxvec cap_txin cap_txout cap_vecu8). Qed.
Theorem C12_vsize : forall t, tx_vsize t = (tx_weight t + 3) / 4 /\ 4 * tx_vsize t >= tx_weight t /\ 4 * tx_vsize t < tx_weight t + 4.
Proof. intros t. unfold tx_vsize, div_ceil4. repeat split; Lia.lia. Qed.
(* discount weight: the weight minus, per output, witness bytes beyond 2, 96 for a confidential value, 128 for a confidential nonce;
   the usize subtractions never underflow *)
Theorem C12_discount : forall t,
  discount_weight t = tx_weight t - nsum (map output_discount (tx_out t)) /\ nsum (map output_discount (tx_out t)) <= tx_weight t.
Proof. exact discount_is_weight_minus. Qed.
Theorem C12_discount_vsize : forall t, discount_vsize t = (discount_weight t + 3) / 4.
Proof. reflexivity. Qed.
Theorem C12_block_size : forall b, wf BLOCK b = true -> block_size maxvec cap_vecu8 b = N.of_nat (length (enc BLOCK b)).
Proof. exact (block_size_is_length pt_ok maxvec cap_txin cap_txout cap_vecu8 cap_tx). Qed.
(* a block's weight is four times its header-and-count bytes plus the weights of its transactions *)
Theorem C12_block_weight : forall b,
  block_weight maxvec cap_vecu8 b =
  4 * (N.of_nat (length (enc (c_header maxvec cap_vecu8) (b_header b))) + vi_size (N.of_nat (length (b_txs b)))) + nsum (map tx_weight (b_txs b)).
Proof. reflexivity. Qed.

(* ---- the same statements about the accessors AS TRANSLATED FROM THE SOURCE on every run (Gen/SrcSizes.v, Gen/SrcPreds.v: rust2coq applied to
   Transaction::{scaled_size, size, weight, vsize, discount_weight, discount_vsize}, Block::{size, weight}, and the predicates they call).
   A change of any of those function bodies changes the definitions below; the equalities of Proofs/SrcSizes.v must then be re-proved. *)
Theorem C12_src_is_model : forall t k b,
  SrcSizes.src_Transaction_scaled_size t k = scaled_size k t /\ SrcSizes.src_Transaction_size t = tx_size t /\ SrcSizes.src_Transaction_weight t = tx_weight t
  /\ SrcSizes.src_Transaction_vsize t = tx_vsize t /\ SrcSizes.src_Transaction_discount_weight t = discount_weight t
  /\ SrcSizes.src_Transaction_discount_vsize t = discount_vsize t
  /\ SrcSizes.src_Block_size maxvec cap_vecu8 b = block_size maxvec cap_vecu8 b /\ SrcSizes.src_Block_weight maxvec cap_vecu8 b = block_weight maxvec cap_vecu8 b.
Proof. intros t k b. repeat split; auto using SrcSizes.src_scaled_size, SrcSizes.src_size, SrcSizes.src_weight, SrcSizes.src_vsize,
  SrcSizes.src_discount_weight, SrcSizes.src_discount_vsize, SrcSizes.src_block_size, SrcSizes.src_block_weight. Qed.
Theorem C12_src_size : forall t, wf TX t = true -> SrcSizes.src_Transaction_size t = N.of_nat (length (enc TX t)).
Proof. intros t W. rewrite SrcSizes.src_size. now apply C12_size. Qed.
Theorem C12_src_weight : forall t, wf TX t = true ->
  SrcSizes.src_Transaction_weight t = 3 * N.of_nat (length (enc TX (strip_tx t))) + N.of_nat (length (enc TX t)).
Proof. intros t W. rewrite SrcSizes.src_weight. now apply C12_weight. Qed.
Theorem C12_src_vsize : forall t, 4 * SrcSizes.src_Transaction_vsize t >= SrcSizes.src_Transaction_weight t
  /\ 4 * SrcSizes.src_Transaction_vsize t < SrcSizes.src_Transaction_weight t + 4.
Proof. intros t. rewrite SrcSizes.src_vsize, SrcSizes.src_weight. split; apply C12_vsize. Qed.
Theorem C12_src_discount : forall t,
  SrcSizes.src_Transaction_discount_weight t = SrcSizes.src_Transaction_weight t - nsum (map output_discount (tx_out t))
  /\ nsum (map output_discount (tx_out t)) <= SrcSizes.src_Transaction_weight t
  /\ SrcSizes.src_Transaction_discount_vsize t = (SrcSizes.src_Transaction_discount_weight t + 3) / 4.
Proof. intros t. rewrite SrcSizes.src_discount_weight, SrcSizes.src_weight, SrcSizes.src_discount_vsize. split; [|split]; [apply C12_discount|apply C12_discount|reflexivity]. Qed.
Theorem C12_src_block : forall b, wf BLOCK b = true ->
  SrcSizes.src_Block_size maxvec cap_vecu8 b = N.of_nat (length (enc BLOCK b))
  /\ SrcSizes.src_Block_weight maxvec cap_vecu8 b =
     4 * (N.of_nat (length (enc (c_header maxvec cap_vecu8) (b_header b))) + vi_size (N.of_nat (length (b_txs b)))) + nsum (map SrcSizes.src_Transaction_weight (b_txs b)).
Proof. intros b W. rewrite SrcSizes.src_block_size, SrcSizes.src_block_weight. split; [now apply C12_block_size|].
  rewrite C12_block_weight. f_equal. apply SrcSizes.nsum_map_ext. intros x. symmetry. apply SrcSizes.src_weight. Qed.
(* the accessors never panic: the no-panic conditions the translator generates from their bodies (division by the constant 4; no index, no
   subtraction outside discount_weight, whose subtractions are C12_discount) are true for every transaction and block *)
Theorem C12_src_no_panic : forall t k b,
  SrcSizes.src_Transaction_scaled_size_safe t k = true /\ SrcSizes.src_Transaction_size_safe t = true /\ SrcSizes.src_Transaction_weight_safe t = true
  /\ SrcSizes.src_Transaction_vsize_safe t = true /\ SrcSizes.src_Block_size_safe maxvec cap_vecu8 b = true /\ SrcSizes.src_Block_weight_safe maxvec cap_vecu8 b = true.
Proof. intros t k b. repeat split; auto using SrcSizes.src_scaled_size_safe, SrcSizes.src_size_safe, SrcSizes.src_weight_safe, SrcSizes.src_vsize_safe,
  SrcSizes.src_block_size_safe, SrcSizes.src_block_weight_safe. Qed.
End C12.

Check (C12_size : forall pt_ok maxvec cap_txin cap_txout cap_vecu8 t, wf (c_tx pt_ok maxvec cap_txin cap_txout cap_vecu8) t = true ->
  tx_size t = N.of_nat (length (enc (c_tx pt_ok maxvec cap_txin cap_txout cap_vecu8) t))).
Check (C12_weight : forall pt_ok maxvec cap_txin cap_txout cap_vecu8 t, wf (c_tx pt_ok maxvec cap_txin cap_txout cap_vecu8) t = true ->
  tx_weight t = 3 * N.of_nat (length (enc (c_tx pt_ok maxvec cap_txin cap_txout cap_vecu8) (strip_tx t))) + N.of_nat (length (enc (c_tx pt_ok maxvec cap_txin cap_txout cap_vecu8) t))).
