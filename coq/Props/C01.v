(* C01 — consensus encoding is an exact bijection on canonical values.  Statements only; proofs in Proofs/Tx.v, Proofs/Block.v.
   `Lawful c` (Base/Codec.v) is the conjunction of, for all inputs:
     Exact    : dec c bs = Some (v, rest) -> bs = enc c v ++ rest          (the consumed prefix re-encodes to itself)
     DecWf    : dec c bs = Some (v, rest) -> wf c v = true                  (decoder outputs are canonical)
     Complete : wf c v = true -> dec c (enc c v ++ rest) = Some (v, rest)   (canonical values decode back, whatever follows)
     LenOk    : wf c v = true -> elen c v = N.of_nat (length (enc c v))     (the length the encoder reports)
   The theorems hold for every curve-point oracle `pt_ok`, every MAX_VEC_SIZE and every element cap. *)
From Coq Require Import List NArith Bool Lia.
From Coq.Strings Require Import Byte.
From EV Require Import Base.Bytes Base.Codec Model.Tx Model.Block Proofs.Tx Proofs.Block Proofs.Flags.
Import ListNotations.
Open Scope N_scope.

(* The constants of the model are those of the source now (Gen/Tables.v is regenerated from /repo/src on every run). *)
From EV Require Gen.Tables Proofs.TablesTie.
Theorem C01_constants_from_source :
  Tables.c01_pegin_bit_enc = bit30 /\ Tables.c01_pegin_bit_dec = bit30 /\ Tables.c01_issuance_bit_enc = Tx.bit31 /\ Tables.c01_issuance_bit_dec = Tx.bit31
  /\ Tables.c01_coinbase_vout = u32max /\ Tables.c01_header_dyna_bit_enc = Block.bit31 /\ Tables.c01_header_dyna_shift_dec = 31
  /\ params_tag PNull = Tables.c01_params_tag_null /\ (forall s l e, params_tag (PCompact s l e) = Tables.c01_params_tag_compact)
  /\ (forall f, params_tag (PFull f) = Tables.c01_params_tag_full).
Proof. repeat split; reflexivity. Qed.

(* The predicates the encoders and decoders branch on (the witness flag, the issuance flag bit, the three-way classification of the confidential
   types and their encoded lengths) are, function by function, the ones TRANSLATED from the source on every run (Gen/SrcPreds.v, rust2coq applied to
   Value/Asset/Nonce::{is_null, is_explicit, is_confidential, encoded_length}, AssetIssuance::is_null, TxInWitness::is_empty, TxOutWitness::is_empty,
   TxIn::has_issuance, Transaction::has_witness). A change of meaning of any of them stops Proofs/SrcPreds.v from compiling. *)
From EV Require Gen.SrcPreds Proofs.SrcPreds.
Theorem C01_predicates_from_source : forall (t : tx) (i : txin) (iw : inwit) (ow : outwit) (v : cvalue) (a : casset) (n : cnonce),
  SrcPreds.src_Transaction_has_witness t = has_witness t /\ SrcPreds.src_TxIn_has_issuance i = has_issuance i
  /\ SrcPreds.src_AssetIssuance_is_null (in_iss i) = issuance_is_null (in_iss i)
  /\ SrcPreds.src_TxInWitness_is_empty iw = inwit_is_empty iw /\ SrcPreds.src_TxOutWitness_is_empty ow = outwit_is_empty ow
  /\ SrcPreds.src_Value_encoded_length v = elen (c_value (fun _ => true)) v /\ SrcPreds.src_Asset_encoded_length a = elen (c_asset (fun _ => true)) a
  /\ SrcPreds.src_Nonce_encoded_length n = elen (c_nonce (fun _ => true)) n
  /\ (forall k, SrcPreds.src_VarInt_size k = elen c_varint k)
  /\ [SrcPreds.src_Value_is_null v; SrcPreds.src_Value_is_explicit v; SrcPreds.src_Value_is_confidential v]
      = match v with VNull => [true; false; false] | VExplicit _ => [false; true; false] | VConf _ => [false; false; true] end
  /\ [SrcPreds.src_Asset_is_null a; SrcPreds.src_Asset_is_explicit a; SrcPreds.src_Asset_is_confidential a]
      = match a with ANull => [true; false; false] | AExplicit _ => [false; true; false] | AConf _ => [false; false; true] end
  /\ [SrcPreds.src_Nonce_is_null n; SrcPreds.src_Nonce_is_explicit n; SrcPreds.src_Nonce_is_confidential n]
      = match n with NNull => [true; false; false] | NExplicit _ => [false; true; false] | NConf _ => [false; false; true] end.
Proof. intros. repeat split; auto using SrcPreds.src_has_witness, SrcPreds.src_has_issuance, SrcPreds.src_issuance_is_null, SrcPreds.src_inwit_is_empty,
  SrcPreds.src_outwit_is_empty, SrcPreds.src_varint_size, SrcPreds.src_value_len, SrcPreds.src_asset_len, SrcPreds.src_nonce_len, SrcPreds.src_value_kinds, SrcPreds.src_asset_kinds, SrcPreds.src_nonce_kinds. Qed.

Section C01.
Variable pt_ok : bytes -> bool.
Variables maxvec cap_txin cap_txout cap_vecu8 cap_tx : N.

Theorem C01_value  : Lawful (c_value pt_ok).   Proof. exact (c_value_lawful pt_ok). Qed.
Theorem C01_asset  : Lawful (c_asset pt_ok).   Proof. exact (c_asset_lawful pt_ok). Qed.
Theorem C01_nonce  : Lawful (c_nonce pt_ok).   Proof. exact (c_nonce_lawful pt_ok). Qed.
Theorem C01_txin   : Lawful (c_txin pt_ok maxvec).   Proof. exact (c_txin_nowit_lawful pt_ok maxvec). Qed.
Theorem C01_txout  : Lawful (c_txout pt_ok maxvec).  Proof. exact (c_txout_nowit_lawful pt_ok maxvec). Qed.
Theorem C01_tx     : Lawful (c_tx pt_ok maxvec cap_txin cap_txout cap_vecu8).  Proof. exact (c_tx_lawful pt_ok maxvec cap_txin cap_txout cap_vecu8). Qed.
Theorem C01_params : Lawful (c_params maxvec cap_vecu8).   Proof. exact (c_params_lawful maxvec cap_vecu8). Qed.
Theorem C01_fullparams : Lawful (c_fullparams maxvec cap_vecu8).   Proof. exact (c_fullparams_lawful maxvec cap_vecu8). Qed.
Theorem C01_header : Lawful (c_header maxvec cap_vecu8).   Proof. exact (c_header_lawful pt_ok maxvec cap_vecu8). Qed.
Theorem C01_block  : Lawful (c_block pt_ok maxvec cap_txin cap_txout cap_vecu8 cap_tx).  Proof. exact (c_block_lawful pt_ok maxvec cap_txin cap_txout cap_vecu8 cap_tx). Qed.

(* the property's sentences, spelled out for transactions (the same corollaries hold for every Lawful codec) *)
Notation TX := (c_tx pt_ok maxvec cap_txin cap_txout cap_vecu8).
Theorem C01_tx_decode_exact : forall bs t, deserialize TX bs = Some t -> bs = enc TX t /\ wf TX t = true.
Proof. exact (deserialize_exact TX C01_tx). Qed.
Theorem C01_tx_no_two_encodings : forall b1 b2 t, deserialize TX b1 = Some t -> deserialize TX b2 = Some t -> b1 = b2.
Proof. exact (deserialize_inj TX C01_tx). Qed.
Theorem C01_tx_encode_decode : forall t, wf TX t = true -> deserialize TX (enc TX t) = Some t.
Proof. exact (deserialize_complete TX C01_tx). Qed.
Theorem C01_tx_reported_length : forall t, wf TX t = true -> elen TX t = N.of_nat (length (enc TX t)).
Proof. exact (l_len C01_tx). Qed.
Notation HD := (c_header maxvec cap_vecu8).
Theorem C01_header_decode_exact : forall bs h, deserialize HD bs = Some h -> bs = enc HD h /\ wf HD h = true.
Proof. exact (deserialize_exact HD C01_header). Qed.
Theorem C01_header_encode_decode : forall h, wf HD h = true -> deserialize HD (enc HD h) = Some h.
Proof. exact (deserialize_complete HD C01_header). Qed.
End C01.

(* the constructor half: the values built by OutPoint::null / TxIn::default / AssetIssuance::null / TxOut::default / TxOut::new_fee
   are canonical (hence round-trip), for every parameter *)
Definition default_txin : txin := {| in_prev := {| o_txid := zero32; o_vout := 4294967295 |}; in_pegin := false; in_script := []; in_seq := 4294967295;
  in_iss := null_issuance; in_wit := empty_inwit |}.
Definition default_txout : txout := {| out_asset := ANull; out_value := VNull; out_nonce := NNull; out_script := []; out_wit := empty_outwit |}.
Definition new_fee (amount : N) (asset : bytes) : txout :=
  {| out_asset := AExplicit asset; out_value := VExplicit amount; out_nonce := NNull; out_script := []; out_wit := empty_outwit |}.
Theorem C01_constructors_canonical : forall pt_ok maxvec,
  wf (c_txin pt_ok maxvec) default_txin = true /\ wf (c_txout pt_ok maxvec) default_txout = true /\
  wf c_outpoint {| o_txid := zero32; o_vout := 4294967295 |} = true /\
  wf (c_issuance pt_ok) null_issuance = true /\
  (forall amount asset, amount < 2 ^ 64 -> length asset = 32%nat -> wf (c_txout pt_ok maxvec) (new_fee amount asset) = true).
Proof. intros pt_ok maxvec. repeat split.
  - destruct maxvec; vm_compute; reflexivity.
  - destruct maxvec; vm_compute; reflexivity.
  - intros amount asset Ha Hl. unfold new_fee. cbn [c_txout c_txout_nowit c_conv wf out_wit outwit_is_empty empty_outwit w_surj w_range andb].
    cbn [c_pair wf c_asset c_value c_nonce asset_wf value_wf nonce_wf out_asset out_value out_nonce out_script].
    rewrite Hl. cbn [Nat.eqb]. replace (wf (c_be 8) amount) with true.
    + destruct maxvec; vm_compute; reflexivity.
    + symmetry. cbn [c_be wf]. apply N.ltb_lt. replace (256 ^ N.of_nat 8) with (2 ^ 64) by (vm_compute; reflexivity). exact Ha. Qed.

(* why `wf` is needed: an input with index 0x3fffffff and both flags encodes to the coinbase index and does not come back *)
Definition odd_txin : txin := {| in_prev := {| o_txid := zero32; o_vout := 1073741823 |}; in_pegin := true; in_script := []; in_seq := 0;
  in_iss := {| i_nonce := zero32; i_entropy := zero32; i_amount := VExplicit 1; i_keys := VNull |}; in_wit := empty_inwit |}.
Example C01_noncanonical_example :
  wf (c_txin (fun _ => true) 4000000) odd_txin = false /\
  match deserialize (c_txin (fun _ => true) 4000000) (enc (c_txin (fun _ => true) 4000000) odd_txin) with Some i => negb (in_pegin i) | None => true end = true.
Proof. vm_compute. split; reflexivity. Qed.
(* non-vacuity: canonical values exist for the interesting shapes — a coinbase input, a pegin + issuance input, a transaction with witnesses *)
Definition coinbase_in : txin := {| in_prev := {| o_txid := zero32; o_vout := 4294967295 |}; in_pegin := false; in_script := [x51]; in_seq := 4294967295; in_iss := null_issuance; in_wit := empty_inwit |}.
Definition pegin_iss_in : txin := {| in_prev := {| o_txid := repeat x11 32; o_vout := 7 |}; in_pegin := true; in_script := []; in_seq := 5;
  in_iss := {| i_nonce := zero32; i_entropy := repeat x22 32; i_amount := VExplicit 1000; i_keys := VNull |}; in_wit := empty_inwit |}.
Definition sample_tx : tx := {| tx_version := 2; tx_lock := 0;
  tx_in := [ set_inwit pegin_iss_in {| w_amount_rp := None; w_keys_rp := None; w_script := [[x01; x02]]; w_pegin := [] |} ; coinbase_in ];
  tx_out := [ {| out_asset := AExplicit (repeat x33 32); out_value := VExplicit 5; out_nonce := NNull; out_script := []; out_wit := empty_outwit |} ] |}.
Example C01_canonical_examples :
  wf (c_txin (fun _ => true) 4000000) coinbase_in = true /\ wf (c_txin (fun _ => true) 4000000) pegin_iss_in = true /\
  wf (c_tx (fun _ => true) 4000000 1000 1000 1000) sample_tx = true /\
  deserialize (c_tx (fun _ => true) 4000000 1000 1000 1000) (enc (c_tx (fun _ => true) 4000000 1000 1000 1000) sample_tx) = Some sample_tx.
Proof. vm_compute. repeat split; reflexivity. Qed.

Check (C01_tx_decode_exact : forall pt_ok maxvec cap_txin cap_txout cap_vecu8 bs t,
  deserialize (c_tx pt_ok maxvec cap_txin cap_txout cap_vecu8) bs = Some t ->
  bs = enc (c_tx pt_ok maxvec cap_txin cap_txout cap_vecu8) t /\ wf (c_tx pt_ok maxvec cap_txin cap_txout cap_vecu8) t = true).
Check (C01_tx_encode_decode : forall pt_ok maxvec cap_txin cap_txout cap_vecu8 t,
  wf (c_tx pt_ok maxvec cap_txin cap_txout cap_vecu8) t = true ->
  deserialize (c_tx pt_ok maxvec cap_txin cap_txout cap_vecu8) (enc (c_tx pt_ok maxvec cap_txin cap_txout cap_vecu8) t) = Some t).
Check (C01_block : forall pt_ok maxvec cap_txin cap_txout cap_vecu8 cap_tx, Lawful (c_block pt_ok maxvec cap_txin cap_txout cap_vecu8 cap_tx)).
