(* C06 — addresses round-trip through text, are canonical, and name exactly one network.
   Only statements; proofs live in Proofs/Address.v (and Proofs/Bech32*.v). H is SHA-256d, pk_valid the secp256k1 test of a 33-byte key:
   both are parameters. *)
From Coq Require Import List NArith Bool Lia.
From Coq.Strings Require Import Byte.
From EV Require Import Base.Bytes Base.SecpField Gen.Tables Model.Bech32 Model.Base58 Model.Address Proofs.Bech32 Proofs.Bech32Codes Proofs.Address.
Import ListNotations.
Open Scope N_scope.

(* every successfully parsed address — outside the known class F5 — holds a 20-byte hash or a witness program of version <= 16 and
   2..40 bytes (20 or 32 for version 0) whose text carries the checksum variant required for its version (bech32/blech32 for
   version 0, bech32m/blech32m above), and belongs to the network whose parameters were used *)
Theorem C06_parsed_shape : forall (H : bytes -> bytes) (pk_valid : bytes -> bool) s p a,
  parse_with_params H pk_valid s p = AOk a -> ~ known_F5 a -> shape_ok s a /\ a_params a = p.
Proof. exact parsed_shape. Qed.

(* finding F5: the full statement (without `~ known_F5 a`) is false of the faithful model — a blinded version-1 address whose data is
   a blinding key followed by a 1-byte (or empty) witness program parses; the 2..40 rule of src/blech32/decode.rs is applied to
   key + program *)
Theorem C06_blinded_short_program_refuted : forall (H : bytes -> bytes),
  exists s a, from_str H pubkey33_valid s = AOk a /\ known_F5 a /\
              a_payload a = WitnessProgram 1 [xa9] /\ ~ (shape_ok s a).
Proof. intros H. exists "lq1pqguc7t884ml9najsrvr8uvgxj4vuneqdvmxlacuwwekaz44u4dxkt2gef4zgpzl48dj"%lb. eexists. split; [vm_compute; reflexivity|].
  split; [split; [cbn; discriminate|eexists _, _; split; [reflexivity|split; [discriminate|cbn; lia]]]|]. split; [reflexivity|].
  unfold shape_ok. cbn [a_payload]. intros (_ & L & _). cbn in L. lia. Qed.
Theorem C06_blinded_empty_program_refuted : forall (H : bytes -> bytes),
  exists s a, from_str H pubkey33_valid s = AOk a /\ known_F5 a /\ a_payload a = WitnessProgram 1 [].
Proof. intros H. exists "lq1pqggffpmh62cr0qs432fnfyrdhlnrk7uv2ln4uugrjxadg0n9f4mpzuvenj2eacqxm"%lb. eexists. split; [vm_compute; reflexivity|].
  split; [split; [cbn; discriminate|eexists _, _; split; [reflexivity|split; [discriminate|cbn; lia]]]|reflexivity]. Qed.

(* FromStr is parse_with_params of one built-in network (so the statements about parse_with_params cover it) *)
Theorem C06_from_str_is_parse : forall (H : bytes -> bytes) (pk_valid : bytes -> bool) s a,
  from_str H pk_valid s = AOk a -> exists p, In p builtin /\ parse_with_params H pk_valid s p = AOk a.
Proof. exact from_str_is_parse. Qed.

(* FULL STATEMENT: parse_with_params s p1 = AOk a1 -> parse_with_params s p2 = AOk a2 -> In p1 builtin -> In p2 builtin -> p1 = p2.
   Proved except for one residual case that no proof over an abstract hash can exclude: one network reads s as a segwit string
   (its HRP matches) while the other reads the very same characters as base58check, which requires the SHA-256d checksum of the
   decoded bytes to match by accident.  Uses the pairwise distinctness of the six HRPs and of the nine version bytes, recomputed
   from Gen/Tables.v. *)
Theorem C06_one_network_partial : forall (H : bytes -> bytes) (pk_valid : bytes -> bool) s p1 p2 a1 a2,
  In p1 builtin -> In p2 builtin -> parse_with_params H pk_valid s p1 = AOk a1 -> parse_with_params H pk_valid s p2 = AOk a2 ->
  p1 = p2 \/ (segwit_path s p1 <> segwit_path s p2 /\ exists d, b58_decode_check H s = Ok58 d).
Proof. exact one_network. Qed.
