(* C06 — addresses round-trip through text, are canonical, and name exactly one network.
   Only statements; proofs live in Proofs/Address*.v, Proofs/Numeral.v (and Proofs/Bech32*.v). H is SHA-256d, pk_valid the secp256k1 test of a 33-byte key:
   both are parameters. *)
From Coq Require Import List NArith Bool Lia.
From Coq.Strings Require Import Byte.
From EV Require Import Base.Bytes Base.SecpField Base.Sha256 Gen.Tables Model.Bech32 Model.Base58 Model.Address Proofs.Bech32 Proofs.Bech32Codes Proofs.Address Proofs.AddressRT
  Proofs.Numeral Proofs.AddressB58 Proofs.AddressCanon Proofs.AddressCase.
Import ListNotations.
Open Scope N_scope.
Set Default Timeout 120.

(* every successfully parsed address holds a 20-byte hash or a witness program of version <= 16 and
   2..40 bytes (20 or 32 for version 0) whose text carries the checksum variant required for its version (bech32/blech32 for
   version 0, bech32m/blech32m above), and belongs to the network whose parameters were used.  (Before the repair of finding F5 —
   commit 86be616, `program.len() < 2 || program.len() > 40` in Address::from_bech32 — this held only outside the class of blinded
   version >= 1 addresses with a 0- or 1-byte program.) *)
Theorem C06_parsed_shape : forall (H : bytes -> bytes) (pk_valid : bytes -> bool) s p a,
  parse_with_params H pk_valid s p = AOk a -> shape_ok s a /\ a_params a = p.
Proof. exact parsed_shape. Qed.

(* regression for F5: the two witness strings of the former C06_blinded_short_program_refuted / C06_blinded_empty_program_refuted (a blinding
   key followed by the 1-byte program a9, resp. by an empty program, blech32m, version 1) are now rejected with
   InvalidWitnessProgramLength by FromStr and by parse_with_params of their network *)
Theorem C06_F5_witnesses_rejected : forall (H : bytes -> bytes),
  let s1 := "lq1pqguc7t884ml9najsrvr8uvgxj4vuneqdvmxlacuwwekaz44u4dxkt2gef4zgpzl48dj"%lb in
  let s0 := "lq1pqggffpmh62cr0qs432fnfyrdhlnrk7uv2ln4uugrjxadg0n9f4mpzuvenj2eacqxm"%lb in
  from_str H pubkey33_valid s1 = AErr AInvalidWitnessProgramLength /\ parse_with_params H pubkey33_valid s1 LIQUID = AErr AInvalidWitnessProgramLength /\
  from_str H pubkey33_valid s0 = AErr AInvalidWitnessProgramLength /\ parse_with_params H pubkey33_valid s0 LIQUID = AErr AInvalidWitnessProgramLength.
Proof. intros H. cbv zeta. repeat split; vm_compute; reflexivity. Qed.

(* FromStr is parse_with_params of one built-in network (so the statements about parse_with_params cover it) *)
Theorem C06_from_str_is_parse : forall (H : bytes -> bytes) (pk_valid : bytes -> bool) s a,
  from_str H pk_valid s = AOk a -> exists p, In p builtin /\ parse_with_params H pk_valid s p = AOk a.
Proof. exact from_str_is_parse. Qed.

(* A string parses under at most one built-in network's parameters.  Uses the pairwise distinctness of the six HRPs and of the nine version
   bytes (recomputed from Gen/Tables.v) and, for the case "one network reads s as segwit, the other as base58check", C06_base58_dispatch
   below: a text that base58check-decodes to a version byte of a built-in network followed by the number of bytes from_base58 demands
   starts with a character no built-in HRP starts with.  No assumption on the hash. *)
Theorem C06_one_network : forall (H : bytes -> bytes) (pk_valid : bytes -> bool) s p1 p2 a1 a2,
  In p1 builtin -> In p2 builtin -> parse_with_params H pk_valid s p1 = AOk a1 -> parse_with_params H pk_valid s p2 = AOk a2 -> p1 = p2.
Proof. exact one_network_full. Qed.

(* Round trip.  wf_addr: a built-in network, a 33-byte blinding key that secp256k1 accepts (if any), 20-byte hashes, witness version
   <= 16 with a program of 2..40 bytes (20 or 32 for version 0).  For every such address — p2pkh, p2sh (base58check), unblinded segwit
   (bech32/bech32m) or blinded segwit (blech32/blech32m), any version, any program length — the displayed text parses back to the same
   address, through parse_with_params of its own network and through FromStr; for segwit forms so does the upper-case text.
   The only premise on the hash is that it returns at least the four bytes the base58check checksum takes (SHA-256d returns 32);
   it is not needed for the segwit clauses (C06_roundtrip_segwit, C06_roundtrip_segwit_upper).  The model's `display` is the independent
   encoder of the property; that it agrees character for character with the crate's Display is the correspondence check. *)
Theorem C06_roundtrip : forall (H : bytes -> bytes) (pk_valid : bytes -> bool), (forall x, 4 <= length (H x))%nat ->
  forall a, wf_addr pk_valid a ->
  (parse_with_params H pk_valid (display H a) (a_params a) = AOk a /\ from_str H pk_valid (display H a) = AOk a) /\
  (is_segwit a -> parse_with_params H pk_valid (upper (display H a)) (a_params a) = AOk a /\ from_str H pk_valid (upper (display H a)) = AOk a).
Proof. exact roundtrip_all. Qed.
Theorem C06_roundtrip_segwit : forall (H : bytes -> bytes) (pk_valid : bytes -> bool) a, wf_addr pk_valid a -> is_segwit a ->
  parse_with_params H pk_valid (display H a) (a_params a) = AOk a /\ from_str H pk_valid (display H a) = AOk a.
Proof. exact roundtrip_segwit. Qed.
Theorem C06_roundtrip_segwit_upper : forall (H : bytes -> bytes) (pk_valid : bytes -> bool) a, wf_addr pk_valid a -> is_segwit a ->
  parse_with_params H pk_valid (upper (display H a)) (a_params a) = AOk a /\ from_str H pk_valid (upper (display H a)) = AOk a.
Proof. exact roundtrip_segwit_upper. Qed.
Theorem C06_roundtrip_base58 : forall (H : bytes -> bytes) (pk_valid : bytes -> bool), (forall x, 4 <= length (H x))%nat ->
  forall a, wf_addr pk_valid a -> ~ is_segwit a ->
  parse_with_params H pk_valid (display H a) (a_params a) = AOk a /\ from_str H pk_valid (display H a) = AOk a.
Proof. intros H pkv H4 a. exact (roundtrip_base58 H pkv a H4). Qed.

(* Canonical form: parsing then displaying returns the lower-case form of a segwit string and a base58check string unchanged — every
   string, every parameter set (built-in or not), every hash and key predicate; also through FromStr. *)
Theorem C06_canonical : forall (H : bytes -> bytes) (pk_valid : bytes -> bool) s p a, parse_with_params H pk_valid s p = AOk a ->
  (is_segwit a /\ display H a = lower s) \/ (~ is_segwit a /\ display H a = s).
Proof. exact canonical. Qed.
Theorem C06_canonical_from_str : forall (H : bytes -> bytes) (pk_valid : bytes -> bool) s a, from_str H pk_valid s = AOk a ->
  (is_segwit a /\ display H a = lower s) \/ (~ is_segwit a /\ display H a = s).
Proof. exact canonical_from_str. Qed.

(* Case: only the two single-case forms of a segwit address parse (C06_roundtrip for both, C06_canonical: they display as the lower-case
   one); a string with an upper-case and a lower-case letter anywhere, human-readable part included, never parses as a segwit address —
   any parameters, FromStr included — and is an error outright where its prefix matches an HRP of the network. *)
Theorem C06_mixed_case_rejected : forall (H : bytes -> bytes) (pk_valid : bytes -> bool) s p, mixed_case s = true ->
  (forall a, parse_with_params H pk_valid s p = AOk a -> ~ is_segwit a) /\
  (segwit_path s p = true -> exists e, parse_with_params H pk_valid s p = AErr e) /\
  (forall a, from_str H pk_valid s = AOk a -> ~ is_segwit a).
Proof. intros H pkv s p M. destruct (mixed_case_rejected H pkv s p M) as [A B]. split; [exact A|split; [exact B|intros a; exact (mixed_case_rejected_from_str H pkv s a M)]]. Qed.

(* ---- the lemmas the clauses above rest on, at full strength ---- *)
(* positional numerals, any base >= 2: minimal digits of the value of a canonical digit list (all digits < b, no leading zero), and back *)
Theorem C06_numeral : forall b, 2 <= b ->
  (forall ds, Forall (fun d => d < b) ds -> match ds with [] => True | d :: _ => d <> 0 end -> digits b (value b ds 0) = ds) /\
  (forall v, value b (digits b v) 0 = v).
Proof. intros b B. split; [intros ds D Hn; apply (digits_value b B); split; assumption|intros v; exact (proj2 (digits_spec b B v))]. Qed.
(* base58 <-> bytes, every byte string and every accepted text, leading zero bytes / leading '1' characters included *)
Theorem C06_base58_codec : (forall bs, b58_decode (b58_encode bs) = Ok58 bs) /\ (forall s bs, b58_decode s = Ok58 bs -> b58_encode bs = s).
Proof. split; [exact b58_decode_encode|exact b58_encode_decode]. Qed.
(* base58check: create then verify (hash of >= 4 bytes), verify then re-create (any hash) *)
Theorem C06_base58check : forall (H : bytes -> bytes),
  (forall data, (4 <= length (H data))%nat -> b58_decode_check H (b58_encode_check H data) = Ok58 data) /\
  (forall s data, b58_decode_check H s = Ok58 data -> b58_encode_check H data = s).
Proof. intros H. split; [exact (b58_check_roundtrip H)|exact (b58_check_canonical H)]. Qed.
(* Dispatch (finite sweep, bound in the statement): for each of the nine version bytes x of the three built-in networks and every byte
   string bs of 24 or 58 bytes (hash + checksum, or inner version byte + blinding key + hash + checksum), the base58 text of x :: bs is at
   most 150 characters long and its prefix (everything before the last '1') matches no built-in HRP, so parse_with_params and FromStr take
   the base58check branch.  Proof: the first base58 digit of a number in [x*256^n, (x+1)*256^n) is computed (vm_compute over the 18 cases)
   and none of the resulting characters lower-cases to the first letter of a built-in HRP. *)
Theorem C06_base58_dispatch : forall p x n bs, In p builtin -> x = p_p2pkh p \/ x = p_p2sh p \/ x = p_blinded p -> n = 24%nat \/ n = 58%nat -> length bs = n ->
  too_long_for_base58 (b58_encode (n2b x :: bs)) = false /\
  forall p', In p' builtin -> match_prefix (find_prefix (b58_encode (n2b x :: bs))) (p_bech p') = false /\
                              match_prefix (find_prefix (b58_encode (n2b x :: bs))) (p_blech p') = false.
Proof. exact b58_text_dispatch. Qed.
(* the checksum the encoder appends always verifies — any HRP, any data, each of the four codes — and is the only one that does *)
Theorem C06_checksum_verifies : forall c, In c [bech32; bech32m; blech32; blech32m] ->
  forall pre, sym_word pre -> valid_codeword c (pre ++ checksum_syms c pre) = true.
Proof. exact checksum_valid. Qed.
Theorem C06_checksum_unique : forall c, In c [bech32; bech32m; blech32; blech32m] ->
  forall pre ck, sym_word pre -> sym_word ck -> length ck = c_len c -> valid_codeword c (pre ++ ck) = true -> ck = checksum_syms c pre.
Proof. exact checksum_syms_unique. Qed.
(* regrouping 8 -> 5 -> 8 bits is the identity and produces valid padding — every byte string; 5 -> 8 -> 5 is the identity on every
   symbol string with valid padding *)
Theorem C06_regroup : forall data, fes_to_bytes (bytes_to_fes data) = data /\ validate_padding (bytes_to_fes data) = Ok tt.
Proof. intros data. split; [apply fes_bytes_roundtrip|apply bytes_to_fes_padding]. Qed.
Theorem C06_regroup_back : forall body, sym_word body -> validate_padding body = Ok tt -> bytes_to_fes (fes_to_bytes body) = body.
Proof. exact bytes_fes_roundtrip. Qed.
(* the independent encoder applied to what either segwit decoder returns gives back the lower-case text *)
Theorem C06_segwit_canonical : forall cfg s v data hrp, cfg = cfg_bech \/ cfg = cfg_blech -> segwit_decode cfg s = Ok (v, data) ->
  eq_lower hrp (find_prefix s) = true -> encode_segwit (if v =? 0 then sw_code_v0 cfg else sw_code_v1 cfg) hrp v data = lower s.
Proof. intros cfg s v data hrp C D M. apply (segwit_canonical cfg s v data hrp D); [|exact M]. unfold code_for. destruct C as [->| ->], (v =? 0); cbn; tauto. Qed.

(* non-vacuity: wf_addr is inhabited by a blinded taproot-style address, and the theorem computes on it *)
Example C06_nonvacuous :
  let bl := match bytes_of_hex "0210948777d2b03782158a9334906dbfe63b7b8c57e75e710391bad43e654d7611"%lb with Some b => b | None => [] end in
  let a := mkAddr LIQUID (WitnessProgram 1 (repeat x11 32)) (Some bl) in
  wf_addr pubkey33_valid a /\ is_segwit a /\ from_str (fun _ => []) pubkey33_valid (display (fun _ => []) a) = AOk a.
Proof. cbv zeta. split; [|split].
  - split; [cbn; tauto|]. split; [split; [reflexivity|vm_compute; reflexivity]|]. cbn. repeat split; try lia; try (intros X; discriminate).
  - eexists _, _. reflexivity.
  - vm_compute. reflexivity. Qed.

(* non-vacuity, base58check forms: a blinded p2sh address on LIQUID and an unblinded p2pkh address on ELEMENTS are well formed, are not segwit,
   and the round trip computes on them with the real SHA-256d (whose outputs have 32 >= 4 bytes) *)
Example C06_nonvacuous_base58 :
  let bl := match bytes_of_hex "0210948777d2b03782158a9334906dbfe63b7b8c57e75e710391bad43e654d7611"%lb with Some b => b | None => [] end in
  let a := mkAddr LIQUID (ScriptHash (repeat x11 20)) (Some bl) in let a' := mkAddr ELEMENTS (PubkeyHash (repeat x22 20)) None in
  wf_addr pubkey33_valid a /\ ~ is_segwit a /\ from_str sha256d pubkey33_valid (display sha256d a) = AOk a /\
  wf_addr pubkey33_valid a' /\ ~ is_segwit a' /\ from_str sha256d pubkey33_valid (display sha256d a') = AOk a' /\
  (4 <= length (sha256d []))%nat.
Proof. cbv zeta.
  assert (NS : forall p h b, ~ is_segwit (mkAddr p (ScriptHash h) b) /\ ~ is_segwit (mkAddr p (PubkeyHash h) b))
    by (intros p h b; split; intros (v & prog & E); discriminate E).
  split; [split; [cbn [a_params builtin In]; tauto|split; [split; [reflexivity|vm_compute; reflexivity]|reflexivity]]|].
  split; [apply NS|]. split; [vm_compute; reflexivity|].
  split; [split; [cbn [a_params builtin In]; tauto|split; [exact I|reflexivity]]|].
  split; [apply NS|]. split; [vm_compute; reflexivity|]. vm_compute. lia. Qed.
(* non-vacuity, canonical form: an upper-case segwit string parses, and displaying the result gives a different (the lower-case) string *)
Example C06_nonvacuous_canonical :
  let s := "ERT1QWHH2N5QYPYPM0EUFAHM2PVJ8RAJ9ZQ5C27CYSU"%lb in
  exists a, parse_with_params (fun _ => []) (fun _ => true) s ELEMENTS = AOk a /\ is_segwit a /\ display (fun _ => []) a = lower s /\ lower s <> s.
Proof. cbv zeta. eexists. split; [vm_compute; reflexivity|]. split; [eexists _, _; reflexivity|]. split; [vm_compute; reflexivity|]. vm_compute. discriminate. Qed.

Check (C06_roundtrip : forall (H : bytes -> bytes) (pk_valid : bytes -> bool), (forall x, 4 <= length (H x))%nat ->
  forall a, wf_addr pk_valid a ->
  (parse_with_params H pk_valid (display H a) (a_params a) = AOk a /\ from_str H pk_valid (display H a) = AOk a) /\
  (is_segwit a -> parse_with_params H pk_valid (upper (display H a)) (a_params a) = AOk a /\ from_str H pk_valid (upper (display H a)) = AOk a)).
Check (C06_roundtrip_segwit : forall (H : bytes -> bytes) (pk_valid : bytes -> bool) a, wf_addr pk_valid a -> is_segwit a ->
  parse_with_params H pk_valid (display H a) (a_params a) = AOk a /\ from_str H pk_valid (display H a) = AOk a).
Check (C06_canonical : forall (H : bytes -> bytes) (pk_valid : bytes -> bool) s p a, parse_with_params H pk_valid s p = AOk a ->
  (is_segwit a /\ display H a = lower s) \/ (~ is_segwit a /\ display H a = s)).
Check (C06_one_network : forall (H : bytes -> bytes) (pk_valid : bytes -> bool) s p1 p2 a1 a2,
  In p1 builtin -> In p2 builtin -> parse_with_params H pk_valid s p1 = AOk a1 -> parse_with_params H pk_valid s p2 = AOk a2 -> p1 = p2).
Check (C06_parsed_shape : forall (H : bytes -> bytes) (pk_valid : bytes -> bool) s p a,
  parse_with_params H pk_valid s p = AOk a -> shape_ok s a /\ a_params a = p).
Check (C06_base58_codec : (forall bs, b58_decode (b58_encode bs) = Ok58 bs) /\ (forall s bs, b58_decode s = Ok58 bs -> b58_encode bs = s)).
Print Assumptions C06_parsed_shape.
Print Assumptions C06_F5_witnesses_rejected.
Print Assumptions C06_from_str_is_parse.
Print Assumptions C06_one_network.
Print Assumptions C06_roundtrip.
Print Assumptions C06_roundtrip_segwit.
Print Assumptions C06_roundtrip_segwit_upper.
Print Assumptions C06_roundtrip_base58.
Print Assumptions C06_canonical.
Print Assumptions C06_canonical_from_str.
Print Assumptions C06_mixed_case_rejected.
Print Assumptions C06_numeral.
Print Assumptions C06_base58_codec.
Print Assumptions C06_base58check.
Print Assumptions C06_base58_dispatch.
Print Assumptions C06_checksum_verifies.
Print Assumptions C06_checksum_unique.
Print Assumptions C06_regroup.
Print Assumptions C06_regroup_back.
Print Assumptions C06_segwit_canonical.
