(* C06 — addresses round-trip through text, are canonical, and name exactly one network.
   Only statements; proofs live in Proofs/Address.v (and Proofs/Bech32*.v). H is SHA-256d, pk_valid the secp256k1 test of a 33-byte key:
   both are parameters. *)
From Coq Require Import List NArith Bool Lia.
From Coq.Strings Require Import Byte.
From EV Require Import Base.Bytes Base.SecpField Gen.Tables Model.Bech32 Model.Base58 Model.Address Proofs.Bech32 Proofs.Bech32Codes Proofs.Address Proofs.AddressRT.
Import ListNotations.
Open Scope N_scope.

(* every successfully parsed address — outside the known class F5 — holds a 20-byte hash or a witness program of version <= 16 and
   2..40 bytes (20 or 32 for version 0) whose text carries the checksum variant required for its version (bech32/blech32 for
   version 0, bech32m/blech32m above), and belongs to the network whose parameters were used *)
Theorem C06_parsed_shape : forall (H : bytes -> bytes) (pk_valid : bytes -> bool) s p a,
  parse_with_params H pk_valid s p = AOk a -> ~ known_F5 a -> shape_ok s a /\ a_params a = p.
Proof. exact parsed_shape. Qed.

(* finding F5: the full statement (without `~ known_F5 a`) is false of the faithful model — a blinded version-1 address whose data is
   a blinding key followed by a 1-byte (or empty) witness program parses; the 2..40 rule of src/blech32/decode.rs is applied to
   key + program *)
Theorem C06_blinded_short_program_refuted : forall (H : bytes -> bytes),
  exists s a, from_str H pubkey33_valid s = AOk a /\ known_F5 a /\
              a_payload a = WitnessProgram 1 [xa9] /\ ~ (shape_ok s a).
Proof. intros H. exists "lq1pqguc7t884ml9najsrvr8uvgxj4vuneqdvmxlacuwwekaz44u4dxkt2gef4zgpzl48dj"%lb. eexists. split; [vm_compute; reflexivity|].
  split; [split; [cbn; discriminate|eexists _, _; split; [reflexivity|split; [discriminate|cbn; lia]]]|]. split; [reflexivity|].
  unfold shape_ok. cbn [a_payload]. intros (_ & L & _). cbn in L. lia. Qed.
Theorem C06_blinded_empty_program_refuted : forall (H : bytes -> bytes),
  exists s a, from_str H pubkey33_valid s = AOk a /\ known_F5 a /\ a_payload a = WitnessProgram 1 [].
Proof. intros H. exists "lq1pqggffpmh62cr0qs432fnfyrdhlnrk7uv2ln4uugrjxadg0n9f4mpzuvenj2eacqxm"%lb. eexists. split; [vm_compute; reflexivity|].
  split; [split; [cbn; discriminate|eexists _, _; split; [reflexivity|split; [discriminate|cbn; lia]]]|reflexivity]. Qed.

(* FromStr is parse_with_params of one built-in network (so the statements about parse_with_params cover it) *)
Theorem C06_from_str_is_parse : forall (H : bytes -> bytes) (pk_valid : bytes -> bool) s a,
  from_str H pk_valid s = AOk a -> exists p, In p builtin /\ parse_with_params H pk_valid s p = AOk a.
Proof. exact from_str_is_parse. Qed.

(* FULL STATEMENT: parse_with_params s p1 = AOk a1 -> parse_with_params s p2 = AOk a2 -> In p1 builtin -> In p2 builtin -> p1 = p2.
   Proved except for one residual case that no proof over an abstract hash can exclude: one network reads s as a segwit string
   (its HRP matches) while the other reads the very same characters as base58check, which requires the SHA-256d checksum of the
   decoded bytes to match by accident.  Uses the pairwise distinctness of the six HRPs and of the nine version bytes, recomputed
   from Gen/Tables.v. *)
Theorem C06_one_network_partial : forall (H : bytes -> bytes) (pk_valid : bytes -> bool) s p1 p2 a1 a2,
  In p1 builtin -> In p2 builtin -> parse_with_params H pk_valid s p1 = AOk a1 -> parse_with_params H pk_valid s p2 = AOk a2 ->
  p1 = p2 \/ (segwit_path s p1 <> segwit_path s p2 /\ exists d, b58_decode_check H s = Ok58 d).
Proof. exact one_network. Qed.

(* Round trip.  wf_addr: a built-in network, a 33-byte blinding key that secp256k1 accepts (if any), 20-byte hashes, witness version
   <= 16 with a program of 2..40 bytes (20 or 32 for version 0).  For every such segwit address — unblinded (bech32/bech32m) or
   blinded (blech32/blech32m), any version, any program length — the displayed text parses back to the same address, through
   parse_with_params of its own network and through FromStr.  The model's `display` is the independent encoder of the property;
   that it agrees character for character with the crate's Display is the correspondence check. *)
Theorem C06_roundtrip_segwit : forall (H : bytes -> bytes) (pk_valid : bytes -> bool) a, wf_addr pk_valid a -> is_segwit a ->
  parse_with_params H pk_valid (display H a) (a_params a) = AOk a /\ from_str H pk_valid (display H a) = AOk a.
Proof. exact roundtrip_segwit. Qed.
(* the checksum the encoder appends always verifies — any HRP, any data, each of the four codes *)
Theorem C06_checksum_verifies : forall c, In c [bech32; bech32m; blech32; blech32m] ->
  forall pre, sym_word pre -> valid_codeword c (pre ++ checksum_syms c pre) = true.
Proof. exact checksum_valid. Qed.
(* regrouping 8 -> 5 -> 8 bits is the identity and produces valid padding — every byte string *)
Theorem C06_regroup : forall data, fes_to_bytes (bytes_to_fes data) = data /\ validate_padding (bytes_to_fes data) = Ok tt.
Proof. intros data. split; [apply fes_bytes_roundtrip|apply bytes_to_fes_padding]. Qed.

(* NOT PROVED (kept visible; each is exercised on the implementation and on the model by the correspondence run):
   C06_roundtrip (remaining clauses):
     (a) wf_addr a -> segwit a -> from_str (upper (display a)) = AOk a                       — the upper-case form;
     (b) wf_addr a -> a is p2pkh/p2sh -> from_str (display a) = AOk a                        — base58check forms.
         Gap for (b): the positional-numeral lemma digits b (value b ds) = ds for base 58/256, and the dispatch side condition
         that a base58check text of one of the nine version bytes never has the shape "<built-in HRP>1..." (FromStr tries
         the segwit reading first); the latter is a numeric fact about the leading base58 digit for each version byte.
   C06_canonical: parse_with_params s p = AOk a -> display a = lower s (segwit) / display a = s (base58).
         Gap: the decode->encode direction of regrouping (bytes_to_fes (fes_to_bytes body) = body under validate_padding), uniqueness
         of the checksum symbols given the residue (from C17_syndrome), from_char/to_char on both letter cases, and the
         base58 numeral lemma. *)

(* non-vacuity: wf_addr is inhabited by a blinded taproot-style address, and the theorem computes on it *)
Example C06_nonvacuous :
  let bl := match bytes_of_hex "0210948777d2b03782158a9334906dbfe63b7b8c57e75e710391bad43e654d7611"%lb with Some b => b | None => [] end in
  let a := mkAddr LIQUID (WitnessProgram 1 (repeat x11 32)) (Some bl) in
  wf_addr pubkey33_valid a /\ is_segwit a /\ from_str (fun _ => []) pubkey33_valid (display (fun _ => []) a) = AOk a.
Proof. cbv zeta. split; [|split].
  - split; [cbn; tauto|]. split; [split; [reflexivity|vm_compute; reflexivity]|]. cbn. repeat split; try lia; try (intros X; discriminate).
  - eexists _, _. reflexivity.
  - vm_compute. reflexivity. Qed.

Check (C06_roundtrip_segwit : forall (H : bytes -> bytes) (pk_valid : bytes -> bool) a, wf_addr pk_valid a -> is_segwit a ->
  parse_with_params H pk_valid (display H a) (a_params a) = AOk a /\ from_str H pk_valid (display H a) = AOk a).
Check (C06_parsed_shape : forall (H : bytes -> bytes) (pk_valid : bytes -> bool) s p a,
  parse_with_params H pk_valid s p = AOk a -> ~ known_F5 a -> shape_ok s a /\ a_params a = p).
Check (C06_one_network_partial : forall (H : bytes -> bytes) (pk_valid : bytes -> bool) s p1 p2 a1 a2,
  In p1 builtin -> In p2 builtin -> parse_with_params H pk_valid s p1 = AOk a1 -> parse_with_params H pk_valid s p2 = AOk a2 ->
  p1 = p2 \/ (segwit_path s p1 <> segwit_path s p2 /\ exists d, b58_decode_check H s = Ok58 d)).
Print Assumptions C06_parsed_shape.
Print Assumptions C06_blinded_short_program_refuted.
Print Assumptions C06_blinded_empty_program_refuted.
Print Assumptions C06_from_str_is_parse.
Print Assumptions C06_one_network_partial.
Print Assumptions C06_roundtrip_segwit.
Print Assumptions C06_checksum_verifies.
Print Assumptions C06_regroup.
