(* C04 — placeholder while the correspondence is brought up *)
From Coq Require Import List ZArith.
From EV Require Import Base.Zn.
Theorem C04_last_vbf_formula : forall value abf ins outs,
  last_vbf value abf ins outs = zsub (zsub (zsum (map vb ins)) (zsum (map vb outs))) (zmul value abf).
Proof. exact last_vbf_formula. Qed.
Print Assumptions C04_last_vbf_formula.
