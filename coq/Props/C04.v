(* C04 — blinding yields a transaction that verifies and that receivers can unblind.
   LEVEL: proof IN THE IDEAL-COMMITMENT MODEL (Model/Ideal.v) — partial with respect to cryptography: Pedersen commitments are
   formal linear combinations over independent generators, range/surjection proofs are ideal objects, ECDH is an abstract
   symmetric function. What is proved is the protocol logic of Transaction::blind / verify_tx_amt_proofs / TxOut::unblind
   (src/blind.rs) and ValueBlindingFactor::last (src/confidential.rs); nothing about libsecp256k1-zkp itself.
   Only statements; proofs live in Proofs/Blind.v, Proofs/Verify.v, Proofs/Ideal.v. *)
From Coq Require Import List NArith ZArith Bool Lia.
From Coq.Strings Require Import Byte.
From EV Require Import Base.Bytes Base.Zn Base.FreeMod Gen.Tables Model.Script Model.Ideal Model.Verify Model.Blind
  Proofs.Ideal Proofs.Verify Proofs.Blind.
Import ListNotations.
Open Scope Z_scope.

(* ValueBlindingFactor::last (the negated-inputs sum of secp256k1_pedersen_blind_generator_blind_sum) is the explicit formula
   Σ_in (v·abf+vbf) − Σ_out (v·abf+vbf) − v_last·abf_last  (mod n) *)
Theorem C04_last_vbf_formula : forall value abf ins outs,
  last_vbf value abf ins outs = zsub (zsub (zsum (map vb ins)) (zsum (map vb outs))) (zmul value abf).
Proof. exact last_vbf_formula. Qed.

(* with the last value blinding factor so computed the G-coordinates balance — for every split into inputs and outputs, every
   amounts and blinding factors: as scalars, and as the G-coefficient of the sums of commitments *)
Theorem C04_last_balances : forall (ins outs : list secrets) (a : N) (v abf : Z),
  let last := mkSec a abf v (last_vbf v abf (map value_blind_inputs ins) (map value_blind_inputs outs)) in
  zsum (map svb ins) = zsum (map svb (outs ++ [last]))
  /\ coeff (gsum (map scommit ins)) kG = coeff (gsum (map scommit (outs ++ [last]))) kG.
Proof.
  intros ins outs a v abf last. split; [|exact (last_balances_group ins outs a v abf)].
  pose proof (last_balances_scalar (map value_blind_inputs ins) (map value_blind_inputs outs) v abf) as H.
  rewrite map_app, !map_map in H. cbn [map] in H. rewrite map_app. exact H.
Qed.

(* an explicit transaction with positive amounts, balanced per asset (explicit issuances included), the true secrets of the spent
   outputs (`opens`), at least one marked output, address scripts on the marked outputs, and a surjection domain `ss` (the spent
   outputs and one pseudo-input per explicit issuance / inflation-keys amount) of at most SURJECTIONPROOF_MAX_N_INPUTS entries
   (the limit Asset::blind enforces, regenerated from src/blind.rs; beyond it see the C04_domain_limit theorems): for EVERY randomness,
   blinding succeeds and the result passes amount verification against the spent outputs *)
Theorem C04_blind_verifies : forall (pubk : Z -> Z) (ecdh : Z -> Z -> Z) (p : profile)
  (t : tx) (spent : list txout) (ss : list secrets) (rnd : list Z),
  explicit_positive t -> scripts_addressable t -> opens (t_in t) spent ss -> balanced_per_asset ss t ->
  existsb marked (t_out t) = true -> rnd_ok t rnd ->
  (N.of_nat (length ss) <= CT_SURJECTIONPROOF_MAX_N_INPUTS)%N ->
  exists t' bl, blind pubk ecdh p rnd ss t = OVal (t', bl) /\ verify_tx_amt_proofs t' spent = OVal tt.
Proof. exact blind_verifies. Qed.

(* each marked output is reported with its blinding factors, carries exactly the commitments those factors produce, and
   unblinds with the receiver's secret key to the original asset and value and the reported factors; nothing else changes.
   ECDH symmetry is the only fact about keys that is used. *)
Theorem C04_unblind : forall (pubk : Z -> Z) (ecdh : Z -> Z -> Z) (p : profile),
  (forall a b, ecdh (pubk a) b = ecdh (pubk b) a) ->
  forall (t : tx) (spent : list txout) (ss : list secrets) (rnd : list Z),
  explicit_positive t -> scripts_addressable t -> balanced_per_asset ss t ->
  existsb marked (t_out t) = true -> rnd_ok t rnd ->
  (N.of_nat (length ss) <= CT_SURJECTIONPROOF_MAX_N_INPUTS)%N ->
  exists t' bl, blind pubk ecdh p rnd ss t = OVal (t', bl) /\ length (t_out t') = length (t_out t) /\
    (forall i o, nth_error (t_out t) i = Some o -> marked o = true ->
       exists a v abf vbf esk o', o_asset o = AExp a /\ o_value o = VExp v /\
         In (i, (abf, vbf, esk)) bl /\ nth_error (t_out t') i = Some o' /\
         o_asset o' = AConf (asset_gen a abf) /\ o_value o' = VConf (commit v (asset_gen a abf) vbf) /\
         o_script o' = o_script o /\ o_nonce o' = NConf (pubk esk) /\
         forall rsk, o_nonce o = NConf (pubk rsk) -> unblind ecdh o' rsk = OVal (mkSec a abf v vbf)) /\
    (forall i x, In (i, x) bl -> exists o, nth_error (t_out t) i = Some o /\ marked o = true) /\
    (forall i o, nth_error (t_out t) i = Some o -> marked o = false -> nth_error (t_out t') i = Some o).
Proof. intros pubk ecdh p S t spent ss rnd. exact (blind_unblinds pubk ecdh p S t spent ss rnd). Qed.

(* with NO output marked, Transaction::blind returns BlindError::TooFewBlindingOutputs (repair 8d5600e of finding F12; it used
   to panic at `expect("Internal output calculation error")`) ... *)
Theorem C04_no_marked_error : forall (pubk : Z -> Z) (ecdh : Z -> Z -> Z) p rnd ss t,
  explicit_positive t -> existsb marked (t_out t) = false -> Forall in_zn rnd ->
  blind pubk ecdh p rnd ss t = OFail BTooFewBlindingOutputs.
Proof. exact blind_none_marked_error. Qed.
(* ... and it never panics there, whatever the transaction and the randomness: the outcome is one of the two documented errors *)
Theorem C04_no_marked_never_panics : forall (pubk : Z -> Z) (ecdh : Z -> Z -> Z) p rnd ss t,
  existsb marked (t_out t) = false ->
  blind pubk ecdh p rnd ss t = OFail BTooFewBlindingOutputs \/ blind pubk ecdh p rnd ss t = OFail BMustHaveAllExplicitTxOuts.
Proof. exact blind_none_marked_never_panics. Qed.

(* ------------------------------------------------------------------ the size limit of the surjection domain
   Asset::blind with more than SURJECTIONPROOF_MAX_N_INPUTS spent entries, every one of which has a surjection target (no
   TxOutError): the targets are collected, then the call is refused with Upstream(CannotProveSurjection) — whatever the asset,
   whether or not any entry carries it *)
Theorem C04_domain_limit_asset_blind : forall (a : N) (abf : Z) (spent : list sinput),
  Forall (fun s => exists t, surjection_target s = OVal t) spent ->
  (CT_SURJECTIONPROOF_MAX_N_INPUTS < N.of_nat (length spent))%N ->
  asset_blind (AExp a) abf spent = OFail BCannotProveSurjection.
Proof. exact asset_blind_over_limit. Qed.
(* in particular for known secrets (TxOutSecrets always have a target) *)
Theorem C04_domain_limit_secrets : forall (a : N) (abf : Z) (ss : list secrets),
  (CT_SURJECTIONPROOF_MAX_N_INPUTS < N.of_nat (length ss))%N ->
  asset_blind (AExp a) abf (map sinput_of_secrets ss) = OFail BCannotProveSurjection.
Proof.
  intros a abf ss L. apply asset_blind_over_limit; [apply secrets_targets_total|now rewrite map_length].
Qed.
(* and Transaction::blind as a whole: with at least one marked output (explicit positive amounts, address scripts, enough
   randomness — balance and `opens` are not needed) the first marked output is reached, its surjection proof over `ss` is
   refused, and the call returns that error. With C04_blind_verifies: under the hypotheses of C04, blinding succeeds exactly
   when the domain is within the limit. *)
Theorem C04_domain_limit_blind : forall (pubk : Z -> Z) (ecdh : Z -> Z -> Z) (p : profile)
  (t : tx) (ss : list secrets) (rnd : list Z),
  explicit_positive t -> scripts_addressable t -> existsb marked (t_out t) = true -> rnd_ok t rnd ->
  (CT_SURJECTIONPROOF_MAX_N_INPUTS < N.of_nat (length ss))%N ->
  blind pubk ecdh p rnd ss t = OFail BCannotProveSurjection.
Proof. intros pubk ecdh p t ss rnd. exact (blind_over_limit pubk ecdh p rnd ss t). Qed.

(* ------------------------------------------------------------------ non-vacuity: a concrete balanced transaction
   2 inputs (explicit asset 1 / amount 100; confidential asset 2 / amount 50 with an explicit issuance of 30 units of asset 9),
   5 outputs: three marked ones, one unmarked, a fee. Keys are the ideal ones of the runner (pubk = id, ecdh = product). *)
Definition ex_pubk (sk : Z) : Z := sk.
Definition ex_ecdh (pk sk : Z) : Z := zmul pk sk.
Definition p2wpkh (b : byte) : bytes := x00 :: x14 :: repeat b 20.
Definition ex_s0 := mkSec 1 0 100 0.
Definition ex_s1 := mkSec 2 5 50 7.
Definition ex_in0 := mkIn null_issuance.
Definition ex_in1 := mkIn (mkIss (VExp 30) VNull 9 10).
Definition ex_spent := [mkOut (AExp 1) (VExp 100) NNull [x51] None None;
                        mkOut (AConf (sgen ex_s1)) (VConf (scommit ex_s1)) NNull [x51] None None].
Definition ex_ss := [ex_s0; ex_s1; mkSec 9 0 30 0].
Definition ex_outs (k1 k2 k3 : cnonce) :=
  [mkOut (AExp 1) (VExp 60) k1 (p2wpkh x01) None None;
   mkOut (AExp 1) (VExp 39) NNull (p2wpkh x02) None None;
   mkOut (AExp 1) (VExp 1) NNull [] None None;
   mkOut (AExp 2) (VExp 50) k2 (p2wpkh x03) None None;
   mkOut (AExp 9) (VExp 30) k3 (p2wpkh x04) None None].
Definition ex_tx := mkTx [ex_in0; ex_in1] (ex_outs (NConf (ex_pubk 11)) (NConf (ex_pubk 12)) (NConf (ex_pubk 13))).
Definition ex_rnd := [21; 22; 23; 24; 25; 26; 27; 28].

Example C04_example_hypotheses :
  explicit_positive ex_tx /\ scripts_addressable ex_tx /\ opens (t_in ex_tx) ex_spent ex_ss /\ balanced_per_asset ex_ss ex_tx
  /\ existsb marked (t_out ex_tx) = true /\ rnd_ok ex_tx ex_rnd /\ (forall a b, ex_ecdh (ex_pubk a) b = ex_ecdh (ex_pubk b) a)
  /\ (N.of_nat (length ex_ss) <= CT_SURJECTIONPROOF_MAX_N_INPUTS)%N.
Proof.
  assert (QN : forall x, 0 < x < 2 ^ 64 -> 0 < x < qn) by (intros x H; pose proof qn_big; split; [|apply Z.lt_trans with (2 ^ 255)]; try apply H; try assumption; destruct H as [_ H]; eapply Z.lt_trans; [exact H|reflexivity]).
  split; [|split; [|split; [|split; [|split; [|split; [|split]]]]]]; [| | | | | | |vm_compute; discriminate].
  - repeat constructor; eexists _, _; (split; [reflexivity|]); (split; [reflexivity|]); (split; [split; reflexivity|]); intro; discriminate.
  - repeat constructor; intro M; vm_compute in M; try discriminate M; eexists; vm_compute; reflexivity.
  - change ex_ss with (ex_s0 :: iss_secrets ex_in0 ++ ex_s1 :: iss_secrets ex_in1 ++ []).
    constructor; [left; split; reflexivity|left; repeat split; apply QN; split; reflexivity|split; left; reflexivity|].
    constructor; [right; eexists; split; [reflexivity|reflexivity]|right; eexists; split; [reflexivity|reflexivity]| |constructor].
    split; [right; exists 30; split; [reflexivity|apply QN; split; reflexivity]|left; reflexivity].
  - intro b. unfold asset_total, out_total, ex_ss, ex_tx, ex_outs. cbn [t_out map isum fold_right o_asset o_value s_asset s_value ex_s0 ex_s1].
    destruct (N.eqb_spec b 1) as [->|N1]; [reflexivity|]. destruct (N.eqb_spec b 2) as [->|N2]; [reflexivity|].
    destruct (N.eqb_spec b 9) as [->|N9]; reflexivity.
  - reflexivity.
  - split; [vm_compute; lia|]. unfold ex_rnd. repeat (constructor; [apply in_znb_spec; vm_compute; reflexivity|]). constructor.
  - intros a b. unfold ex_ecdh, ex_pubk. apply zmul_comm.
Qed.
(* and the model's run on it: blinding succeeds, the result verifies, the three receivers recover their secrets *)
Example C04_example_run :
  match blind ex_pubk ex_ecdh Debug ex_rnd ex_ss ex_tx with
  | OVal (t', bl) => verify_tx_amt_proofs t' ex_spent = OVal tt /\ map fst bl = [0%nat; 3%nat; 4%nat]
                     /\ option_map (fun o => unblind ex_ecdh o 12) (nth_error (t_out t') 3) = Some (OVal (mkSec 2 24 50 25))
  | _ => False end.
Proof. vm_compute. repeat split; reflexivity. Qed.
(* the former F12 witness: the same balanced transaction with no output marked now yields the error *)
Example C04_no_marked_example : exists t ss rnd,
  explicit_positive t /\ balanced_per_asset ss t /\ existsb marked (t_out t) = false
  /\ blind ex_pubk ex_ecdh Debug rnd ss t = OFail BTooFewBlindingOutputs.
Proof.
  exists (mkTx [ex_in0; ex_in1] (ex_outs NNull NNull NExp)), ex_ss, ex_rnd. split; [|split; [|split]].
  - repeat constructor; eexists _, _; (split; [reflexivity|]); (split; [reflexivity|]); (split; [split; reflexivity|]); intro; discriminate.
  - intro b. unfold asset_total, out_total, ex_ss, ex_outs. cbn [t_out map isum fold_right o_asset o_value s_asset s_value ex_s0 ex_s1].
    destruct (N.eqb_spec b 1) as [->|N1]; [reflexivity|]. destruct (N.eqb_spec b 2) as [->|N2]; [reflexivity|].
    destruct (N.eqb_spec b 9) as [->|N9]; reflexivity.
  - reflexivity.
  - vm_compute. reflexivity.
Qed.
(* the boundary of the domain limit on a toy instance: SURJECTIONPROOF_MAX_N_INPUTS (= 256 today) copies of the secrets of one
   spent output are accepted — the surjection proof points at the first — and one more is refused; likewise the whole
   Transaction::blind on a one-output transaction (100 units of asset 1 spent per entry, all paid to one marked output) *)
Definition lim_n : nat := N.to_nat CT_SURJECTIONPROOF_MAX_N_INPUTS.
Definition lim_tx (n : nat) : tx :=
  mkTx (repeat ex_in0 n) [mkOut (AExp 1) (VExp (100 * Z.of_nat n)) (NConf (ex_pubk 11)) (p2wpkh x01) None None].
Example C04_domain_limit_boundary :
  asset_blind (AExp 1) 21 (repeat (sinput_of_secrets ex_s0) lim_n)
    = OVal (AConf (asset_gen 1 21), mkSP (asset_gen 1 21) (repeat (sgen ex_s0) lim_n) 0 21 true)
  /\ asset_blind (AExp 1) 21 (repeat (sinput_of_secrets ex_s0) (S lim_n)) = OFail BCannotProveSurjection
  /\ (exists t' bl, blind ex_pubk ex_ecdh Debug [21; 22] (repeat ex_s0 lim_n) (lim_tx lim_n) = OVal (t', bl)
                    /\ verify_tx_amt_proofs t' (repeat (mkOut (AExp 1) (VExp 100) NNull [x51] None None) lim_n) = OVal tt)
  /\ blind ex_pubk ex_ecdh Debug [21; 22] (repeat ex_s0 (S lim_n)) (lim_tx (S lim_n)) = OFail BCannotProveSurjection.
Proof.
  split; [vm_compute; reflexivity|]. split; [vm_compute; reflexivity|]. split; [|vm_compute; reflexivity].
  eexists _, _. split; [vm_compute; reflexivity|vm_compute; reflexivity].
Qed.

Check (C04_last_balances : forall (ins outs : list secrets) (a : N) (v abf : Z),
  let last := mkSec a abf v (last_vbf v abf (map value_blind_inputs ins) (map value_blind_inputs outs)) in
  zsum (map svb ins) = zsum (map svb (outs ++ [last]))
  /\ coeff (gsum (map scommit ins)) kG = coeff (gsum (map scommit (outs ++ [last]))) kG).
Check (C04_blind_verifies : forall (pubk : Z -> Z) (ecdh : Z -> Z -> Z) (p : profile)
  (t : tx) (spent : list txout) (ss : list secrets) (rnd : list Z),
  explicit_positive t -> scripts_addressable t -> opens (t_in t) spent ss -> balanced_per_asset ss t ->
  existsb marked (t_out t) = true -> rnd_ok t rnd ->
  (N.of_nat (length ss) <= CT_SURJECTIONPROOF_MAX_N_INPUTS)%N ->
  exists t' bl, blind pubk ecdh p rnd ss t = OVal (t', bl) /\ verify_tx_amt_proofs t' spent = OVal tt).
Check (C04_unblind : forall (pubk : Z -> Z) (ecdh : Z -> Z -> Z) (p : profile),
  (forall a b, ecdh (pubk a) b = ecdh (pubk b) a) ->
  forall (t : tx) (spent : list txout) (ss : list secrets) (rnd : list Z),
  explicit_positive t -> scripts_addressable t -> balanced_per_asset ss t ->
  existsb marked (t_out t) = true -> rnd_ok t rnd ->
  (N.of_nat (length ss) <= CT_SURJECTIONPROOF_MAX_N_INPUTS)%N ->
  exists t' bl, blind pubk ecdh p rnd ss t = OVal (t', bl) /\ length (t_out t') = length (t_out t) /\
    (forall i o, nth_error (t_out t) i = Some o -> marked o = true ->
       exists a v abf vbf esk o', o_asset o = AExp a /\ o_value o = VExp v /\
         In (i, (abf, vbf, esk)) bl /\ nth_error (t_out t') i = Some o' /\
         o_asset o' = AConf (asset_gen a abf) /\ o_value o' = VConf (commit v (asset_gen a abf) vbf) /\
         o_script o' = o_script o /\ o_nonce o' = NConf (pubk esk) /\
         forall rsk, o_nonce o = NConf (pubk rsk) -> unblind ecdh o' rsk = OVal (mkSec a abf v vbf)) /\
    (forall i x, In (i, x) bl -> exists o, nth_error (t_out t) i = Some o /\ marked o = true) /\
    (forall i o, nth_error (t_out t) i = Some o -> marked o = false -> nth_error (t_out t') i = Some o)).
Check (C04_no_marked_never_panics : forall (pubk : Z -> Z) (ecdh : Z -> Z -> Z) p rnd ss t,
  existsb marked (t_out t) = false ->
  blind pubk ecdh p rnd ss t = OFail BTooFewBlindingOutputs \/ blind pubk ecdh p rnd ss t = OFail BMustHaveAllExplicitTxOuts).
Print Assumptions C04_last_vbf_formula.
Print Assumptions C04_last_balances.
Print Assumptions C04_blind_verifies.
Print Assumptions C04_unblind.
Print Assumptions C04_no_marked_error.
Check (C04_domain_limit_asset_blind : forall (a : N) (abf : Z) (spent : list sinput),
  Forall (fun s => exists t, surjection_target s = OVal t) spent ->
  (CT_SURJECTIONPROOF_MAX_N_INPUTS < N.of_nat (length spent))%N ->
  asset_blind (AExp a) abf spent = OFail BCannotProveSurjection).
Check (C04_domain_limit_blind : forall (pubk : Z -> Z) (ecdh : Z -> Z -> Z) (p : profile)
  (t : tx) (ss : list secrets) (rnd : list Z),
  explicit_positive t -> scripts_addressable t -> existsb marked (t_out t) = true -> rnd_ok t rnd ->
  (CT_SURJECTIONPROOF_MAX_N_INPUTS < N.of_nat (length ss))%N ->
  blind pubk ecdh p rnd ss t = OFail BCannotProveSurjection).
Print Assumptions C04_no_marked_never_panics.
Print Assumptions C04_domain_limit_asset_blind.
Print Assumptions C04_domain_limit_secrets.
Print Assumptions C04_domain_limit_blind.
