(* C08 — PSET and transaction views agree; unique id; BIP370 lock time.  Only statements; proofs in Proofs/PsetTx.v.
   Read from the Rust source on every run (Gen/Tables.v): locktime_arms (arm order of the final match of locktime()),
   uid_cleared_txin_fields (what unique_id() resets), is_pegin_exempts_coinbase, and the PSET field lists. *)
From Coq Require Import List NArith Bool.
From Coq.Strings Require Import Byte.
From EV Require Import Base.Bytes Gen.Tables Model.PsetMap Model.PsetTx Proofs.PsetMap Proofs.PsetTx.
Import ListNotations.
Open Scope N_scope.

(* the arm order found in the source is one of the two this development knows (before / after the F6 repair) *)
Lemma C08_arms_known : arms_known locktime_arms.
Proof. first [left; reflexivity | right; reflexivity]. Qed.

(* ------------------------------------------------------------------ lock time *)
(* locktime() = BIP370 (Model/PsetTx.v `bip370`, written from the BIP text) for every PSET: any number of inputs, any requirements, any values.
   (Before the F6 repair the source tested the time arm first and the class `known_F6` had to be excluded; the arm list is re-read from the
   source on every run, and `known_F6 locktime_arms p` is now unsatisfiable.) *)
Lemma C08_not_F6 : forall p, ~ known_F6 locktime_arms p.
Proof. intros p [E _]. vm_compute in E. discriminate E. Qed.
Theorem C08_locktime_spec : forall p, locktime p = bip370 p.
Proof. intros p. apply locktime_is_bip370; [exact C08_arms_known|apply C08_not_F6]. Qed.
(* the two unreachable!() arms are unreachable: locktime() never panics, for any number of inputs and any requirements *)
Theorem C08_locktime_total : forall p s, locktime p <> Panic s.
Proof. intros p s. apply locktime_never_panics. exact C08_arms_known. Qed.
(* the former F6 witness: one input requiring time 600000000 and height 100 -> height 100 *)
Definition f6_witness : pset :=
  mkpset empty_map [set_unk (set_unk empty_map F_req_time (Some (u32_enc 600000000))) F_req_height (Some (u32_enc 100))] [].
Example C08_locktime_both : both_possible f6_witness = true /\ bip370 f6_witness = Val 100 /\ locktime f6_witness = Val 100.
Proof. vm_compute. auto. Qed.
Example C08_locktime_nonvacuous :   (* a time-only and a both-kinds input: outside F6; the time is chosen, as BIP370 says *)
  let p := mkpset empty_map [set_unk empty_map F_req_time (Some (u32_enc 700000000));
                             set_unk (set_unk empty_map F_req_time (Some (u32_enc 600000000))) F_req_height (Some (u32_enc 100))] [] in
  both_possible p = false /\ locktime p = Val 700000000 /\ bip370 p = Val 700000000.
Proof. vm_compute. auto. Qed.

(* ------------------------------------------------------------------ from_tx / extract_tx *)
(* well-formed transactions (pegin witnesses only on pegin inputs, issuance data only on issuances, non-null outputs, C01-canonical
   output indices incl. the coinbase index 0xffffffff) come back identical, outside the class F8b (nonce of an output that is not partially
   blinded / explicit nonce — documented design of Output::from_txout, not repaired) *)
Lemma C08_not_F8a : forall i, ~ known_F8a is_pegin_exempts_coinbase i.
Proof. intros i [E _]. discriminate E. Qed.
Theorem C08_rt : forall t, wf_tx t -> Forall (fun o => ~ known_F8b o) (tx_outs t) -> extract_tx (from_tx t) = Val t.
Proof.
  intros t W NB. apply extract_from_tx; auto using C08_arms_known.
  apply Forall_forall. intros i _. apply C08_not_F8a.
Qed.
(* extraction reflects exactly the PSET's fields: it is the field-wise function with the BIP370 lock time *)
Definition spec_extract (p : pset) : outcome tx :=
  obind (sanity_check p) (fun _ => obind (bip370 p) (fun lt => obind (outs_of (poutputs p)) (fun outs =>
  Val (mk_tx (tx_version_of (pglobal p)) lt (map txin_of (pinputs p)) outs)))).
Theorem C08_extract_reflects : forall p, extract_tx p = spec_extract p.
Proof. intros p. unfold extract_tx, extract_tx_with, spec_extract. now rewrite (locktime_is_bip370 _ _ C08_arms_known (C08_not_F6 p)). Qed.
Definition coinbase_in : txin := mk_txin zero32 0xffffffff false [x51] 0xffffffff zero32 zero32 CNull CNull None None empty_witness empty_witness.
Definition fee_out (nonce : cval) : txout := mk_txout (CExplicit (repeat x03 32)) (CExplicit (repeat x00 7 ++ [x01])) nonce [] None None.
(* non-vacuity, and the former F8a witness: a coinbase-style transaction is well-formed and comes back identical *)
Example C08_rt_coinbase : let t := mk_tx 2 0 [coinbase_in] [fee_out CNull] in wf_tx t /\ extract_tx (from_tx t) = Val t.
Proof.
  cbn zeta. split; [|vm_compute; reflexivity].
  split; [reflexivity|]. split; [reflexivity|]. split; [reflexivity|]. split; [reflexivity|]. split.
  - constructor; [|constructor]. split; [reflexivity|]. split; [right; split; reflexivity|]. split; [intros _; reflexivity|].
    intros _. repeat split; reflexivity.
  - constructor; [|constructor]. split; discriminate.
Qed.
(* F8b: explicit output with a confidential nonce *)
Theorem C08_rt_refuted_nonce : let t := mk_tx 2 0 [] [fee_out (CConf (x02 :: repeat x11 32))] in
  exists t', extract_tx (from_tx t) = Val t' /\ map to_nonce (tx_outs t') = [CNull] /\ map to_nonce (tx_outs t) <> [CNull].
Proof. cbn zeta. eexists. split; [vm_compute; reflexivity|]. split; [reflexivity|discriminate]. Qed.

(* ------------------------------------------------------------------ unique id *)
(* the id pre-image (the transaction whose txid is taken) is a function of the fields in uid_global_fields / uid_input_fields / uid_output_fields:
   two PSETs that agree on them have the same id pre-image, hence the same unique id for every hash *)
Theorem C08_uid_depends : forall p q, pset_agree uid_cleared_txin_fields p q -> uid_preimage p = uid_preimage q.
Proof. intros. now apply uid_preimage_depends. Qed.
Theorem C08_uid_invariant : forall (id : Type) (H : tx -> id) p,
  (forall i f v, ~ In f (uid_input_fields uid_cleared_txin_fields) ->
      unique_id H (mkpset (pglobal p) (upd_nth (pinputs p) i (fun m => set_unk m f v)) (poutputs p)) = unique_id H p) /\
  (forall i f l, unique_id H (mkpset (pglobal p) (upd_nth (pinputs p) i (fun m => set_kyd m f l)) (poutputs p)) = unique_id H p) /\
  (forall i f v, ~ In f uid_output_fields ->
      unique_id H (mkpset (pglobal p) (pinputs p) (upd_nth (poutputs p) i (fun m => set_unk m f v))) = unique_id H p) /\
  (forall i f l, unique_id H (mkpset (pglobal p) (pinputs p) (upd_nth (poutputs p) i (fun m => set_kyd m f l))) = unique_id H p) /\
  (forall f v, ~ In f uid_global_fields -> unique_id H (mkpset (set_unk (pglobal p) f v) (pinputs p) (poutputs p)) = unique_id H p) /\
  (forall f l, unique_id H (mkpset (set_kyd (pglobal p) f l) (pinputs p) (poutputs p)) = unique_id H p).
Proof.
  intros id H p. unfold unique_id.
  repeat split; intros; f_equal; symmetry; apply uid_preimage_depends; (split; [|split]); cbn [pglobal pinputs poutputs];
    auto using agree_refl, Forall2_refl_agree, Forall2_upd, agree_set_unk, agree_set_kyd.
Qed.
(* the input fields the property names as uid-neutral (sequence, signatures, final script sig / witness, scripts, proofs; key derivations and
   partial signatures are key-value fields, covered by the `set_kyd` clauses): none of them is read by unique_id(), so C08_uid_invariant
   covers every one of them (before the F7 repair final_script_sig was read) *)
Definition property_neutral_input_fields : list field :=
  [F_sequence; F_final_script_sig; F_final_script_witness; fld "redeem_script"; fld "witness_script"; fld "tap_key_sig"; fld "tap_internal_key";
   fld "tap_merkle_root"; fld "sighash_type"; fld "blind_value_proof"; fld "blind_asset_proof"; fld "in_utxo_rangeproof";
   fld "in_issuance_blind_value_proof"; fld "in_issuance_blind_inflation_keys_proof"; F_iss_value_rangeproof; F_iss_keys_rangeproof; F_pegin_witness].
Example C08_uid_known_class :
  filter (fun f => mem_field f (uid_input_fields uid_cleared_txin_fields)) property_neutral_input_fields = [].
Proof. vm_compute. reflexivity. Qed.
Example C08_uid_fields : uid_input_fields uid_cleared_txin_fields =
  [F_prev_txid; F_prev_index; F_req_time; F_req_height; F_iss_nonce; F_iss_entropy; F_iss_amount; F_iss_comm; F_iss_keys; F_iss_keys_comm].
Proof. vm_compute. reflexivity. Qed.
(* the former F7 witness: adding final_script_sig (and a sequence) leaves the id pre-image unchanged *)
Example C08_uid_final_script_sig :
  let p := mkpset (of_entries [(F_input_count, Some [x01]); (F_output_count, Some [x00])]) [empty_map] [] in
  let q := mkpset (pglobal p) (upd_nth (pinputs p) 0 (fun m => set_unk (set_unk m F_final_script_sig (Some [x51])) F_sequence (Some (u32_enc 5)))) [] in
  exists t, uid_preimage p = Val t /\ uid_preimage q = Val t.
Proof. cbn zeta. eexists. split; vm_compute; reflexivity. Qed.

(* the explicit-value clause: a role that reveals the explicit issuance amount / inflation keys / output amount / output asset next to a
   commitment that is already present (the blind proofs that go with it are read by no extraction: C08_uid_invariant) changes neither the
   extracted transaction nor, therefore, the unique id — the commitment is what is extracted *)
Theorem C08_reveal_keeps_extraction : forall p i f fc v c,
  (In (f, fc) reveal_pairs_in -> unk (nth i (pinputs p) empty_map) fc = Some c ->
     extract_tx (mkpset (pglobal p) (upd_nth (pinputs p) i (fun m => set_unk m f v)) (poutputs p)) = extract_tx p) /\
  (In (f, fc) reveal_pairs_out -> unk (nth i (poutputs p) empty_map) fc = Some c ->
     extract_tx (mkpset (pglobal p) (pinputs p) (upd_nth (poutputs p) i (fun m => set_unk m f v))) = extract_tx p).
Proof. intros. split; intros; [eapply extract_reveal_input|eapply extract_reveal_output]; eauto. Qed.
Theorem C08_reveal_keeps_uid : forall (id : Type) (H : tx -> id) p i f fc v c,
  (In (f, fc) reveal_pairs_in -> unk (nth i (pinputs p) empty_map) fc = Some c ->
     unique_id H (mkpset (pglobal p) (upd_nth (pinputs p) i (fun m => set_unk m f v)) (poutputs p)) = unique_id H p) /\
  (In (f, fc) reveal_pairs_out -> unk (nth i (poutputs p) empty_map) fc = Some c ->
     unique_id H (mkpset (pglobal p) (pinputs p) (upd_nth (poutputs p) i (fun m => set_unk m f v))) = unique_id H p).
Proof.
  intros id H p i f fc v c. unfold unique_id, uid_preimage, uid_preimage_with.
  split; intros I C; [rewrite (extract_reveal_input _ _ p i f fc v c I C)|rewrite (extract_reveal_output _ _ p i f fc v c I C)]; reflexivity.
Qed.
Example C08_reveal_pairs : reveal_pairs_in = [(fld "issuance_value_amount", fld "issuance_value_comm"); (fld "issuance_inflation_keys", fld "issuance_inflation_keys_comm")]
  /\ reveal_pairs_out = [(fld "amount", fld "amount_comm"); (fld "asset", fld "asset_comm")].
Proof. split; reflexivity. Qed.
(* the commitment wins in all four places, also when the explicit value is there: an inflation-keys example *)
Example C08_commitment_wins :
  ti_iss_keys (txin_of (set_unk (set_unk empty_map F_iss_keys (Some (repeat x01 8))) F_iss_keys_comm (Some (x09 :: repeat x22 32)))) = CConf (x09 :: repeat x22 32).
Proof. vm_compute. reflexivity. Qed.

Check (C08_locktime_spec : forall p, locktime p = bip370 p).
Check (C08_locktime_total : forall p s, locktime p <> Panic s).
Check (C08_rt : forall t, wf_tx t -> Forall (fun o => ~ known_F8b o) (tx_outs t) -> extract_tx (from_tx t) = Val t).
Check (C08_extract_reflects : forall p, extract_tx p = spec_extract p).
Check (C08_uid_depends : forall p q, pset_agree uid_cleared_txin_fields p q -> uid_preimage p = uid_preimage q).
Print Assumptions C08_locktime_spec.
Print Assumptions C08_locktime_total.
Print Assumptions C08_rt.
Print Assumptions C08_uid_invariant.
Print Assumptions C08_reveal_keeps_extraction.
