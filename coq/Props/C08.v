(* C08 — PSET and transaction views agree; unique id; BIP370 lock time.  Only statements; proofs in Proofs/PsetTx.v.
   Read from the Rust source on every run (Gen/Tables.v): locktime_arms (arm order of the final match of locktime()),
   uid_cleared_txin_fields (what unique_id() resets), is_pegin_exempts_coinbase, and the PSET field lists. *)
From Coq Require Import List NArith Bool.
From Coq.Strings Require Import Byte.
From EV Require Import Base.Bytes Gen.Tables Model.PsetMap Model.PsetTx Proofs.PsetMap Proofs.PsetTx.
Import ListNotations.
Open Scope N_scope.

(* the arm order found in the source is one of the two this development knows (before / after the F6 repair) *)
Lemma C08_arms_known : arms_known locktime_arms.
Proof. first [left; reflexivity | right; reflexivity]. Qed.

(* ------------------------------------------------------------------ lock time *)
(* locktime() = BIP370 (Model/PsetTx.v `bip370`, written from the BIP text) for every PSET outside the class F6 *)
Theorem C08_locktime_spec : forall p, ~ known_F6 locktime_arms p -> locktime p = bip370 p.
Proof. intros p H. apply locktime_is_bip370; [exact C08_arms_known|exact H]. Qed.
(* the two unreachable!() arms are unreachable: locktime() never panics, for any number of inputs and any requirements *)
Theorem C08_locktime_total : forall p s, locktime p <> Panic s.
Proof. intros p s. apply locktime_never_panics. exact C08_arms_known. Qed.
(* with the height arm tested first the equality has no exception *)
Theorem C08_locktime_spec_repaired : forall p, locktime_with arms_height_first p = bip370 p.
Proof. intros p. apply locktime_is_bip370; [now right|]. intros [E _]. discriminate. Qed.
(* F6: one input requiring time 600000000 and height 100: BIP370 says height 100, the code returns the time *)
Definition f6_witness : pset :=
  mkpset empty_map [set_unk (set_unk empty_map F_req_time (Some (u32_enc 600000000))) F_req_height (Some (u32_enc 100))] [].
Theorem C08_locktime_refuted : both_possible f6_witness = true /\ bip370 f6_witness = Val 100 /\ locktime f6_witness = Val 600000000.
Proof. vm_compute. auto. Qed.
Example C08_locktime_nonvacuous :   (* a time-only and a both-kinds input: outside F6; the time is chosen, as BIP370 says *)
  let p := mkpset empty_map [set_unk empty_map F_req_time (Some (u32_enc 700000000));
                             set_unk (set_unk empty_map F_req_time (Some (u32_enc 600000000))) F_req_height (Some (u32_enc 100))] [] in
  both_possible p = false /\ locktime p = Val 700000000 /\ bip370 p = Val 700000000.
Proof. vm_compute. auto. Qed.

(* ------------------------------------------------------------------ from_tx / extract_tx *)
(* well-formed transactions (pegin witnesses only on pegin inputs, issuance data only on issuances, non-null outputs, C01-canonical
   output indices) come back identical, outside the classes F8a (coinbase-style index) and F8b (nonce of an unblinded output / explicit nonce) *)
Theorem C08_rt : forall t, wf_tx t ->
  Forall (fun i => ~ known_F8a is_pegin_exempts_coinbase i) (tx_ins t) -> Forall (fun o => ~ known_F8b o) (tx_outs t) ->
  extract_tx (from_tx t) = Val t.
Proof. intros. apply extract_from_tx; auto using C08_arms_known. Qed.
(* extraction reflects exactly the PSET's fields: it is the field-wise function with the BIP370 lock time *)
Definition spec_extract (p : pset) : outcome tx :=
  obind (sanity_check p) (fun _ => obind (bip370 p) (fun lt => obind (outs_of (poutputs p)) (fun outs =>
  Val (mk_tx (tx_version_of (pglobal p)) lt (map txin_of (pinputs p)) outs)))).
Theorem C08_extract_reflects : forall p, ~ known_F6 locktime_arms p -> extract_tx p = spec_extract p.
Proof. intros p H. unfold extract_tx, extract_tx_with, spec_extract. now rewrite (locktime_is_bip370 _ _ C08_arms_known H). Qed.
Definition coinbase_in : txin := mk_txin zero32 0xffffffff false [x51] 0xffffffff zero32 zero32 CNull CNull None None empty_witness empty_witness.
Definition fee_out (nonce : cval) : txout := mk_txout (CExplicit (repeat x03 32)) (CExplicit (repeat x00 7 ++ [x01])) nonce [] None None.
(* F8a *)
Theorem C08_rt_refuted_coinbase : let t := mk_tx 2 0 [coinbase_in] [fee_out CNull] in
  wf_tx t /\ exists t', extract_tx (from_tx t) = Val t' /\ map ti_pegin (tx_ins t') = [true] /\ map ti_pegin (tx_ins t) = [false].
Proof.
  cbn zeta. split.
  - split; [reflexivity|]. split; [reflexivity|]. split; [reflexivity|]. split; [reflexivity|]. split.
    + constructor; [|constructor]. split; [reflexivity|]. split; [right; split; reflexivity|]. split; [intros _; reflexivity|].
      intros _. repeat split; reflexivity.
    + constructor; [|constructor]. split; discriminate.
  - eexists. split; [vm_compute; reflexivity|]. split; reflexivity.
Qed.
(* F8b: explicit output with a confidential nonce *)
Theorem C08_rt_refuted_nonce : let t := mk_tx 2 0 [] [fee_out (CConf (x02 :: repeat x11 32))] in
  exists t', extract_tx (from_tx t) = Val t' /\ map to_nonce (tx_outs t') = [CNull] /\ map to_nonce (tx_outs t) <> [CNull].
Proof. cbn zeta. eexists. split; [vm_compute; reflexivity|]. split; [reflexivity|discriminate]. Qed.

(* ------------------------------------------------------------------ unique id *)
(* the id pre-image (the transaction whose txid is taken) is a function of the fields in uid_global_fields / uid_input_fields / uid_output_fields:
   two PSETs that agree on them have the same id pre-image, hence the same unique id for every hash *)
Theorem C08_uid_depends : forall p q, pset_agree uid_cleared_txin_fields p q -> uid_preimage p = uid_preimage q.
Proof. intros. now apply uid_preimage_depends. Qed.
Theorem C08_uid_invariant : forall (id : Type) (H : tx -> id) p,
  (forall i f v, ~ In f (uid_input_fields uid_cleared_txin_fields) ->
      unique_id H (mkpset (pglobal p) (upd_nth (pinputs p) i (fun m => set_unk m f v)) (poutputs p)) = unique_id H p) /\
  (forall i f l, unique_id H (mkpset (pglobal p) (upd_nth (pinputs p) i (fun m => set_kyd m f l)) (poutputs p)) = unique_id H p) /\
  (forall i f v, ~ In f uid_output_fields ->
      unique_id H (mkpset (pglobal p) (pinputs p) (upd_nth (poutputs p) i (fun m => set_unk m f v))) = unique_id H p) /\
  (forall i f l, unique_id H (mkpset (pglobal p) (pinputs p) (upd_nth (poutputs p) i (fun m => set_kyd m f l))) = unique_id H p) /\
  (forall f v, ~ In f uid_global_fields -> unique_id H (mkpset (set_unk (pglobal p) f v) (pinputs p) (poutputs p)) = unique_id H p) /\
  (forall f l, unique_id H (mkpset (set_kyd (pglobal p) f l) (pinputs p) (poutputs p)) = unique_id H p).
Proof.
  intros id H p. unfold unique_id.
  repeat split; intros; f_equal; symmetry; apply uid_preimage_depends; (split; [|split]); cbn [pglobal pinputs poutputs];
    auto using agree_refl, Forall2_refl_agree, Forall2_upd, agree_set_unk, agree_set_kyd.
Qed.
(* the input fields the property names as uid-neutral (sequence, signatures, final script sig / witness, scripts, proofs; key derivations and
   partial signatures are key-value fields, covered by the `set_kyd` clauses) — exactly one of them is currently read by unique_id(): F7 *)
Definition property_neutral_input_fields : list field :=
  [F_sequence; F_final_script_sig; F_final_script_witness; fld "redeem_script"; fld "witness_script"; fld "tap_key_sig"; fld "tap_internal_key";
   fld "tap_merkle_root"; fld "sighash_type"; fld "blind_value_proof"; fld "blind_asset_proof"; fld "in_utxo_rangeproof";
   fld "in_issuance_blind_value_proof"; fld "in_issuance_blind_inflation_keys_proof"; F_iss_value_rangeproof; F_iss_keys_rangeproof; F_pegin_witness].
Example C08_uid_known_class :
  filter (fun f => mem_field f (uid_input_fields uid_cleared_txin_fields)) property_neutral_input_fields = [F_final_script_sig].
Proof. vm_compute. reflexivity. Qed.
(* F7: adding final_script_sig changes the id pre-image *)
Theorem C08_uid_refuted :
  let p := mkpset (of_entries [(F_input_count, Some [x01]); (F_output_count, Some [x00])]) [empty_map] [] in
  let q := mkpset (pglobal p) (upd_nth (pinputs p) 0 (fun m => set_unk m F_final_script_sig (Some [x51]))) [] in
  exists t t', uid_preimage p = Val t /\ uid_preimage q = Val t' /\ t <> t'.
Proof. cbn zeta. eexists. eexists. split; [vm_compute; reflexivity|]. split; [vm_compute; reflexivity|]. discriminate. Qed.

Check (C08_locktime_spec : forall p, ~ known_F6 locktime_arms p -> locktime p = bip370 p).
Check (C08_locktime_total : forall p s, locktime p <> Panic s).
Check (C08_rt : forall t, wf_tx t ->
  Forall (fun i => ~ known_F8a is_pegin_exempts_coinbase i) (tx_ins t) -> Forall (fun o => ~ known_F8b o) (tx_outs t) -> extract_tx (from_tx t) = Val t).
Check (C08_extract_reflects : forall p, ~ known_F6 locktime_arms p -> extract_tx p = spec_extract p).
Check (C08_uid_depends : forall p q, pset_agree uid_cleared_txin_fields p q -> uid_preimage p = uid_preimage q).
Print Assumptions C08_locktime_spec.
Print Assumptions C08_locktime_total.
Print Assumptions C08_rt.
Print Assumptions C08_uid_invariant.
