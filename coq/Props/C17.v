(* C17 — segwit address checksums detect every one- and two-character corruption.
   Only statements; proofs live in Proofs/Bech32.v (engine, syndrome, distance). *)
From Coq Require Import List NArith Bool.
From EV Require Import Base.Bytes Gen.Tables Model.Bech32 Proofs.Bech32.
Import ListNotations.
Open Scope N_scope.

(* the engine step is GF(2)-linear in (state, symbol) *)
Theorem C17_linear : forall (gen : list N) (sh s s' v v' : N), v < 32 -> v' < 32 ->
  step gen sh (N.lxor s s') (N.lxor v v') = N.lxor (step gen sh s v) (step gen sh s' v').
Proof. exact step_linear. Qed.

(* the residue of a corrupted word is the residue of the word xor the syndrome of the error pattern, and the syndrome is
   the xor over the positions of Z^(distance from the end) applied to the error value (Z = feed a zero symbol) *)
Theorem C17_syndrome : forall (c : code) (s : N) (w e : list N), length w = length e -> Forall (fun v => v < 32) w -> Forall (fun v => v < 32) e ->
  feed c s (xorl w e) = N.lxor (feed c s w) (syn (c_gen c) (shift_of c) e).
Proof. intros c s w e. exact (feed_syndrome (c_gen c) (shift_of c) s w e). Qed.

Definition the_codes : list code := [bech32; bech32m; blech32; blech32m].

(* kernel sweep: the 31 * 1023 values Z^a(u) (u = 1..31, a < 1023) are pairwise distinct and non-zero, for each code *)
Theorem C17_table : forallb (fun c => table_ok (c_gen c) (shift_of c) 1023) the_codes = true.
Proof. vm_compute. reflexivity. Qed.
