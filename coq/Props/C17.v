(* C17 — segwit address checksums detect every one- and two-character corruption.
   Only statements; proofs live in Proofs/Bech32.v (engine, syndrome, distance), Proofs/Bech32Codes.v (kernel tables for
   the four codes) and Proofs/Address.v (lifting to address strings). *)
From Coq Require Import List NArith Bool Lia.
From Coq.Strings Require Import Byte.
From EV Require Import Base.Bytes Gen.Tables Model.Bech32 Model.Base58 Model.Address Proofs.Bech32 Proofs.Bech32Codes Proofs.Address Proofs.AddressB58 Proofs.AddressCase.
Import ListNotations.
Open Scope N_scope.

(* the engine step is GF(2)-linear in (state, symbol) — for every generator table and shift *)
Theorem C17_linear : forall (gen : list N) (sh s s' v v' : N), v < 32 -> v' < 32 ->
  step gen sh (N.lxor s s') (N.lxor v v') = N.lxor (step gen sh s v) (step gen sh s' v').
Proof. exact step_linear. Qed.

(* the residue of a corrupted word is the residue of the word xor the syndrome of the error pattern; the syndrome is the xor
   over the positions of Z^(distance from the end) applied to the error value, Z = "feed a zero symbol" (Proofs.Bech32.syn) *)
Theorem C17_syndrome : forall (c : code) (s : N) (w e : list N), length w = length e -> sym_word w -> sym_word e ->
  feed c s (xorl w e) = N.lxor (feed c s w) (syn (c_gen c) (shift_of c) e).
Proof. intros c s w e. exact (feed_syndrome (c_gen c) (shift_of c) s w e). Qed.

(* kernel sweep (vm_compute): for each of bech32, bech32m, blech32, blech32m the 31 * 1023 values Z^a(u), u = 1..31, a < 1023,
   are pairwise distinct and non-zero.  1023 is sharp: the same test is false for 1024. *)
Theorem C17_table : forallb (fun c => table_ok (c_gen c) (shift_of c) 1023) [bech32; bech32m; blech32; blech32m] = true.
Proof. exact tables_ok. Qed.

(* a word of total length <= 1023 (HRP expansion, data and checksum symbols) at Hamming distance 1 or 2 from a codeword is not
   a codeword — for each of the four codes *)
Theorem C17_two_errors : forall c, In c [bech32; bech32m; blech32; blech32m] ->
  forall w w', sym_word w -> sym_word w' -> length w = length w' -> (length w <= 1023)%nat -> (1 <= hamming w w' <= 2)%nat ->
  valid_codeword c w = true -> valid_codeword c w' = false.
Proof. exact two_errors_codes. Qed.

(* a corrupted witness-version character selects the other checksum variant; no word within distance 2 of a codeword of one
   variant is a codeword of the other (kernel sweep of T and D xor T, D = xor of the two target residues; lengths <= 175 for the
   bech32 pair — the sweep is false from 200 on — and <= 400 for the blech32 pair; accepted strings are shorter, see C17_addr_len) *)
Theorem C17_switch : forall c0 cm L, (c0, cm, L) = (bech32, bech32m, 175%nat) \/ (c0, cm, L) = (blech32, blech32m, 400%nat) ->
  forall w w', sym_word w -> sym_word w' -> length w = length w' -> (length w <= L)%nat -> (hamming w w' <= 2)%nat ->
  (valid_codeword c0 w = true -> valid_codeword cm w' = false) /\ (valid_codeword cm w = true -> valid_codeword c0 w' = false).
Proof. exact switch_codes. Qed.

(* every string either decoder accepts gives a checksummed word (2|hrp| + 1 + |data| symbols) within those bounds *)
Theorem C17_addr_len : forall s r h d, rsplit x31 s = Some (h, d) ->
  (segwit_decode cfg_bech s = Ok r -> (2 * length h + 1 + length d <= 175)%nat) /\
  (segwit_decode cfg_blech s = Ok r -> (2 * length h + 1 + length d <= 400)%nat).
Proof. intros s r h d R. split; intros E; [exact (bound_bech s r h d E R)|exact (bound_blech s r h d E R)]. Qed.

(* Address level.  `data_edit s s'`: s' keeps everything up to and including the last '1' of s and replaces the data part by an
   equally long string of bech32 characters whose symbols differ in one or two positions (the witness-version character is
   the first data symbol).  If s parses as a segwit address under a built-in network p, then s' is rejected by FromStr and by
   parse_with_params under p; under the other built-in networks it is rejected as well unless it is a valid base58check
   string for the (abstract) hash H — that residual disjunct cannot be excluded without properties of SHA-256 (partial). *)
Theorem C17_address : forall (H : bytes -> bytes) (pk_valid : bytes -> bool) p s a s',
  In p builtin -> parse_with_params H pk_valid s p = AOk a -> is_segwit a -> data_edit s s' ->
  (exists e, from_str H pk_valid s' = AErr e) /\ (exists e, parse_with_params H pk_valid s' p = AErr e).
Proof. intros H pkv p s a s' Ip E SW ED. destruct (address_corrupt H pkv p s a s' Ip E SW ED) as (A & B & _). now split. Qed.
Theorem C17_address_other_network_partial : forall (H : bytes -> bytes) (pk_valid : bytes -> bool) p s a s',
  In p builtin -> parse_with_params H pk_valid s p = AOk a -> is_segwit a -> data_edit s s' ->
  forall p', In p' builtin -> (exists e, parse_with_params H pk_valid s' p' = AErr e) \/ (exists d, b58_decode_check H s' = Ok58 d).
Proof. intros H pkv p s a s' Ip E SW ED. exact (proj2 (proj2 (address_corrupt H pkv p s a s' Ip E SW ED))). Qed.
(* ... and that residual disjunct is in fact impossible (added with C06's first-character sweep, Proofs/AddressB58.v): the corrupted text keeps
   its HRP, and a text that base58check-decodes to a version byte of a built-in network with the length from_base58 demands never has a
   built-in HRP as its prefix.  So s' is rejected under EVERY built-in network, for every hash function. *)
Theorem C17_address_every_network : forall (H : bytes -> bytes) (pk_valid : bytes -> bool) p s a s',
  In p builtin -> parse_with_params H pk_valid s p = AOk a -> is_segwit a -> data_edit s s' ->
  forall p', In p' builtin -> exists e, parse_with_params H pk_valid s' p' = AErr e.
Proof. exact address_corrupt_every_network. Qed.
(* a segwit address accepted by FromStr is accepted by parse_with_params of one built-in network, so C17_address applies to it *)
Theorem C17_from_str_is_builtin : forall (H : bytes -> bytes) (pk_valid : bytes -> bool) s a,
  from_str H pk_valid s = AOk a -> is_segwit a -> exists p, In p builtin /\ parse_with_params H pk_valid s p = AOk a.
Proof. exact from_str_segwit. Qed.

(* HRP clause, case part (proved, unbounded).  mixed_case s: s has an upper-case and a lower-case ASCII letter anywhere, human-readable
   part included.  Such a string is rejected by check_characters of either decoder (upstream bech32 crate and src/blech32/decode.rs share the
   model function), so it never parses as a segwit address — under any parameters and through FromStr; where its prefix matches an HRP of the
   network it is an error outright.  In particular replacing letters of the human-readable part by their other-case forms (one, two or all
   of them: `EL1qq0umk...`, `Lq1...`, `eX1...`) while the data part keeps a letter of the original case never yields a string that parses. *)
Theorem C17_mixed_case : forall cfg s, mixed_case s = true ->
  segwit_decode cfg s = Err ETooLong \/ segwit_decode cfg s = Err EInvalidChar \/ segwit_decode cfg s = Err EMixedCase.
Proof. exact segwit_decode_mixed. Qed.
Theorem C17_mixed_case_address : forall (H : bytes -> bytes) (pk_valid : bytes -> bool) s p, mixed_case s = true ->
  (forall a, parse_with_params H pk_valid s p = AOk a -> ~ is_segwit a) /\
  (segwit_path s p = true -> exists e, parse_with_params H pk_valid s p = AErr e) /\
  (forall a, from_str H pk_valid s = AOk a -> ~ is_segwit a).
Proof. intros H pkv s p M. destruct (mixed_case_rejected H pkv s p M) as [A B]. split; [exact A|split; [exact B|intros a; exact (mixed_case_rejected_from_str H pkv s a M)]]. Qed.
Theorem C17_hrp_case : forall (H : bytes -> bytes) (pk_valid : bytes -> bool) h d p,
  (existsb is_upper h = true /\ existsb is_lower d = true) \/ (existsb is_lower h = true /\ existsb is_upper d = true) ->
  (forall a, parse_with_params H pk_valid (h ++ x31 :: d) p = AOk a -> ~ is_segwit a) /\ (forall a, from_str H pk_valid (h ++ x31 :: d) = AOk a -> ~ is_segwit a).
Proof. exact hrp_case_rejected. Qed.

(* REMAINING PART OF THE HRP CLAUSE, NOT PROVED (declared partial in DESIGN.md) — replacements by characters other than the other-case form:
     forall s s', s parses as a segwit address -> s' = s with one or two characters of the human-readable part replaced ->
       forall p' in builtin, parse_with_params s' p' fails /\ from_str s' fails.
   What holds and why it is not a theorem here: a changed HRP either matches no built-in HRP (then the string takes the base58check
   path: rejection rests on a 32-bit SHA-256d checksum, cf. C17_address_other_network_partial), or it matches the HRP of another
   (network, blinded) class.  Within one checksum family the only built-in pair reachable by <= 2 replacements is "lq" <-> "el",
   whose HRP expansions differ in exactly two symbols, so C17_two_errors rejects it; across families (ex<->el, ex<->lq, tex<->tlq)
   the word is checked against a different code (6 vs 12 checksum symbols), where acceptance would need a 30-/60-bit accident.
   The harness evaluates the clause on the implementation: sampled (tag hrp-char) and completely for one address of each (network, blinded)
   class — every replacement of one and of every two HRP characters by the other 65 characters of the alphabet (kind `C17 r`, tag hrp-enum). *)

(* non-vacuity: a real address, a one-symbol corruption of it, and the hypotheses of C17_address hold for them *)
Example C17_nonvacuous :
  let s := "ert1qwhh2n5qypypm0eufahm2pvj8raj9zq5c27cysu"%lb in let s' := "ert1qwhh2n5qypypm0eufahm2pvj8raj9zq5c27cysy"%lb in
  (exists a, parse_with_params (fun _ => []) (fun _ => true) s ELEMENTS = AOk a /\ is_segwit a) /\ In ELEMENTS builtin /\ data_edit s s'.
Proof. cbv zeta. split; [|split].
  - eexists. split; [vm_compute; reflexivity|]. eexists _, _. reflexivity.
  - cbn. tauto.
  - unfold data_edit. eexists _, _, _, _, _. split; [vm_compute; reflexivity|]. split; [reflexivity|].
    split; [vm_compute; reflexivity|]. split; [vm_compute; reflexivity|]. split; [reflexivity|]. vm_compute. lia. Qed.
(* non-vacuity of the case theorems: the witness of seeded change C17-2 — both letters of `el` in upper case, lower-case data part — is a
   mixed-case string whose prefix matches ELEMENTS' blinded HRP, and its lower-case form is a valid blinded address *)
Example C17_nonvacuous_mixed_case :
  let s := "EL1qq0umk3pez693jrrlxz9ndlkuwne93gdu9g83mhhzuyf46e3mdzfpva0w48gqgzgrklncnm0k5zeyw8my2ypfsmxh4xcjh2rse"%lb in
  mixed_case s = true /\ segwit_path s ELEMENTS = true /\
  (exists a, parse_with_params (fun _ => []) (fun _ => true) (lower s) ELEMENTS = AOk a /\ is_segwit a) /\
  (exists e, parse_with_params (fun _ => []) (fun _ => true) s ELEMENTS = AErr e).
Proof. cbv zeta. split; [vm_compute; reflexivity|]. split; [vm_compute; reflexivity|]. split.
  - eexists. split; [vm_compute; reflexivity|]. eexists _, _. reflexivity.
  - eexists. vm_compute. reflexivity. Qed.
Example C17_nonvacuous_codeword : exists w, sym_word w /\ (length w <= 1023)%nat /\ valid_codeword blech32m w = true.
Proof. exists (hrp_expand "lq"%lb ++ [1; 2; 3] ++ checksum_syms blech32m (hrp_expand "lq"%lb ++ [1; 2; 3])). split; [|split].
  - vm_compute. repeat constructor. - vm_compute. lia. - vm_compute. reflexivity. Qed.

Check (C17_two_errors : forall c, In c [bech32; bech32m; blech32; blech32m] ->
  forall w w', sym_word w -> sym_word w' -> length w = length w' -> (length w <= 1023)%nat -> (1 <= hamming w w' <= 2)%nat ->
  valid_codeword c w = true -> valid_codeword c w' = false).
Check (C17_switch : forall c0 cm L, (c0, cm, L) = (bech32, bech32m, 175%nat) \/ (c0, cm, L) = (blech32, blech32m, 400%nat) ->
  forall w w', sym_word w -> sym_word w' -> length w = length w' -> (length w <= L)%nat -> (hamming w w' <= 2)%nat ->
  (valid_codeword c0 w = true -> valid_codeword cm w' = false) /\ (valid_codeword cm w = true -> valid_codeword c0 w' = false)).
Check (C17_address : forall (H : bytes -> bytes) (pk_valid : bytes -> bool) p s a s',
  In p builtin -> parse_with_params H pk_valid s p = AOk a -> is_segwit a -> data_edit s s' ->
  (exists e, from_str H pk_valid s' = AErr e) /\ (exists e, parse_with_params H pk_valid s' p = AErr e)).
Print Assumptions C17_linear.
Print Assumptions C17_syndrome.
Print Assumptions C17_table.
Print Assumptions C17_two_errors.
Print Assumptions C17_switch.
Print Assumptions C17_addr_len.
Print Assumptions C17_address.
Print Assumptions C17_address_other_network_partial.
Print Assumptions C17_address_every_network.
Print Assumptions C17_from_str_is_builtin.
Print Assumptions C17_mixed_case.
Print Assumptions C17_mixed_case_address.
Print Assumptions C17_hrp_case.
