(* C17 — segwit address checksums detect every one- and two-character corruption.
   Only statements; proofs live in Proofs/Bech32.v (engine, syndrome, distance), Proofs/Bech32Codes.v (kernel tables for
   the four codes) and Proofs/Address.v (lifting to address strings). *)
From Coq Require Import List NArith Bool Lia.
From Coq.Strings Require Import Byte.
From EV Require Import Base.Bytes Gen.Tables Model.Bech32 Model.Base58 Model.Address Proofs.Bech32 Proofs.Bech32Codes Proofs.Address Proofs.AddressB58 Proofs.AddressCase Proofs.AddressHrp.
Import ListNotations.
Open Scope N_scope.

(* the engine step is GF(2)-linear in (state, symbol) — for every generator table and shift *)
Theorem C17_linear : forall (gen : list N) (sh s s' v v' : N), v < 32 -> v' < 32 ->
  step gen sh (N.lxor s s') (N.lxor v v') = N.lxor (step gen sh s v) (step gen sh s' v').
Proof. exact step_linear. Qed.

(* the residue of a corrupted word is the residue of the word xor the syndrome of the error pattern; the syndrome is the xor
   over the positions of Z^(distance from the end) applied to the error value, Z = "feed a zero symbol" (Proofs.Bech32.syn) *)
Theorem C17_syndrome : forall (c : code) (s : N) (w e : list N), length w = length e -> sym_word w -> sym_word e ->
  feed c s (xorl w e) = N.lxor (feed c s w) (syn (c_gen c) (shift_of c) e).
Proof. intros c s w e. exact (feed_syndrome (c_gen c) (shift_of c) s w e). Qed.

(* kernel sweep (vm_compute): for each of bech32, bech32m, blech32, blech32m the 31 * 1023 values Z^a(u), u = 1..31, a < 1023,
   are pairwise distinct and non-zero.  1023 is sharp: the same test is false for 1024. *)
Theorem C17_table : forallb (fun c => table_ok (c_gen c) (shift_of c) 1023) [bech32; bech32m; blech32; blech32m] = true.
Proof. exact tables_ok. Qed.

(* a word of total length <= 1023 (HRP expansion, data and checksum symbols) at Hamming distance 1 or 2 from a codeword is not
   a codeword — for each of the four codes *)
Theorem C17_two_errors : forall c, In c [bech32; bech32m; blech32; blech32m] ->
  forall w w', sym_word w -> sym_word w' -> length w = length w' -> (length w <= 1023)%nat -> (1 <= hamming w w' <= 2)%nat ->
  valid_codeword c w = true -> valid_codeword c w' = false.
Proof. exact two_errors_codes. Qed.

(* a corrupted witness-version character selects the other checksum variant; no word within distance 2 of a codeword of one
   variant is a codeword of the other (kernel sweep of T and D xor T, D = xor of the two target residues; lengths <= 175 for the
   bech32 pair — the sweep is false from 200 on — and <= 400 for the blech32 pair; accepted strings are shorter, see C17_addr_len) *)
Theorem C17_switch : forall c0 cm L, (c0, cm, L) = (bech32, bech32m, 175%nat) \/ (c0, cm, L) = (blech32, blech32m, 400%nat) ->
  forall w w', sym_word w -> sym_word w' -> length w = length w' -> (length w <= L)%nat -> (hamming w w' <= 2)%nat ->
  (valid_codeword c0 w = true -> valid_codeword cm w' = false) /\ (valid_codeword cm w = true -> valid_codeword c0 w' = false).
Proof. exact switch_codes. Qed.

(* every string either decoder accepts gives a checksummed word (2|hrp| + 1 + |data| symbols) within those bounds *)
Theorem C17_addr_len : forall s r h d, rsplit x31 s = Some (h, d) ->
  (segwit_decode cfg_bech s = Ok r -> (2 * length h + 1 + length d <= 175)%nat) /\
  (segwit_decode cfg_blech s = Ok r -> (2 * length h + 1 + length d <= 400)%nat).
Proof. intros s r h d R. split; intros E; [exact (bound_bech s r h d E R)|exact (bound_blech s r h d E R)]. Qed.

(* Address level.  `data_edit s s'`: s' keeps everything up to and including the last '1' of s and replaces the data part by an
   equally long string of bech32 characters whose symbols differ in one or two positions (the witness-version character is
   the first data symbol).  If s parses as a segwit address under a built-in network p, then s' is rejected by FromStr and by
   parse_with_params under p; under the other built-in networks it is rejected as well unless it is a valid base58check
   string for the (abstract) hash H — that residual disjunct cannot be excluded without properties of SHA-256 (partial). *)
Theorem C17_address : forall (H : bytes -> bytes) (pk_valid : bytes -> bool) p s a s',
  In p builtin -> parse_with_params H pk_valid s p = AOk a -> is_segwit a -> data_edit s s' ->
  (exists e, from_str H pk_valid s' = AErr e) /\ (exists e, parse_with_params H pk_valid s' p = AErr e).
Proof. intros H pkv p s a s' Ip E SW ED. destruct (address_corrupt H pkv p s a s' Ip E SW ED) as (A & B & _). now split. Qed.
Theorem C17_address_other_network_partial : forall (H : bytes -> bytes) (pk_valid : bytes -> bool) p s a s',
  In p builtin -> parse_with_params H pk_valid s p = AOk a -> is_segwit a -> data_edit s s' ->
  forall p', In p' builtin -> (exists e, parse_with_params H pk_valid s' p' = AErr e) \/ (exists d, b58_decode_check H s' = Ok58 d).
Proof. intros H pkv p s a s' Ip E SW ED. exact (proj2 (proj2 (address_corrupt H pkv p s a s' Ip E SW ED))). Qed.
(* ... and that residual disjunct is in fact impossible (added with C06's first-character sweep, Proofs/AddressB58.v): the corrupted text keeps
   its HRP, and a text that base58check-decodes to a version byte of a built-in network with the length from_base58 demands never has a
   built-in HRP as its prefix.  So s' is rejected under EVERY built-in network, for every hash function. *)
Theorem C17_address_every_network : forall (H : bytes -> bytes) (pk_valid : bytes -> bool) p s a s',
  In p builtin -> parse_with_params H pk_valid s p = AOk a -> is_segwit a -> data_edit s s' ->
  forall p', In p' builtin -> exists e, parse_with_params H pk_valid s' p' = AErr e.
Proof. exact address_corrupt_every_network. Qed.
(* a segwit address accepted by FromStr is accepted by parse_with_params of one built-in network, so C17_address applies to it *)
Theorem C17_from_str_is_builtin : forall (H : bytes -> bytes) (pk_valid : bytes -> bool) s a,
  from_str H pk_valid s = AOk a -> is_segwit a -> exists p, In p builtin /\ parse_with_params H pk_valid s p = AOk a.
Proof. exact from_str_segwit. Qed.

(* HRP clause, case part (proved, unbounded).  mixed_case s: s has an upper-case and a lower-case ASCII letter anywhere, human-readable
   part included.  Such a string is rejected by check_characters of either decoder (upstream bech32 crate and src/blech32/decode.rs share the
   model function), so it never parses as a segwit address — under any parameters and through FromStr; where its prefix matches an HRP of the
   network it is an error outright.  In particular replacing letters of the human-readable part by their other-case forms (one, two or all
   of them: `EL1qq0umk...`, `Lq1...`, `eX1...`) while the data part keeps a letter of the original case never yields a string that parses. *)
Theorem C17_mixed_case : forall cfg s, mixed_case s = true ->
  segwit_decode cfg s = Err ETooLong \/ segwit_decode cfg s = Err EInvalidChar \/ segwit_decode cfg s = Err EMixedCase.
Proof. exact segwit_decode_mixed. Qed.
Theorem C17_mixed_case_address : forall (H : bytes -> bytes) (pk_valid : bytes -> bool) s p, mixed_case s = true ->
  (forall a, parse_with_params H pk_valid s p = AOk a -> ~ is_segwit a) /\
  (segwit_path s p = true -> exists e, parse_with_params H pk_valid s p = AErr e) /\
  (forall a, from_str H pk_valid s = AOk a -> ~ is_segwit a).
Proof. intros H pkv s p M. destruct (mixed_case_rejected H pkv s p M) as [A B]. split; [exact A|split; [exact B|intros a; exact (mixed_case_rejected_from_str H pkv s a M)]]. Qed.
Theorem C17_hrp_case : forall (H : bytes -> bytes) (pk_valid : bytes -> bool) h d p,
  (existsb is_upper h = true /\ existsb is_lower d = true) \/ (existsb is_lower h = true /\ existsb is_upper d = true) ->
  (forall a, parse_with_params H pk_valid (h ++ x31 :: d) p = AOk a -> ~ is_segwit a) /\ (forall a, from_str H pk_valid (h ++ x31 :: d) = AOk a -> ~ is_segwit a).
Proof. exact hrp_case_rejected. Qed.

(* HRP clause, replacements other than a change of letter case.  hrp_edit s s': s' is s with the human-readable part (everything before
   the last '1') replaced by an equally long string that is not a re-casing of it — any number of characters, the separator included.
   If s parses as a segwit address under a built-in network then s' is rejected by FromStr and by parse_with_params under EVERY built-in
   network, except in two residual situations that are stated explicitly because no proof over an abstract hash / over two unrelated
   generator polynomials can exclude them:
     hrp_residual_base58 H pk_valid s' — the new prefix matches no built-in HRP (then every parser takes the base58check branch) AND every
       character of s', the segwit data and checksum characters included, is a base58 character AND s' base58check-decodes (4-byte checksum
       of the hash H) to a payload that from_base58 accepts for a built-in network.  Impossible as soon as the data part contains a `0` or
       an `l` (upper-case form: a `0`), the bech32 characters outside the base58 alphabet: all but about (30/32)^n of the addresses;
     hrp_residual_cross pk_valid a s' — the new prefix is the HRP of the OTHER checksum family of a built-in network (ex <-> lq, el;
       tex <-> tlq) AND the unchanged symbols are also a valid address there (a bech32(m) codeword behind the old HRP and a blech32(m)
       codeword, 12 instead of 6 checksum symbols, behind the new one, or the reverse); the length rules of the two decoders leave only an
       unblinded 40-byte program re-read as blinding key + 3-byte program, or the reverse.
   Everything else is proved: a new prefix that is a built-in HRP of the SAME family (ert <-> tex, lq <-> el) is rejected for every data
   part (C17_hrp_swap: kernel sweep — for each of the four codes and each of the 12 ordered pairs of different built-in HRPs of equal
   length, the difference D of the residues after the two HRP expansions satisfies Z^n(D) <> 0 for all n <= 1023, and every accepted
   string has at most 400 data symbols); other networks never read s' as base58check when its prefix is a built-in HRP (C06's
   first-character sweep). *)
Theorem C17_hrp : forall (H : bytes -> bytes) (pk_valid : bytes -> bool) p s a s',
  In p builtin -> parse_with_params H pk_valid s p = AOk a -> is_segwit a -> hrp_edit s s' ->
  ((exists e, from_str H pk_valid s' = AErr e) /\ forall p', In p' builtin -> exists e, parse_with_params H pk_valid s' p' = AErr e)
  \/ hrp_residual_base58 H pk_valid s' \/ hrp_residual_cross pk_valid a s'.
Proof. exact hrp_replaced. Qed.
(* no residual when the string has a character outside the base58 alphabet and the program is not 3 or 40 bytes long (every standard
   address: 20- and 32-byte programs whose text contains a `0` or an `l`) *)
Theorem C17_hrp_common : forall (H : bytes -> bytes) (pk_valid : bytes -> bool) p s a s',
  In p builtin -> parse_with_params H pk_valid s p = AOk a -> is_segwit a -> hrp_edit s s' ->
  (exists c, In c s' /\ b58_digit c = None) -> prog_len a <> 40%nat -> prog_len a <> 3%nat ->
  (exists e, from_str H pk_valid s' = AErr e) /\ forall p', In p' builtin -> exists e, parse_with_params H pk_valid s' p' = AErr e.
Proof. exact hrp_replaced_common. Qed.
(* the sweep behind the same-family case, as a statement about codewords: the same symbols (<= 1023) are never a codeword behind two
   different built-in HRPs of equal length — each of the four codes *)
Theorem C17_hrp_swap : forall c h1 h2 w, In c [bech32; bech32m; blech32; blech32m] -> In (h1, h2) hrp_pairs -> sym_word w -> (length w <= 1023)%nat ->
  valid_codeword c (hrp_expand h1 ++ w) = true -> valid_codeword c (hrp_expand h2 ++ w) = false.
Proof. exact hrp_swap_invalid. Qed.
(* the pairs swept: all ordered pairs of different built-in HRPs of equal length *)
Example C17_hrp_pairs : hrp_pairs =
  [(("ex"%lb : bytes), ("lq"%lb : bytes)); (("ex"%lb : bytes), ("el"%lb : bytes)); (("lq"%lb : bytes), ("ex"%lb : bytes)); (("lq"%lb : bytes), ("el"%lb : bytes)); (("ert"%lb : bytes), ("tex"%lb : bytes)); (("ert"%lb : bytes), ("tlq"%lb : bytes)); (("el"%lb : bytes), ("ex"%lb : bytes)); (("el"%lb : bytes), ("lq"%lb : bytes)); (("tex"%lb : bytes), ("ert"%lb : bytes)); (("tex"%lb : bytes), ("tlq"%lb : bytes)); (("tlq"%lb : bytes), ("ert"%lb : bytes)); (("tlq"%lb : bytes), ("tex"%lb : bytes))].
Proof. vm_compute. reflexivity. Qed.

(* non-vacuity: a real address, a one-symbol corruption of it, and the hypotheses of C17_address hold for them *)
Example C17_nonvacuous :
  let s := "ert1qwhh2n5qypypm0eufahm2pvj8raj9zq5c27cysu"%lb in let s' := "ert1qwhh2n5qypypm0eufahm2pvj8raj9zq5c27cysy"%lb in
  (exists a, parse_with_params (fun _ => []) (fun _ => true) s ELEMENTS = AOk a /\ is_segwit a) /\ In ELEMENTS builtin /\ data_edit s s'.
Proof. cbv zeta. split; [|split].
  - eexists. split; [vm_compute; reflexivity|]. eexists _, _. reflexivity.
  - cbn. tauto.
  - unfold data_edit. eexists _, _, _, _, _. split; [vm_compute; reflexivity|]. split; [reflexivity|].
    split; [vm_compute; reflexivity|]. split; [vm_compute; reflexivity|]. split; [reflexivity|]. vm_compute. lia. Qed.
(* non-vacuity of the case theorems: the witness of seeded change C17-2 — both letters of `el` in upper case, lower-case data part — is a
   mixed-case string whose prefix matches ELEMENTS' blinded HRP, and its lower-case form is a valid blinded address *)
Example C17_nonvacuous_mixed_case :
  let s := "EL1qq0umk3pez693jrrlxz9ndlkuwne93gdu9g83mhhzuyf46e3mdzfpva0w48gqgzgrklncnm0k5zeyw8my2ypfsmxh4xcjh2rse"%lb in
  mixed_case s = true /\ segwit_path s ELEMENTS = true /\
  (exists a, parse_with_params (fun _ => []) (fun _ => true) (lower s) ELEMENTS = AOk a /\ is_segwit a) /\
  (exists e, parse_with_params (fun _ => []) (fun _ => true) s ELEMENTS = AErr e).
Proof. cbv zeta. split; [vm_compute; reflexivity|]. split; [vm_compute; reflexivity|]. split.
  - eexists. split; [vm_compute; reflexivity|]. eexists _, _. reflexivity.
  - eexists. vm_compute. reflexivity. Qed.
(* non-vacuity of C17_hrp: `ert` replaced by `tex` (three characters, same family) and by `zzz` (no built-in HRP) on a real address *)
Example C17_nonvacuous_hrp :
  let s := "ert1qwhh2n5qypypm0eufahm2pvj8raj9zq5c27cysu"%lb in
  (exists a, parse_with_params (fun _ => []) (fun _ => true) s ELEMENTS = AOk a /\ is_segwit a) /\ In ELEMENTS builtin /\
  hrp_edit s "tex1qwhh2n5qypypm0eufahm2pvj8raj9zq5c27cysu"%lb /\ hrp_edit s "zzz1qwhh2n5qypypm0eufahm2pvj8raj9zq5c27cysu"%lb /\
  (exists c, In c "zzz1qwhh2n5qypypm0eufahm2pvj8raj9zq5c27cysu"%lb /\ b58_digit c = None).
Proof. cbv zeta. split; [|split; [|split; [|split]]].
  - eexists. split; [vm_compute; reflexivity|]. eexists _, _. reflexivity.
  - cbn. tauto.
  - exists ("ert"%lb : bytes), ("tex"%lb : bytes), ("qwhh2n5qypypm0eufahm2pvj8raj9zq5c27cysu"%lb : bytes). split; [vm_compute; reflexivity|]. split; [reflexivity|]. split; reflexivity.
  - exists ("ert"%lb : bytes), ("zzz"%lb : bytes), ("qwhh2n5qypypm0eufahm2pvj8raj9zq5c27cysu"%lb : bytes). split; [vm_compute; reflexivity|]. split; [reflexivity|]. split; reflexivity.
  - exists x30. split; [cbn; tauto|reflexivity]. Qed.
Example C17_nonvacuous_codeword : exists w, sym_word w /\ (length w <= 1023)%nat /\ valid_codeword blech32m w = true.
Proof. exists (hrp_expand "lq"%lb ++ [1; 2; 3] ++ checksum_syms blech32m (hrp_expand "lq"%lb ++ [1; 2; 3])). split; [|split].
  - vm_compute. repeat constructor. - vm_compute. lia. - vm_compute. reflexivity. Qed.

Check (C17_two_errors : forall c, In c [bech32; bech32m; blech32; blech32m] ->
  forall w w', sym_word w -> sym_word w' -> length w = length w' -> (length w <= 1023)%nat -> (1 <= hamming w w' <= 2)%nat ->
  valid_codeword c w = true -> valid_codeword c w' = false).
Check (C17_switch : forall c0 cm L, (c0, cm, L) = (bech32, bech32m, 175%nat) \/ (c0, cm, L) = (blech32, blech32m, 400%nat) ->
  forall w w', sym_word w -> sym_word w' -> length w = length w' -> (length w <= L)%nat -> (hamming w w' <= 2)%nat ->
  (valid_codeword c0 w = true -> valid_codeword cm w' = false) /\ (valid_codeword cm w = true -> valid_codeword c0 w' = false)).
Check (C17_address : forall (H : bytes -> bytes) (pk_valid : bytes -> bool) p s a s',
  In p builtin -> parse_with_params H pk_valid s p = AOk a -> is_segwit a -> data_edit s s' ->
  (exists e, from_str H pk_valid s' = AErr e) /\ (exists e, parse_with_params H pk_valid s' p = AErr e)).
Check (C17_hrp : forall (H : bytes -> bytes) (pk_valid : bytes -> bool) p s a s',
  In p builtin -> parse_with_params H pk_valid s p = AOk a -> is_segwit a -> hrp_edit s s' ->
  ((exists e, from_str H pk_valid s' = AErr e) /\ forall p', In p' builtin -> exists e, parse_with_params H pk_valid s' p' = AErr e)
  \/ hrp_residual_base58 H pk_valid s' \/ hrp_residual_cross pk_valid a s').
Print Assumptions C17_linear.
Print Assumptions C17_syndrome.
Print Assumptions C17_table.
Print Assumptions C17_two_errors.
Print Assumptions C17_switch.
Print Assumptions C17_addr_len.
Print Assumptions C17_address.
Print Assumptions C17_address_other_network_partial.
Print Assumptions C17_address_every_network.
Print Assumptions C17_from_str_is_builtin.
Print Assumptions C17_mixed_case.
Print Assumptions C17_mixed_case_address.
Print Assumptions C17_hrp_case.
Print Assumptions C17_hrp.
Print Assumptions C17_hrp_common.
Print Assumptions C17_hrp_swap.
