(* C19 — dynafed parameter roots survive compaction and match the commitment layout. Statements only (proofs: Proofs/Ids.v).
   H (double-SHA256) and cmp (the compression of fast_merkle_root; C18 proves fast_merkle_root is the definitional tree) are universally quantified. *)
From Coq Require Import List NArith Bool.
From Coq.Strings Require Import Byte.
From EV Require Import Base.Bytes Base.Codec Model.Tx Model.Block Model.Ids Proofs.Ids.
Import ListNotations.
Open Scope N_scope.

Section C19.
Variable H : bytes -> bytes.
Variable cmp : bytes -> bytes -> bytes.
Variables maxvec cap_vecu8 : N.
Notation ROOT := (params_calculate_root H cmp maxvec cap_vecu8).

Theorem C19_compaction_preserves_root : forall f, ROOT (full_into_compact H cmp maxvec cap_vecu8 f) = ROOT (PFull f).
Proof. exact (compaction_preserves_root H cmp maxvec cap_vecu8). Qed.
Theorem C19_into_compact : forall p c, params_into_compact H cmp maxvec cap_vecu8 p = Some c -> ROOT c = ROOT p.
Proof. exact (into_compact_root H cmp maxvec cap_vecu8). Qed.
Theorem C19_two_computations_agree : forall f, full_calculate_root H cmp maxvec cap_vecu8 f = ROOT (PFull f).
Proof. exact (full_root_agrees H cmp maxvec cap_vecu8). Qed.
(* two-level layout: (signblockscript, witness limit) against (fedpeg program, fedpeg script, extension space) *)
Theorem C19_layout_full : forall f, ROOT (PFull f) =
  cmp (cmp (H (enc (c_script maxvec) (fp_sbs f))) (H (enc c_u32 (fp_limit f))))
      (cmp (cmp (H (enc (c_script maxvec) (fp_program f))) (H (enc (c_script maxvec) (fp_script f)))) (H (enc (c_stack maxvec cap_vecu8) (fp_ext f)))).
Proof. exact (root_layout_full H cmp maxvec cap_vecu8). Qed.
Theorem C19_layout_compact : forall s l e, ROOT (PCompact s l e) = cmp (cmp (H (enc (c_script maxvec) s)) (H (enc c_u32 l))) e.
Proof. exact (root_layout_compact H cmp maxvec cap_vecu8). Qed.
Theorem C19_null_root : ROOT PNull = zero32.
Proof. reflexivity. Qed.
Theorem C19_compact_keeps_signblock : forall f, full_into_compact H cmp maxvec cap_vecu8 f = PCompact (fp_sbs f) (fp_limit f) (full_extra_root H cmp maxvec cap_vecu8 f).
Proof. reflexivity. Qed.
Theorem C19_header_root : forall h c p w, h_ext h = EDynafed c p w -> header_dynafed_root H cmp maxvec cap_vecu8 h = Some (cmp (ROOT c) (ROOT p)).
Proof. exact (header_root H cmp maxvec cap_vecu8). Qed.
Theorem C19_header_root_proof : forall h c s, h_ext h = EProof c s -> header_dynafed_root H cmp maxvec cap_vecu8 h = None.
Proof. exact (header_root_none H cmp maxvec cap_vecu8). Qed.
End C19.
Check (C19_compaction_preserves_root : forall H cmp maxvec cap_vecu8 f,
  params_calculate_root H cmp maxvec cap_vecu8 (full_into_compact H cmp maxvec cap_vecu8 f) = params_calculate_root H cmp maxvec cap_vecu8 (PFull f)).
