(* C13 — a sighash cache answers every query as a fresh one would, in any order.  Statements only; proofs in Proofs/SighashCache.v.
   Model: Model/SighashImpl.v (the cache object and the three query kinds, following src/sighash.rs) and Model/SighashCache.v
   (operations, `step`, `run`, the reference `fresh_answers`).  Everything is universally quantified over the two hash functions
   (`H` = SHA-256, `Htag` = the TapSighash tagged hash), the curve-point oracle and the vector caps: no property of them is used. *)
From Coq Require Import List NArith Bool.
From Coq.Strings Require Import Byte.
From EV Require Import Base.Bytes Base.Codec Gen.Tables Model.Tx Model.SighashImpl Model.SighashCache Model.SighashQuery Proofs.SighashCache Proofs.SighashWitness.
Import ListNotations.
Open Scope N_scope.

Section C13.
Variable pt_ok : bytes -> bool.
Variable maxvec : N.
Variable H : bytes -> bytes.
Variable Htag : bytes -> bytes.
Notation run := (run pt_ok maxvec H Htag).
Notation step := (step pt_ok maxvec H Htag).
Notation fresh_answers := (fresh_answers pt_ok maxvec H Htag).
Notation Good := (Good pt_ok maxvec H).
Notation taproot_encode := (taproot_encode pt_ok maxvec H).
Notation taproot_sighash := (taproot_sighash pt_ok maxvec H Htag).

(* Every answer of every finite operation sequence (legacy / segwit / taproot queries of all kinds, repeated and interleaved,
   Prevouts::All or ::One, witness_mut updates in between) issued against ONE cache equals the answer of a cache created for
   that operation alone on the transaction with the witness updates made so far — provided every `All` carries the same
   list `spent` (the transaction's spent outputs; any list, even of the wrong length). *)
Theorem C13_coherent : forall spent t ops, Forall (consistent_prevouts spent) ops -> run (init t) ops = fresh_answers t ops.
Proof. exact (run_coherent pt_ok maxvec H Htag). Qed.

(* the invariant behind it: started from ANY state whose filled caches equal the values recomputed from the current
   transaction and `spent`, the answers are the fresh ones and the final state satisfies the invariant again *)
Theorem C13_coherent_from_good_state : forall spent ops t s, Good t spent s -> Forall (consistent_prevouts spent) ops -> run s ops = fresh_answers t ops.
Proof. exact (run_coherent_from pt_ok maxvec H Htag). Qed.
Theorem C13_invariant : forall spent ops t s, Good t spent s -> Forall (consistent_prevouts spent) ops ->
  Good (fold_left apply_wit ops t) spent (final_state pt_ok maxvec H Htag s ops).
Proof. exact (invariant_preserved pt_ok maxvec H Htag). Qed.
(* one step: same answer as a fresh cache, invariant re-established (also when the query fails or panics) *)
Theorem C13_step : forall t spent s o, Good t spent s -> consistent_prevouts spent o ->
  snd (step s o) = snd (step (init t) o) /\ Good (apply_wit t o) spent (fst (step s o)).
Proof. exact (step_good pt_ok maxvec H Htag). Qed.

(* none of the cached hashes reads script_witness: witness_mut cannot invalidate a cache *)
Theorem C13_caches_ignore_script_witness : forall t spent i w,
  compute_common pt_ok maxvec H (set_script_witness t i w) = compute_common pt_ok maxvec H t /\
  compute_taproot pt_ok maxvec H (set_script_witness t i w) spent = compute_taproot pt_ok maxvec H t spent.
Proof. intros. split; [apply compute_common_witness|apply compute_taproot_witness]. Qed.

(* For EVERY taproot hash type that includes ANYONECANPAY (ALL|ACP, NONE|ACP, SINGLE|ACP), supplying only the spent output of the
   input being signed gives the same pre-image, the same digest and the same resulting cache state as supplying all of them —
   in every cache state.  (Finding F11 — ALL|ANYONECANPAY failed with PrevoutKind — was repaired by 539d5ee: the output-witness
   hash now lives in the common cache.) *)
Theorem C13_acp_one : forall s spent idx o annex leaf ty g,
  schnorr_acp ty = true ->
  length spent = length (tx_in (st_tx s)) -> nth_error spent idx = Some o ->
  taproot_encode idx (POne idx o) annex leaf ty g s = taproot_encode idx (PAll spent) annex leaf ty g s /\
  taproot_sighash idx (POne idx o) annex leaf ty g s = taproot_sighash idx (PAll spent) annex leaf ty g s.
Proof. intros. assert (E := acp_one_eq_all pt_ok maxvec H s spent idx o annex leaf ty g H0 H1 H2). split; [exact E|].
  unfold SighashImpl.taproot_sighash, mapM, bind. now rewrite E. Qed.

(* a single spent output for a type that needs all of them is reported as an error — in every cache state *)
Theorem C13_need_all : forall s idx j o annex leaf ty g, schnorr_acp ty = false ->
  snd (taproot_encode idx (POne j o) annex leaf ty g s) = SErr PrevoutKind.
Proof. exact (need_all pt_ok maxvec H). Qed.

(* No answer depends on script_sig, script witness or pegin witness.  Two cache objects over transactions that differ at most in those
   fields of any inputs (`tx_sig_eq`, Model/SighashQuery.v), driven by the same operations — where corresponding witness_mut
   operations may even write DIFFERENT stacks (`op_sim`) — give equal answers operation by operation: digests, error results and
   panics included, for every operation sequence, with no hypothesis on the prevouts. In particular filling in witnesses through the
   cache never changes a later answer. *)
Theorem C13_witness_independent : forall ops ops' t t', tx_sig_eq t t' -> Forall2 op_sim ops ops' -> run (init t) ops = run (init t') ops'.
Proof. intros. apply (run_sim pt_ok maxvec H Htag); [now apply Rel_init|assumption]. Qed.
(* the simulation behind it, from any pair of related states: equal answers, related states again (equal cache contents) *)
Theorem C13_witness_independent_step : forall s s' o o', Rel s s' -> op_sim o o' ->
  snd (step s o) = snd (step s' o') /\ Rel (fst (step s o)) (fst (step s' o')).
Proof. exact (step_sim pt_ok maxvec H Htag). Qed.
End C13.

(* sample values for the non-vacuity examples *)
Definition f11_in : txin := {| in_prev := {| o_txid := repeat x11 32; o_vout := 0 |}; in_pegin := false; in_script := []; in_seq := 4294967295;
  in_iss := null_issuance; in_wit := empty_inwit |}.
Definition f11_tx : tx := {| tx_version := 2; tx_lock := 0; tx_in := [f11_in]; tx_out := [] |}.
Definition f11_spent : txout := {| out_asset := AExplicit (repeat x33 32); out_value := VExplicit 5; out_nonce := NNull; out_script := [x51]; out_wit := empty_outwit |}.
(* the former F11 witness: ALL|ANYONECANPAY with One now succeeds and equals All (an instance of C13_acp_one that is not an error) *)
Example C13_former_F11_witness : forall pt_ok maxvec H,
  exists m, snd (taproot_encode pt_ok maxvec H 0 (POne 0 f11_spent) None None SAllAcp (repeat x00 32) (init f11_tx)) = SOk m /\
            snd (taproot_encode pt_ok maxvec H 0 (PAll [f11_spent]) None None SAllAcp (repeat x00 32) (init f11_tx)) = SOk m.
Proof. intros. eexists. split; vm_compute; reflexivity. Qed.

(* non-vacuity: a sequence mixing all operation kinds satisfies the hypothesis, and a state with all three caches filled
   satisfies the invariant *)
Example C13_ops_example : Forall (consistent_prevouts [f11_spent])
  [ OTapKey 0 (PAll [f11_spent]) SDefault (repeat x00 32); OSegwit 0 [x51] (VExplicit 5) EAll; OWitnessMut 0 [[x01]];
    OTaproot 0 (POne 0 f11_spent) (Some [x50]) None SSingleAcp (repeat x00 32); OLegacy 0 [x51] ESingle;
    OTapScript 0 (PAll [f11_spent]) (repeat x22 32) SNone (repeat x00 32) ].
Proof. repeat constructor. Qed.
Example C13_good_filled_state : forall pt_ok maxvec H,
  Good pt_ok maxvec H f11_tx [f11_spent]
    {| st_tx := f11_tx; st_common := Some (compute_common pt_ok maxvec H f11_tx);
       st_segwit := Some (compute_segwit H (compute_common pt_ok maxvec H f11_tx));
       st_taproot := Some (compute_taproot pt_ok maxvec H f11_tx [f11_spent]) |}.
Proof. intros. unfold Good. cbn. auto. Qed.

(* non-vacuity of C13_witness_independent: transactions that differ in script_sig, script witness and pegin witness are related, and so
   are operation sequences that write different witness stacks *)
Definition f11_in_signed : txin := {| in_prev := in_prev f11_in; in_pegin := false; in_script := [x51; x52]; in_seq := in_seq f11_in; in_iss := null_issuance;
  in_wit := {| w_amount_rp := None; w_keys_rp := None; w_script := [[x01; x02]; []]; w_pegin := [[x09]] |} |}.
Example C13_witness_independent_example :
  tx_sig_eq f11_tx {| tx_version := 2; tx_lock := 0; tx_in := [f11_in_signed]; tx_out := [] |} /\ f11_in <> f11_in_signed /\
  Forall2 op_sim [OTapKey 0 (PAll [f11_spent]) SAllAcp (repeat x00 32); OWitnessMut 0 [[x01]]; OSegwit 0 [x51] (VExplicit 5) ESingle]
                 [OTapKey 0 (PAll [f11_spent]) SAllAcp (repeat x00 32); OWitnessMut 0 [[x07]; [x08]]; OSegwit 0 [x51] (VExplicit 5) ESingle].
Proof. split; [|split].
  - unfold tx_sig_eq, in_sig_eq. cbn. repeat split; repeat constructor.
  - discriminate.
  - constructor; [left; reflexivity|]. constructor; [right; repeat eexists|]. constructor; [left; reflexivity|constructor]. Qed.

Check (C13_coherent : forall pt_ok maxvec H Htag spent t ops,
  Forall (consistent_prevouts spent) ops ->
  run pt_ok maxvec H Htag (init t) ops = fresh_answers pt_ok maxvec H Htag t ops).
Check (C13_acp_one : forall pt_ok maxvec H Htag s spent idx o annex leaf ty g,
  schnorr_acp ty = true -> length spent = length (tx_in (st_tx s)) -> nth_error spent idx = Some o ->
  taproot_encode pt_ok maxvec H idx (POne idx o) annex leaf ty g s = taproot_encode pt_ok maxvec H idx (PAll spent) annex leaf ty g s /\
  taproot_sighash pt_ok maxvec H Htag idx (POne idx o) annex leaf ty g s = taproot_sighash pt_ok maxvec H Htag idx (PAll spent) annex leaf ty g s).
Check (C13_need_all : forall pt_ok maxvec H s idx j o annex leaf ty g, schnorr_acp ty = false ->
  snd (taproot_encode pt_ok maxvec H idx (POne j o) annex leaf ty g s) = SErr PrevoutKind).
Check (C13_caches_ignore_script_witness : forall pt_ok maxvec H t spent i w,
  compute_common pt_ok maxvec H (set_script_witness t i w) = compute_common pt_ok maxvec H t /\
  compute_taproot pt_ok maxvec H (set_script_witness t i w) spent = compute_taproot pt_ok maxvec H t spent).
Check (C13_witness_independent : forall pt_ok maxvec H Htag ops ops' t t', tx_sig_eq t t' -> Forall2 op_sim ops ops' ->
  run pt_ok maxvec H Htag (init t) ops = run pt_ok maxvec H Htag (init t') ops').
Print Assumptions C13_coherent.
Print Assumptions C13_witness_independent.
Print Assumptions C13_acp_one.
Print Assumptions C13_need_all.
