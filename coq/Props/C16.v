(* C16 — scripts built by the builder parse back exactly; minimal pushes; script numbers; standard templates;
   Address::from_script agrees with the templates.  Only statements; proofs live in Proofs/Script.v and
   Proofs/ScriptTemplates.v.  The model (Model/Script.v) is tied to src/script.rs, src/opcodes.rs, src/address.rs by
   the per-run correspondence check; opcode values come from Gen/Tables.v, while the statements below spell the byte
   forms as literals, so a changed opcode constant breaks a proof here.

   Quantifiers: every profile (overflow checks on/off), every finite list of builder operations (`bop`: push_int,
   push_scriptint, push_slice of any length, push_opcode, push_verify), every byte string. No bound anywhere. *)
From Coq Require Import List NArith ZArith Bool.
From Coq.Strings Require Import Byte.
From EV Require Import Base.Bytes Gen.Tables Model.Script Proofs.Script Proofs.ScriptTemplates.
From EV Require Gen.SrcScript Proofs.SrcScript Gen.SrcAddr Proofs.SrcAddr.
Import ListNotations.
Open Scope N_scope.

(* ---------------------------------------------------------------------------------------------- read-back *)
(* `op_ok`: integers are i64 values and raw opcodes are not the push opcodes 0x01..0x4e (whose operand would swallow
   what follows).  `expected` (Model/Script.v) lists the pushes and opcodes that were added, with the push_int special
   cases and VERIFY folding written out over literal bytes. *)
Theorem C16_readback : forall (p : profile) (ops : list bop) (s : bytes),
  forallb op_ok ops = true -> build p ops = Val s -> instructions false s = expected p ops.
Proof. exact readback. Qed.

(* the builder returns a script unless an operation panics: a slice of 2^32 bytes or more, or i64::MIN with overflow
   checks on (`-n` in build_scriptint) *)
Theorem C16_build_total : forall (p : profile) (ops : list bop), forallb op_ok ops = true ->
  ((exists w, build p ops = Panic w) <-> exists op, In op ops /\ op_panics p op).
Proof. exact build_panic_iff. Qed.

(* iteration never reports the model's fuel bound or classify's unwrap panic, on any byte string *)
Theorem C16_iter_total : forall (minimal : bool) (s : bytes) (i : item),
  In i (instructions minimal s) -> match i with IPanic _ | IFuel => False | _ => True end.
Proof. exact instructions_clean. Qed.

(* ---------------------------------------------------------------------------------------------- minimal pushes *)
(* all four header forms decode to the same push ... *)
Theorem C16_push_forms_decode : forall (h d rest : bytes), valid_header h (lenN d) ->
  next false (h ++ d ++ rest) = Some (IPush d, rest).
Proof. intros h d rest V. rewrite (next_valid false h d rest V). reflexivity. Qed.
(* ... and push_slice writes the shortest one *)
Theorem C16_min_push : forall (n : N) (h : bytes), push_header n = Val h ->
  valid_header h n /\ forall h', valid_header h' n -> (length h <= length h')%nat.
Proof. exact push_header_shortest. Qed.
(* instructions_minimal on a built script: stops with NonMinimalPush at the first pushed one-byte slice in {1..16, 0x81},
   succeeds iff there is none (`bad_op`: such a push_slice, or push_scriptint of -1 / 1..16), and then equals instructions *)
Theorem C16_min_iter : forall (p : profile) (ops : list bop) (s : bytes),
  forallb op_ok ops = true -> build p ops = Val s ->
  instructions true s = cut_nonminimal (expected p ops) /\
  ((forall i, In i (instructions true s) -> is_err i = false) <-> (forall op, In op ops -> bad_op op = false)) /\
  ((forall op, In op ops -> bad_op op = false) -> instructions true s = instructions false s).
Proof. exact minimal_iter. Qed.

(* ---------------------------------------------------------------------------------------------- script numbers *)
Theorem C16_scriptint : forall (p : profile) (n : Z), (- 2 ^ 31 < n < 2 ^ 31)%Z ->
  exists e, build_scriptint p n = Val e /\ read_scriptint e = SOk n.
Proof. exact scriptint_roundtrip. Qed.
Theorem C16_scriptint_overflow : forall (p : profile) (n : Z), in_i64 n = true -> (2 ^ 31 <= Z.abs n)%Z ->
  (p = Release \/ n <> i64_min) -> exists e, build_scriptint p n = Val e /\ read_scriptint e = SErr NumericOverflow.
Proof. exact scriptint_overflow. Qed.
Theorem C16_scriptint_min : forall (p : profile) (n : Z), in_i64 n = true ->
  ((exists w, build_scriptint p n = Panic w) <-> (p = Debug /\ n = i64_min)).
Proof. exact build_scriptint_panic_iff. Qed.
(* what `expected` shows for push_int n: the dedicated opcode for -1 / 1..16, otherwise a push that read_scriptint reads
   back to n (so C16_readback says: integers pushed as script numbers read back to the same value) *)
Theorem C16_int_reads_back : forall (p : profile) (n : Z), (- 2 ^ 31 < n < 2 ^ 31)%Z ->
  match int_item p n with
  | IPush e => read_scriptint e = SOk n /\ special_small n = false
  | IOp c => (n = -1 /\ c = x4f)%Z \/ ((1 <= n <= 16)%Z /\ b2n c = Z.to_N (0x50 + n))
  | _ => False end.
Proof. exact int_item_reads_back. Qed.
(* read_scriptint is the sign-magnitude reading of at most four bytes *)
Theorem C16_read_scriptint : forall v : bytes,
  read_scriptint v = if Nat.ltb 4 (length v) then SErr NumericOverflow else SOk (sm_val v).
Proof. exact read_scriptint_spec. Qed.

(* ---------------------------------------------------------------------------------------------- templates *)
(* the template predicates of the model are, one by one, the functions TRANSLATED from src/script.rs on every run (Gen/SrcScript.v, rust2coq):
   a change of meaning of any of them in the source stops Proofs/SrcScript.v from compiling *)
Theorem C16_templates_from_source : forall s : bytes,
  SrcScript.src_Script_is_p2sh s = is_p2sh s /\ SrcScript.src_Script_is_p2pkh s = is_p2pkh s /\ SrcScript.src_Script_is_p2pk s = is_p2pk s
  /\ SrcScript.src_Script_is_witness_program s = is_witness_program s /\ SrcScript.src_Script_is_v0_p2wsh s = is_v0_p2wsh s
  /\ SrcScript.src_Script_is_v1_p2tr s = is_v1_p2tr s /\ SrcScript.src_Script_is_v1plus_p2witprog s = is_v1plus_p2witprog s
  /\ SrcScript.src_Script_is_v0_p2wpkh s = is_v0_p2wpkh s /\ SrcScript.src_Script_is_op_return s = is_op_return s
  /\ SrcScript.src_Script_is_provably_unspendable s = is_provably_unspendable s.
Proof. intros s. repeat split; auto using SrcScript.src_is_p2sh, SrcScript.src_is_p2pkh, SrcScript.src_is_p2pk, SrcScript.src_is_witness_program,
  SrcScript.src_is_v0_p2wsh, SrcScript.src_is_v1_p2tr, SrcScript.src_is_v1plus_p2witprog, SrcScript.src_is_v0_p2wpkh, SrcScript.src_is_op_return,
  SrcScript.src_is_provably_unspendable. Qed.
(* Address::from_script itself, from the source text: the chain of template tests, the payload constructor, the byte range and the witness-version
   expression of every arm are read from src/address.rs on every run (Gen/SrcAddr.v); the result is the model's from_script on EVERY script *)
Theorem C16_from_script_from_source : forall s : bytes,
  from_script s = Val (SrcAddr.payload_of (SrcAddr.src_from_script s)).
Proof. exact SrcAddr.src_from_script_is_model. Qed.
Theorem C16_from_script_roundtrip_from_source : forall p s r, SrcAddr.src_from_script s = Some r ->
  script_pubkey p (match SrcAddr.payload_of (Some r) with Some a => a | None => PubkeyHash [] end) = Val s.
Proof. exact SrcAddr.src_from_script_roundtrip. Qed.
Theorem C16_templates : forall s : bytes,
  (is_p2pkh s = true <-> exists h, length h = 20%nat /\ s = x76 :: xa9 :: x14 :: h ++ [x88; xac]) /\
  (is_p2sh s = true <-> exists h, length h = 20%nat /\ s = xa9 :: x14 :: h ++ [x87]) /\
  (is_p2pk s = true <-> (exists k, length k = 65%nat /\ s = x41 :: k ++ [xac]) \/ (exists k, length k = 33%nat /\ s = x21 :: k ++ [xac])) /\
  (is_witness_program s = true <->
     exists v prog, (v = x00 \/ 0x51 <= b2n v <= 0x60) /\ 2 <= lenN prog <= 40 /\ s = v :: n2b (lenN prog) :: prog) /\
  (is_v0_p2wpkh s = true <-> exists h, length h = 20%nat /\ s = x00 :: x14 :: h) /\
  (is_v0_p2wsh s = true <-> exists h, length h = 32%nat /\ s = x00 :: x20 :: h) /\
  (is_v1_p2tr s = true <-> exists h, length h = 32%nat /\ s = x51 :: x20 :: h) /\
  (is_op_return s = true <-> exists r, s = x6a :: r) /\
  (is_provably_unspendable s = true <-> s = [] \/ (exists r, s = x6a :: r) \/ 10000 < lenN s).
Proof. intros s. repeat split; first
  [ apply is_p2pkh_iff | apply is_p2sh_iff | apply is_p2pk_iff | apply is_witness_program_iff | apply is_v0_p2wpkh_iff
  | apply is_v0_p2wsh_iff | apply is_v1_p2tr_iff | apply is_op_return_iff | apply is_provably_unspendable_iff ]. Qed.

(* version 1..16 with a 2..40 byte program (holds for every byte string since the repair of finding F14, commit 0a76697:
   the predicate now has the lower bound 2) *)
Theorem C16_v1plus : forall s : bytes,
  is_v1plus_p2witprog s = true <-> exists v prog, 0x51 <= b2n v <= 0x60 /\ 2 <= lenN prog <= 40 /\ s = v :: n2b (lenN prog) :: prog.
Proof. exact is_v1plus_p2witprog_iff. Qed.

(* ---------------------------------------------------------------------------------------------- from_script *)
(* never panics *)
Theorem C16_from_script_total : forall s : bytes, exists r, from_script s = Val r.
Proof. exact from_script_total. Qed.
(* an address is derived exactly for the templates *)
Theorem C16_from_script : forall s : bytes, (exists a, from_script s = Val (Some a)) <-> address_template s.
Proof. exact from_script_some_iff. Qed.
(* the derived address's output script is the original script, and its payload is one whose text form round-trips *)
Theorem C16_from_script_roundtrip : forall (p : profile) (s : bytes) (a : payload), from_script s = Val (Some a) ->
  script_pubkey p a = Val s /\ payload_wf a = true.
Proof. intros p s a F. split; [exact (from_script_spk p s a F)|exact (from_script_wf s a F)]. Qed.

(* "its text form parses back to the same address": relative to the address codec, which is property C06.
   `display`/`parse` stand for Address's Display/FromStr restricted to the payload (network and blinding key fixed);
   C06_roundtrip is C06's round-trip theorem for well-formed payloads. *)
Section TextForm.
  Variable display : payload -> bytes.
  Variable parse : bytes -> option payload.
  Hypothesis C06_roundtrip : forall a, payload_wf a = true -> parse (display a) = Some a.
  Theorem C16_from_script_text : forall (s : bytes) (a : payload), from_script s = Val (Some a) -> parse (display a) = Some a.
  Proof. intros s a F. apply C06_roundtrip. exact (from_script_wf s a F). Qed.
End TextForm.

(* ---------------------------------------------------------------------------------------------- non-vacuity *)
(* a program that folds one VERIFY, keeps another, special-cases integers and crosses the 75/76 boundary *)
Example C16_example_program :
  let ops := [BInt 0; BInt (-1); BInt 16; BInt 17; BSlice [xaa; xbb]; BOpcode x87; BVerify; BVerify; BSlice (repeat x07 76); BOpcode xac; BVerify] in
  forallb op_ok ops = true /\
  build Debug ops = Val ([x00; x4f; x60; x01; x11; x02; xaa; xbb; x88; x69; x4c; x4c] ++ repeat x07 76 ++ [xad]) /\
  expected Debug ops = [IPush []; IOp x4f; IOp x60; IPush [x11]; IPush [xaa; xbb]; IOp x88; IOp x69; IPush (repeat x07 76); IOp xad].
Proof. repeat split; vm_compute; reflexivity. Qed.
Example C16_example_nonminimal :
  instructions true [x01; x05; xac] = [IErr NonMinimalPush] /\ instructions false [x01; x05; xac] = [IPush [x05]; IOp xac]
  /\ build Debug [BScriptInt 5; BOpcode xac] = Val [x01; x05; xac].
Proof. repeat split. Qed.
Example C16_example_scriptint :
  build_scriptint Debug (-255) = Val [xff; x80] /\ read_scriptint [xff; x80] = SOk (-255)%Z /\
  build_scriptint Release i64_min = Val [x00; x00; x00; x00; x00; x00; x00; x80; x80] /\ build_scriptint Debug i64_min = Panic PNegOverflow.
Proof. repeat split. Qed.
Example C16_example_templates :
  is_p2sh (xa9 :: x14 :: repeat x33 20 ++ [x87]) = true /\ address_template (xa9 :: x14 :: repeat x33 20 ++ [x87]) /\
  from_script (xa9 :: x14 :: repeat x33 20 ++ [x87]) = Val (Some (ScriptHash (repeat x33 20))) /\
  (* the former F14 witnesses are no longer given an address; the shortest v1+ program is *)
  from_script [x51; x01; xaa] = Val None /\ from_script [x60; x00] = Val None /\
  from_script [x51; x02; xaa; xbb] = Val (Some (WitnessProgram 1 [xaa; xbb])).
Proof. repeat split. right; left. exists (repeat x33 20). split; reflexivity. Qed.

Check (C16_readback : forall (p : profile) (ops : list bop) (s : bytes),
  forallb op_ok ops = true -> build p ops = Val s -> instructions false s = expected p ops).
Check (C16_min_push : forall (n : N) (h : bytes), push_header n = Val h ->
  valid_header h n /\ forall h', valid_header h' n -> (length h <= length h')%nat).
Check (C16_min_iter : forall (p : profile) (ops : list bop) (s : bytes),
  forallb op_ok ops = true -> build p ops = Val s ->
  instructions true s = cut_nonminimal (expected p ops) /\
  ((forall i, In i (instructions true s) -> is_err i = false) <-> (forall op, In op ops -> bad_op op = false)) /\
  ((forall op, In op ops -> bad_op op = false) -> instructions true s = instructions false s)).
Check (C16_scriptint : forall (p : profile) (n : Z), (- 2 ^ 31 < n < 2 ^ 31)%Z ->
  exists e, build_scriptint p n = Val e /\ read_scriptint e = SOk n).
Check (C16_scriptint_overflow : forall (p : profile) (n : Z), in_i64 n = true -> (2 ^ 31 <= Z.abs n)%Z ->
  (p = Release \/ n <> i64_min) -> exists e, build_scriptint p n = Val e /\ read_scriptint e = SErr NumericOverflow).
Check (C16_v1plus : forall s : bytes,
  is_v1plus_p2witprog s = true <-> exists v prog, 0x51 <= b2n v <= 0x60 /\ 2 <= lenN prog <= 40 /\ s = v :: n2b (lenN prog) :: prog).
Check (C16_from_script : forall s : bytes, (exists a, from_script s = Val (Some a)) <-> address_template s).
Check (C16_from_script_roundtrip : forall (p : profile) (s : bytes) (a : payload), from_script s = Val (Some a) ->
  script_pubkey p a = Val s /\ payload_wf a = true).
Check (C16_from_script_text : forall (display : payload -> bytes) (parse : bytes -> option payload),
  (forall a, payload_wf a = true -> parse (display a) = Some a) ->
  forall (s : bytes) (a : payload), from_script s = Val (Some a) -> parse (display a) = Some a).
Print Assumptions C16_readback.
Print Assumptions C16_build_total.
Print Assumptions C16_iter_total.
Print Assumptions C16_push_forms_decode.
Print Assumptions C16_min_push.
Print Assumptions C16_min_iter.
Print Assumptions C16_scriptint.
Print Assumptions C16_scriptint_overflow.
Print Assumptions C16_scriptint_min.
Print Assumptions C16_int_reads_back.
Print Assumptions C16_read_scriptint.
Print Assumptions C16_templates.
Print Assumptions C16_v1plus.
Print Assumptions C16_from_script_total.
Print Assumptions C16_from_script.
Print Assumptions C16_from_script_roundtrip.
Print Assumptions C16_from_script_text.
Check (C16_from_script_from_source : forall s : bytes, from_script s = Val (SrcAddr.payload_of (SrcAddr.src_from_script s))).
Print Assumptions C16_from_script_from_source.
Print Assumptions C16_from_script_roundtrip_from_source.
