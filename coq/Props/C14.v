(* C14 — merging PSETs never loses information, never panics, is order-insensitive.
   Only statements; proofs live in Proofs/PsetMerge.v.  The per-field merge policy tables (Gen.Tables.pset_*_merge), the field lists
   (pset_*_fields) and the shape of the xpub reconciliation (xpub_take_arm_guarded) are re-read from the Rust source on every run;
   `cur_tables` packs them.  Theorems are stated for every table where possible and instantiated with the current one. *)
From Coq Require Import List NArith Bool Permutation.
From Coq.Strings Require Import Byte.
From EV Require Import Base.Bytes Gen.Tables Model.PsetMap Model.PsetTx Model.PsetMerge Proofs.PsetMap Proofs.PsetMerge Proofs.PsetTx Proofs.PsetFamily.
Import ListNotations.

(* ------------------------------------------------------------------ the unique-id gate *)
(* PSETs with different unique ids are refused (for every id type, id function and id comparison) *)
Theorem C14_gate : forall (id : Type) (id_eqb : id -> id -> bool) (uid : pset -> outcome id) a b,
  (forall x y, uid a = Val x -> uid b = Val y -> id_eqb x y = false -> merge id_eqb uid a b = Fail E_UniqueIdMismatch) /\
  (uid_res_eqb id_eqb (uid a) (uid b) = false -> forall c, merge id_eqb uid a b <> Val c).
Proof. intros. split; [intros x y A B E; now apply (gate_refuses id_eqb uid cur_tables a b x y)|apply gate_closed]. Qed.

(* ------------------------------------------------------------------ nothing is lost *)
(* for every field that the regenerated table merges with a keeping statement and that no statement clears: whatever is present in
   either operand (an optional value, or a key of a key-value field) is present in the result — in the global map and at every
   input and output position *)
Theorem C14_keeps_all : forall (id : Type) (id_eqb : id -> id -> bool) (uid : pset -> outcome id) a b c,
  merge id_eqb uid a b = Val c ->
    kept pset_global_merge (pglobal a) (pglobal b) (pglobal c) /\
    (forall i x y, nth_error (pinputs a) i = Some x -> nth_error (pinputs b) i = Some y ->
        exists z, nth_error (pinputs c) i = Some z /\ kept pset_input_merge x y z) /\
    (forall i x y, nth_error (poutputs a) i = Some x -> nth_error (poutputs b) i = Some y ->
        exists z, nth_error (poutputs c) i = Some z /\ kept pset_output_merge x y z).
Proof. intros id id_eqb uid a b c H. apply (merge_keeps_all id_eqb uid cur_tables a b c); [vm_compute; reflexivity|exact H]. Qed.

(* the fields `kept` speaks about, and the ones it does not (computed from the regenerated tables).
   These three Examples pin the complement; they change when a `merge!` line is added or removed.  After the F3 repair (merge! for
   sighash_type, sequence, amount, asset) and the fallback repair (first-wins statement for tx_data.fallback_locktime) what is left is:
   nothing in Global; non_witness_utxo (cleared by an arriving witness_utxo: F3-witness-utxo-clears-non-witness-utxo, a recorded finding) and the two
   output commitments, which are part of the transaction and therefore equal in operands that pass the gate (C14_commitments_fixed_by_uid). *)
Example C14_known_lost_global : lost_optional pset_global_fields pset_global_merge = [].
Proof. vm_compute. reflexivity. Qed.
Example C14_known_lost_input : lost_optional pset_input_fields pset_input_merge = [fld "non_witness_utxo"].
Proof. vm_compute. reflexivity. Qed.
Example C14_known_lost_output : lost_optional pset_output_fields pset_output_merge = [fld "amount_comm"; fld "asset_comm"].
Proof. vm_compute. reflexivity. Qed.
(* mandatory fields that are not merged: always present, so nothing can be lost *)
Example C14_unmerged_mandatory :
  (unmerged_mandatory pset_global_fields pset_global_merge, unmerged_mandatory pset_input_fields pset_input_merge, unmerged_mandatory pset_output_fields pset_output_merge)
  = ([fld "tx_data.version"; fld "tx_data.input_count"; fld "tx_data.output_count"], [fld "previous_txid"; fld "previous_output_index"], [fld "script_pubkey"]).
Proof. vm_compute. reflexivity. Qed.
(* non-vacuity: 8 + 45 + 17 fields are covered by C14_keeps_all *)
Example C14_kept_counts : (length (kept_fields pset_global_fields pset_global_merge), length (kept_fields pset_input_fields pset_input_merge),
                           length (kept_fields pset_output_fields pset_output_merge)) = (8, 45, 17)%nat.
Proof. vm_compute. reflexivity. Qed.

(* the two output commitments have no statement, but they are part of the id pre-image: operands whose unique-id pre-images are equal
   (which is what passing the gate means, up to a hash collision) carry the same commitments at every output position *)
Theorem C14_commitments_fixed_by_uid : forall p q t, uid_preimage p = Val t -> uid_preimage q = Val t ->
  forall i x y, nth_error (poutputs p) i = Some x -> nth_error (poutputs q) i = Some y ->
    unk x (fld "amount_comm") = unk y (fld "amount_comm") /\ unk x (fld "asset_comm") = unk y (fld "asset_comm").
Proof. intros p q t. apply commitments_fixed_by_uid. Qed.

(* F3-witness-utxo-clears-non-witness-utxo: a witness_utxo arriving from `other` deletes self's non_witness_utxo *)
Theorem C14_utxo_clearing_refuted :
  exists a b c, merge_map_with xpub_take_arm_guarded pset_input_merge a b = Val c /\ unk a (fld "non_witness_utxo") <> None /\ unk c (fld "non_witness_utxo") = None.
Proof. apply (clears_witness _ _ (fld "witness_utxo")). vm_compute. reflexivity. Qed.

(* ------------------------------------------------------------------ order independence *)
(* Operands in the property's domain: descendants of a common ancestor by disjoint-or-identical additions are `compat`
   (C14_descendants_compat).  `pset_pair_ok` asks, for the global maps and position-wise for inputs and outputs: key-sorted maps,
   compat, and the negations of the two Known classes —
     agree_unmerged : the operands do not differ in a field the table does not merge           (class F3-*-dropped)
     quiet          : no clearing statement fires (witness_utxo arriving next to none)         (class F3-witness-utxo-clears-non-witness-utxo)
   Then both merge orders succeed and give the same PSET (field-wise equal values and equal key-value lists). *)
Theorem C14_commutes : forall (id : Type) (id_eqb : id -> id -> bool) (uid : pset -> outcome id) a b x y,
  uid a = Val x -> uid b = Val y -> id_eqb x y = true -> id_eqb y x = true -> pset_pair_ok cur_tables a b ->
  exists c c', merge id_eqb uid a b = Val c /\ merge id_eqb uid b a = Val c' /\ pset_equiv c c'.
Proof. intros. apply (merge_commutes id_eqb uid cur_tables a b x y); auto; vm_compute; reflexivity. Qed.
Theorem C14_descendants_compat : forall o a b, extends o a -> extends o b -> additions_agree o a b -> compat a b.
Proof. exact descendants_compat. Qed.
(* without the `quiet` restriction the statement is false: one descendant added a non_witness_utxo, the other a witness_utxo (disjoint
   additions); merging the second into the first deletes the non_witness_utxo, merging the first into the second keeps both *)
Theorem C14_commutes_refuted : exists a b c c',
  wf_map a /\ wf_map b /\ compat a b /\ agree_unmerged pset_input_merge a b /\
  merge_map_with xpub_take_arm_guarded pset_input_merge a b = Val c /\ merge_map_with xpub_take_arm_guarded pset_input_merge b a = Val c' /\
  unk c (fld "non_witness_utxo") <> unk c' (fld "non_witness_utxo").
Proof.
  exists (set_unk empty_map (fld "non_witness_utxo") (Some [x01])), (set_unk empty_map (fld "witness_utxo") (Some [x02])).
  eexists. eexists. split; [intros f; reflexivity|]. split; [intros f; reflexivity|].
  split. { split; [|cbn; intros; discriminate]. intros f x y. unfold set_unk, empty_map. cbn [unk].
           destruct (bytes_eqb f (fld "non_witness_utxo")) eqn:E; [|discriminate]. apply bytes_eqb_eq in E. subst f. vm_compute. discriminate. }
  split. { intros f. split; [|reflexivity]. intros K. unfold set_unk, empty_map. cbn [unk].
           destruct (bytes_eqb f (fld "non_witness_utxo")) eqn:E; [apply bytes_eqb_eq in E; subst f; vm_compute in K; discriminate K|].
           destruct (bytes_eqb f (fld "witness_utxo")) eqn:E'; [apply bytes_eqb_eq in E'; subst f; vm_compute in K; discriminate K|reflexivity]. }
  split; [vm_compute; reflexivity|]. split; [vm_compute; reflexivity|]. vm_compute. discriminate.
Qed.
(* non-vacuity: two different descendants satisfying every hypothesis of C14_commutes at an input position *)
Example C14_pair_ok_nonvacuous :
  pair_ok pset_input_merge (set_unk empty_map (fld "redeem_script") (Some [x51])) (set_kyd empty_map (fld "partial_sigs") [([x02], [x30])]).
Proof.
  assert (forall cl, policy_of pset_input_merge (fld "redeem_script") <> MP_FirstWinsClearing cl) as NC by (intros cl; vm_compute; discriminate).
  constructor.
  - intros f. reflexivity.
  - intros f. cbn. destruct (bytes_eqb f _); reflexivity.
  - split; cbn; intros; try discriminate.
  - intros f. split.
    + intros K. unfold set_unk, set_kyd, empty_map. cbn [unk kyd].
      destruct (bytes_eqb f (fld "redeem_script")) eqn:E; [apply bytes_eqb_eq in E; subst; vm_compute in K; discriminate|reflexivity].
    + intros K. unfold set_unk, set_kyd, empty_map. cbn [unk kyd].
      destruct (bytes_eqb f (fld "partial_sigs")) eqn:E; [apply bytes_eqb_eq in E; subst; vm_compute in K; discriminate|reflexivity].
  - intros f cl I _. reflexivity.
  - intros f cl I _. unfold set_unk, set_kyd, empty_map. cbn [unk kyd].
    destruct (bytes_eqb f (fld "redeem_script")) eqn:E; [|reflexivity]. apply bytes_eqb_eq in E. subst.
    exfalso. apply (NC cl). apply In_policy_of; [vm_compute; reflexivity|exact I].
Qed.

(* ------------------------------------------------------------------ any order and any grouping of a family *)
(* A family (`pfam`): k >= 1 PSETs of the same shape such that every two members (and every member with itself) satisfy the hypotheses of
   C14_commutes (`pset_pair_ok`: key-sorted, disjoint-or-identical contents as for descendants of a common ancestor — C14_descendants_compat —,
   no difference in an unmerged field [today only mandatory fields and the two output commitments are unmerged], no clearing statement firing [class
   F3-witness-utxo-clears-non-witness-utxo]) and agree on the transaction-identifying fields (`pset_agree`: in particular nobody changed a required
   lock time [class C14-locktime-max-changes-unique-id]), all with unique id x.
   Then EVERY binary merge tree over EVERY permutation of the family succeeds, and any two of them give the same PSET.
   Proof (Proofs/PsetFamily.v): the result of a tree is characterised as the join of its leaves; merging joins gives the join of the
   concatenation; the join of a permuted leaf list is the same map; the join agrees with the leaves on the id fields, so every
   intermediate result passes the gate. *)
Theorem C14_family : forall (id : Type) (id_eqb : id -> id -> bool) (H : tx -> id) (t t' : mtree) (ni no : nat) (x : id),
  Permutation (leaves t) (leaves t') ->
  pfam cur_tables uid_cleared_txin_fields (leaves t) ni no ->
  (forall p, In p (leaves t) -> unique_id H p = Val x) -> id_eqb x x = true ->
  exists c c', eval_tree id_eqb (unique_id H) t = Val c /\ eval_tree id_eqb (unique_id H) t' = Val c' /\ pset_equiv c c'.
Proof.
  intros id id_eqb H t t' ni no x P PF UX XX.
  assert (tables_ok cur_tables = true) as A1 by (vm_compute; reflexivity).
  assert (tables_canonical cur_tables = true) as A2 by (vm_compute; reflexivity).
  assert (tables_no_or cur_tables uid_cleared_txin_fields = true) as A3 by (vm_compute; reflexivity).
  assert (forall p q, pset_agree uid_cleared_txin_fields p q -> unique_id H p = unique_id H q) as HU.
  { intros p q A. unfold unique_id, uid_preimage. now rewrite (uid_preimage_depends _ _ _ p q A). }
  exact (family_merge id_eqb (unique_id H) cur_tables uid_cleared_txin_fields (leaves t) ni no x A1 A2 A3 HU PF UX XX t t' (incl_refl _) P).
Qed.

(* what `pset_agree` (the family hypothesis) constrains at an input: the outpoint, the required lock times and the issuance — NOT the sequence, the final
   script sig / witness, signatures, scripts, derivations or proofs, so descendants that independently added any of those are members of a family.
   (Pinned: if unique_id() stops resetting the sequence or the script_sig, this list grows and the Example fails.) *)
Example C14_family_id_fields : uid_input_fields uid_cleared_txin_fields =
  [F_prev_txid; F_prev_index; F_req_time; F_req_height; F_iss_nonce; F_iss_entropy; F_iss_amount; F_iss_comm; F_iss_keys; F_iss_keys_comm].
Proof. vm_compute. reflexivity. Qed.
(* non-vacuity: three descendants of one ancestor (Proofs/PsetFamily.v: ex_a added a partial signature, ex_b another one, ex_c a key
   derivation; `ex_pfam` shows they form a family) *)
(* (a.b).c, a.(b.c) and (c.a).b all succeed and give the same PSET, for every hash and every reflexive id comparison *)
Example C14_family_three : forall (id : Type) (id_eqb : id -> id -> bool) (H : tx -> id), (forall x, id_eqb x x = true) ->
  exists r1 r2 r3,
    eval_tree id_eqb (unique_id H) (MNode (MNode (MLeaf ex_a) (MLeaf ex_b)) (MLeaf ex_c)) = Val r1 /\
    eval_tree id_eqb (unique_id H) (MNode (MLeaf ex_a) (MNode (MLeaf ex_b) (MLeaf ex_c))) = Val r2 /\
    eval_tree id_eqb (unique_id H) (MNode (MNode (MLeaf ex_c) (MLeaf ex_a)) (MLeaf ex_b)) = Val r3 /\
    pset_equiv r1 r2 /\ pset_equiv r1 r3.
Proof.
  intros id id_eqb H R.
  assert (exists t0, forall p, In p [ex_a; ex_b; ex_c] -> uid_preimage p = Val t0) as [t0 U].
  { eexists. intros p [<-|[<-|[<-|[]]]]; vm_compute; reflexivity. }
  assert (forall p, In p [ex_a; ex_b; ex_c] -> unique_id H p = Val (H t0)) as UX by (intros p Ip; unfold unique_id; now rewrite (U p Ip)).
  destruct (C14_family id id_eqb H (MNode (MNode (MLeaf ex_a) (MLeaf ex_b)) (MLeaf ex_c)) (MNode (MLeaf ex_a) (MNode (MLeaf ex_b) (MLeaf ex_c))) 1 1 (H t0))
    as [r1 [r2 [E1 [E2 Q12]]]]; [apply Permutation_refl|exact ex_pfam|exact UX|apply R|].
  destruct (C14_family id id_eqb H (MNode (MNode (MLeaf ex_a) (MLeaf ex_b)) (MLeaf ex_c)) (MNode (MNode (MLeaf ex_c) (MLeaf ex_a)) (MLeaf ex_b)) 1 1 (H t0))
    as [r1' [r3 [E1' [E3 Q13]]]]; [cbn [leaves app]; apply Permutation_sym, (Permutation_cons_append [ex_a; ex_b] ex_c) |exact ex_pfam|exact UX|apply R|].
  rewrite E1 in E1'. injection E1' as <-. exists r1, r2, r3. auto.
Qed.

(* ------------------------------------------------------------------ the scalar list *)
(* Global::scalars is a Vec<Tweak>; its statements (extend / sort / dedup) are read from the source IN ORDER and executed exactly
   (Model.PsetMerge.vec_merge).  For ANY two scalar lists — unsorted, with repeats, sharing scalars in any positions — the merged list is
   strictly increasing (so no scalar occurs twice and the PSET serialises without a duplicate key), contains exactly the scalars of both,
   and is the same whichever operand is merged into which. *)
Definition scalar_ops : list vec_op := match policy_of pset_global_merge (fld "scalars") with MP_VecOps ops => ops | _ => [] end.
Theorem C14_scalars : forall a b, vals_nil a -> vals_nil b ->
  let r := vec_merge scalar_ops a b in
  al_sorted r = true /\ (forall k, al_mem k r = al_mem k a || al_mem k b) /\ r = vec_merge scalar_ops b a.
Proof. intros a b. apply scalars_merge. vm_compute. reflexivity. Qed.
Example C14_scalars_shared :     (* a = [s1; s2], b = [s2]: the shared scalar ends up non-adjacent when a is merged into b *)
  let s1 := [x01] in let s2 := [x02] in
  vec_merge scalar_ops [(s2, [])] [(s1, []); (s2, [])] = [(s1, []); (s2, [])] /\ vec_merge scalar_ops [(s1, []); (s2, [])] [(s2, [])] = [(s1, []); (s2, [])].
Proof. vm_compute. auto. Qed.

(* ------------------------------------------------------------------ xpub key-source reconciliation *)
(* for every pair of key sources the code does what its comment documents (keep / take the longer / MergeConflict) and never panics;
   v1 is the source arriving from `other`, v2 the one in `self`.  (Before the F2+F4 repair this needed the exclusion of two classes; the
   third test now checks the length before slicing: Gen.Tables.xpub_take_arm_guarded = true.) *)
Theorem C14_xpub : forall v1 v2, reconcile v1 v2 = reconcile_doc v1 v2 /\ reconcile v1 v2 <> XPanic.
Proof.
  intros v1 v2. assert (reconcile v1 v2 = reconcile_doc v1 v2) as E by (apply reconcile_as_documented; reflexivity).
  rewrite E. split; [reflexivity|apply reconcile_doc_no_panic].
Qed.
(* hence merging the xpub maps can only fail with MergeConflict, never panic *)
Example C14_xpub_examples :
  reconcile (repeat x00 8) (repeat x00 12) = XKeep /\ reconcile (repeat x00 12) (repeat x00 8) = XTake
  /\ (* former F2 witness: self [1,2,3], other [9] *)
     reconcile (repeat x00 4 ++ [x09; x00; x00; x00]) (repeat x00 4 ++ [x01; x00; x00; x00; x02; x00; x00; x00; x03; x00; x00; x00]) = XConflict
  /\ (* former F4 witness: equal path, different fingerprint *)
     reconcile ([x01; x01; x01; x01] ++ [x01; x00; x00; x00]) ([x00; x00; x00; x00] ++ [x01; x00; x00; x00]) = XConflict.
Proof. vm_compute. auto. Qed.

Check (C14_gate : forall (id : Type) (id_eqb : id -> id -> bool) (uid : pset -> outcome id) a b,
  (forall x y, uid a = Val x -> uid b = Val y -> id_eqb x y = false -> merge id_eqb uid a b = Fail E_UniqueIdMismatch) /\
  (uid_res_eqb id_eqb (uid a) (uid b) = false -> forall c, merge id_eqb uid a b <> Val c)).
Check (C14_keeps_all : forall (id : Type) (id_eqb : id -> id -> bool) (uid : pset -> outcome id) a b c,
  merge id_eqb uid a b = Val c ->
    kept pset_global_merge (pglobal a) (pglobal b) (pglobal c) /\
    (forall i x y, nth_error (pinputs a) i = Some x -> nth_error (pinputs b) i = Some y ->
        exists z, nth_error (pinputs c) i = Some z /\ kept pset_input_merge x y z) /\
    (forall i x y, nth_error (poutputs a) i = Some x -> nth_error (poutputs b) i = Some y ->
        exists z, nth_error (poutputs c) i = Some z /\ kept pset_output_merge x y z)).
Check (C14_xpub : forall v1 v2, reconcile v1 v2 = reconcile_doc v1 v2 /\ reconcile v1 v2 <> XPanic).
Check (C14_commutes : forall (id : Type) (id_eqb : id -> id -> bool) (uid : pset -> outcome id) a b x y,
  uid a = Val x -> uid b = Val y -> id_eqb x y = true -> id_eqb y x = true -> pset_pair_ok cur_tables a b ->
  exists c c', merge id_eqb uid a b = Val c /\ merge id_eqb uid b a = Val c' /\ pset_equiv c c').
Check (C14_scalars : forall a b, vals_nil a -> vals_nil b ->
  let r := vec_merge scalar_ops a b in
  al_sorted r = true /\ (forall k, al_mem k r = al_mem k a || al_mem k b) /\ r = vec_merge scalar_ops b a).
Check (C14_family : forall (id : Type) (id_eqb : id -> id -> bool) (H : tx -> id) (t t' : mtree) (ni no : nat) (x : id),
  Permutation (leaves t) (leaves t') ->
  pfam cur_tables uid_cleared_txin_fields (leaves t) ni no ->
  (forall p, In p (leaves t) -> unique_id H p = Val x) -> id_eqb x x = true ->
  exists c c', eval_tree id_eqb (unique_id H) t = Val c /\ eval_tree id_eqb (unique_id H) t' = Val c' /\ pset_equiv c c').
Print Assumptions C14_gate.
Print Assumptions C14_family.
Print Assumptions C14_scalars.
Print Assumptions C14_commutes.
Print Assumptions C14_keeps_all.
Print Assumptions C14_xpub.
