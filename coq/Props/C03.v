(* C03 — signature hashes follow the Elements legacy, segwit-v0 and taproot algorithms.  Statements only; proofs in Proofs/Sighash.v.
   Specification: Model/SighashSpec.v (TRUSTED transcription of Elements consensus, on the numeric hash type, with the legacy
   outpoint form as the explicit parameter `legacy_flags_in_index` — open question Q1; the code implements `true`).
   Implementation model: Model/SighashImpl.v (src/sighash.rs: caches, Prevouts discipline, the three pre-image writers, the digests).
   `impl_msg t q` / `impl_digest t q` (Model/SighashQuery.v) are the writer output and the digest of query q on a cache freshly
   created for transaction t.  All theorems are universal over the hash functions `H` (SHA-256) and `Htag` (TapSighash tag),
   the curve-point oracle and MAX_VEC_SIZE; "the digest changes" is stated as collision extraction. *)
From Coq Require Import List NArith Bool.
From Coq.Strings Require Import Byte.
From EV Require Import Base.Bytes Base.Codec Base.Sha256 Gen.Tables Model.Tx Model.SighashImpl Model.SighashCache Model.SighashSpec Model.SighashQuery
  Model.SighashCommit Proofs.SighashCache Proofs.Sighash Proofs.SighashCommit Proofs.SighashCommitTap Proofs.SighashCommitSeg Proofs.SighashCommitAll Proofs.SighashCanon Proofs.Tx Proofs.SighashWitness.
Import ListNotations.
Open Scope N_scope.

Section C03.
Variable pt_ok : bytes -> bool.
Variable maxvec : N.
Variable H : bytes -> bytes.
Variable Htag : bytes -> bytes.
Notation impl_msg := (impl_msg pt_ok maxvec H).
Notation impl_digest := (impl_digest pt_ok maxvec H Htag).

(* ------------------------------------------------ refinement ------------------------------------------------ *)
(* Legacy. For every transaction, every existing input index, every script code and every ECDSA hash type the digest is the
   consensus digest (with the pegin/issuance flag bits inside the serialized outpoint index, Q1 = true) ... *)
Theorem C03_legacy_refines : forall t idx sc ty, (idx < length (tx_in t))%nat ->
  exists d, impl_digest t (OLegacy idx sc ty) = SOk d /\ spec_legacy_digest pt_ok H true t idx sc (ecdsa_u32 ty) = Some d.
Proof. exact (legacy_digest_refines pt_ok maxvec H Htag). Qed.
(* ... where consensus defines a message (everything but SIGHASH_SINGLE without a matching output) the written pre-image is that
   message and the digest its double SHA-256 ... *)
Theorem C03_legacy_refines_message : forall t idx sc ty, (idx < length (tx_in t))%nat -> legacy_single_bug t idx (ecdsa_u32 ty) = false ->
  exists m, spec_legacy_msg pt_ok true t idx sc (ecdsa_u32 ty) = Some m /\
            impl_msg t (OLegacy idx sc ty) = SOk m /\ impl_digest t (OLegacy idx sc ty) = SOk (H (H m)) /\
            spec_legacy_digest pt_ok H true t idx sc (ecdsa_u32 ty) = Some (H (H m)).
Proof. exact (pack_legacy pt_ok maxvec H Htag). Qed.
(* ... and for SIGHASH_SINGLE without a matching output the writer emits the constant 0100..00 and the digest IS that constant, as
   in consensus (finding F17 — the constant was hashed — was repaired by b8dcccb) *)
Theorem C03_legacy_single_out_of_range : forall t idx sc ty, (idx < length (tx_in t))%nat -> legacy_single_bug t idx (ecdsa_u32 ty) = true ->
  impl_msg t (OLegacy idx sc ty) = SOk uint256_one /\ impl_digest t (OLegacy idx sc ty) = SOk uint256_one /\
  spec_legacy_digest pt_ok H true t idx sc (ecdsa_u32 ty) = Some uint256_one /\ spec_legacy_msg pt_ok true t idx sc (ecdsa_u32 ty) = None.
Proof. exact (legacy_single_bug_digests pt_ok maxvec H Htag). Qed.
(* the documented panic: exactly the indices for which consensus defines nothing *)
Theorem C03_legacy_panics_out_of_range : forall t idx sc ty, (length (tx_in t) <= idx)%nat ->
  impl_msg t (OLegacy idx sc ty) = SPanic /\ impl_digest t (OLegacy idx sc ty) = SPanic /\ spec_legacy_digest pt_ok H true t idx sc (ecdsa_u32 ty) = None.
Proof. exact (legacy_oob_panics pt_ok maxvec H Htag). Qed.

(* Segwit v0. Every existing input index, script code, amount, ECDSA type. *)
Theorem C03_segwit_refines : forall t idx sc v ty, (idx < length (tx_in t))%nat ->
  exists m, spec_segwit_msg pt_ok H t idx sc v (ecdsa_u32 ty) = Some m /\
            impl_msg t (OSegwit idx sc v ty) = SOk m /\ impl_digest t (OSegwit idx sc v ty) = SOk (H (H m)) /\
            spec_segwit_digest pt_ok H t idx sc v (ecdsa_u32 ty) = Some (H (H m)).
Proof. exact (pack_segwit pt_ok maxvec H Htag). Qed.
Theorem C03_segwit_panics_out_of_range : forall t idx sc v ty, (length (tx_in t) <= idx)%nat ->
  impl_msg t (OSegwit idx sc v ty) = SPanic /\ impl_digest t (OSegwit idx sc v ty) = SPanic /\ spec_segwit_msg pt_ok H t idx sc v (ecdsa_u32 ty) = None.
Proof. exact (segwit_oob_panics pt_ok maxvec H Htag). Qed.

(* Taproot. Every transaction, every list of spent outputs (one per input), every existing input index, annex (with the 0x50
   prefix) or none, key path or script path with any leaf hash and code-separator position, every one of the seven Schnorr types
   (SIGHASH_SINGLE only with a matching output — otherwise consensus fails), every genesis hash.
   `N.of_nat idx < 2^32`: the code casts the index to u32; transactions with 2^32 inputs do not exist. *)
Theorem C03_taproot_refines : forall t spent idx annex leaf ty g,
  ty <> SReserved -> length spent = length (tx_in t) -> (idx < length (tx_in t))%nat -> annex_valid annex = true ->
  (tap_single ty = true -> (idx < length (tx_out t))%nat) -> N.of_nat idx < 4294967296 ->
  exists m, spec_taproot_msg pt_ok H t spent idx annex leaf (schnorr_u8 ty) g = Some m /\
            impl_msg t (OTaproot idx (PAll spent) annex leaf ty g) = SOk m /\
            impl_digest t (OTaproot idx (PAll spent) annex leaf ty g) = SOk (Htag m) /\
            spec_taproot_digest pt_ok H Htag t spent idx annex leaf (schnorr_u8 ty) g = Some (Htag m).
Proof. exact (pack_taproot pt_ok maxvec H Htag). Qed.
(* the convenience entry points *)
Theorem C03_taproot_entry_points : forall t idx pv lh ty g,
  impl_digest t (OTapKey idx pv ty g) = impl_digest t (OTaproot idx pv None None ty g) /\
  impl_digest t (OTapScript idx pv lh ty g) = impl_digest t (OTaproot idx pv None (Some (lh, 4294967295)) ty g).
Proof. intros. split; reflexivity. Qed.
(* Prevouts::One gives the same message and digest as All for every ANYONECANPAY type (C13) *)
Theorem C03_taproot_refines_one : forall t spent idx o annex leaf ty g,
  schnorr_acp ty = true -> length spent = length (tx_in t) -> nth_error spent idx = Some o ->
  impl_msg t (OTaproot idx (POne idx o) annex leaf ty g) = impl_msg t (OTaproot idx (PAll spent) annex leaf ty g) /\
  impl_digest t (OTaproot idx (POne idx o) annex leaf ty g) = impl_digest t (OTaproot idx (PAll spent) annex leaf ty g).
Proof. exact (pack_taproot_one pt_ok maxvec H Htag). Qed.

(* ------------------------------------------------ uncommitted fields are irrelevant ------------------------------------------------ *)
(* (stated on the specification's messages, for EVERY numeric hash type and either answer to Q1; by the refinement theorems they hold
   of the implementation wherever it is defined) *)
Variable flags : bool.
(* script_sig, script witness, pegin witness never matter — in any of the three algorithms *)
Theorem C03_script_sigs_and_witness_stacks_irrelevant : forall t t', tx_sig_eq t t' ->
  (forall idx sc ht, spec_legacy_msg pt_ok flags t idx sc ht = spec_legacy_msg pt_ok flags t' idx sc ht) /\
  (forall idx sc v ht, spec_segwit_msg pt_ok H t idx sc v ht = spec_segwit_msg pt_ok H t' idx sc v ht) /\
  (forall spent idx annex leaf ht g, spec_taproot_msg pt_ok H t spent idx annex leaf ht g = spec_taproot_msg pt_ok H t' spent idx annex leaf ht g).
Proof. intros t t' E. pose proof (tx_sig_core _ _ E) as C. repeat split; intros.
  - now apply legacy_core. - now apply segwit_core. - now apply taproot_sig. Qed.
(* the same on the IMPLEMENTATION model, also where consensus defines nothing: pre-image, digest, error and panic of every query on a
   fresh cache are independent of script_sig, script witness and pegin witness of all inputs (C13_witness_independent for sequences) *)
Theorem C03_impl_ignores_script_sigs_and_witness_stacks : forall t t' o, tx_sig_eq t t' ->
  impl_msg t o = impl_msg t' o /\ impl_digest t o = impl_digest t' o.
Proof. exact (impl_sig pt_ok maxvec H Htag). Qed.
(* legacy and segwit v0 ignore EVERY witness field: also the issuance range proofs and the output witnesses *)
Theorem C03_legacy_segwit_ignore_all_witnesses : forall t t', tx_core_eq t t' ->
  (forall idx sc ht, spec_legacy_msg pt_ok flags t idx sc ht = spec_legacy_msg pt_ok flags t' idx sc ht) /\
  (forall idx sc v ht, spec_segwit_msg pt_ok H t idx sc v ht = spec_segwit_msg pt_ok H t' idx sc v ht).
Proof. intros t t' C. split; intros; [now apply legacy_core|now apply segwit_core]. Qed.
(* SIGHASH_NONE ignores the outputs *)
Theorem C03_none_ignores_outputs : forall t t', tx_eq_but_outputs t t' ->
  (forall idx sc ht, hash_none ht = true -> spec_legacy_msg pt_ok flags t idx sc ht = spec_legacy_msg pt_ok flags t' idx sc ht) /\
  (forall idx sc v ht, hash_none ht = true -> spec_segwit_msg pt_ok H t idx sc v ht = spec_segwit_msg pt_ok H t' idx sc v ht) /\
  (forall spent idx annex leaf ht g, tap_output_type ht = SIGHASH_NONE ->
     spec_taproot_msg pt_ok H t spent idx annex leaf ht g = spec_taproot_msg pt_ok H t' spent idx annex leaf ht g).
Proof. intros t t' E. repeat split; intros; [now apply legacy_none|now apply segwit_none|now apply taproot_none]. Qed.
(* ANYONECANPAY ignores the other inputs, their number, and (taproot) the other spent outputs *)
Theorem C03_anyonecanpay_ignores_other_inputs : forall idx t t', tx_eq_at_input idx t t' ->
  (forall sc ht, anyone_can_pay ht = true -> spec_legacy_msg pt_ok flags t idx sc ht = spec_legacy_msg pt_ok flags t' idx sc ht) /\
  (forall sc v ht, anyone_can_pay ht = true -> spec_segwit_msg pt_ok H t idx sc v ht = spec_segwit_msg pt_ok H t' idx sc v ht) /\
  (forall spent spent' annex leaf ht g, tap_input_acp ht = true ->
     length spent = length (tx_in t) -> length spent' = length (tx_in t') -> nth_error spent idx = nth_error spent' idx ->
     spec_taproot_msg pt_ok H t spent idx annex leaf ht g = spec_taproot_msg pt_ok H t' spent' idx annex leaf ht g).
Proof. intros idx t t' E. repeat split; intros; [now apply legacy_acp|now apply segwit_acp|now apply taproot_acp]. Qed.
(* SIGHASH_SINGLE ignores the other outputs (and how many follow) *)
Theorem C03_single_ignores_other_outputs : forall idx t t', tx_eq_at_output idx t t' ->
  (forall sc ht, hash_single ht = true -> spec_legacy_msg pt_ok flags t idx sc ht = spec_legacy_msg pt_ok flags t' idx sc ht) /\
  (forall sc v ht, hash_single ht = true -> spec_segwit_msg pt_ok H t idx sc v ht = spec_segwit_msg pt_ok H t' idx sc v ht) /\
  (forall spent annex leaf ht g, tap_output_type ht = SIGHASH_SINGLE ->
     spec_taproot_msg pt_ok H t spent idx annex leaf ht g = spec_taproot_msg pt_ok H t' spent idx annex leaf ht g).
Proof. intros idx t t' E. repeat split; intros; [now apply legacy_single|now apply segwit_single|now apply taproot_single]. Qed.
(* SIGHASH_NONE / SIGHASH_SINGLE under legacy and segwit v0 ignore the sequence numbers of the other inputs (taproot commits to them) *)
Theorem C03_none_single_ignore_other_sequences : forall idx t t', tx_eq_but_other_sequences idx t t' ->
  (forall sc ht, (hash_single ht || hash_none ht) = true -> spec_legacy_msg pt_ok flags t idx sc ht = spec_legacy_msg pt_ok flags t' idx sc ht) /\
  (forall sc v ht, (hash_single ht || hash_none ht) = true -> spec_segwit_msg pt_ok H t idx sc v ht = spec_segwit_msg pt_ok H t' idx sc v ht).
Proof. intros idx t t' E. split; intros; [now apply legacy_other_sequences|now apply segwit_other_sequences]. Qed.

(* ------------------------------------------------ committed fields matter: the exact characterisation ------------------------------------------------ *)
(* `legacy_committed`, `segwit_committed`, `taproot_committed` (Model/SighashCommit.v) list, per algorithm, hash type and input index,
   the in-memory fields the message commits to.  For canonical values (`canon_tx`: what decoding from consensus bytes guarantees) and
   digests that consensus defines:
     SOUND    equal committed views  =>  equal digests                                        (the C03_committed_complete theorems)
     COMPLETE equal digests  =>  equal committed views, or an explicit collision              (the C03_committed_matters theorems)
   i.e. the digest changes whenever any committed field changes, and only then.
   The alternatives besides a collision of H / Htag are preimages of two constants that consensus itself uses as pseudo-hashes:
   the legacy SIGHASH_SINGLE constant 0100..00 and the segwit "no output" zero hash.
   RESIDUAL (segwit v0 only, a property of the consensus format): hashIssuance is a hash over "0x00 or issuance" per input with no
   count or flag; the view therefore carries that concatenation, not the individual issuances (C03_segwit_issuance_concat_ambiguous);
   the individual issuances are determined once it is known which inputs issue (C03_issuances_given_pattern). *)
Hypothesis Hlen : forall x, length (H x) = 32%nat.
Theorem C03_committed_matters_legacy : forall t t' idx idx' sc sc' ht ht' d,
  spec_legacy_digest pt_ok H true t idx sc ht = Some d -> spec_legacy_digest pt_ok H true t' idx' sc' ht' = Some d ->
  canon_tx pt_ok t = true -> canon_tx pt_ok t' = true -> leg_query_ok sc ht = true -> leg_query_ok sc' ht' = true ->
  legacy_committed t idx sc ht = legacy_committed t' idx' sc' ht' \/ Collision H \/ Preimage H uint256_one.
Proof. exact (legacy_digest_sensitive pt_ok H H). Qed.
Theorem C03_committed_matters_segwit : forall t t' idx idx' sc sc' v v' ht ht' d,
  spec_segwit_digest pt_ok H t idx sc v ht = Some d -> spec_segwit_digest pt_ok H t' idx' sc' v' ht' = Some d ->
  canon_tx pt_ok t = true -> canon_tx pt_ok t' = true -> seg_query_ok pt_ok sc v ht = true -> seg_query_ok pt_ok sc' v' ht' = true ->
  segwit_committed pt_ok t idx sc v ht = segwit_committed pt_ok t' idx' sc' v' ht' \/ Collision H \/ Preimage H zero256.
Proof. exact (segwit_digest_sensitive pt_ok H Hlen). Qed.
Theorem C03_committed_matters_taproot : forall t t' spent spent' idx idx' annex annex' leaf leaf' ht ht' g g' d,
  spec_taproot_digest pt_ok H Htag t spent idx annex leaf ht g = Some d -> spec_taproot_digest pt_ok H Htag t' spent' idx' annex' leaf' ht' g' = Some d ->
  canon_tx pt_ok t = true -> canon_tx pt_ok t' = true -> forallb (canon_out pt_ok) spent = true -> forallb (canon_out pt_ok) spent' = true ->
  tap_query_ok g annex leaf idx = true -> tap_query_ok g' annex' leaf' idx' = true ->
  taproot_committed t spent idx annex leaf ht g = taproot_committed t' spent' idx' annex' leaf' ht' g' \/ Collision H \/ Collision Htag.
Proof. exact (taproot_digest_sensitive pt_ok H Htag Hlen). Qed.
(* the legacy message itself is injective on the committed view: no hash is involved *)
Theorem C03_legacy_message_injective : forall t t' idx idx' sc sc' ht ht' m,
  spec_legacy_msg pt_ok true t idx sc ht = Some m -> spec_legacy_msg pt_ok true t' idx' sc' ht' = Some m ->
  canon_tx pt_ok t = true -> canon_tx pt_ok t' = true -> leg_query_ok sc ht = true -> leg_query_ok sc' ht' = true ->
  legacy_committed t idx sc ht = legacy_committed t' idx' sc' ht'.
Proof. exact (SighashCommitLeg.legacy_msg_sensitive pt_ok H). Qed.

Theorem C03_committed_complete_legacy : forall t t' idx idx' sc sc' ht ht' d d',
  spec_legacy_digest pt_ok H true t idx sc ht = Some d -> spec_legacy_digest pt_ok H true t' idx' sc' ht' = Some d' ->
  legacy_committed t idx sc ht = legacy_committed t' idx' sc' ht' -> d = d'.
Proof. exact (legacy_digest_complete pt_ok H H). Qed.
Theorem C03_committed_complete_segwit : forall t t' idx idx' sc sc' v v' ht ht' d d',
  spec_segwit_digest pt_ok H t idx sc v ht = Some d -> spec_segwit_digest pt_ok H t' idx' sc' v' ht' = Some d' ->
  segwit_committed pt_ok t idx sc v ht = segwit_committed pt_ok t' idx' sc' v' ht' -> d = d'.
Proof. exact (segwit_digest_complete pt_ok H). Qed.
Theorem C03_committed_complete_taproot : forall t t' spent spent' idx idx' annex annex' leaf leaf' ht ht' g g' d d',
  spec_taproot_digest pt_ok H Htag t spent idx annex leaf ht g = Some d -> spec_taproot_digest pt_ok H Htag t' spent' idx' annex' leaf' ht' g' = Some d' ->
  taproot_committed t spent idx annex leaf ht g = taproot_committed t' spent' idx' annex' leaf' ht' g' -> d = d'.
Proof. exact (taproot_digest_complete pt_ok H Htag). Qed.
(* the canonicity hypothesis holds of every transaction the consensus decoder returns (C01), for MAX_VEC_SIZE and caps below 2^64 *)
Theorem C03_decoded_transactions_canonical : forall ci co cv bs t, maxvec < BIG -> ci < BIG -> co < BIG ->
  deserialize (c_tx pt_ok maxvec ci co cv) bs = Some t -> canon_tx pt_ok t = true.
Proof. intros ci co cv bs t M Ci Co D. apply (decoded_tx_canonical pt_ok maxvec ci co cv M Ci Co).
  exact (proj2 (deserialize_exact _ (c_tx_lawful pt_ok maxvec ci co cv) bs t D)). Qed.
(* the residual, positively: with the same issuing pattern the concatenation determines every issuance *)
Theorem C03_issuances_given_pattern : forall l l', forallb (canon_in pt_ok) l = true -> forallb (canon_in pt_ok) l' = true ->
  map issuance_null l = map issuance_null l' ->
  concat (map (issuance_or_zero pt_ok) l) = concat (map (issuance_or_zero pt_ok) l') -> map fv_iss_opt l = map fv_iss_opt l'.
Proof. exact (iss_concat_inj pt_ok). Qed.
End C03.

Definition c03_in : txin := {| in_prev := {| o_txid := repeat x11 32; o_vout := 0 |}; in_pegin := false; in_script := []; in_seq := 4294967295;
  in_iss := null_issuance; in_wit := empty_inwit |}.

(* ------------------------------------------------ Q1 and the repository's pinned vector ------------------------------------------------ *)
(* test_legacy_sighashes, last vector: an ISSUING input (index word 0x80000000), SIGHASH_ALL, digest produced by Elements Core.
   The specification reproduces it with legacy_flags_in_index = true and not with false. *)
Definition q1_tx_hex : bytes := "010000000001715df5ccebaf02ff18d6fae7263fa69fed5de59c900f4749556eba41bc7bf2af000000800000000000000000000000000000000000000000000000000000000000000000000000000000000000000000000000000000000000000000000000000000000000000000000100000000000003e801000000000000000a0201230f4f5d4b7c6fa845806ee4f67713459e1b69e8e60fcee2e4940c7a0d5de1b2010000000124101100001f5175517551755175517551755175517551755175517551755175517551755101230f4f5d4b7c6fa845806ee4f67713459e1b69e8e60fcee2e4940c7a0d5de1b2010000000005f5e100000000000000"%lb.
Definition q1_script_hex : bytes := "76a914f54a5851e9372b87810a8e60cdd2e7cfd80b6e3188ac"%lb.
Definition q1_expected_hex : bytes := "9f00e1758a230aaf6c9bce777701a604f50b2ac5f2a07e1cd478d8a0e70fc195"%lb.
Definition q1_digest (flags : bool) : option bytes :=
  match bytes_of_hex q1_tx_hex, bytes_of_hex q1_script_hex with
  | Some txb, Some sc => match deserialize (c_tx (fun _ => true) 4000000 1000 1000 1000) txb with
                         | Some t => spec_legacy_digest (fun _ => true) sha256 flags t 0 sc 1 | None => None end
  | _, _ => None end.
Example C03_Q1_pinned_vector :
  q1_digest true = bytes_of_hex q1_expected_hex /\ q1_digest false <> bytes_of_hex q1_expected_hex /\ q1_digest false <> None.
Proof. vm_compute. repeat split; discriminate. Qed.

(* ------------------------------------------------ non-vacuity ------------------------------------------------ *)
Definition c03_iss_in : txin := {| in_prev := {| o_txid := repeat x22 32; o_vout := 7 |}; in_pegin := true; in_script := [x51]; in_seq := 5;
  in_iss := {| i_nonce := zero32; i_entropy := repeat x44 32; i_amount := VExplicit 1000; i_keys := VNull |};
  in_wit := {| w_amount_rp := None; w_keys_rp := None; w_script := [[x01]]; w_pegin := [] |} |}.
Definition c03_out : txout := {| out_asset := AExplicit (repeat x33 32); out_value := VExplicit 5; out_nonce := NNull; out_script := [x51]; out_wit := empty_outwit |}.
Definition c03_tx : tx := {| tx_version := 2; tx_lock := 0; tx_in := [c03_in; c03_iss_in]; tx_out := [c03_out] |}.
(* the hypotheses of the refinement theorems hold for a two-input transaction with a pegin + issuance input, at both indices,
   for SINGLE (index 0), and all three specifications define a message there *)
Example C03_hypotheses_satisfiable :
  legacy_single_bug c03_tx 1 (ecdsa_u32 EAll) = false /\ legacy_single_bug c03_tx 0 (ecdsa_u32 ESingle) = false /\
  legacy_single_bug c03_tx 1 (ecdsa_u32 ESingle) = true /\
  (tap_single SSingleAcp = true -> (0 < length (tx_out c03_tx))%nat) /\ annex_valid (Some [x50; x01]) = true /\
  spec_taproot_msg (fun _ => true) sha256 c03_tx [c03_out; c03_out] 1 (Some [x50; x01]) (Some (repeat x55 32, 4294967295)) (schnorr_u8 SAllAcp) (repeat x00 32) <> None /\
  spec_segwit_msg (fun _ => true) sha256 c03_tx 1 [x51] (VExplicit 5) (ecdsa_u32 ENoneAcp) <> None.
Proof. vm_compute. repeat split; auto; discriminate. Qed.
(* the irrelevance relations relate genuinely different transactions *)
Example C03_relations_nontrivial :
  tx_sig_eq c03_tx {| tx_version := 2; tx_lock := 0; tx_in := [set_script_witness_in c03_in [[x02; x03]]; c03_iss_in]; tx_out := [c03_out] |} /\
  tx_eq_at_input 1 c03_tx {| tx_version := 2; tx_lock := 0; tx_in := [c03_iss_in; c03_iss_in; c03_in]; tx_out := [c03_out] |} /\
  tx_eq_but_other_sequences 1 c03_tx {| tx_version := 2; tx_lock := 0; tx_in := [set_seq c03_in 77; c03_iss_in]; tx_out := [c03_out] |}.
Proof. unfold tx_sig_eq, tx_eq_at_input, tx_eq_but_other_sequences, in_sig_eq. cbn. repeat split; repeat constructor. Qed.

(* the residual, negatively: two canonical three-input transactions that differ in WHICH of the first two inputs issues (and in the
   issuance), with the same segwit v0 message for the third input under SIGHASH_ALL — for every hash function *)
Definition amb_prev (b : byte) (n : N) : outpoint := {| o_txid := repeat b 32; o_vout := n |}.
Definition amb_in (p : outpoint) (iss : issuance) : txin := {| in_prev := p; in_pegin := false; in_script := []; in_seq := 4294967295; in_iss := iss; in_wit := empty_inwit |}.
Definition amb_I : issuance := {| i_nonce := zero32; i_entropy := zero32; i_amount := VExplicit 7; i_keys := VNull |}.
Definition amb_I' : issuance := {| i_nonce := zero32; i_entropy := zero32; i_amount := VNull; i_keys := VExplicit 7 |}.
Definition amb_tx : tx := {| tx_version := 2; tx_lock := 0; tx_out := [c03_out];
  tx_in := [amb_in (amb_prev x01 0) null_issuance; amb_in (amb_prev x02 1) amb_I; amb_in (amb_prev x03 2) null_issuance] |}.
Definition amb_tx' : tx := {| tx_version := 2; tx_lock := 0; tx_out := [c03_out];
  tx_in := [amb_in (amb_prev x01 0) amb_I'; amb_in (amb_prev x02 1) null_issuance; amb_in (amb_prev x03 2) null_issuance] |}.
Example C03_segwit_issuance_concat_ambiguous : forall H,
  canon_tx (fun _ => true) amb_tx = true /\ canon_tx (fun _ => true) amb_tx' = true /\
  map fv_iss_opt (tx_in amb_tx) <> map fv_iss_opt (tx_in amb_tx') /\
  spec_segwit_msg (fun _ => true) H amb_tx 2 [x51] (VExplicit 5) 1 <> None /\
  spec_segwit_msg (fun _ => true) H amb_tx 2 [x51] (VExplicit 5) 1 = spec_segwit_msg (fun _ => true) H amb_tx' 2 [x51] (VExplicit 5) 1.
Proof. intros H. split; [vm_compute; reflexivity|]. split; [vm_compute; reflexivity|]. split; [vm_compute; discriminate|]. split; [vm_compute; discriminate|].
  vm_compute. reflexivity. Qed.
(* the canonicity hypothesis is satisfiable by a transaction with a pegin + issuance input, and the three views are non-trivial *)
Example C03_canonical_example :
  canon_tx (fun _ => true) c03_tx = true /\ forallb (canon_out (fun _ => true)) [c03_out; c03_out] = true /\
  tap_query_ok (repeat x00 32) (Some [x50; x01]) (Some (repeat x55 32, 4294967295)) 1 = true /\
  length (taproot_committed c03_tx [c03_out; c03_out] 1 (Some [x50; x01]) (Some (repeat x55 32, 4294967295)) 129 (repeat x00 32)) = 19%nat /\
  length (legacy_committed c03_tx 1 [x51] 1) = 5%nat /\ length (segwit_committed (fun _ => true) c03_tx 1 [x51] (VExplicit 5) 1) = 12%nat.
Proof. vm_compute. repeat split; reflexivity. Qed.

Check (C03_legacy_refines : forall pt_ok maxvec H Htag t idx sc ty, (idx < length (tx_in t))%nat ->
  exists d, impl_digest pt_ok maxvec H Htag t (OLegacy idx sc ty) = SOk d /\ spec_legacy_digest pt_ok H true t idx sc (ecdsa_u32 ty) = Some d).
Check (C03_legacy_refines_message : forall pt_ok maxvec H Htag t idx sc ty, (idx < length (tx_in t))%nat -> legacy_single_bug t idx (ecdsa_u32 ty) = false ->
  exists m, spec_legacy_msg pt_ok true t idx sc (ecdsa_u32 ty) = Some m /\
            impl_msg pt_ok maxvec H t (OLegacy idx sc ty) = SOk m /\ impl_digest pt_ok maxvec H Htag t (OLegacy idx sc ty) = SOk (H (H m)) /\
            spec_legacy_digest pt_ok H true t idx sc (ecdsa_u32 ty) = Some (H (H m))).
Check (C03_segwit_refines : forall pt_ok maxvec H Htag t idx sc v ty, (idx < length (tx_in t))%nat ->
  exists m, spec_segwit_msg pt_ok H t idx sc v (ecdsa_u32 ty) = Some m /\
            impl_msg pt_ok maxvec H t (OSegwit idx sc v ty) = SOk m /\ impl_digest pt_ok maxvec H Htag t (OSegwit idx sc v ty) = SOk (H (H m)) /\
            spec_segwit_digest pt_ok H t idx sc v (ecdsa_u32 ty) = Some (H (H m))).
Check (C03_taproot_refines : forall pt_ok maxvec H Htag t spent idx annex leaf ty g,
  ty <> SReserved -> length spent = length (tx_in t) -> (idx < length (tx_in t))%nat -> annex_valid annex = true ->
  (tap_single ty = true -> (idx < length (tx_out t))%nat) -> N.of_nat idx < 4294967296 ->
  exists m, spec_taproot_msg pt_ok H t spent idx annex leaf (schnorr_u8 ty) g = Some m /\
            impl_msg pt_ok maxvec H t (OTaproot idx (PAll spent) annex leaf ty g) = SOk m /\
            impl_digest pt_ok maxvec H Htag t (OTaproot idx (PAll spent) annex leaf ty g) = SOk (Htag m) /\
            spec_taproot_digest pt_ok H Htag t spent idx annex leaf (schnorr_u8 ty) g = Some (Htag m)).
Check (C03_script_sigs_and_witness_stacks_irrelevant : forall pt_ok H flags t t', tx_sig_eq t t' ->
  (forall idx sc ht, spec_legacy_msg pt_ok flags t idx sc ht = spec_legacy_msg pt_ok flags t' idx sc ht) /\
  (forall idx sc v ht, spec_segwit_msg pt_ok H t idx sc v ht = spec_segwit_msg pt_ok H t' idx sc v ht) /\
  (forall spent idx annex leaf ht g, spec_taproot_msg pt_ok H t spent idx annex leaf ht g = spec_taproot_msg pt_ok H t' spent idx annex leaf ht g)).
Check (C03_anyonecanpay_ignores_other_inputs : forall pt_ok H flags idx t t', tx_eq_at_input idx t t' ->
  (forall sc ht, anyone_can_pay ht = true -> spec_legacy_msg pt_ok flags t idx sc ht = spec_legacy_msg pt_ok flags t' idx sc ht) /\
  (forall sc v ht, anyone_can_pay ht = true -> spec_segwit_msg pt_ok H t idx sc v ht = spec_segwit_msg pt_ok H t' idx sc v ht) /\
  (forall spent spent' annex leaf ht g, tap_input_acp ht = true ->
     length spent = length (tx_in t) -> length spent' = length (tx_in t') -> nth_error spent idx = nth_error spent' idx ->
     spec_taproot_msg pt_ok H t spent idx annex leaf ht g = spec_taproot_msg pt_ok H t' spent' idx annex leaf ht g)).
Check (C03_taproot_refines_one : forall pt_ok maxvec H Htag t spent idx o annex leaf ty g,
  schnorr_acp ty = true -> length spent = length (tx_in t) -> nth_error spent idx = Some o ->
  impl_msg pt_ok maxvec H t (OTaproot idx (POne idx o) annex leaf ty g) = impl_msg pt_ok maxvec H t (OTaproot idx (PAll spent) annex leaf ty g) /\
  impl_digest pt_ok maxvec H Htag t (OTaproot idx (POne idx o) annex leaf ty g) = impl_digest pt_ok maxvec H Htag t (OTaproot idx (PAll spent) annex leaf ty g)).
Check (C03_committed_matters_taproot : forall pt_ok H Htag, (forall x, length (H x) = 32%nat) -> forall t t' spent spent' idx idx' annex annex' leaf leaf' ht ht' g g' d,
  spec_taproot_digest pt_ok H Htag t spent idx annex leaf ht g = Some d -> spec_taproot_digest pt_ok H Htag t' spent' idx' annex' leaf' ht' g' = Some d ->
  canon_tx pt_ok t = true -> canon_tx pt_ok t' = true -> forallb (canon_out pt_ok) spent = true -> forallb (canon_out pt_ok) spent' = true ->
  tap_query_ok g annex leaf idx = true -> tap_query_ok g' annex' leaf' idx' = true ->
  taproot_committed t spent idx annex leaf ht g = taproot_committed t' spent' idx' annex' leaf' ht' g' \/ Collision H \/ Collision Htag).
Check (C03_committed_matters_segwit : forall pt_ok H, (forall x, length (H x) = 32%nat) -> forall t t' idx idx' sc sc' v v' ht ht' d,
  spec_segwit_digest pt_ok H t idx sc v ht = Some d -> spec_segwit_digest pt_ok H t' idx' sc' v' ht' = Some d ->
  canon_tx pt_ok t = true -> canon_tx pt_ok t' = true -> seg_query_ok pt_ok sc v ht = true -> seg_query_ok pt_ok sc' v' ht' = true ->
  segwit_committed pt_ok t idx sc v ht = segwit_committed pt_ok t' idx' sc' v' ht' \/ Collision H \/ Preimage H zero256).
Check (C03_committed_matters_legacy : forall pt_ok H t t' idx idx' sc sc' ht ht' d,
  spec_legacy_digest pt_ok H true t idx sc ht = Some d -> spec_legacy_digest pt_ok H true t' idx' sc' ht' = Some d ->
  canon_tx pt_ok t = true -> canon_tx pt_ok t' = true -> leg_query_ok sc ht = true -> leg_query_ok sc' ht' = true ->
  legacy_committed t idx sc ht = legacy_committed t' idx' sc' ht' \/ Collision H \/ Preimage H uint256_one).
Check (C03_committed_complete_taproot : forall pt_ok H Htag t t' spent spent' idx idx' annex annex' leaf leaf' ht ht' g g' d d',
  spec_taproot_digest pt_ok H Htag t spent idx annex leaf ht g = Some d -> spec_taproot_digest pt_ok H Htag t' spent' idx' annex' leaf' ht' g' = Some d' ->
  taproot_committed t spent idx annex leaf ht g = taproot_committed t' spent' idx' annex' leaf' ht' g' -> d = d').
Print Assumptions C03_legacy_refines.
Print Assumptions C03_segwit_refines.
Print Assumptions C03_taproot_refines.
Print Assumptions C03_committed_matters_taproot.
Print Assumptions C03_committed_matters_legacy.
Print Assumptions C03_committed_complete_taproot.
Print Assumptions C03_legacy_single_out_of_range.
