(* C03 — placeholder while the proofs are being written *)
From EV Require Import Model.SighashSpec Model.SighashQuery.
Theorem C03_placeholder : True. Proof. exact I. Qed.
