(* C05 — amount verification rejects every tampered or unbalanced transaction.
   LEVEL: proof IN THE IDEAL-COMMITMENT MODEL (Model/Ideal.v) — partial with respect to cryptography, exactly as C04: the
   soundness and binding of range and surjection proofs is built into the ideal objects, not derived from libsecp256k1-zkp.
   What is proved is the logic of Transaction::verify_tx_amt_proofs (src/blind.rs, with repair b3b2d40) — its checks, their order,
   the balance equation and what it implies. Only statements; proofs live in Proofs/Verify.v and Proofs/Tamper.v. *)
From Coq Require Import List NArith ZArith Bool Lia.
From Coq.Strings Require Import Byte.
From EV Require Import Base.Bytes Base.Zn Base.FreeMod Model.Script Model.Ideal Model.Verify Model.Blind Model.Tamper
  Proofs.Ideal Proofs.Verify Proofs.Blind Proofs.Tamper Props.C04
  Gen.SrcExact Model.ExactProofs Proofs.ExactProofs.
Import ListNotations.
Open Scope Z_scope.

(* acceptance => the outputs have openings (asset, amount < 2^64; a skipped output — explicit zero amount on a provably unspendable
   script — is opened by zero) that balance per asset AS INTEGERS against the opened inputs and explicit issuances, and every
   confidential output carries a range proof and a surjection proof made for exactly that output (commitment, script,
   generator / generator, domain). The two size hypotheses (#entries * 2^64 < n) are what
   turns the balance modulo the group order into an integer balance. *)
Theorem C05_sound : forall (T : tx) (spent : list txout) (ss : list secrets),
  verify_tx_amt_proofs T spent = OVal tt -> opens (t_in T) spent ss ->
  Forall (fun s => u64 (s_value s)) ss -> Forall (fun o => forall v, o_value o = VExp v -> u64 v) (t_out T) ->
  Z.of_nat (length ss) * 2 ^ 64 < qn -> Z.of_nat (length (t_out T)) * 2 ^ 64 < qn ->
  exists dom coms ocoms os,
    verify_inputs (t_in T) spent 0 = OVal (dom, coms) /\ verify_outputs dom (t_out T) 0 = OVal ocoms
    /\ Forall2 (fun oc s => out_opened_step (fst oc) (snd oc) s) (combine (t_out T) ocoms) os /\ length os = length (t_out T)
    /\ Forall (fun s => u64 (s_value s)) os
    /\ (forall b, asset_total b ss = asset_total b os)
    /\ Forall (fun o => skipped o = false -> proofs_for dom o) (t_out T).
Proof. exact verify_sound. Qed.

(* from an accepted transaction whose spent outputs are opened, EVERY tamper of the property's list (Model/Tamper.v), at
   EVERY applicable position, that changes the content, is rejected *)
Theorem C05_tamper : forall (T : tx) (spent : list txout) (ss : list secrets) (t : tamper),
  verify_tx_amt_proofs T spent = OVal tt -> opens (t_in T) spent ss ->
  Forall (fun o => forall v, o_value o = VExp v -> 0 <= v < qn) (t_out T) ->
  applicable t (T, spent) = true -> changes t (T, spent) = true ->
  verify_tx_amt_proofs (fst (apply t (T, spent))) (snd (apply t (T, spent))) <> OVal tt.
Proof. exact tamper_rejected. Qed.

(* an all-explicit transaction is accepted exactly when the spent list has the right length, zero amounts occur only on provably
   unspendable scripts, and every asset balances as integers — the property's own characterisation (repair b3b2d40 of finding
   F13: `Err(TxOutError::ZeroValueCommitment) => continue` in the output loop) *)
Theorem C05_explicit_iff : forall (T : tx) (spent : list txout),
  all_explicit T spent ->
  Z.of_nat (length (input_secrets (t_in T) spent)) * 2 ^ 64 < qn -> Z.of_nat (length (t_out T)) * 2 ^ 64 < qn ->
  (verify_tx_amt_proofs T spent = OVal tt <->
   length spent = length (t_in T) /\ zero_value_rule T
   /\ forall b, asset_total b (input_secrets (t_in T) spent) = explicit_out_total b (t_out T)).
Proof. exact explicit_iff. Qed.
(* what the repaired loop does with an explicit zero amount, exactly: on a provably unspendable script (OP_RETURN, over-long, or the
   empty fee script) the output is SKIPPED — nothing is pushed and nothing on it (asset, proofs) is looked at; on a SPENDABLE script
   it is still REJECTED, because get_value_commit answers NonUnspendableZeroValue for it, which is reported (as SpentTxOutError).
   The unspendable-script rule is thus enforced inside get_value_commit, not by the loop. *)
Theorem C05_zero_value_unspendable_skipped : forall dom k o,
  o_value o = VExp 0 -> is_provably_unspendable (o_script o) = true -> verify_output_step dom k o = OVal None.
Proof. intros dom k o V U. unfold verify_output_step. now rewrite (zero_value_unspendable_skipped o V U). Qed.
Theorem C05_zero_value_spendable_rejected : forall dom k o,
  o_value o = VExp 0 -> is_provably_unspendable (o_script o) = false ->
  verify_output_step dom k o = OFail (SpentTxOutError k NonUnspendableZeroValue).
Proof. exact zero_value_spendable_rejected. Qed.

Theorem C05_len_mismatch : forall T spent, length spent <> length (t_in T) -> verify_tx_amt_proofs T spent = OFail UtxoInputLenMismatch.
Proof. exact verify_len_mismatch. Qed.

(* the former F13 witness — a balanced all-explicit transaction with a zero-amount OP_RETURN output — is now accepted;
   the same transaction with the zero amount on a spendable script is rejected *)
Definition f13_tx : tx :=
  mkTx [mkIn null_issuance]
       [mkOut (AExp 1) (VExp 99) NNull (p2wpkh x01) None None;
        mkOut (AExp 1) (VExp 0) NNull [x6a; x01; xaa] None None;
        mkOut (AExp 1) (VExp 1) NNull [] None None].
Definition f13_spent : list txout := [mkOut (AExp 1) (VExp 100) NNull [x51] None None].
Example C05_zero_opreturn_accepted :
  all_explicit f13_tx f13_spent /\ zero_value_rule f13_tx /\ verify_tx_amt_proofs f13_tx f13_spent = OVal tt
  /\ verify_tx_amt_proofs (mkTx (t_in f13_tx) (upd (t_out f13_tx) 1 (set_script (p2wpkh x07)))) f13_spent
     = OFail (SpentTxOutError 1 NonUnspendableZeroValue).
Proof.
  split; [|split; [|split]].
  - split; [|split].
    + repeat constructor. exists 1%N, 100. repeat split; reflexivity.
    + repeat constructor; left; reflexivity.
    + repeat constructor; eexists _, _; (split; [reflexivity|]); (split; [reflexivity|]); split; try reflexivity; discriminate.
  - repeat constructor; intro H; try discriminate H; vm_compute; reflexivity.
  - vm_compute. reflexivity.
  - vm_compute. reflexivity.
Qed.

(* ------------------------------------------------------------------ non-vacuity: the blinded transaction of C04's example
   verifies, satisfies the hypotheses of C05_tamper, and concrete tampers of every kind are applicable, change it and are
   rejected with the error variant the code reports *)
Definition ex_blinded : tx := match blind ex_pubk ex_ecdh Debug ex_rnd ex_ss ex_tx with OVal (t', _) => t' | _ => ex_tx end.
Definition verdict_of (t : tamper) := let x := apply t (ex_blinded, ex_spent) in verify_tx_amt_proofs (fst x) (snd x).
Example C05_example_accepts : verify_tx_amt_proofs ex_blinded ex_spent = OVal tt.
Proof. vm_compute. reflexivity. Qed.
Example C05_example_hypotheses :
  opens (t_in ex_blinded) ex_spent ex_ss /\ Forall (fun o => forall v, o_value o = VExp v -> 0 <= v < qn) (t_out ex_blinded).
Proof.
  split; [exact (proj1 (proj2 (proj2 C04_example_hypotheses)))|].
  apply explicit_amounts_in_range_ok. vm_compute. reflexivity.
Qed.
Example C05_example_tampers :
  forallb (fun t => applicable t (ex_blinded, ex_spent) && changes t (ex_blinded, ex_spent))
    [TOutValue 1 (VExp 40); TOutAsset 1 (AExp 2); TOutValue 0 (VConf (commit 61 (asset_gen 1 21) 22)); TOutAsset 0 (AConf (asset_gen 1 5));
     TSwapValue 0 3; TSwapAsset 0 3; TRemoveRp 0; TSwapRp 0 3; TCorruptRp 4; TRemoveSp 3; TSwapSp 3 4; TCorruptSp 0;
     TScript 0 (p2wpkh x09); TIssuance 1 IssAmount (VExp 31); TSpentValue 0 (VExp 101); TSpentValue 1 (VConf (commit 51 (asset_gen 2 5) 7));
     TSpentAsset 0 (AExp 2); TSpentAsset 1 (AConf (asset_gen 2 6))] = true
  /\ verdict_of (TOutValue 1 (VExp 40)) = OFail BalanceCheckFailed
  /\ verdict_of (TOutValue 0 (VConf (commit 61 (asset_gen 1 21) 22))) = OFail (RangeProofError 0)
  /\ verdict_of (TRemoveRp 0) = OFail (RangeProofMissing 0)
  /\ verdict_of (TSwapSp 3 4) = OFail (SurjectionProofVerificationError 3)
  /\ verdict_of (TRemoveSp 3) = OFail (SurjectionProofMissing 3)
  /\ verdict_of (TIssuance 1 IssAmount (VExp 31)) = OFail BalanceCheckFailed
  /\ verdict_of (TSpentAsset 1 (AConf (asset_gen 2 6))) = OFail (SurjectionProofVerificationError 0).
Proof. vm_compute. repeat split; reflexivity. Qed.
(* and a balanced all-explicit transaction that is accepted *)
Example C05_example_explicit :
  let T := mkTx [mkIn null_issuance] [mkOut (AExp 1) (VExp 99) NNull (p2wpkh x01) None None; mkOut (AExp 1) (VExp 1) NNull [] None None] in
  verify_tx_amt_proofs T f13_spent = OVal tt.
Proof. vm_compute. reflexivity. Qed.

(* ---- exact-value / exact-asset proofs of PSET explicit fields (BlindValueProofs, BlindAssetProofs; Model/ExactProofs.v).
   bvp_verify's acceptance condition is src_bvp_accept of Gen/SrcExact.v, TRANSLATED from src/blind.rs on every run. *)
(* accepted => the commitment opens to EXACTLY the claimed value on the given generator, and the proof's stated range is that single value *)
Theorem C05_exact_value_sound : forall (rr : rrproof) (v : N) (gen c : gel),
  bvp_verify rr v gen c = true ->
  geq c (commit (Z.of_N v) gen (rp_vbf (rr_rp rr))) /\ rp_value (rr_rp rr) = Z.of_N v /\ rr_min rr = Z.of_N v /\ rr_max rr = Z.of_N v.
Proof. exact bvp_sound. Qed.
(* a proof that states more than one value is refused whatever is claimed — in particular every proof made with exponent 0
   (all output range proofs), even when its minimum IS the claimed value *)
Theorem C05_exact_value_wide_refused : forall (rr : rrproof) (v : N) (gen c : gel), rr_min rr < rr_max rr -> bvp_verify rr v gen c = false.
Proof. exact bvp_wide_refused. Qed.
Theorem C05_exact_value_exp0_refused : forall m b c value vbf msg key gen rr v' gen' c',
  m <> U64_MAX -> rr_new m c value vbf msg [] key 0 b gen = Some rr -> bvp_verify rr v' gen' c' = false.
Proof. exact wide_proof_refused. Qed.
Theorem C05_exact_value_other_refused : forall (rr : rrproof) (v : N) (gen c : gel), rp_value (rr_rp rr) <> Z.of_N v -> bvp_verify rr v gen c = false.
Proof. exact bvp_other_value_refused. Qed.
(* the genuine proof is accepted; the condition's u64 subtraction never goes below zero *)
Theorem C05_exact_value_complete : forall v gen vbf, 0 <= v <= U64_MAX ->
  exists rr, bvp_new v (commit v gen vbf) gen vbf = Some rr /\ bvp_verify rr (Z.to_N v) gen (commit v gen vbf) = true.
Proof. exact bvp_complete. Qed.
Theorem C05_exact_value_no_panic : forall rr v gen c, bvp_verify_safe rr v gen c = true.
Proof. exact bvp_no_panic. Qed.
(* the range a prover states always contains the value it proves (exponents -1 and 0) *)
Theorem C05_prover_range_contains : forall m e b v lo hi, prove_range m e b v = Some (lo, hi) -> lo <= v <= hi.
Proof. exact prove_range_contains. Qed.
(* exact-asset proofs: accepted => the generator is the asset's generator plus a multiple of G; names one asset; genuine accepted *)
Theorem C05_exact_asset_sound : forall sp a g, bap_verify sp a g = true -> geq g (asset_gen a (sp_diff sp)).
Proof. exact bap_sound. Qed.
Theorem C05_exact_asset_binds : forall sp a b g, bap_verify sp a g = true -> bap_verify sp b g = true -> a = b.
Proof. exact bap_binds. Qed.
Theorem C05_exact_asset_complete : forall a abf, exists sp, bap_new a abf = Some sp /\ bap_verify sp a (asset_gen a abf) = true.
Proof. exact bap_complete. Qed.
(* the exact-value clause of C09 (Model/PsetBlind.v blind_value_proof_verify) IS the translated condition on the proofs blind_value_proof makes *)
Theorem C05_exact_value_is_pset_clause : forall rp v gen c, 0 <= v <= U64_MAX ->
  bvp_verify (mkRR rp (rp_value rp) (rp_value rp)) (Z.to_N v) gen c = PsetBlind.blind_value_proof_verify rp v gen c.
Proof. exact bvp_verify_is_pset_clause. Qed.
(* non-vacuity: a proof over [1000, 1000 + 2^16) for the committed value 1500 is made, verifies as a range proof, and is refused as an
   exact proof for 1000 (its minimum), for 1500 (its value) and for anything else *)
Example C05_example_wide :
  match rr_new 1000 (commit 1500 (gH 7) 9) 1500 9 (0%N, 0) [] 0 0 16 (gH 7) with
  | Some rr => (rr_verify rr (commit 1500 (gH 7) 9) [] (gH 7), bvp_verify rr 1000 (gH 7) (commit 1500 (gH 7) 9), bvp_verify rr 1500 (gH 7) (commit 1500 (gH 7) 9))
  | None => (None, true, true) end = (Some (1000%N, 66536%N), false, false).
Proof. vm_compute. reflexivity. Qed.

Check (C05_sound : forall (T : tx) (spent : list txout) (ss : list secrets),
  verify_tx_amt_proofs T spent = OVal tt -> opens (t_in T) spent ss ->
  Forall (fun s => u64 (s_value s)) ss -> Forall (fun o => forall v, o_value o = VExp v -> u64 v) (t_out T) ->
  Z.of_nat (length ss) * 2 ^ 64 < qn -> Z.of_nat (length (t_out T)) * 2 ^ 64 < qn ->
  exists dom coms ocoms os,
    verify_inputs (t_in T) spent 0 = OVal (dom, coms) /\ verify_outputs dom (t_out T) 0 = OVal ocoms
    /\ Forall2 (fun oc s => out_opened_step (fst oc) (snd oc) s) (combine (t_out T) ocoms) os /\ length os = length (t_out T)
    /\ Forall (fun s => u64 (s_value s)) os
    /\ (forall b, asset_total b ss = asset_total b os)
    /\ Forall (fun o => skipped o = false -> proofs_for dom o) (t_out T)).
Check (C05_tamper : forall (T : tx) (spent : list txout) (ss : list secrets) (t : tamper),
  verify_tx_amt_proofs T spent = OVal tt -> opens (t_in T) spent ss ->
  Forall (fun o => forall v, o_value o = VExp v -> 0 <= v < qn) (t_out T) ->
  applicable t (T, spent) = true -> changes t (T, spent) = true ->
  verify_tx_amt_proofs (fst (apply t (T, spent))) (snd (apply t (T, spent))) <> OVal tt).
Check (C05_explicit_iff : forall (T : tx) (spent : list txout),
  all_explicit T spent ->
  Z.of_nat (length (input_secrets (t_in T) spent)) * 2 ^ 64 < qn -> Z.of_nat (length (t_out T)) * 2 ^ 64 < qn ->
  (verify_tx_amt_proofs T spent = OVal tt <->
   length spent = length (t_in T) /\ zero_value_rule T
   /\ forall b, asset_total b (input_secrets (t_in T) spent) = explicit_out_total b (t_out T))).
Check (C05_len_mismatch : forall T spent, length spent <> length (t_in T) -> verify_tx_amt_proofs T spent = OFail UtxoInputLenMismatch).
Print Assumptions C05_sound.
Print Assumptions C05_tamper.
Print Assumptions C05_explicit_iff.
Print Assumptions C05_len_mismatch.
Print Assumptions C05_zero_value_unspendable_skipped.
Print Assumptions C05_zero_value_spendable_rejected.
Check (C05_exact_value_sound : forall (rr : rrproof) (v : N) (gen c : gel),
  bvp_verify rr v gen c = true ->
  geq c (commit (Z.of_N v) gen (rp_vbf (rr_rp rr))) /\ rp_value (rr_rp rr) = Z.of_N v /\ rr_min rr = Z.of_N v /\ rr_max rr = Z.of_N v).
Check (C05_exact_value_wide_refused : forall (rr : rrproof) (v : N) (gen c : gel), rr_min rr < rr_max rr -> bvp_verify rr v gen c = false).
Check (C05_exact_asset_binds : forall sp a b g, bap_verify sp a g = true -> bap_verify sp b g = true -> a = b).
Print Assumptions C05_exact_value_sound.
Print Assumptions C05_exact_value_wide_refused.
Print Assumptions C05_exact_value_exp0_refused.
Print Assumptions C05_exact_value_complete.
Print Assumptions C05_exact_asset_sound.
Print Assumptions C05_exact_value_is_pset_clause.
