(* C05 — placeholder while the correspondence is brought up *)
From Coq Require Import List ZArith.
From EV Require Import Model.Ideal Model.Verify Proofs.Verify.
Theorem C05_len_mismatch : forall T spent, length spent <> length (t_in T) -> verify_tx_amt_proofs T spent = OFail UtxoInputLenMismatch.
Proof. exact verify_len_mismatch. Qed.
Print Assumptions C05_len_mismatch.
