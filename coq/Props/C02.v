(* C02 — transaction and block ids are the consensus hashes and ignore witness data. Statements only (proofs: Proofs/Ids.v).
   H is the double-SHA256, universally quantified; "changes" is stated as collision extraction. *)
From Coq Require Import List NArith Bool.
From Coq.Strings Require Import Byte.
From EV Require Import Base.Bytes Base.Codec Model.Tx Model.Block Model.Ids Proofs.Ids.
From EV Require Gen.SrcPreds Proofs.SrcPreds.
Import ListNotations.
Open Scope N_scope.

Section C02.
Variable H : bytes -> bytes.
Variable pt_ok : bytes -> bool.
Variables maxvec cap_txin cap_txout cap_vecu8 cap_tx : N.
Notation TX := (c_tx pt_ok maxvec cap_txin cap_txout cap_vecu8).
Notation HD := (c_header maxvec cap_vecu8).
Notation txid := (txid H pt_ok maxvec cap_txin cap_txout).
Notation wtxid := (wtxid H pt_ok maxvec cap_txin cap_txout cap_vecu8).
Notation block_hash := (block_hash H maxvec cap_vecu8).
Notation Collision := (exists a b : bytes, a <> b /\ H a = H b).

(* the txid pre-image assembled by the code (version, zero flag, inputs, outputs, lock time) IS the serialization of the witness-stripped transaction *)
Theorem C02_txid_is_stripped : forall t, txid t = H (enc TX (strip_tx t)).
Proof. intros t. unfold Ids.txid. now rewrite (txid_is_stripped pt_ok maxvec cap_txin cap_txout cap_vecu8). Qed.
Theorem C02_wtxid_is_full : forall t, wtxid t = H (enc TX t).
Proof. reflexivity. Qed.
Theorem C02_witness_irrelevant : forall t t', strip_tx t = strip_tx t' -> txid t = txid t'.
Proof. exact (witness_irrelevant H pt_ok maxvec cap_txin cap_txout cap_vecu8). Qed.
Theorem C02_nonwitness_commits : forall t t', wf TX t = true -> wf TX t' = true -> txid t = txid t' -> strip_tx t = strip_tx t' \/ Collision.
Proof. exact (nonwitness_commits H pt_ok maxvec cap_txin cap_txout cap_vecu8). Qed.
Theorem C02_wtxid_eq_txid : forall t, wf TX t = true ->
  (has_witness t = false -> wtxid t = txid t) /\ (wtxid t = txid t -> has_witness t = false \/ Collision).
Proof. exact (wtxid_eq_txid H pt_ok maxvec cap_txin cap_txout cap_vecu8). Qed.
(* the same with Transaction::has_witness AS TRANSLATED FROM THE SOURCE on every run (Gen/SrcPreds.v) *)
Theorem C02_wtxid_eq_txid_src : forall t, wf TX t = true ->
  (SrcPreds.src_Transaction_has_witness t = false -> wtxid t = txid t) /\ (wtxid t = txid t -> SrcPreds.src_Transaction_has_witness t = false \/ Collision).
Proof. intros t W. rewrite SrcPreds.src_has_witness. now apply C02_wtxid_eq_txid. Qed.

(* block hash: the pre-image is the header serialization without the solution / signblock witness *)
Theorem C02_blockhash_preimage : forall h, h_version h < 2147483648 ->
  block_hash h = H (block_hash_preimage maxvec cap_vecu8 h) /\ enc HD (clear_witness h) = block_hash_preimage maxvec cap_vecu8 h ++ [x00].
Proof. intros h Hv. split; [reflexivity|]. now apply header_enc_clear. Qed.
Theorem C02_blockhash_dynafed_bit : forall h, exists rest, block_hash_preimage maxvec cap_vecu8 h =
  enc c_u32 (if ext_is_dynafed (h_ext h) then N.lor (h_version h) 2147483648 else h_version h) ++ rest.
Proof. exact (preimage_version maxvec cap_vecu8). Qed.
Theorem C02_blockhash_witness_irrelevant : forall h h', clear_witness h = clear_witness h' -> block_hash h = block_hash h'.
Proof. intros h h' E. rewrite <- (block_hash_clear H maxvec cap_vecu8 h), <- (block_hash_clear H maxvec cap_vecu8 h'). now rewrite E. Qed.
Theorem C02_blockhash_commits : forall h h', wf HD h = true -> wf HD h' = true -> block_hash h = block_hash h' -> clear_witness h = clear_witness h' \/ Collision.
Proof. exact (block_hash_commits H pt_ok maxvec cap_vecu8). Qed.
End C02.

Check (C02_nonwitness_commits : forall H pt_ok maxvec cap_txin cap_txout cap_vecu8 t t',
  wf (c_tx pt_ok maxvec cap_txin cap_txout cap_vecu8) t = true -> wf (c_tx pt_ok maxvec cap_txin cap_txout cap_vecu8) t' = true ->
  txid H pt_ok maxvec cap_txin cap_txout t = txid H pt_ok maxvec cap_txin cap_txout t' -> strip_tx t = strip_tx t' \/ (exists a b : bytes, a <> b /\ H a = H b)).
