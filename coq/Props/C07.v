(* C07 — PSET serialization round-trips and re-serialization is a fixpoint.  Statements only; proofs in Proofs/PsetRaw.v,
   Proofs/PsetMaps.v (generic, over any field table), Proofs/PsetValues.v (value canonisers), Proofs/PsetTables.v (the tables
   GENERATED from src/pset/map/*.rs), Base/Base64.v.

   A decoded PSET is (global map, input maps, output maps); a map is the list of its entries (field index, canonical key
   bytes, canonical value bytes) in `get_pairs` emission order (Model/PsetMaps.v).  `wf_pset` is the format's own list of
   acceptance rules: entries in emission order without repeated keys, every key/value a fixed point of its field's
   canoniser and within MAX_VEC_SIZE, every key routed to its own field, the checks of the three `impl Decodable`
   (mandatory fields, version = 2, output completeness), declared counts = number of maps <= 10 000.
   All theorems hold for every oracle (curve points, public keys, x-only keys, the four
   preimage hashes, the two taproot hashes), every MAX_VEC_SIZE in [4, 2^64 - 2] and every element cap. *)
From Coq Require Import List NArith Bool.
From Coq.Strings Require Import Byte.
From EV Require Import Base.Bytes Base.Codec Base.Base64 Gen.Tables Model.BtcTx Model.Taproot Model.PsetRaw Model.PsetMaps Model.PsetValues Model.PsetTables.
From EV Require Import Proofs.BtcTx Proofs.PsetRaw Proofs.PsetMaps Proofs.PsetValues Proofs.PsetTables.
Import ListNotations.
Open Scope N_scope.

(* ---- the tie to the source: the tables regenerated from the Rust text are consistent (same constant on the emitting and the
   parsing side of every field, every field reachable through its own key, every type name known, the magic bytes).  A changed constant or a dropped field changes these tables. *)
Theorem C07_tables_consistent : forall maxvec c1 c2 c3 c4 o1 o2 o3 h1 h2 h3 h4 h5 h6,
  tables_ok maxvec c1 c2 c3 c4 o1 o2 o3 h1 h2 h3 h4 h5 h6 = true.
Proof. intros. vm_compute. reflexivity. Qed.

Section C07.
Variable maxvec : N.
Hypothesis Hmax : maxvec + 1 < 2 ^ 64.
Hypothesis Hmin : 4 <= maxvec.
Variables cap_txin cap_txout cap_vecu8 cap_h32 : N.
Variables pt_ok pk_ok xonly_ok : bytes -> bool.
Variables Hrip Hsha Hh160 Hh256 : bytes -> bytes.
Variables Hleaf Hbranch : bytes -> bytes.

Notation SER := (pset_serialize maxvec cap_txin cap_txout cap_vecu8 cap_h32 pt_ok pk_ok xonly_ok Hrip Hsha Hh160 Hh256 Hleaf Hbranch).
Notation DESER := (pset_deserialize maxvec cap_txin cap_txout cap_vecu8 cap_h32 pt_ok pk_ok xonly_ok Hrip Hsha Hh160 Hh256 Hleaf Hbranch).
Notation WF := (wf_pset_c maxvec cap_txin cap_txout cap_vecu8 cap_h32 pt_ok pk_ok xonly_ok Hrip Hsha Hh160 Hh256 Hleaf Hbranch).
Notation EQUIV := (pset_equiv maxvec Hleaf Hbranch).
Notation TG := (Tg maxvec cap_txin cap_txout cap_vecu8 cap_h32 pt_ok pk_ok xonly_ok Hrip Hsha Hh160 Hh256 Hleaf Hbranch).
Notation TI := (Ti maxvec cap_txin cap_txout cap_vecu8 cap_h32 pt_ok pk_ok xonly_ok Hrip Hsha Hh160 Hh256 Hleaf Hbranch).
Notation TO := (To maxvec cap_txin cap_txout cap_vecu8 cap_h32 pt_ok pk_ok xonly_ok Hrip Hsha Hh160 Hh256 Hleaf Hbranch).
Notation POSTG := (postg maxvec cap_txin cap_txout cap_vecu8 cap_h32 pt_ok pk_ok xonly_ok Hrip Hsha Hh160 Hh256 Hleaf Hbranch).
Notation POSTI := (posti maxvec cap_txin cap_txout cap_vecu8 cap_h32 pt_ok pk_ok xonly_ok Hrip Hsha Hh160 Hh256 Hleaf Hbranch).
Notation POSTO := (posto maxvec cap_txin cap_txout cap_vecu8 cap_h32 pt_ok pk_ok xonly_ok Hrip Hsha Hh160 Hh256 Hleaf Hbranch).
Notation VCANON := (vcanon maxvec cap_txin cap_txout cap_vecu8 cap_h32 pt_ok pk_ok xonly_ok Hrip Hsha Hh160 Hh256 Hleaf Hbranch).

(* ---- every field of the three regenerated tables is reachable: the key get_pairs writes for it (plain type byte, or 0xFC with
   prefix "pset" and its subtype) is routed back to the same field by the decoder's dispatch, whatever the key data ---- *)
Theorem C07_fields_reachable : forall T, In T [TG; TI; TO] -> forall i r k v, nth_error T i = Some r ->
  (exists t, r_addr r = APlain t) \/ (exists s, r_addr r = APset s) ->
  classify maxvec T (mk_key maxvec T (i, k, v)) = POk (i, k).
Proof. intros T H i r k v R A. apply (field_reachable maxvec Hmax Hmin T) with (r := r); [|exact R|exact A]. destruct H as [E|[E|[E|[]]]]; subst T; vm_compute; reflexivity. Qed.

(* ---- every well-formed PSET serializes to bytes that deserialize to the same PSET ---- *)
Theorem C07_rt : forall p, WF p -> DESER (SER p) = POk p.
Proof. exact (rt_c maxvec Hmax Hmin cap_txin cap_txout cap_vecu8 cap_h32 pt_ok pk_ok xonly_ok Hrip Hsha Hh160 Hh256 Hleaf Hbranch). Qed.
(* the serialize -> send -> deserialize hop between two blinders (C09's `hop`) is the identity on every well-formed PSET: this IS C07_rt;
   notes/C07.md lists which C07 fields carry the data C09's model keeps in a PSET *)
Theorem C07_hop_identity : forall p, WF p -> DESER (SER p) = POk p.
Proof. exact C07_rt. Qed.
(* ---- and to base64 text that parses to the same PSET ---- *)
Theorem C07_rt_text : forall p, WF p ->
  from_str maxvec cap_txin cap_txout cap_vecu8 cap_h32 pt_ok pk_ok xonly_ok Hrip Hsha Hh160 Hh256 Hleaf Hbranch
    (to_string maxvec cap_txin cap_txout cap_vecu8 cap_h32 pt_ok pk_ok xonly_ok Hrip Hsha Hh160 Hh256 Hleaf Hbranch p) = POk p.
Proof. exact (rt_text_c maxvec Hmax Hmin cap_txin cap_txout cap_vecu8 cap_h32 pt_ok pk_ok xonly_ok Hrip Hsha Hh160 Hh256 Hleaf Hbranch). Qed.
Theorem C07_base64 : forall bs, b64_dec (b64_enc bs) = Some bs.
Proof. exact b64_roundtrip. Qed.

(* ---- what the decoder accepts is well-formed: all acceptance rules hold of its output ---- *)
Theorem C07_decoder_wf : forall bs p, DESER bs = POk p -> WF p.
Proof. exact (deserialize_wf_c maxvec Hmax Hmin cap_txin cap_txout cap_vecu8 cap_h32 pt_ok pk_ok xonly_ok Hrip Hsha Hh160 Hh256 Hleaf Hbranch). Qed.
(* ---- for EVERY accepted byte string, decode-then-encode gives a canonical byte string that decodes to an equal PSET and
   re-encodes to itself (no exception class since fix aee9a45; the former refutation C07_taptree_fixpoint_refuted is gone) ---- *)
Theorem C07_fixpoint : forall bs p, DESER bs = POk p ->
  let c := SER p in exists p', DESER c = POk p' /\ EQUIV p' p /\ SER p' = c.
Proof. exact (fixpoint_full_c maxvec Hmax Hmin cap_txin cap_txout cap_vecu8 cap_h32 pt_ok pk_ok xonly_ok Hrip Hsha Hh160 Hh256 Hleaf Hbranch). Qed.
(* the laws of the value canonisers the fixpoint rests on: idempotent and never lengthening, for every type; for TapTree
   (through the C15 builder model and its completeness theorem) Deserialize then Serialize is the identity on accepted bytes *)
Theorem C07_canon_idempotent : forall t k v c, VCANON t k v = POk c -> VCANON t k c = POk c.
Proof. exact (vcanon_idem maxvec cap_txin cap_txout cap_vecu8 cap_h32 pt_ok pk_ok xonly_ok Hrip Hsha Hh160 Hh256 Hleaf Hbranch). Qed.
Theorem C07_canon_size : forall t k v c, VCANON t k v = POk c -> (length c <= length v)%nat.
Proof. exact (vcanon_size maxvec cap_txin cap_txout cap_vecu8 cap_h32 pt_ok pk_ok xonly_ok Hrip Hsha Hh160 Hh256 Hleaf Hbranch). Qed.
Theorem C07_taptree_identity : forall v c, canon_taptree maxvec Hleaf Hbranch v = POk c -> c = v.
Proof. exact (taptree_id maxvec Hleaf Hbranch). Qed.
(* commitments and generators are exactly 33 bytes (fix 838e50c) *)
Theorem C07_commitment_length : forall k v c, (VCANON TyPedersen k v = POk c \/ VCANON TyGenerator k v = POk c) -> c = v /\ length v = 33%nat.
Proof. exact (commitment_length maxvec cap_txin cap_txout cap_vecu8 cap_h32 pt_ok pk_ok xonly_ok Hrip Hsha Hh160 Hh256 Hleaf Hbranch). Qed.

(* ---- rejections ---- *)
(* duplicate keys: in any map (any field table T), an encoding in which the same raw key occurs twice is rejected, provided the key
   does not address a field assigned without the is_none() test (KOptLast) — and no field of the three regenerated tables is
   such a field any more (fix f6f7db3; C07_no_unchecked_assignment), so C07_rejects_duplicate_tables has no side condition *)
Theorem C07_rejects_duplicate : forall (T : table) fuel (a : list rpair) key v1 (b : list rpair) v2 tail m i kd r,
  Forall (fits maxvec) a -> fits maxvec (key, v1) -> Forall (fits maxvec) b -> fits maxvec (key, v2) ->
  classify maxvec T key = POk (i, kd) -> nth_error T i = Some r -> r_kind r <> KOptLast ->
  exists e, dec_entries maxvec T fuel (enc_pairs maxvec a ++ enc_pair maxvec (key, v1) ++ enc_pairs maxvec b ++ enc_pair maxvec (key, v2) ++ tail) m = PErr e.
Proof. intros T. exact (dup_rejected maxvec Hmax T). Qed.
Theorem C07_rejects_duplicate_any : forall (T : table) fuel (a : list rpair) key v1 (b : list rpair) v2 tail m,
  Forall (fits maxvec) a -> fits maxvec (key, v1) -> Forall (fits maxvec) b -> fits maxvec (key, v2) ->
  (forall i kd r, classify maxvec T key = POk (i, kd) -> nth_error T i = Some r -> r_kind r <> KOptLast) ->
  exists e, dec_entries maxvec T fuel (enc_pairs maxvec a ++ enc_pair maxvec (key, v1) ++ enc_pairs maxvec b ++ enc_pair maxvec (key, v2) ++ tail) m = PErr e.
Proof. intros T. exact (dup_rejected_any maxvec Hmax T). Qed.
Theorem C07_no_unchecked_assignment : forall T, In T [TG; TI; TO] -> forall i r, nth_error T i = Some r -> r_kind r <> KOptLast.
Proof. intros T H i r. apply no_optlast_row. destruct H as [E|[E|[E|[]]]]; subst T; vm_compute; reflexivity. Qed.
Theorem C07_rejects_duplicate_tables : forall T, In T [TG; TI; TO] -> forall fuel (a : list rpair) key v1 (b : list rpair) v2 tail m,
  Forall (fits maxvec) a -> fits maxvec (key, v1) -> Forall (fits maxvec) b -> fits maxvec (key, v2) ->
  exists e, dec_entries maxvec T fuel (enc_pairs maxvec a ++ enc_pair maxvec (key, v1) ++ enc_pairs maxvec b ++ enc_pair maxvec (key, v2) ++ tail) m = PErr e.
Proof. intros T H fuel a key v1 b v2 tail m Fa F1 Fb F2. apply (C07_rejects_duplicate_any T); auto. intros i kd r _ R. now apply (C07_no_unchecked_assignment T H i r). Qed.
(* missing mandatory fields: an accepted map has every mandatory field of its table (global: tx version, counts, version = 2;
   input: previous txid and index; output: script and the four completeness rules, which are `posto`) *)
Theorem C07_rejects_missing_global : forall bs m rest, dec_map maxvec TG POSTG bs = POk (m, rest) ->
  missing TG m = false /\ get_opt m (idx C07_GLOBAL_FIELDS (blit_of "ver"%lb)) = Some two_le.
Proof. exact (missing_g maxvec cap_txin cap_txout cap_vecu8 cap_h32 pt_ok pk_ok xonly_ok Hrip Hsha Hh160 Hh256 Hleaf Hbranch). Qed.
Theorem C07_rejects_missing_input : forall bs m rest, dec_map maxvec TI POSTI bs = POk (m, rest) -> missing TI m = false.
Proof. exact (missing_i maxvec cap_txin cap_txout cap_vecu8 cap_h32 pt_ok pk_ok xonly_ok Hrip Hsha Hh160 Hh256 Hleaf Hbranch). Qed.
Theorem C07_rejects_missing_output : forall bs m rest, dec_map maxvec TO POSTO bs = POk (m, rest) -> missing TO m = false /\ POSTO m = None.
Proof. exact (missing_o maxvec cap_txin cap_txout cap_vecu8 cap_h32 pt_ok pk_ok xonly_ok Hrip Hsha Hh160 Hh256 Hleaf Hbranch). Qed.
(* inconsistent counts: whatever is accepted has declared counts equal to the number of maps, and nothing after the last map *)
Theorem C07_rejects_count : forall bs p, DESER bs = POk p -> sanity_check n_inputs n_outputs p = true.
Proof. exact (counts_c maxvec Hmax Hmin cap_txin cap_txout cap_vecu8 cap_h32 pt_ok pk_ok xonly_ok Hrip Hsha Hh160 Hh256 Hleaf Hbranch). Qed.
(* ... and conversely: a byte string made of the magic, a global map and k further maps — ANY pairs, only well-framed — is accepted only
   if k = declared inputs + declared outputs; so whenever the counts the global map declares differ from the number of maps present
   (too few: the decoder runs into the end of the data; too many: bytes are left over) the byte string is rejected *)
Theorem C07_rejects_count_converse : forall (gps : list rpair) (ms : list (list rpair)) p, Forall (fits maxvec) gps -> Forall (Forall (fits maxvec)) ms ->
  DESER (magic ++ enc_rawmap maxvec gps ++ concat (map (enc_rawmap maxvec) ms)) = POk p ->
  N.of_nat (length ms) = n_inputs (p_global p) + n_outputs (p_global p).
Proof. exact (framed_count_c maxvec Hmax Hmin cap_txin cap_txout cap_vecu8 cap_h32 pt_ok pk_ok xonly_ok Hrip Hsha Hh160 Hh256 Hleaf Hbranch). Qed.
Theorem C07_count_mismatch_rejected : forall (gps : list rpair) (ms : list (list rpair)) g r, Forall (fits maxvec) gps -> Forall (Forall (fits maxvec)) ms ->
  dec_map maxvec TG POSTG (enc_rawmap maxvec gps ++ concat (map (enc_rawmap maxvec) ms)) = POk (g, r) ->
  N.of_nat (length ms) <> n_inputs g + n_outputs g ->
  exists e, DESER (magic ++ enc_rawmap maxvec gps ++ concat (map (enc_rawmap maxvec) ms)) = PErr e.
Proof. exact (count_mismatch_rejected maxvec Hmax Hmin cap_txin cap_txout cap_vecu8 cap_h32 pt_ok pk_ok xonly_ok Hrip Hsha Hh160 Hh256 Hleaf Hbranch). Qed.
(* invalid hash preimages *)
Theorem C07_rejects_preimage : forall k v, Hsha v <> k -> VCANON TyPreSha k v = PErr EPreimage.
Proof. intros k v H. exact (preimage_rejects Hsha k v H). Qed.
Theorem C07_rejects_preimage_all : forall k v,
  (Hrip v <> k -> VCANON TyPreRip k v = PErr EPreimage) /\ (Hh160 v <> k -> VCANON TyPreH160 k v = PErr EPreimage) /\ (Hh256 v <> k -> VCANON TyPreH256 k v = PErr EPreimage).
Proof. intros k v. repeat split; intros H; [exact (preimage_rejects Hrip k v H)|exact (preimage_rejects Hh160 k v H)|exact (preimage_rejects Hh256 k v H)]. Qed.

(* ---- ELIP-100 / ELIP-102 accessors: BTreeMap::insert then BTreeMap::get on the proprietary map of any table; other keys are
   untouched; and (C07_rt) a well-formed PSET carrying the metadata decodes back to itself, hence to the same answer ---- *)
Theorem C07_elip : forall (T : table) m i k v, get_key (set_keyed T m i k v) i k = Some v.
Proof. intros T. exact (get_set T). Qed.
Theorem C07_elip_other : forall (T : table) m i k v i' k', (i', k') <> (i, k) -> get_key (set_keyed T m i k v) i' k' = get_key m i' k'.
Proof. intros T. exact (get_set_other T). Qed.
(* metadata set through the accessors on ANY well-formed PSET gives a well-formed PSET (MAX_VEC_SIZE >= 16 so that the prefixed keys fit), hence
   survives serialization: no assumption on the result *)
Section ELIP.
Hypothesis Hmin16 : 16 <= maxvec.
Notation ADD_ASSET := (add_asset_metadata maxvec cap_txin cap_txout cap_vecu8 cap_h32 pt_ok pk_ok xonly_ok Hrip Hsha Hh160 Hh256 Hleaf Hbranch).
Notation ADD_TOKEN := (add_token_metadata maxvec cap_txin cap_txout cap_vecu8 cap_h32 pt_ok pk_ok xonly_ok Hrip Hsha Hh160 Hh256 Hleaf Hbranch).
Notation SET_ABF_IN := (set_abf_input maxvec cap_txin cap_txout cap_vecu8 cap_h32 pt_ok pk_ok xonly_ok Hrip Hsha Hh160 Hh256 Hleaf Hbranch).
Notation SET_ABF_OUT := (set_abf_output maxvec cap_txin cap_txout cap_vecu8 cap_h32 pt_ok pk_ok xonly_ok Hrip Hsha Hh160 Hh256 Hleaf Hbranch).
Theorem C07_elip_asset_wf : forall p asset value, WF p ->
  fitsb maxvec (hww_key maxvec C07_PSBT_ELEMENTS_HWW_GLOBAL_ASSET_METADATA asset) = true -> fitsb maxvec value = true -> WF (ADD_ASSET p asset value).
Proof. intros p asset value W Fk Fv. apply (set_global_prop_wf maxvec Hmax Hmin); auto. now apply (hww_foreign maxvec Hmax Hmin16). Qed.
Theorem C07_elip_token_wf : forall p token value, WF p ->
  fitsb maxvec (hww_key maxvec C07_PSBT_ELEMENTS_HWW_GLOBAL_REISSUANCE_TOKEN token) = true -> fitsb maxvec value = true -> WF (ADD_TOKEN p token value).
Proof. intros p token value W Fk Fv. apply (set_global_prop_wf maxvec Hmax Hmin); auto. now apply (hww_foreign maxvec Hmax Hmin16). Qed.
Theorem C07_elip_abf_wf : forall p n abf, WF p -> fitsb maxvec abf = true -> WF (SET_ABF_IN p n abf) /\ WF (SET_ABF_OUT p n abf).
Proof. intros p n abf W Fv. split; [apply (set_input_prop_wf maxvec Hmax Hmin)|apply (set_output_prop_wf maxvec Hmax Hmin)]; auto;
  solve [eapply liquidex_fits; eassumption | eapply liquidex_foreign; eassumption]. Qed.
Theorem C07_elip_survives : forall p asset value, WF p ->
  fitsb maxvec (hww_key maxvec C07_PSBT_ELEMENTS_HWW_GLOBAL_ASSET_METADATA asset) = true -> fitsb maxvec value = true ->
  let p' := ADD_ASSET p asset value in
  get_asset_metadata maxvec p' asset = Some value /\ exists q, DESER (SER p') = POk q /\ get_asset_metadata maxvec q asset = Some value.
Proof. intros p asset value W Fk Fv p'. assert (G : get_asset_metadata maxvec p' asset = Some value) by apply (get_set TG).
  split; [exact G|]. exists p'. split; [apply C07_rt; now apply C07_elip_asset_wf|exact G]. Qed.
Theorem C07_elip_token_survives : forall p token value, WF p ->
  fitsb maxvec (hww_key maxvec C07_PSBT_ELEMENTS_HWW_GLOBAL_REISSUANCE_TOKEN token) = true -> fitsb maxvec value = true ->
  let p' := ADD_TOKEN p token value in
  get_token_metadata maxvec p' token = Some value /\ exists q, DESER (SER p') = POk q /\ get_token_metadata maxvec q token = Some value.
Proof. intros p token value W Fk Fv p'. assert (G : get_token_metadata maxvec p' token = Some value) by apply (get_set TG).
  split; [exact G|]. exists p'. split; [apply C07_rt; now apply C07_elip_token_wf|exact G]. Qed.
Theorem C07_elip_abf_survives : forall p n abf m, WF p -> fitsb maxvec abf = true -> nth_error (p_inputs p) n = Some m ->
  let p' := SET_ABF_IN p n abf in
  get_abf_input maxvec p' n = Some abf /\ exists q, DESER (SER p') = POk q /\ get_abf_input maxvec q n = Some abf.
Proof. intros p n abf m W Fv Hn p'.
  assert (G : get_abf_input maxvec p' n = Some abf). { unfold get_abf_input, p', set_abf_input, set_input_prop. cbn [p_inputs]. rewrite (nth_upd_nth _ _ _ _ Hn). apply (get_set TI). }
  split; [exact G|]. exists p'. split; [apply C07_rt; now apply C07_elip_abf_wf|exact G]. Qed.
End ELIP.

(* ---- the peg-in transaction: bitcoin::Transaction is a concrete codec (no oracle), exact / canonical / complete ---- *)
Theorem C07_btctx_lawful : Lawful (c_btctx maxvec).
Proof. exact (c_btctx_lawful maxvec). Qed.
End C07.

(* ================================================================ witnesses (kernel evaluation on concrete byte strings) *)
Definition no (_ : bytes) : bool := false.
Definition nohash (_ : bytes) : bytes := [].
(* the witnesses need no preimage field; the taproot hashes are instantiated with the identity (the free hash: equal roots under
   it are equal under every hash) so that no executable SHA-256 (primitive integers) enters a theorem *)
Definition tapleaf : bytes -> bytes := fun b => b.
Definition tapbranch : bytes -> bytes := fun b => b.
Definition deser0 := pset_deserialize 4000000 1000 1000 1000 1000 no no no nohash nohash nohash nohash tapleaf tapbranch.
Definition ser0 := pset_serialize 4000000 1000 1000 1000 1000 no no no nohash nohash nohash nohash tapleaf tapbranch.
Definition hx (s : blit) : bytes := match bytes_of_hex s with Some b => b | None => [] end.

(* regression witnesses of the three repaired findings, evaluated by the kernel on the regenerated tables:
   F9  (aee9a45) a PSET with one output carrying a two-leaf tap tree (leaves c0/51, c0/52 at depth 1) now re-encodes to itself;
   F17 (f6f7db3) two pairs with the key fc 04 "pset" 01 (global elements tx-modifiable flag) are a DuplicateKey error;
   F18 (838e50c) an output whose asset commitment value has 32 or 34 bytes is rejected. *)
Definition f9_input : bytes := hx "70736574ff01020402000000010401000105010101fb04020000000001060801c0015101c00152010308010000000000000007fc04707365740220aaaaaaaaaaaaaaaaaaaaaaaaaaaaaaaaaaaaaaaaaaaaaaaaaaaaaaaaaaaaaaaa01040000"%lb.
Example C07_two_leaf_taptree_fixpoint : match deser0 f9_input with POk p => bytes_eqb (ser0 p) f9_input | PErr _ => false end = true.
Proof. vm_compute. reflexivity. Qed.
Definition f17_input : bytes := hx "70736574ff01020402000000010401000105010001fb040200000007fc047073657401010107fc047073657401010700"%lb.
Example C07_dup_global_flag_rejected : deser0 f17_input = PErr EDup.
Proof. vm_compute. reflexivity. Qed.
Definition is_err {A} (x : pres A) : bool := match x with PErr _ => true | POk _ => false end.
Definition gen32 : blit := blit_of "0a0101010101010101010101010101010101010101010101010101010101010101"%lb.
Example C07_commitment_length_rejected :
  is_err (vcanon 4000000 1000 1000 1000 1000 (fun _ => true) no no nohash nohash nohash nohash tapleaf tapbranch TyGenerator [] (firstn 32 (hx gen32))) = true /\
  is_err (vcanon 4000000 1000 1000 1000 1000 (fun _ => true) no no nohash nohash nohash nohash tapleaf tapbranch TyGenerator [] (hx gen32 ++ [x00])) = true /\
  is_err (vcanon 4000000 1000 1000 1000 1000 (fun _ => true) no no nohash nohash nohash nohash tapleaf tapbranch TyGenerator [] (hx gen32)) = false.
Proof. vm_compute. repeat split; reflexivity. Qed.

(* non-vacuity: a real PSET (one explicit output; produced by the crate) is accepted, re-encodes to itself and satisfies every
   clause of wf_pset *)
Definition sample_input : bytes := hx "70736574ff01020402000000010401000105010101fb040200000000010308475040c078cbeb9c07fc04707365740220a8221e8c3a22f07be8223603424494cba390d8ce15ddf33fde6a968e4b585cd40104017400"%lb.
Definition sample_check : bool :=
  match deser0 sample_input with
  | POk p => bytes_eqb (ser0 p) sample_input && Nat.eqb (length (p_outputs p)) 1
  | PErr _ => false end.
Example C07_sample_wf : exists p, deser0 sample_input = POk p /\ ser0 p = sample_input /\
  wf_pset_c 4000000 1000 1000 1000 1000 no no no nohash nohash nohash nohash tapleaf tapbranch p.
Proof. assert (E : sample_check = true) by (vm_compute; reflexivity). unfold sample_check in E.
  destruct (deser0 sample_input) as [p|] eqn:D; [|discriminate]. exists p. split; [reflexivity|].
  apply andb_true_iff in E as [E _]. split; [now apply bytes_eqb_true|].
  exact (C07_decoder_wf 4000000 ltac:(vm_compute; reflexivity) ltac:(vm_compute; discriminate) _ _ _ _ _ _ _ _ _ _ _ _ _ sample_input p D). Qed.

Check (C07_rt : forall maxvec, maxvec + 1 < 2 ^ 64 -> 4 <= maxvec -> forall c1 c2 c3 c4 o1 o2 o3 h1 h2 h3 h4 h5 h6 p,
  wf_pset_c maxvec c1 c2 c3 c4 o1 o2 o3 h1 h2 h3 h4 h5 h6 p ->
  pset_deserialize maxvec c1 c2 c3 c4 o1 o2 o3 h1 h2 h3 h4 h5 h6 (pset_serialize maxvec c1 c2 c3 c4 o1 o2 o3 h1 h2 h3 h4 h5 h6 p) = POk p).
Check (C07_fixpoint : forall maxvec, maxvec + 1 < 2 ^ 64 -> 4 <= maxvec -> forall c1 c2 c3 c4 o1 o2 o3 h1 h2 h3 h4 h5 h6 bs p,
  pset_deserialize maxvec c1 c2 c3 c4 o1 o2 o3 h1 h2 h3 h4 h5 h6 bs = POk p ->
  let c := pset_serialize maxvec c1 c2 c3 c4 o1 o2 o3 h1 h2 h3 h4 h5 h6 p in
  exists p', pset_deserialize maxvec c1 c2 c3 c4 o1 o2 o3 h1 h2 h3 h4 h5 h6 c = POk p' /\ pset_equiv maxvec h5 h6 p' p /\
             pset_serialize maxvec c1 c2 c3 c4 o1 o2 o3 h1 h2 h3 h4 h5 h6 p' = c).
Check (C07_rejects_count : forall maxvec, maxvec + 1 < 2 ^ 64 -> 4 <= maxvec -> forall c1 c2 c3 c4 o1 o2 o3 h1 h2 h3 h4 h5 h6 bs p,
  pset_deserialize maxvec c1 c2 c3 c4 o1 o2 o3 h1 h2 h3 h4 h5 h6 bs = POk p -> sanity_check n_inputs n_outputs p = true).
