(* placeholder while the pipeline is brought up *)
From EV Require Import Base.Bytes Model.PsetRaw Model.PsetMaps Proofs.PsetMaps.
Theorem C07_placeholder : True. Proof. exact I. Qed.
