(* C07 — PSET serialization round-trips and re-serialization is a fixpoint.  Statements only; proofs in Proofs/PsetRaw.v,
   Proofs/PsetMaps.v (generic, over any field table), Proofs/PsetValues.v (value canonisers), Proofs/PsetTables.v (the tables
   GENERATED from src/pset/map/*.rs), Base/Base64.v.

   A decoded PSET is (global map, input maps, output maps); a map is the list of its entries (field index, canonical key
   bytes, canonical value bytes) in `get_pairs` emission order (Model/PsetMaps.v).  `wf_pset` is the format's own list of
   acceptance rules: entries in emission order without repeated keys, every key/value a fixed point of its field's
   canoniser and within MAX_VEC_SIZE, every key routed to its own field, the checks of the three `impl Decodable`
   (mandatory fields, version = 2, output completeness), declared counts = number of maps <= 10 000.
   All theorems hold for every oracle (curve points, public keys, x-only keys, bitcoin transactions, xpubs, the four
   preimage hashes, the two taproot hashes), every MAX_VEC_SIZE in [4, 2^64 - 2] and every element cap. *)
From Coq Require Import List NArith Bool.
From Coq.Strings Require Import Byte.
From EV Require Import Base.Bytes Base.Codec Base.Base64 Gen.Tables Model.Taproot Model.PsetRaw Model.PsetMaps Model.PsetValues Model.PsetTables.
From EV Require Import Proofs.PsetRaw Proofs.PsetMaps Proofs.PsetValues Proofs.PsetTables.
Import ListNotations.
Open Scope N_scope.

(* ---- the tie to the source: the tables regenerated from the Rust text are consistent (same constant on the emitting and the
   parsing side of every field, every field reachable through its own key, every type name known, the magic bytes, TapTree
   only as the value of the output field tap_tree).  A changed constant or a dropped field changes these tables. *)
Theorem C07_tables_consistent : forall maxvec c1 c2 c3 c4 o1 o2 o3 o4 o5 h1 h2 h3 h4 h5 h6,
  tables_ok maxvec c1 c2 c3 c4 o1 o2 o3 o4 o5 h1 h2 h3 h4 h5 h6 = true.
Proof. intros. vm_compute. reflexivity. Qed.
Theorem C07_taptree_only : taptree_only = true.
Proof. vm_compute. reflexivity. Qed.

Section C07.
Variable maxvec : N.
Hypothesis Hmax : maxvec + 1 < 2 ^ 64.
Hypothesis Hmin : 4 <= maxvec.
Variables cap_txin cap_txout cap_vecu8 cap_h32 : N.
Variables pt_ok pk_ok xonly_ok btctx_ok xpub_ok : bytes -> bool.
Variables Hrip Hsha Hh160 Hh256 : bytes -> bytes.
Variables Hleaf Hbranch : bytes -> bytes.

Notation SER := (pset_serialize maxvec cap_txin cap_txout cap_vecu8 cap_h32 pt_ok pk_ok xonly_ok btctx_ok xpub_ok Hrip Hsha Hh160 Hh256 Hleaf Hbranch).
Notation DESER := (pset_deserialize maxvec cap_txin cap_txout cap_vecu8 cap_h32 pt_ok pk_ok xonly_ok btctx_ok xpub_ok Hrip Hsha Hh160 Hh256 Hleaf Hbranch).
Notation WF := (wf_pset_c maxvec cap_txin cap_txout cap_vecu8 cap_h32 pt_ok pk_ok xonly_ok btctx_ok xpub_ok Hrip Hsha Hh160 Hh256 Hleaf Hbranch).
Notation STABLE := (taptrees_stable maxvec cap_txin cap_txout cap_vecu8 cap_h32 pt_ok pk_ok xonly_ok btctx_ok xpub_ok Hrip Hsha Hh160 Hh256 Hleaf Hbranch).
Notation EQUIV := (pset_equiv maxvec Hleaf Hbranch).
Notation TG := (Tg maxvec cap_txin cap_txout cap_vecu8 cap_h32 pt_ok pk_ok xonly_ok btctx_ok xpub_ok Hrip Hsha Hh160 Hh256 Hleaf Hbranch).
Notation TI := (Ti maxvec cap_txin cap_txout cap_vecu8 cap_h32 pt_ok pk_ok xonly_ok btctx_ok xpub_ok Hrip Hsha Hh160 Hh256 Hleaf Hbranch).
Notation TO := (To maxvec cap_txin cap_txout cap_vecu8 cap_h32 pt_ok pk_ok xonly_ok btctx_ok xpub_ok Hrip Hsha Hh160 Hh256 Hleaf Hbranch).
Notation POSTG := (postg maxvec cap_txin cap_txout cap_vecu8 cap_h32 pt_ok pk_ok xonly_ok btctx_ok xpub_ok Hrip Hsha Hh160 Hh256 Hleaf Hbranch).
Notation POSTI := (posti maxvec cap_txin cap_txout cap_vecu8 cap_h32 pt_ok pk_ok xonly_ok btctx_ok xpub_ok Hrip Hsha Hh160 Hh256 Hleaf Hbranch).
Notation POSTO := (posto maxvec cap_txin cap_txout cap_vecu8 cap_h32 pt_ok pk_ok xonly_ok btctx_ok xpub_ok Hrip Hsha Hh160 Hh256 Hleaf Hbranch).
Notation VCANON := (vcanon maxvec cap_txin cap_txout cap_vecu8 cap_h32 pt_ok pk_ok xonly_ok btctx_ok xpub_ok Hrip Hsha Hh160 Hh256 Hleaf Hbranch).

(* ---- every field of the three regenerated tables is reachable: the key get_pairs writes for it (plain type byte, or 0xFC with
   prefix "pset" and its subtype) is routed back to the same field by the decoder's dispatch, whatever the key data ---- *)
Theorem C07_fields_reachable : forall T, In T [TG; TI; TO] -> forall i r k v, nth_error T i = Some r ->
  (exists t, r_addr r = APlain t) \/ (exists s, r_addr r = APset s) ->
  classify maxvec T (mk_key maxvec T (i, k, v)) = POk (i, k).
Proof. intros T H i r k v R A. apply (field_reachable maxvec Hmax Hmin T) with (r := r); [|exact R|exact A]. destruct H as [E|[E|[E|[]]]]; subst T; vm_compute; reflexivity. Qed.

(* ---- every well-formed PSET serializes to bytes that deserialize to the same PSET ---- *)
Theorem C07_rt : forall p, WF p -> DESER (SER p) = POk p.
Proof. exact (rt_c maxvec Hmax Hmin cap_txin cap_txout cap_vecu8 cap_h32 pt_ok pk_ok xonly_ok btctx_ok xpub_ok Hrip Hsha Hh160 Hh256 Hleaf Hbranch). Qed.
(* ---- and to base64 text that parses to the same PSET ---- *)
Theorem C07_rt_text : forall p, WF p ->
  from_str maxvec cap_txin cap_txout cap_vecu8 cap_h32 pt_ok pk_ok xonly_ok btctx_ok xpub_ok Hrip Hsha Hh160 Hh256 Hleaf Hbranch
    (to_string maxvec cap_txin cap_txout cap_vecu8 cap_h32 pt_ok pk_ok xonly_ok btctx_ok xpub_ok Hrip Hsha Hh160 Hh256 Hleaf Hbranch p) = POk p.
Proof. exact (rt_text_c maxvec Hmax Hmin cap_txin cap_txout cap_vecu8 cap_h32 pt_ok pk_ok xonly_ok btctx_ok xpub_ok Hrip Hsha Hh160 Hh256 Hleaf Hbranch). Qed.
Theorem C07_base64 : forall bs, b64_dec (b64_enc bs) = Some bs.
Proof. exact b64_roundtrip. Qed.

(* ---- what the decoder accepts is well-formed (all acceptance rules hold of its output) ----
   `STABLE p`: every tap_tree value stored in an output is a fixed point of the TapTree canoniser.  This is the complement
   of the known class of finding F9 (a tap tree with >= 2 leaves is re-written in reversed leaf order); a single-leaf tree is
   stable (C07_single_leaf_stable).  Full statement, which is FALSE of the code (C07_taptree_fixpoint_refuted):
     forall bs p, DESER bs = POk p -> let c := SER p in exists p', DESER c = POk p' /\ p' ≈ p /\ SER p' = c            *)
Theorem C07_decoder_wf : forall bs p, DESER bs = POk p -> STABLE p -> WF p.
Proof. exact (deserialize_wf_c maxvec Hmax Hmin cap_txin cap_txout cap_vecu8 cap_h32 pt_ok pk_ok xonly_ok btctx_ok xpub_ok Hrip Hsha Hh160 Hh256 Hleaf Hbranch C07_taptree_only). Qed.
(* ---- for every accepted byte string, decode-then-encode gives a canonical byte string that decodes to an equal PSET and
   re-encodes to itself (restricted to ~Known = STABLE) ---- *)
Theorem C07_fixpoint : forall bs p, DESER bs = POk p -> STABLE p ->
  let c := SER p in exists p', DESER c = POk p' /\ EQUIV p' p /\ SER p' = c.
Proof. exact (fixpoint_full_c maxvec Hmax Hmin cap_txin cap_txout cap_vecu8 cap_h32 pt_ok pk_ok xonly_ok btctx_ok xpub_ok Hrip Hsha Hh160 Hh256 Hleaf Hbranch C07_taptree_only). Qed.
Theorem C07_single_leaf_stable : forall v s, leafver_ok (b2n v) = true -> N.of_nat (length s) <= maxvec ->
  canon_taptree maxvec Hleaf Hbranch (x00 :: v :: enc (c_varbytes maxvec) s) = POk (x00 :: v :: enc (c_varbytes maxvec) s).
Proof. exact (taptree_single maxvec Hmax Hmin pt_ok pk_ok xonly_ok btctx_ok xpub_ok Hrip Hsha Hh160 Hh256 Hleaf Hbranch). Qed.
(* the laws of the value canonisers the fixpoint rests on: idempotent (every type but TapTree) and never lengthening (every type) *)
Theorem C07_canon_idempotent : forall t k v c, t <> TyTapTree -> VCANON t k v = POk c -> VCANON t k c = POk c.
Proof. exact (vcanon_idem maxvec cap_txin cap_txout cap_vecu8 cap_h32 pt_ok pk_ok xonly_ok btctx_ok xpub_ok Hrip Hsha Hh160 Hh256 Hleaf Hbranch). Qed.
Theorem C07_canon_size : forall t k v c, VCANON t k v = POk c -> (length c <= length v)%nat.
Proof. exact (vcanon_size maxvec cap_txin cap_txout cap_vecu8 cap_h32 pt_ok pk_ok xonly_ok btctx_ok xpub_ok Hrip Hsha Hh160 Hh256 Hleaf Hbranch). Qed.

(* ---- rejections ---- *)
(* duplicate keys: in any map (any field table T), an encoding in which the same raw key occurs twice is rejected, unless the
   key addresses a field that is assigned without the is_none() test (KOptLast: only the global elements tx-modifiable flag,
   finding F17, C07_dup_global_flag_refuted) *)
Theorem C07_rejects_duplicate : forall (T : table) fuel (a : list rpair) key v1 (b : list rpair) v2 tail m i kd r,
  Forall (fits maxvec) a -> fits maxvec (key, v1) -> Forall (fits maxvec) b -> fits maxvec (key, v2) ->
  classify maxvec T key = POk (i, kd) -> nth_error T i = Some r -> r_kind r <> KOptLast ->
  exists e, dec_entries maxvec T fuel (enc_pairs maxvec a ++ enc_pair maxvec (key, v1) ++ enc_pairs maxvec b ++ enc_pair maxvec (key, v2) ++ tail) m = PErr e.
Proof. intros T. exact (dup_rejected maxvec Hmax T). Qed.
Theorem C07_rejects_duplicate_any : forall (T : table) fuel (a : list rpair) key v1 (b : list rpair) v2 tail m,
  Forall (fits maxvec) a -> fits maxvec (key, v1) -> Forall (fits maxvec) b -> fits maxvec (key, v2) ->
  (forall i kd r, classify maxvec T key = POk (i, kd) -> nth_error T i = Some r -> r_kind r <> KOptLast) ->
  exists e, dec_entries maxvec T fuel (enc_pairs maxvec a ++ enc_pair maxvec (key, v1) ++ enc_pairs maxvec b ++ enc_pair maxvec (key, v2) ++ tail) m = PErr e.
Proof. intros T. exact (dup_rejected_any maxvec Hmax T). Qed.
(* missing mandatory fields: an accepted map has every mandatory field of its table (global: tx version, counts, version = 2;
   input: previous txid and index; output: script and the four completeness rules, which are `posto`) *)
Theorem C07_rejects_missing_global : forall bs m rest, dec_map maxvec TG POSTG bs = POk (m, rest) ->
  missing TG m = false /\ get_opt m (idx C07_GLOBAL_FIELDS (blit_of "ver"%lb)) = Some two_le.
Proof. exact (missing_g maxvec cap_txin cap_txout cap_vecu8 cap_h32 pt_ok pk_ok xonly_ok btctx_ok xpub_ok Hrip Hsha Hh160 Hh256 Hleaf Hbranch). Qed.
Theorem C07_rejects_missing_input : forall bs m rest, dec_map maxvec TI POSTI bs = POk (m, rest) -> missing TI m = false.
Proof. exact (missing_i maxvec cap_txin cap_txout cap_vecu8 cap_h32 pt_ok pk_ok xonly_ok btctx_ok xpub_ok Hrip Hsha Hh160 Hh256 Hleaf Hbranch). Qed.
Theorem C07_rejects_missing_output : forall bs m rest, dec_map maxvec TO POSTO bs = POk (m, rest) -> missing TO m = false /\ POSTO m = None.
Proof. exact (missing_o maxvec cap_txin cap_txout cap_vecu8 cap_h32 pt_ok pk_ok xonly_ok btctx_ok xpub_ok Hrip Hsha Hh160 Hh256 Hleaf Hbranch). Qed.
(* inconsistent counts: whatever is accepted has declared counts equal to the number of maps, and nothing after the last map *)
Theorem C07_rejects_count : forall bs p, DESER bs = POk p -> sanity_check n_inputs n_outputs p = true.
Proof. exact (counts_c maxvec Hmax Hmin cap_txin cap_txout cap_vecu8 cap_h32 pt_ok pk_ok xonly_ok btctx_ok xpub_ok Hrip Hsha Hh160 Hh256 Hleaf Hbranch C07_taptree_only). Qed.
(* invalid hash preimages *)
Theorem C07_rejects_preimage : forall k v, Hsha v <> k -> VCANON TyPreSha k v = PErr EPreimage.
Proof. intros k v H. exact (preimage_rejects Hsha k v H). Qed.
Theorem C07_rejects_preimage_all : forall k v,
  (Hrip v <> k -> VCANON TyPreRip k v = PErr EPreimage) /\ (Hh160 v <> k -> VCANON TyPreH160 k v = PErr EPreimage) /\ (Hh256 v <> k -> VCANON TyPreH256 k v = PErr EPreimage).
Proof. intros k v. repeat split; intros H; [exact (preimage_rejects Hrip k v H)|exact (preimage_rejects Hh160 k v H)|exact (preimage_rejects Hh256 k v H)]. Qed.

(* ---- ELIP-100 / ELIP-102 accessors: BTreeMap::insert then BTreeMap::get on the proprietary map of any table; other keys are
   untouched; and (C07_rt) a well-formed PSET carrying the metadata decodes back to itself, hence to the same answer ---- *)
Theorem C07_elip : forall (T : table) m i k v, get_key (set_keyed T m i k v) i k = Some v.
Proof. intros T. exact (get_set T). Qed.
Theorem C07_elip_other : forall (T : table) m i k v i' k', (i', k') <> (i, k) -> get_key (set_keyed T m i k v) i' k' = get_key m i' k'.
Proof. intros T. exact (get_set_other T). Qed.
Theorem C07_elip_survives : forall p i k v, WF p -> get_key (p_global p) i k = Some v ->
  exists p', DESER (SER p) = POk p' /\ get_key (p_global p') i k = Some v.
Proof. intros p i k v W G. exists p. split; [now apply C07_rt|exact G]. Qed.
End C07.

(* ================================================================ witnesses (kernel evaluation on concrete byte strings) *)
Definition no (_ : bytes) : bool := false.
Definition nohash (_ : bytes) : bytes := [].
(* the witnesses need no preimage field; the taproot hashes are instantiated with the identity (the free hash: equal roots under
   it are equal under every hash) so that no executable SHA-256 (primitive integers) enters a theorem *)
Definition tapleaf : bytes -> bytes := fun b => b.
Definition tapbranch : bytes -> bytes := fun b => b.
Definition deser0 := pset_deserialize 4000000 1000 1000 1000 1000 no no no no no nohash nohash nohash nohash tapleaf tapbranch.
Definition ser0 := pset_serialize 4000000 1000 1000 1000 1000 no no no no no nohash nohash nohash nohash tapleaf tapbranch.
Definition hx (s : blit) : bytes := match bytes_of_hex s with Some b => b | None => [] end.

(* F9.  A PSET with one output carrying a two-leaf tap tree (leaves c0/51 and c0/52 at depth 1): the decoder accepts it; its
   re-encoding c differs from the input (the leaves are swapped), decodes, and re-encodes to the INPUT again — serialize∘
   deserialize alternates between the two byte strings and neither is a fixpoint; the two PSETs are equal in the crate's sense
   (same tap-tree merkle root). *)
Definition f9_input : bytes := hx "70736574ff01020402000000010401000105010101fb04020000000001060801c0015101c00152010308010000000000000007fc04707365740220aaaaaaaaaaaaaaaaaaaaaaaaaaaaaaaaaaaaaaaaaaaaaaaaaaaaaaaaaaaaaaaa01040000"%lb.
Definition f9_check : bool :=
  match deser0 f9_input with
  | POk p => let c := ser0 p in
      match deser0 c with
      | POk p' => negb (bytes_eqb (ser0 p') c) && bytes_eqb (ser0 p') f9_input && negb (bytes_eqb c f9_input) &&
                  match p_outputs p, p_outputs p' with
                  | [o], [o'] => match get_opt o idx_taptree, get_opt o' idx_taptree with
                                 | Some t, Some t' => match taptree_root 4000000 tapleaf tapbranch t, taptree_root 4000000 tapleaf tapbranch t' with
                                                      | Some r, Some r' => bytes_eqb r r' | _, _ => false end
                                 | _, _ => false end
                  | _, _ => false end
      | PErr _ => false end
  | PErr _ => false end.
Theorem C07_taptree_fixpoint_refuted :
  exists bs p, deser0 bs = POk p /\ exists p', deser0 (ser0 p) = POk p' /\ ser0 p' <> ser0 p /\ ser0 p' = bs.
Proof. assert (E : f9_check = true) by (vm_compute; reflexivity). unfold f9_check in E.
  destruct (deser0 f9_input) as [p|] eqn:D; [|discriminate]. destruct (deser0 (ser0 p)) as [p'|] eqn:D'; [|discriminate].
  exists f9_input, p. split; [exact D|]. exists p'. split; [exact D'|].
  repeat (apply andb_true_iff in E as [E ?]). split.
  - intros X. rewrite X, bytes_eqb_refl in E. discriminate.
  - now apply bytes_eqb_true. Qed.

(* F17.  Two pairs with the key fc 04 "pset" 01 (global elements tx-modifiable flag) in the global map: accepted, the last wins. *)
Definition f17_input : bytes := hx "70736574ff01020402000000010401000105010001fb040200000007fc047073657401010107fc047073657401010700"%lb.
Definition f17_check : bool :=
  match deser0 f17_input with
  | POk p => match get_opt (p_global p) (idx C07_GLOBAL_FIELDS (blit_of "elements_tx_modifiable_flag"%lb)) with Some v => bytes_eqb v [x07] | None => false end
  | PErr _ => false end.
Theorem C07_dup_global_flag_refuted :
  exists bs p, deser0 bs = POk p /\ get_opt (p_global p) (idx C07_GLOBAL_FIELDS (blit_of "elements_tx_modifiable_flag"%lb)) = Some [x07].
Proof. assert (E : f17_check = true) by (vm_compute; reflexivity). unfold f17_check in E. exists f17_input.
  destruct (deser0 f17_input) as [p|]; [|discriminate]. exists p. split; [reflexivity|].
  destruct (get_opt (p_global p) _) as [v|]; [|discriminate]. now apply bytes_eqb_true in E as ->. Qed.

(* non-vacuity: a real PSET (one explicit output; produced by the crate) is accepted, re-encodes to itself, is STABLE (it has
   no tap tree), hence satisfies every clause of wf_pset *)
Definition sample_input : bytes := hx "70736574ff01020402000000010401000105010101fb040200000000010308475040c078cbeb9c07fc04707365740220a8221e8c3a22f07be8223603424494cba390d8ce15ddf33fde6a968e4b585cd40104017400"%lb.
Definition sample_check : bool :=
  match deser0 sample_input with
  | POk p => bytes_eqb (ser0 p) sample_input && Nat.eqb (length (p_outputs p)) 1 &&
             no_taptree p
  | PErr _ => false end.
Example C07_sample_wf : exists p, deser0 sample_input = POk p /\ ser0 p = sample_input /\
  wf_pset_c 4000000 1000 1000 1000 1000 no no no no no nohash nohash nohash nohash tapleaf tapbranch p.
Proof. assert (E : sample_check = true) by (vm_compute; reflexivity). unfold sample_check in E.
  destruct (deser0 sample_input) as [p|] eqn:D; [|discriminate]. exists p. split; [reflexivity|].
  apply andb_true_iff in E as [E S]. apply andb_true_iff in E as [E _]. split; [now apply bytes_eqb_true|].
  apply (C07_decoder_wf 4000000 ltac:(vm_compute; reflexivity) ltac:(vm_compute; discriminate) _ _ _ _ _ _ _ _ _ _ _ _ _ _ _ sample_input p D).
  now apply no_taptree_stable. Qed.

Check (C07_rt : forall maxvec, maxvec + 1 < 2 ^ 64 -> 4 <= maxvec -> forall c1 c2 c3 c4 o1 o2 o3 o4 o5 h1 h2 h3 h4 h5 h6 p,
  wf_pset_c maxvec c1 c2 c3 c4 o1 o2 o3 o4 o5 h1 h2 h3 h4 h5 h6 p ->
  pset_deserialize maxvec c1 c2 c3 c4 o1 o2 o3 o4 o5 h1 h2 h3 h4 h5 h6 (pset_serialize maxvec c1 c2 c3 c4 o1 o2 o3 o4 o5 h1 h2 h3 h4 h5 h6 p) = POk p).
Check (C07_fixpoint : forall maxvec, maxvec + 1 < 2 ^ 64 -> 4 <= maxvec -> forall c1 c2 c3 c4 o1 o2 o3 o4 o5 h1 h2 h3 h4 h5 h6 bs p,
  pset_deserialize maxvec c1 c2 c3 c4 o1 o2 o3 o4 o5 h1 h2 h3 h4 h5 h6 bs = POk p ->
  taptrees_stable maxvec c1 c2 c3 c4 o1 o2 o3 o4 o5 h1 h2 h3 h4 h5 h6 p ->
  let c := pset_serialize maxvec c1 c2 c3 c4 o1 o2 o3 o4 o5 h1 h2 h3 h4 h5 h6 p in
  exists p', pset_deserialize maxvec c1 c2 c3 c4 o1 o2 o3 o4 o5 h1 h2 h3 h4 h5 h6 c = POk p' /\ pset_equiv maxvec h5 h6 p' p /\
             pset_serialize maxvec c1 c2 c3 c4 o1 o2 o3 o4 o5 h1 h2 h3 h4 h5 h6 p' = c).
Check (C07_rejects_count : forall maxvec, maxvec + 1 < 2 ^ 64 -> 4 <= maxvec -> forall c1 c2 c3 c4 o1 o2 o3 o4 o5 h1 h2 h3 h4 h5 h6 bs p,
  pset_deserialize maxvec c1 c2 c3 c4 o1 o2 o3 o4 o5 h1 h2 h3 h4 h5 h6 bs = POk p -> sanity_check n_inputs n_outputs p = true).
Check (C07_taptree_fixpoint_refuted : exists bs p, deser0 bs = POk p /\ exists p', deser0 (ser0 p) = POk p' /\ ser0 p' <> ser0 p /\ ser0 p' = bs).
