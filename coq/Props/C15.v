(* C15 — taproot script trees commit every leaf and nothing else.  Only statements; proofs live in Proofs/Taproot.v and
   Proofs/Huffman.v.  Hash functions (the three /elements tagged hashes) and every secp256k1 operation are universally
   quantified; what is assumed about them is written as a premise of the theorem that needs it. *)
From Coq Require Import List Arith NArith Bool.
From Coq.Strings Require Import Byte.
From Coq Require Import ZArith Permutation.
From EV Require Import Base.Bytes Gen.Tables Model.Taproot Model.Huffman Proofs.Taproot Proofs.Huffman.
Import ListNotations.

(* ---- the builder, fed the depth-first walk of any tree of height <= 128, ends with exactly one node: the tree's sorted-pair
   merkle root and every leaf with its sibling path — held in REVERSE depth-first order (NodeInfo::combine(node, child), F9) *)
Theorem C15_builder_sound : forall (Hleaf Hbranch : bytes -> bytes) (t : tree), (height t <= MAXD)%nat ->
  run Hleaf Hbranch (dfs t 0) [] = Ok [Some (node_of Hleaf Hbranch t)] /\
  n_hash (node_of Hleaf Hbranch t) = root Hleaf Hbranch t /\
  n_leaves (node_of Hleaf Hbranch t) = rev (leaf_paths Hleaf Hbranch t).
Proof. intros. split; [now apply builder_sound|split; [apply node_of_hash|apply node_of_leaves]]. Qed.

(* ---- output key: finalize commits to the internal key tweaked by H_TapTweak(internal || root); the script map is exactly the
   tree's leaves with their paths *)
Theorem C15_output_key : forall (Hleaf Hbranch Htweak : bytes -> bytes) (scalar_ok : bytes -> bool)
  (tweak : bytes -> bytes -> option (bytes * bool)) (t : tree) (P : bytes) (i : spendinfo),
  (height t <= MAXD)%nat -> build Hleaf Hbranch Htweak scalar_ok tweak (dfs t 0) P = Val i ->
  si_internal i = P /\ si_root i = Some (root Hleaf Hbranch t) /\
  scalar_ok (Htweak (P ++ root Hleaf Hbranch t)) = true /\
  tweak P (Htweak (P ++ root Hleaf Hbranch t)) = Some (si_outkey i, si_parity i) /\
  (forall k v, map_has (si_map i) k v <-> exists l, In l (leaf_paths Hleaf Hbranch t) /\ k = (l_script l, l_ver l) /\ v = l_branch l).
Proof. intros Hleaf Hbranch Htweak scalar_ok tweak t P i. exact (build_inv Hleaf Hbranch Htweak scalar_ok tweak t P i). Qed.

(* ---- every leaf's control block verifies against the output key with that leaf's script and version; it has length
   33 + 32*depth; it survives serialization; TaprootSpendInfo::control_block returns such a block for every leaf *)
Theorem C15_cb_verifies : forall (Hleaf Hbranch Htweak : bytes -> bytes) (xonly_valid scalar_ok : bytes -> bool)
  (tweak : bytes -> bytes -> option (bytes * bool)) (tweak_check : bytes -> bytes -> bool -> bytes -> bool),
  (forall P Q par t, tweak_check P Q par t = true <-> tweak P t = Some (Q, par)) ->
  (forall m, length (Hleaf m) = 32%nat) -> (forall m, length (Hbranch m) = 32%nat) ->
  forall (t : tree) (P : bytes) (i : spendinfo) (l : leafinfo),
  wf_tree t -> (height t <= MAXD)%nat -> length P = 32%nat -> xonly_valid P = true ->
  build Hleaf Hbranch Htweak scalar_ok tweak (dfs t 0) P = Val i -> In l (leaf_paths Hleaf Hbranch t) ->
  let c := {| cb_ver := l_ver l; cb_parity := si_parity i; cb_key := P; cb_branch := l_branch l |} in
  verify Hleaf Hbranch Htweak scalar_ok tweak_check c (si_outkey i) (l_script l) = Val true /\
  length (cb_serialize c) = (33 + 32 * length (l_branch l))%nat /\ cb_size c = N.of_nat (length (cb_serialize c)) /\
  (length (l_branch l) <= MAXD)%nat /\
  cb_from_slice xonly_valid (cb_serialize c) = Ok c /\
  (exists c' l', control_block i (l_script l, l_ver l) = Some c' /\ In l' (leaf_paths Hleaf Hbranch t) /\
                 l_script l' = l_script l /\ l_ver l' = l_ver l /\
                 c' = {| cb_ver := l_ver l; cb_parity := si_parity i; cb_key := P; cb_branch := l_branch l' |} /\
                 verify Hleaf Hbranch Htweak scalar_ok tweak_check c' (si_outkey i) (l_script l) = Val true).
Proof. intros Hleaf Hbranch Htweak xonly_valid scalar_ok tweak tweak_check TS HL HB t P i l W Hh LP XP B Hl c.
  split; [exact (cb_verifies Hleaf Hbranch Htweak scalar_ok tweak tweak_check TS t P i l Hh B Hl)|].
  destruct (cb_serialization Hleaf Hbranch Htweak xonly_valid scalar_ok tweak tweak_check HL HB t P (si_parity i) l W Hh LP XP Hl) as (A1 & A2 & A3).
  split; [exact A1|split; [exact A2|split; [|split; [exact A3|]]]].
  - pose proof (leaf_path_depth Hleaf Hbranch t l Hl). apply (Nat.le_trans _ _ _ H Hh).
  - exact (control_block_verifies Hleaf Hbranch Htweak scalar_ok tweak tweak_check TS t P i l Hh B Hl). Qed.

(* ---- it fails to verify with the other parity, and with any other output key *)
Theorem C15_cb_wrong_parity_or_key : forall (Hleaf Hbranch Htweak : bytes -> bytes) (scalar_ok : bytes -> bool)
  (tweak : bytes -> bytes -> option (bytes * bool)) (tweak_check : bytes -> bytes -> bool -> bytes -> bool),
  (forall P Q par t, tweak_check P Q par t = true <-> tweak P t = Some (Q, par)) ->
  forall (t : tree) (P : bytes) (i : spendinfo) (l : leafinfo),
  (height t <= MAXD)%nat -> build Hleaf Hbranch Htweak scalar_ok tweak (dfs t 0) P = Val i -> In l (leaf_paths Hleaf Hbranch t) ->
  verify Hleaf Hbranch Htweak scalar_ok tweak_check
         {| cb_ver := l_ver l; cb_parity := negb (si_parity i); cb_key := P; cb_branch := l_branch l |} (si_outkey i) (l_script l) = Val false /\
  (forall par Q, Q <> si_outkey i ->
     verify Hleaf Hbranch Htweak scalar_ok tweak_check
            {| cb_ver := l_ver l; cb_parity := par; cb_key := P; cb_branch := l_branch l |} Q (l_script l) = Val false).
Proof. intros Hleaf Hbranch Htweak scalar_ok tweak tweak_check TS t P i l Hh B Hl. split.
  - exact (cb_wrong_parity Hleaf Hbranch Htweak scalar_ok tweak tweak_check TS t P i l Hh B Hl).
  - intros par Q NQ. exact (cb_wrong_outkey Hleaf Hbranch Htweak scalar_ok tweak tweak_check TS t P i l par Q Hh B Hl NQ). Qed.

(* ---- binding: whatever verifies against the tree's output key (with the tree's internal key) is a leaf of the tree (same script,
   version and sibling path, same parity) or lies under one of its hidden nodes — or an explicit collision of H_leaf / H_branch /
   H_leaf-vs-H_branch / H_tweak is exhibited — or, only with the WRONG parity bit, a second decomposition
   output key = internal + H_tweak(internal || root')G is exhibited (a preimage-type event on H_tweak; no collision argument
   can exclude it, so it is kept visible as the third disjunct) *)
Theorem C15_cb_binding : forall (Hleaf Hbranch Htweak : bytes -> bytes) (scalar_ok : bytes -> bool)
  (tweak : bytes -> bytes -> option (bytes * bool)) (tweak_check : bytes -> bytes -> bool -> bytes -> bool),
  (forall m, length (Hleaf m) = 32%nat) -> (forall m, length (Hbranch m) = 32%nat) ->
  (forall P Q par t, tweak_check P Q par t = true <-> tweak P t = Some (Q, par)) ->
  (forall P t t' r, tweak P t = Some r -> tweak P t' = Some r -> t = t') ->
  forall (t : tree) (P : bytes) (i : spendinfo) (c : cblock) (s : bytes),
  wf_tree t -> (height t <= MAXD)%nat -> build Hleaf Hbranch Htweak scalar_ok tweak (dfs t 0) P = Val i ->
  cb_key c = P -> (N.of_nat (length s) < 2 ^ 64)%N -> Forall (fun x => length x = 32%nat) (cb_branch c) ->
  verify Hleaf Hbranch Htweak scalar_ok tweak_check c (si_outkey i) s = Val true ->
  (cb_parity c = si_parity i /\ in_tree Hleaf Hbranch t s (cb_ver c) (cb_branch c)) \/
  Collision Hleaf Hbranch Htweak \/
  (cb_parity c = negb (si_parity i) /\
   Htweak (P ++ cb_root Hleaf Hbranch c s) <> Htweak (P ++ root Hleaf Hbranch t) /\
   tweak P (Htweak (P ++ cb_root Hleaf Hbranch c s)) = Some (si_outkey i, negb (si_parity i))).
Proof. intros Hleaf Hbranch Htweak scalar_ok tweak tweak_check HL HB TS TI t P i c s.
  exact (cb_binding Hleaf Hbranch Htweak scalar_ok tweak tweak_check HL HB TS TI t P i c s). Qed.

(* ---- completeness: the builder is left complete ONLY by the depth-first walk of a tree of height <= 128, and the walk
   determines the tree; everything else is refused with a TaprootBuilderError (by an add_* call: InvalidMerkleTreeDepth,
   NodeNotInDfsOrder, OverCompleteTree; or by finalize: IncompleteTree, EmptyTree) — never accepted, and finalize's `expect`
   cannot fire on a state reached through the API *)
Theorem C15_builder_complete : forall (Hleaf Hbranch : bytes -> bytes) (items : list item) (b : br),
  run Hleaf Hbranch items [] = Ok b -> is_complete b = true ->
  exists t, (height t <= MAXD)%nat /\ items = dfs t 0 /\ b = [Some (node_of Hleaf Hbranch t)] /\ forall t', items = dfs t' 0 -> t' = t.
Proof. exact builder_complete. Qed.
Theorem C15_refuses_others : forall (Hleaf Hbranch Htweak : bytes -> bytes) (scalar_ok : bytes -> bool)
  (tweak : bytes -> bytes -> option (bytes * bool)) (items : list item) (P : bytes),
  (forall t, (height t <= MAXD)%nat -> items <> dfs t 0) ->
  exists e, build Hleaf Hbranch Htweak scalar_ok tweak items P = Fail e.
Proof. exact build_refuses. Qed.
Theorem C15_accepts_trees : forall (Hleaf Hbranch Htweak : bytes -> bytes) (scalar_ok : bytes -> bool)
  (tweak : bytes -> bytes -> option (bytes * bool)) (t : tree) (P : bytes), (height t <= MAXD)%nat ->
  build Hleaf Hbranch Htweak scalar_ok tweak (dfs t 0) P = from_node_info Htweak scalar_ok tweak P (node_of Hleaf Hbranch t).
Proof. exact build_accepts. Qed.
(* F16 (C10 territory, recorded here): a state only serde can produce makes finalize panic in the model as in the code *)
Example C15_F16_model : forall Htweak scalar_ok tweak P, finalize Htweak scalar_ok tweak [None] P = Panic BuilderInvariant.
Proof. reflexivity. Qed.

(* ---- key pair: over an abstract group (generator multiples mulG, addition, negation, x-only serialisation, even-Y lift) with the
   laws below, UntweakedKeypair::tap_tweak yields the secret whose x-only public key and parity are exactly what
   UntweakedPublicKey::tap_tweak computes from the pair's public key *)
Theorem C15_keypair : forall (Htweak : bytes -> bytes) (scalar_ok : bytes -> bool) (pt : Type) (padd : pt -> pt -> pt) (pneg : pt -> pt)
  (mulG : Z -> pt) (xonly_of : pt -> option (bytes * bool)) (lift_x : bytes -> option pt),
  (forall a b, mulG (a + b)%Z = padd (mulG a) (mulG b)) -> (forall a, mulG (- a)%Z = pneg (mulG a)) ->
  (forall s x par, xonly_of (mulG s) = Some (x, par) -> lift_x x = Some (if par then pneg (mulG s) else mulG s)) ->
  forall (sk : Z) (root : option bytes) (sk' : Z),
  keypair_tap_tweak Htweak scalar_ok pt mulG xonly_of sk root = Val sk' ->
  exists P par0 Q par, kp_xonly pt mulG xonly_of sk = Some (P, par0) /\
    tap_tweak Htweak scalar_ok (xonly_tweak pt padd mulG xonly_of lift_x) P root = Val (Q, par) /\
    kp_xonly pt mulG xonly_of sk' = Some (Q, par).
Proof. exact keypair_tweak_is_secret. Qed.

(* ---- Huffman: with_huffman_tree never panics in its loop; it refuses only the empty list and trees deeper than 128; when it
   succeeds the result IS the builder's result on the walk of a hidden-free tree of height <= 128 whose leaves are exactly the
   input scripts (default version), each at depth < n — so every control-block theorem above applies to it *)
Theorem C15_huffman_shape : forall (Hleaf Hbranch Htweak : bytes -> bytes) (scalar_ok : bytes -> bool)
  (tweak : bytes -> bytes -> option (bytes * bool)) (P : bytes) (ws : list (N * bytes)),
  match with_huffman_tree Hleaf Hbranch Htweak scalar_ok tweak P ws with
  | Val i => ws <> [] /\
      exists t, no_hidden t /\ (height t <= MAXD)%nat /\ build Hleaf Hbranch Htweak scalar_ok tweak (dfs t 0) P = Val i /\
                Permutation (map (fun l => (l_script l, l_ver l)) (leaf_paths Hleaf Hbranch t)) (map (fun ws => (snd ws, default_ver)) ws) /\
                Forall (fun l => (length (l_branch l) < length ws)%nat) (leaf_paths Hleaf Hbranch t)
  | Fail e => (ws = [] /\ e = IncompleteTree) \/ (ws <> [] /\ e = InvalidMerkleTreeDepth (N.of_nat MAXD))
  | Panic s => s = ScalarRange \/ s = TweakFailed
  end.
Proof. intros. pose proof (with_huffman_outcomes Hleaf Hbranch Htweak scalar_ok tweak P ws) as O.
  destruct (with_huffman_tree Hleaf Hbranch Htweak scalar_ok tweak P ws) as [i| |] eqn:E; try exact O.
  split; [exact O|]. exact (with_huffman_is_build Hleaf Hbranch Htweak scalar_ok tweak P ws i E). Qed.
