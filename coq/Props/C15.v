(* C15 — taproot script trees commit every leaf and nothing else.  Only statements; proofs live in Proofs/Taproot.v and
   Proofs/Huffman.v.  Hash functions (the three /elements tagged hashes) and every secp256k1 operation are universally
   quantified; what is assumed about them is written as a premise of the theorem that needs it. *)
From Coq Require Import List Arith NArith Bool.
From Coq.Strings Require Import Byte.
From Coq Require Import ZArith Permutation Lia.
From EV Require Import Base.Bytes Gen.Tables Model.Taproot Model.Huffman Proofs.Taproot Proofs.Huffman.
Import ListNotations.

(* ---- the builder, fed the depth-first walk of any tree of height <= 128, ends with exactly one node: the tree's sorted-pair
   merkle root and every leaf with its sibling path, in depth-first (insertion) order — NodeInfo::combine(child, node) since
   fix aee9a45; on the unrepaired code this clause read `rev (leaf_paths t)` (finding F9) *)
Theorem C15_builder_sound : forall (Hleaf Hbranch : bytes -> bytes) (t : tree), (height t <= MAXD)%nat ->
  run Hleaf Hbranch (dfs t 0) [] = Ok [Some (node_of Hleaf Hbranch t)] /\
  n_hash (node_of Hleaf Hbranch t) = root Hleaf Hbranch t /\
  n_leaves (node_of Hleaf Hbranch t) = leaf_paths Hleaf Hbranch t.
Proof. intros. split; [now apply builder_sound|split; [apply node_of_hash|apply node_of_leaves]]. Qed.

(* ---- output key: finalize commits to the internal key tweaked by H_TapTweak(internal || root); the script map is exactly the
   tree's leaves with their paths *)
Theorem C15_output_key : forall (Hleaf Hbranch Htweak : bytes -> bytes) (scalar_ok : bytes -> bool)
  (tweak : bytes -> bytes -> option (bytes * bool)) (t : tree) (P : bytes) (i : spendinfo),
  (height t <= MAXD)%nat -> build Hleaf Hbranch Htweak scalar_ok tweak (dfs t 0) P = Val i ->
  si_internal i = P /\ si_root i = Some (root Hleaf Hbranch t) /\
  scalar_ok (Htweak (P ++ root Hleaf Hbranch t)) = true /\
  tweak P (Htweak (P ++ root Hleaf Hbranch t)) = Some (si_outkey i, si_parity i) /\
  (forall k v, map_has (si_map i) k v <-> exists l, In l (leaf_paths Hleaf Hbranch t) /\ k = (l_script l, l_ver l) /\ v = l_branch l).
Proof. intros Hleaf Hbranch Htweak scalar_ok tweak t P i. exact (build_inv Hleaf Hbranch Htweak scalar_ok tweak t P i). Qed.

(* ---- every leaf's control block verifies against the output key with that leaf's script and version; it has length
   33 + 32*depth; it survives serialization; TaprootSpendInfo::control_block returns such a block for every leaf *)
Theorem C15_cb_verifies : forall (Hleaf Hbranch Htweak : bytes -> bytes) (xonly_valid scalar_ok : bytes -> bool)
  (tweak : bytes -> bytes -> option (bytes * bool)) (tweak_check : bytes -> bytes -> bool -> bytes -> bool),
  (forall P Q par t, tweak_check P Q par t = true <-> tweak P t = Some (Q, par)) ->
  (forall m, length (Hleaf m) = 32%nat) -> (forall m, length (Hbranch m) = 32%nat) ->
  forall (t : tree) (P : bytes) (i : spendinfo) (l : leafinfo),
  wf_tree t -> (height t <= MAXD)%nat -> length P = 32%nat -> xonly_valid P = true ->
  build Hleaf Hbranch Htweak scalar_ok tweak (dfs t 0) P = Val i -> In l (leaf_paths Hleaf Hbranch t) ->
  let c := {| cb_ver := l_ver l; cb_parity := si_parity i; cb_key := P; cb_branch := l_branch l |} in
  verify Hleaf Hbranch Htweak scalar_ok tweak_check c (si_outkey i) (l_script l) = Val true /\
  length (cb_serialize c) = (33 + 32 * length (l_branch l))%nat /\ cb_size c = N.of_nat (length (cb_serialize c)) /\
  (length (l_branch l) <= MAXD)%nat /\
  cb_from_slice xonly_valid (cb_serialize c) = Ok c /\
  (exists c' l', control_block i (l_script l, l_ver l) = Some c' /\ In l' (leaf_paths Hleaf Hbranch t) /\
                 l_script l' = l_script l /\ l_ver l' = l_ver l /\
                 c' = {| cb_ver := l_ver l; cb_parity := si_parity i; cb_key := P; cb_branch := l_branch l' |} /\
                 verify Hleaf Hbranch Htweak scalar_ok tweak_check c' (si_outkey i) (l_script l) = Val true).
Proof. intros Hleaf Hbranch Htweak xonly_valid scalar_ok tweak tweak_check TS HL HB t P i l W Hh LP XP B Hl c.
  split; [exact (cb_verifies Hleaf Hbranch Htweak scalar_ok tweak tweak_check TS t P i l Hh B Hl)|].
  destruct (cb_serialization Hleaf Hbranch Htweak xonly_valid scalar_ok tweak tweak_check HL HB t P (si_parity i) l W Hh LP XP Hl) as (A1 & A2 & A3).
  split; [exact A1|split; [exact A2|split; [|split; [exact A3|]]]].
  - pose proof (leaf_path_depth Hleaf Hbranch t l Hl). apply (Nat.le_trans _ _ _ H Hh).
  - exact (control_block_verifies Hleaf Hbranch Htweak scalar_ok tweak tweak_check TS t P i l Hh B Hl). Qed.

(* ---- it fails to verify with the other parity, and with any other output key *)
Theorem C15_cb_wrong_parity_or_key : forall (Hleaf Hbranch Htweak : bytes -> bytes) (scalar_ok : bytes -> bool)
  (tweak : bytes -> bytes -> option (bytes * bool)) (tweak_check : bytes -> bytes -> bool -> bytes -> bool),
  (forall P Q par t, tweak_check P Q par t = true <-> tweak P t = Some (Q, par)) ->
  forall (t : tree) (P : bytes) (i : spendinfo) (l : leafinfo),
  (height t <= MAXD)%nat -> build Hleaf Hbranch Htweak scalar_ok tweak (dfs t 0) P = Val i -> In l (leaf_paths Hleaf Hbranch t) ->
  verify Hleaf Hbranch Htweak scalar_ok tweak_check
         {| cb_ver := l_ver l; cb_parity := negb (si_parity i); cb_key := P; cb_branch := l_branch l |} (si_outkey i) (l_script l) = Val false /\
  (forall par Q, Q <> si_outkey i ->
     verify Hleaf Hbranch Htweak scalar_ok tweak_check
            {| cb_ver := l_ver l; cb_parity := par; cb_key := P; cb_branch := l_branch l |} Q (l_script l) = Val false).
Proof. intros Hleaf Hbranch Htweak scalar_ok tweak tweak_check TS t P i l Hh B Hl. split.
  - exact (cb_wrong_parity Hleaf Hbranch Htweak scalar_ok tweak tweak_check TS t P i l Hh B Hl).
  - intros par Q NQ. exact (cb_wrong_outkey Hleaf Hbranch Htweak scalar_ok tweak tweak_check TS t P i l par Q Hh B Hl NQ). Qed.

(* ---- binding: whatever verifies against the tree's output key (with the tree's internal key) is a leaf of the tree (same script,
   version and sibling path, same parity) or lies under one of its hidden nodes — or an explicit collision of H_leaf / H_branch /
   H_leaf-vs-H_branch / H_tweak is exhibited — or, only with the WRONG parity bit, a second decomposition
   output key = internal + H_tweak(internal || root')G is exhibited (a preimage-type event on H_tweak; no collision argument
   can exclude it, so it is kept visible as the third disjunct) *)
Theorem C15_cb_binding : forall (Hleaf Hbranch Htweak : bytes -> bytes) (scalar_ok : bytes -> bool)
  (tweak : bytes -> bytes -> option (bytes * bool)) (tweak_check : bytes -> bytes -> bool -> bytes -> bool),
  (forall m, length (Hleaf m) = 32%nat) -> (forall m, length (Hbranch m) = 32%nat) ->
  (forall P Q par t, tweak_check P Q par t = true <-> tweak P t = Some (Q, par)) ->
  (forall P t t' r, tweak P t = Some r -> tweak P t' = Some r -> t = t') ->
  forall (t : tree) (P : bytes) (i : spendinfo) (c : cblock) (s : bytes),
  wf_tree t -> (height t <= MAXD)%nat -> build Hleaf Hbranch Htweak scalar_ok tweak (dfs t 0) P = Val i ->
  cb_key c = P -> (N.of_nat (length s) < 2 ^ 64)%N -> Forall (fun x => length x = 32%nat) (cb_branch c) ->
  verify Hleaf Hbranch Htweak scalar_ok tweak_check c (si_outkey i) s = Val true ->
  (cb_parity c = si_parity i /\ in_tree Hleaf Hbranch t s (cb_ver c) (cb_branch c)) \/
  Collision Hleaf Hbranch Htweak \/
  (cb_parity c = negb (si_parity i) /\
   Htweak (P ++ cb_root Hleaf Hbranch c s) <> Htweak (P ++ root Hleaf Hbranch t) /\
   tweak P (Htweak (P ++ cb_root Hleaf Hbranch c s)) = Some (si_outkey i, negb (si_parity i))).
Proof. intros Hleaf Hbranch Htweak scalar_ok tweak tweak_check HL HB TS TI t P i c s.
  exact (cb_binding Hleaf Hbranch Htweak scalar_ok tweak tweak_check HL HB TS TI t P i c s). Qed.

(* ---- completeness: the builder is left complete ONLY by the depth-first walk of a tree of height <= 128, and the walk
   determines the tree; everything else is refused with a TaprootBuilderError (by an add_* call: InvalidMerkleTreeDepth,
   NodeNotInDfsOrder, OverCompleteTree; or by finalize: IncompleteTree, EmptyTree) — never accepted, and finalize's `expect`
   was unreachable through the API (and is gone since fix c723f02) *)
Theorem C15_builder_complete : forall (Hleaf Hbranch : bytes -> bytes) (items : list item) (b : br),
  run Hleaf Hbranch items [] = Ok b -> is_complete b = true ->
  exists t, (height t <= MAXD)%nat /\ items = dfs t 0 /\ b = [Some (node_of Hleaf Hbranch t)] /\ forall t', items = dfs t' 0 -> t' = t.
Proof. exact builder_complete. Qed.
Theorem C15_refuses_others : forall (Hleaf Hbranch Htweak : bytes -> bytes) (scalar_ok : bytes -> bool)
  (tweak : bytes -> bytes -> option (bytes * bool)) (items : list item) (P : bytes),
  (forall t, (height t <= MAXD)%nat -> items <> dfs t 0) ->
  exists e, build Hleaf Hbranch Htweak scalar_ok tweak items P = Fail e.
Proof. exact build_refuses. Qed.
Theorem C15_accepts_trees : forall (Hleaf Hbranch Htweak : bytes -> bytes) (scalar_ok : bytes -> bool)
  (tweak : bytes -> bytes -> option (bytes * bool)) (t : tree) (P : bytes), (height t <= MAXD)%nat ->
  build Hleaf Hbranch Htweak scalar_ok tweak (dfs t 0) P = from_node_info Htweak scalar_ok tweak P (node_of Hleaf Hbranch t).
Proof. exact build_accepts. Qed.
(* F16 (C10 territory, recorded here): a state only serde can produce used to make finalize panic; since fix c723f02 it is refused
   as IncompleteTree, in the model as in the code *)
Example C15_F16_repaired : forall Htweak scalar_ok tweak P, finalize Htweak scalar_ok tweak [None] P = Fail IncompleteTree.
Proof. reflexivity. Qed.

(* ---- key pair: over an abstract group (generator multiples mulG, addition, negation, x-only serialisation, even-Y lift) with the
   laws below, UntweakedKeypair::tap_tweak yields the secret whose x-only public key and parity are exactly what
   UntweakedPublicKey::tap_tweak computes from the pair's public key *)
Theorem C15_keypair : forall (Htweak : bytes -> bytes) (scalar_ok : bytes -> bool) (pt : Type) (padd : pt -> pt -> pt) (pneg : pt -> pt)
  (mulG : Z -> pt) (xonly_of : pt -> option (bytes * bool)) (lift_x : bytes -> option pt),
  (forall a b, mulG (a + b)%Z = padd (mulG a) (mulG b)) -> (forall a, mulG (- a)%Z = pneg (mulG a)) ->
  (forall s x par, xonly_of (mulG s) = Some (x, par) -> lift_x x = Some (if par then pneg (mulG s) else mulG s)) ->
  forall (sk : Z) (root : option bytes) (sk' : Z),
  keypair_tap_tweak Htweak scalar_ok pt mulG xonly_of sk root = Val sk' ->
  exists P par0 Q par, kp_xonly pt mulG xonly_of sk = Some (P, par0) /\
    tap_tweak Htweak scalar_ok (xonly_tweak pt padd mulG xonly_of lift_x) P root = Val (Q, par) /\
    kp_xonly pt mulG xonly_of sk' = Some (Q, par).
Proof. exact keypair_tweak_is_secret. Qed.

(* ---- Huffman: with_huffman_tree never panics in its loop; it refuses only the empty list and trees deeper than 128; when it
   succeeds the result IS the builder's result on the walk of a hidden-free tree of height <= 128 whose leaves are exactly the
   input scripts (default version), each at depth < n — so every control-block theorem above applies to it *)
Theorem C15_huffman_shape : forall (Hleaf Hbranch Htweak : bytes -> bytes) (scalar_ok : bytes -> bool)
  (tweak : bytes -> bytes -> option (bytes * bool)) (P : bytes) (ws : list (N * bytes)),
  match with_huffman_tree Hleaf Hbranch Htweak scalar_ok tweak P ws with
  | Val i => ws <> [] /\
      exists t, no_hidden t /\ (height t <= MAXD)%nat /\ build Hleaf Hbranch Htweak scalar_ok tweak (dfs t 0) P = Val i /\
                Permutation (map (fun l => (l_script l, l_ver l)) (leaf_paths Hleaf Hbranch t)) (map (fun ws => (snd ws, default_ver)) ws) /\
                Forall (fun l => (length (l_branch l) < length ws)%nat) (leaf_paths Hleaf Hbranch t)
  | Fail e => (ws = [] /\ e = IncompleteTree) \/ (ws <> [] /\ e = InvalidMerkleTreeDepth (N.of_nat MAXD))
  | Panic s => s = ScalarRange \/ s = TweakFailed
  end.
Proof. intros. pose proof (with_huffman_outcomes Hleaf Hbranch Htweak scalar_ok tweak P ws) as O.
  destruct (with_huffman_tree Hleaf Hbranch Htweak scalar_ok tweak P ws) as [i| |] eqn:E; try exact O.
  split; [exact O|]. exact (with_huffman_is_build Hleaf Hbranch Htweak scalar_ok tweak P ws i E). Qed.

(* ---- Huffman order, full statement "a strictly heavier leaf is never strictly deeper than a lighter one", proved for every weight
   list whose u64 sum does not saturate (always the case for fewer than 2^32 leaves of u32 weight: C15_huffman_no_saturation).
   Leaves carry no weight in NodeInfo, so the statement is existential in the assignment: wl is a rearrangement of the inputs
   that is, position by position, the leaves of the result (script, depth = length of the merkle branch); with pairwise distinct
   scripts the assignment is unique.  (DESIGN had declared this clause partial — "merged weights non-decreasing" only; the full
   clause is proved here without Huffman optimality: any two internal nodes of the final tree are ordered by creation time, so
   for any two nodes x, y, weight x < weight y forces depth x >= depth y by induction on the depth of y.)
   Not covered: saturating sums (>= 2^32 leaves), where the code's own documentation concedes a sub-optimal tree. *)
Theorem C15_huffman_order : forall (Hleaf Hbranch : bytes -> bytes) (ws : list (N * bytes)) (n : node),
  huff_node Hleaf Hbranch ws = Val n -> (wsum ws <= U64MAX)%N ->
  exists wl : list (N * bytes * nat),
    Permutation (map fst wl) ws /\
    map (fun l => (l_script l, length (l_branch l))) (n_leaves n) = map (fun x => (snd (fst x), snd x)) wl /\
    forall x y, In x wl -> In y wl -> (fst (fst y) < fst (fst x))%N -> (snd x <= snd y)%nat.
Proof. exact huff_order. Qed.
Theorem C15_huffman_no_saturation : forall ws : list (N * bytes),
  (forall x, In x ws -> (fst x < 2 ^ 32)%N) -> (N.of_nat (length ws) <= 2 ^ 32)%N -> (wsum ws <= U64MAX)%N.
Proof. exact wsum_u32. Qed.

(* ================= non-vacuity: the premises are satisfiable and the objects exist ================= *)
Definition toyH (tag : byte) (m : bytes) : bytes := firstn 32 (tag :: m ++ repeat x00 32).
Definition toy_tweak (P t : bytes) : option (bytes * bool) := Some (t, false).
Definition toy_check (P Q : bytes) (par : bool) (t : bytes) : bool := bytes_eqb Q t && negb par.
Definition toy_tree : tree := Node (Node (Leaf [x51] xc4) (Hidden (repeat x07 32))) (Node (Leaf [x51] xc0) (Leaf [x52; x87] xc4)).
Definition toy_P : bytes := repeat x02 32.
Example C15_premises_satisfiable :
  (forall m, length (toyH x01 m) = 32%nat) /\ (forall m, length (toyH x02 m) = 32%nat) /\
  (forall P Q par t, toy_check P Q par t = true <-> toy_tweak P t = Some (Q, par)) /\
  (forall P t t' r, toy_tweak P t = Some r -> toy_tweak P t' = Some r -> t = t').
Proof. split; [|split; [|split]].
  - intros m. unfold toyH. rewrite firstn_length. cbn [length]. rewrite app_length, repeat_length. apply Nat.min_l. lia.
  - intros m. unfold toyH. rewrite firstn_length. cbn [length]. rewrite app_length, repeat_length. apply Nat.min_l. lia.
  - intros P Q par t. unfold toy_check, toy_tweak. split.
    + intros H. apply andb_true_iff in H as [H1 H2]. destruct (bytes_eqb_spec Q t); [|discriminate]. subst. destruct par; [discriminate|reflexivity].
    + intros H. inversion H; subst. rewrite bytes_eqb_refl. reflexivity.
  - intros P t t' r H1 H2. unfold toy_tweak in *. rewrite <- H2 in H1. now inversion H1. Qed.
Example C15_tree_exists : exists i,
  wf_tree toy_tree /\ (height toy_tree <= MAXD)%nat /\ length toy_P = 32%nat /\
  build (toyH x01) (toyH x02) (toyH x03) (fun _ => true) toy_tweak (dfs toy_tree 0) toy_P = Val i /\
  length (leaf_paths (toyH x01) (toyH x02) toy_tree) = 3%nat /\ length (hidden_paths (toyH x01) (toyH x02) toy_tree) = 1%nat /\
  length (si_map i) = 3%nat.
Proof. eexists. split; [repeat split; reflexivity|]. split; [vm_compute; repeat constructor|]. split; [reflexivity|].
  split; [vm_compute; reflexivity|]. repeat split. Qed.
(* weights 3, 2, 5: the heaviest script ends at depth 1, the two lighter ones at depth 2 *)
Example C15_huffman_example : exists n,
  huff_node (toyH x01) (toyH x02) [(3%N, [x51]); (2%N, [x52]); (5%N, [x53])] = Val n /\
  map (fun l => (l_script l, length (l_branch l))) (n_leaves n) = [([x52], 2%nat); ([x51], 2%nat); ([x53], 1%nat)].
Proof. eexists. split; vm_compute; reflexivity. Qed.
(* a 7-element cyclic "curve": points Z/7 (0 = infinity), x-only = min(p, 7-p), parity = p > 3 *)
Definition toy_mulG (s : Z) : Z := (s mod 7)%Z.
Definition toy_xonly (p : Z) : option (bytes * bool) :=
  if (p =? 0)%Z then None else Some ([n2b (Z.to_N (Z.min p (7 - p)))], (3 <? p)%Z).
Definition toy_lift (x : bytes) : option Z :=
  match x with [b] => let v := Z.of_N (b2n b) in if ((1 <=? v) && (v <=? 3))%Z then Some v else None | _ => None end.
Example C15_keypair_premises_satisfiable :
  (forall a b, toy_mulG (a + b) = ((toy_mulG a + toy_mulG b) mod 7)%Z) /\ (forall a, toy_mulG (- a) = ((- toy_mulG a) mod 7)%Z) /\
  (forall s x par, toy_xonly (toy_mulG s) = Some (x, par) -> toy_lift x = Some (if par then ((- toy_mulG s) mod 7)%Z else toy_mulG s)) /\
  (exists sk', keypair_tap_tweak (toyH x03) (fun _ => true) Z toy_mulG toy_xonly 5%Z None = Val sk').
Proof. split; [|split; [|split]].
  - intros a b. unfold toy_mulG. apply Z.add_mod. discriminate.
  - intros a. unfold toy_mulG. rewrite <- (Z.sub_0_l a), <- (Z.sub_0_l (a mod 7)). rewrite Zminus_mod, (Zminus_mod 0 (a mod 7)), Z.mod_mod; [reflexivity|discriminate].
  - intros s x par. unfold toy_mulG. pose proof (Z.mod_pos_bound s 7 eq_refl) as B. remember (s mod 7)%Z as p eqn:Ep. clear Ep.
    assert (C : (p = 0 \/ p = 1 \/ p = 2 \/ p = 3 \/ p = 4 \/ p = 5 \/ p = 6)%Z) by lia.
    destruct C as [->|[->|[->|[->|[->|[->| ->]]]]]]; vm_compute; intros H; inversion H; reflexivity.
  - eexists. vm_compute. reflexivity. Qed.

Check (C15_builder_sound : forall (Hleaf Hbranch : bytes -> bytes) (t : tree), (height t <= MAXD)%nat ->
  run Hleaf Hbranch (dfs t 0) [] = Ok [Some (node_of Hleaf Hbranch t)] /\
  n_hash (node_of Hleaf Hbranch t) = root Hleaf Hbranch t /\
  n_leaves (node_of Hleaf Hbranch t) = leaf_paths Hleaf Hbranch t).
Check (C15_builder_complete : forall (Hleaf Hbranch : bytes -> bytes) (items : list item) (b : br),
  run Hleaf Hbranch items [] = Ok b -> is_complete b = true ->
  exists t, (height t <= MAXD)%nat /\ items = dfs t 0 /\ b = [Some (node_of Hleaf Hbranch t)] /\ forall t', items = dfs t' 0 -> t' = t).
Check (C15_refuses_others : forall (Hleaf Hbranch Htweak : bytes -> bytes) (scalar_ok : bytes -> bool)
  (tweak : bytes -> bytes -> option (bytes * bool)) (items : list item) (P : bytes),
  (forall t, (height t <= MAXD)%nat -> items <> dfs t 0) -> exists e, build Hleaf Hbranch Htweak scalar_ok tweak items P = Fail e).
Check (C15_cb_wrong_parity_or_key : forall (Hleaf Hbranch Htweak : bytes -> bytes) (scalar_ok : bytes -> bool)
  (tweak : bytes -> bytes -> option (bytes * bool)) (tweak_check : bytes -> bytes -> bool -> bytes -> bool),
  (forall P Q par t, tweak_check P Q par t = true <-> tweak P t = Some (Q, par)) ->
  forall (t : tree) (P : bytes) (i : spendinfo) (l : leafinfo),
  (height t <= MAXD)%nat -> build Hleaf Hbranch Htweak scalar_ok tweak (dfs t 0) P = Val i -> In l (leaf_paths Hleaf Hbranch t) ->
  verify Hleaf Hbranch Htweak scalar_ok tweak_check
         {| cb_ver := l_ver l; cb_parity := negb (si_parity i); cb_key := P; cb_branch := l_branch l |} (si_outkey i) (l_script l) = Val false /\
  (forall par Q, Q <> si_outkey i ->
     verify Hleaf Hbranch Htweak scalar_ok tweak_check
            {| cb_ver := l_ver l; cb_parity := par; cb_key := P; cb_branch := l_branch l |} Q (l_script l) = Val false)).
Check (C15_cb_binding : forall (Hleaf Hbranch Htweak : bytes -> bytes) (scalar_ok : bytes -> bool)
  (tweak : bytes -> bytes -> option (bytes * bool)) (tweak_check : bytes -> bytes -> bool -> bytes -> bool),
  (forall m, length (Hleaf m) = 32%nat) -> (forall m, length (Hbranch m) = 32%nat) ->
  (forall P Q par t, tweak_check P Q par t = true <-> tweak P t = Some (Q, par)) ->
  (forall P t t' r, tweak P t = Some r -> tweak P t' = Some r -> t = t') ->
  forall (t : tree) (P : bytes) (i : spendinfo) (c : cblock) (s : bytes),
  wf_tree t -> (height t <= MAXD)%nat -> build Hleaf Hbranch Htweak scalar_ok tweak (dfs t 0) P = Val i ->
  cb_key c = P -> (N.of_nat (length s) < 2 ^ 64)%N -> Forall (fun x => length x = 32%nat) (cb_branch c) ->
  verify Hleaf Hbranch Htweak scalar_ok tweak_check c (si_outkey i) s = Val true ->
  (cb_parity c = si_parity i /\ in_tree Hleaf Hbranch t s (cb_ver c) (cb_branch c)) \/
  Collision Hleaf Hbranch Htweak \/
  (cb_parity c = negb (si_parity i) /\
   Htweak (P ++ cb_root Hleaf Hbranch c s) <> Htweak (P ++ root Hleaf Hbranch t) /\
   tweak P (Htweak (P ++ cb_root Hleaf Hbranch c s)) = Some (si_outkey i, negb (si_parity i)))).
Check (C15_huffman_order : forall (Hleaf Hbranch : bytes -> bytes) (ws : list (N * bytes)) (n : node),
  huff_node Hleaf Hbranch ws = Val n -> (wsum ws <= U64MAX)%N ->
  exists wl : list (N * bytes * nat),
    Permutation (map fst wl) ws /\
    map (fun l => (l_script l, length (l_branch l))) (n_leaves n) = map (fun x => (snd (fst x), snd x)) wl /\
    forall x y, In x wl -> In y wl -> (fst (fst y) < fst (fst x))%N -> (snd x <= snd y)%nat).
Check (C15_cb_verifies : forall (Hleaf Hbranch Htweak : bytes -> bytes) (xonly_valid scalar_ok : bytes -> bool)
  (tweak : bytes -> bytes -> option (bytes * bool)) (tweak_check : bytes -> bytes -> bool -> bytes -> bool),
  (forall P Q par t, tweak_check P Q par t = true <-> tweak P t = Some (Q, par)) ->
  (forall m, length (Hleaf m) = 32%nat) -> (forall m, length (Hbranch m) = 32%nat) ->
  forall (t : tree) (P : bytes) (i : spendinfo) (l : leafinfo),
  wf_tree t -> (height t <= MAXD)%nat -> length P = 32%nat -> xonly_valid P = true ->
  build Hleaf Hbranch Htweak scalar_ok tweak (dfs t 0) P = Val i -> In l (leaf_paths Hleaf Hbranch t) ->
  let c := {| cb_ver := l_ver l; cb_parity := si_parity i; cb_key := P; cb_branch := l_branch l |} in
  verify Hleaf Hbranch Htweak scalar_ok tweak_check c (si_outkey i) (l_script l) = Val true /\
  length (cb_serialize c) = (33 + 32 * length (l_branch l))%nat /\ cb_size c = N.of_nat (length (cb_serialize c)) /\
  (length (l_branch l) <= MAXD)%nat /\
  cb_from_slice xonly_valid (cb_serialize c) = Ok c /\
  (exists c' l', control_block i (l_script l, l_ver l) = Some c' /\ In l' (leaf_paths Hleaf Hbranch t) /\
                 l_script l' = l_script l /\ l_ver l' = l_ver l /\
                 c' = {| cb_ver := l_ver l; cb_parity := si_parity i; cb_key := P; cb_branch := l_branch l' |} /\
                 verify Hleaf Hbranch Htweak scalar_ok tweak_check c' (si_outkey i) (l_script l) = Val true)).
Check (C15_output_key : forall (Hleaf Hbranch Htweak : bytes -> bytes) (scalar_ok : bytes -> bool)
  (tweak : bytes -> bytes -> option (bytes * bool)) (t : tree) (P : bytes) (i : spendinfo),
  (height t <= MAXD)%nat -> build Hleaf Hbranch Htweak scalar_ok tweak (dfs t 0) P = Val i ->
  si_internal i = P /\ si_root i = Some (root Hleaf Hbranch t) /\
  scalar_ok (Htweak (P ++ root Hleaf Hbranch t)) = true /\
  tweak P (Htweak (P ++ root Hleaf Hbranch t)) = Some (si_outkey i, si_parity i) /\
  (forall k v, map_has (si_map i) k v <-> exists l, In l (leaf_paths Hleaf Hbranch t) /\ k = (l_script l, l_ver l) /\ v = l_branch l)).
Check (C15_huffman_shape : forall (Hleaf Hbranch Htweak : bytes -> bytes) (scalar_ok : bytes -> bool)
  (tweak : bytes -> bytes -> option (bytes * bool)) (P : bytes) (ws : list (N * bytes)),
  match with_huffman_tree Hleaf Hbranch Htweak scalar_ok tweak P ws with
  | Val i => ws <> [] /\
      exists t, no_hidden t /\ (height t <= MAXD)%nat /\ build Hleaf Hbranch Htweak scalar_ok tweak (dfs t 0) P = Val i /\
                Permutation (map (fun l => (l_script l, l_ver l)) (leaf_paths Hleaf Hbranch t)) (map (fun ws => (snd ws, default_ver)) ws) /\
                Forall (fun l => (length (l_branch l) < length ws)%nat) (leaf_paths Hleaf Hbranch t)
  | Fail e => (ws = [] /\ e = IncompleteTree) \/ (ws <> [] /\ e = InvalidMerkleTreeDepth (N.of_nat MAXD))
  | Panic s => s = ScalarRange \/ s = TweakFailed
  end).
Check (C15_keypair : forall (Htweak : bytes -> bytes) (scalar_ok : bytes -> bool) (pt : Type) (padd : pt -> pt -> pt) (pneg : pt -> pt)
  (mulG : Z -> pt) (xonly_of : pt -> option (bytes * bool)) (lift_x : bytes -> option pt),
  (forall a b, mulG (a + b)%Z = padd (mulG a) (mulG b)) -> (forall a, mulG (- a)%Z = pneg (mulG a)) ->
  (forall s x par, xonly_of (mulG s) = Some (x, par) -> lift_x x = Some (if par then pneg (mulG s) else mulG s)) ->
  forall (sk : Z) (root : option bytes) (sk' : Z),
  keypair_tap_tweak Htweak scalar_ok pt mulG xonly_of sk root = Val sk' ->
  exists P par0 Q par, kp_xonly pt mulG xonly_of sk = Some (P, par0) /\
    tap_tweak Htweak scalar_ok (xonly_tweak pt padd mulG xonly_of lift_x) P root = Val (Q, par) /\
    kp_xonly pt mulG xonly_of sk' = Some (Q, par)).
Print Assumptions C15_builder_sound.
Print Assumptions C15_output_key.
Print Assumptions C15_cb_verifies.
Print Assumptions C15_cb_wrong_parity_or_key.
Print Assumptions C15_cb_binding.
Print Assumptions C15_builder_complete.
Print Assumptions C15_refuses_others.
Print Assumptions C15_accepts_trees.
Print Assumptions C15_keypair.
Print Assumptions C15_huffman_shape.
Print Assumptions C15_huffman_order.
Print Assumptions C15_huffman_no_saturation.
