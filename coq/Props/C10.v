(* C10 — fallible public APIs are total: errors, never panics or allocation out of proportion to the input.
   Statements only; proofs in Proofs/Alloc.v, Proofs/Totality.v (and Proofs/Script.v, Proofs/Taproot.v for the imported ones).

   Shape.  Model/Totality.v writes every indexing, slicing, unchecked subtraction, `expect`, `unreachable!`, out-of-range shift and
   overflowing addition of the modelled functions as an operation that yields `Panic why`; a read through a slice pointer behind
   the end of the slice is `Panic WOobRead`.  `C10_total_<f>` says no argument produces a Panic.  Where the code does panic the
   full statement would be kept restricted to `~ Known` (a decidable input class) next to a `_refuted` witness — at present no such
   restriction is left: the model follows the repaired library, F1 (a4bc64e), F2 (4b01389), F12 (8d5600e), F16 (c723f02), F18 (838e50c),
   F17 (7b7cbe8, saturating fee sums) and F19 (6050d64, read_uint size bound) are fixed and every `C10_total_*` statement is unconditional.
   The allocation clause: `rsv` counts the bytes the decoders' own `vec![0; s]` / `Vec::with_capacity(len)` reserve; the bound is
   K + k * |input| with K = one MAX_VEC_SIZE per nesting level of length-prefixed vectors (3 for a block): the reservation is NOT
   proportional to the input — a 5-byte input can reserve MAX_VEC_SIZE bytes — it is bounded by that constant plus a linear term. *)
From Coq Require Import List Arith NArith ZArith Bool.
From Coq.Strings Require Import Byte.
From EV Require Gen.SrcScript Proofs.SrcScript Gen.SrcAddr Proofs.SrcAddr.
From EV Require Import Base.Bytes Base.Codec Gen.Tables Model.Script Model.Taproot Model.Bech32 Model.Tx Model.Block Model.Alloc Model.Totality
  Proofs.Script Proofs.ScriptTemplates Proofs.Taproot Proofs.Alloc Proofs.Totality.
Import ListNotations.
Open Scope N_scope.

(* ================================================================================================ allocation *)
Section ALLOC.
Variable pt_ok : bytes -> bool.
Variables maxvec sz_txin sz_txout sz_vecu8 sz_tx : N.
Notation A_TX := (a_tx pt_ok maxvec sz_txin sz_txout sz_vecu8).
Notation A_BLOCK := (a_block pt_ok maxvec sz_txin sz_txout sz_vecu8 sz_tx).

(* the instrumented decoders are the decoders of C01, not a second model *)
Theorem C10_decoders_are_C01 :
  ac A_TX = c_tx pt_ok maxvec (maxvec / sz_txin) (maxvec / sz_txout) (maxvec / sz_vecu8) /\
  ac (a_header maxvec sz_vecu8) = c_header maxvec (maxvec / sz_vecu8) /\
  ac A_BLOCK = c_block pt_ok maxvec (maxvec / sz_txin) (maxvec / sz_txout) (maxvec / sz_vecu8) (maxvec / sz_tx) /\
  ac (a_txin_nowit pt_ok maxvec) = c_txin pt_ok maxvec /\ ac (a_txout_nowit pt_ok maxvec) = c_txout pt_ok maxvec /\
  ac (a_params maxvec sz_vecu8) = c_params maxvec (maxvec / sz_vecu8).
Proof. repeat split; reflexivity. Qed.

(* whatever the input — accepted or rejected — the reservations of a Transaction decode stay below 2 MAX_VEC_SIZE + k_tx * |input| *)
Theorem C10_alloc_bound_tx : forall bs, rsv A_TX bs <= 2 * maxvec + k_tx sz_txin sz_txout sz_vecu8 * len bs.
Proof. exact (alaw_bound _ _ _ _ (al_tx pt_ok maxvec sz_txin sz_txout sz_vecu8)). Qed.
Theorem C10_alloc_bound_block : forall bs, rsv A_BLOCK bs <= 3 * maxvec + k_block sz_txin sz_txout sz_vecu8 sz_tx * len bs.
Proof. exact (alaw_bound _ _ _ _ (al_block pt_ok maxvec sz_txin sz_txout sz_vecu8 sz_tx)). Qed.
Theorem C10_alloc_bound_header : forall bs, rsv (a_header maxvec sz_vecu8) bs <= 2 * maxvec + k_stack sz_vecu8 * len bs.
Proof. exact (alaw_bound _ _ _ _ (al_header pt_ok maxvec sz_vecu8 _ (N.le_refl _))). Qed.
Theorem C10_alloc_bound_params : forall bs, rsv (a_params maxvec sz_vecu8) bs <= 2 * maxvec + k_stack sz_vecu8 * len bs.
Proof. exact (alaw_bound _ _ _ _ (al_params pt_ok maxvec sz_vecu8 _ (N.le_refl _))). Qed.
Theorem C10_alloc_bound_txin_txout : forall bs,
  rsv (a_txin_nowit pt_ok maxvec) bs <= maxvec + 1 * len bs /\ rsv (a_txout_nowit pt_ok maxvec) bs <= maxvec + 1 * len bs.
Proof. intros bs. split; [exact (alaw_bound _ _ _ _ (al_txin pt_ok maxvec 1 (N.le_refl _)) bs)|exact (alaw_bound _ _ _ _ (al_txout pt_ok maxvec 1 (N.le_refl _)) bs)]. Qed.
(* a decode that SUCCEEDS has paid for everything it reserved with consumed input: nothing is left of the constant *)
Theorem C10_alloc_paid_tx : forall bs t rest, dec (ac A_TX) bs = Some (t, rest) -> rsv A_TX bs <= k_tx sz_txin sz_txout sz_vecu8 * len bs.
Proof. intros bs t rest D. pose proof (al_paid (al_tx pt_ok maxvec sz_txin sz_txout sz_vecu8) bs t rest D). Lia.lia. Qed.
(* Vec<u8>, Vec<Vec<u8>> and pset::raw::Key on their own *)
Theorem C10_alloc_bound_low : forall bs,
  rsv (a_varbytes maxvec) bs <= maxvec + 1 * len bs /\
  rsv (a_vecvec sz_vecu8 maxvec) bs <= 2 * maxvec + k_stack sz_vecu8 * len bs /\
  snd (key_dec maxvec bs) <= maxvec.
Proof. intros bs. split; [exact (alaw_bound _ _ _ _ (alaw_varbytes maxvec) bs)|split].
  - exact (alaw_bound _ _ _ _ (al_stack maxvec sz_vecu8 _ (N.le_refl _)) bs).
  - exact (proj2 (key_dec_total maxvec bs)). Qed.
End ALLOC.
(* the constant part is real: a 5-byte input makes the Vec<u8> decoder reserve 4 000 000 bytes before it fails *)
Example C10_alloc_not_proportional : rsv (a_varbytes 4000000) [xfe; x00; x09; x3d; x00] = 4000000 /\ dec (ac (a_varbytes 4000000)) [xfe; x00; x09; x3d; x00] = None.
Proof. split; reflexivity. Qed.

(* PSET: inputs and outputs are reserved at once behind the 10 000 caps — 10 000 * size_of::<Input>() (13.8 MB on the reference build)
   from a 30-byte PSET; bounded by a constant, not by the input *)
Theorem C10_alloc_bound_pset_counts : forall sz count, snd (pset_reserve sz count) <= 10000 * sz /\ is_panic (fst (pset_reserve sz count)) = false.
Proof. exact pset_reserve_bound. Qed.

(* ================================================================================================ totality *)
Theorem C10_total_key : forall maxvec bs w, fst (key_dec maxvec bs) <> Panic w.
Proof. intros maxvec bs w H. pose proof (proj1 (key_dec_total maxvec bs)) as T. rewrite H in T. discriminate. Qed.

(* Instructions::next / Script::instructions(_minimal), all four push forms: no item is a panic (imported, C16) *)
Theorem C10_total_instructions : forall (minimal : bool) (s : bytes) (i : Script.item),
  In i (instructions minimal s) -> match i with IPanic _ | IFuel => False | _ => True end.
Proof. exact instructions_clean. Qed.
(* read_uint (F19, repaired by 6050d64): total for every size in both profiles; up to 8 bytes it is the function of Model/Script.v
   (Instructions::next uses 1, 2, 4), beyond that the error NumericOverflow *)
Theorem C10_total_read_uint : forall p data size w, read_uint_p p data size <> Panic w.
Proof. exact read_uint_p_total. Qed.
Theorem C10_read_uint_is_model : forall p data size, (size <= 8)%nat ->
  read_uint_p p data size = match Script.read_uint data size with SOk n => Val n | SErr _ => Fail (E "early") end.
Proof. exact read_uint_p_small. Qed.
Theorem C10_read_uint_oversize : forall p data size, (8 < size)%nat -> (size <= length data)%nat -> read_uint_p p data size = Fail (E "overflow").
Proof. exact read_uint_p_oversize. Qed.
(* the template predicates index self.0[..] only behind their length tests: they are the total predicates of Model/Script.v *)
Theorem C10_total_templates : forall s,
  is_p2sh_p s = Val (is_p2sh s) /\ is_p2pkh_p s = Val (is_p2pkh s) /\ is_p2pk_p s = Val (is_p2pk s) /\
  is_witness_program_p s = Val (is_witness_program s) /\ is_v0_p2wsh_p s = Val (is_v0_p2wsh s) /\ is_v0_p2wpkh_p s = Val (is_v0_p2wpkh s) /\
  is_v1_p2tr_p s = Val (is_v1_p2tr s) /\ is_v1plus_p2witprog_p s = Val (is_v1plus_p2witprog s) /\ is_op_return_p s = Val (is_op_return s).
Proof. intros s. repeat split; [apply is_p2sh_p_eq|apply is_p2pkh_p_eq|apply is_p2pk_p_eq|apply is_witness_program_p_eq|apply is_v0_p2wsh_p_eq
  |apply is_v0_p2wpkh_p_eq|apply is_v1_p2tr_p_eq|apply is_v1plus_p2witprog_p_eq|apply is_op_return_p_eq]. Qed.
(* the same from the source text: the no-panic conditions GENERATED by the translator from the bodies of the template predicates in src/script.rs
   (every `self.0[i]` within bounds, `self.0.len() - 2` not below zero, with && / || short-circuiting left to right) hold for every script *)
Theorem C10_templates_no_panic_from_source : forall s : bytes,
  SrcScript.src_Script_is_p2sh_safe s = true /\ SrcScript.src_Script_is_p2pkh_safe s = true /\ SrcScript.src_Script_is_p2pk_safe s = true
  /\ SrcScript.src_Script_is_witness_program_safe s = true /\ SrcScript.src_Script_is_v0_p2wsh_safe s = true /\ SrcScript.src_Script_is_v1_p2tr_safe s = true
  /\ SrcScript.src_Script_is_v1plus_p2witprog_safe s = true /\ SrcScript.src_Script_is_v0_p2wpkh_safe s = true /\ SrcScript.src_Script_is_op_return_safe s = true
  /\ SrcScript.src_Script_is_provably_unspendable_safe s = true.
Proof. intros s. repeat split; auto using SrcScript.src_is_p2sh_safe, SrcScript.src_is_p2pkh_safe, SrcScript.src_is_p2pk_safe, SrcScript.src_is_witness_program_safe,
  SrcScript.src_is_v0_p2wsh_safe, SrcScript.src_is_v1_p2tr_safe, SrcScript.src_is_v1plus_p2witprog_safe, SrcScript.src_is_v0_p2wpkh_safe,
  SrcScript.src_is_op_return_safe, SrcScript.src_is_provably_unspendable_safe. Qed.
(* Address::from_script from the source text: the no-panic condition GENERATED from its arms in src/address.rs (every `script.as_bytes()[a..b]` inside
   the script, every `try_into().unwrap()` to [u8; 20] given exactly 20 bytes, `script.as_bytes()[0] - 0x50` not below zero and the value handed to
   `Fe32::try_from(..).expect(..)` below 32) holds for every script *)
Theorem C10_from_script_no_panic_from_source : forall s : bytes, SrcAddr.src_from_script_safe s = true.
Proof. exact SrcAddr.src_from_script_safe_all. Qed.
(* Address::from_script (imported, C16) *)
Theorem C10_total_from_script : forall s : bytes, exists r, from_script s = Script.Val r.
Proof. exact from_script_total. Qed.

(* blech32: UncheckedHrpstring::new, CheckedHrpstring::new::<Ck> (validate_checksum, remove_checksum), SegwitHrpstring::new *)
Theorem C10_total_unchecked_new : forall s, unchecked_new_p s = of_res (Bech32.unchecked_new s).
Proof. exact unchecked_new_p_spec. Qed.
Theorem C10_total_checked_new : forall c s, hpanic (checked_new_p c s) = false.
Proof. exact checked_no_panic. Qed.
Theorem C10_total_validate_padding : forall d, forallb validc d = true -> hpanic (validate_padding_p d) = false.
Proof. exact validate_padding_no_panic. Qed.
Theorem C10_total_segwit_new : forall s, hpanic (segwit_new_p s) = false.
Proof. exact segwit_new_no_panic. Qed.
(* and SegwitHrpstring::new written with its indexing, subtraction, expect and unreachable! IS Bech32.segwit_decode under the blech32
   configuration — the function C06 / C17 are about *)
Theorem C10_segwit_new_is_model : forall s,
  match segwit_new_p s with
  | HOk (h, ver, d) => segwit_decode cfg_blech s = Bech32.Ok (ver, data_bytes d)
  | HErr e => segwit_decode cfg_blech s = Bech32.Err e
  | HPanic _ => False end.
Proof. exact segwit_new_p_spec. Qed.
(* new_bech32 (F1, repaired by a4bc64e): total for every string; an empty data part is the error MissingWitnessVersion *)
Theorem C10_total_segwit_new_bech32 : forall s, hpanic (segwit_new_bech32_p s) = false.
Proof. exact segwit_new_bech32_no_panic. Qed.
Example C10_segwit_new_bech32_empty_data : segwit_new_bech32_p [x61; x31] = HErr ENoData.
Proof. reflexivity. Qed.

(* taproot and schnorr slice parsers *)
Theorem C10_total_control_block : forall xonly_valid sl w, cb_from_slice_p xonly_valid sl <> Panic w.
Proof. exact cb_from_slice_p_total. Qed.
(* and they are the total functions of Model/Taproot.v that C15 proves round trips about *)
Theorem C10_control_block_is_model : forall xonly_valid sl,
  cb_from_slice_p xonly_valid sl = of_tres (cb_from_slice xonly_valid sl) /\ branch_from_slice_p sl = of_tres (branch_from_slice sl).
Proof. intros. split; [apply cb_from_slice_p_spec|apply branch_from_slice_p_spec]. Qed.
Theorem C10_total_merkle_branch : forall sl w, branch_from_slice_p sl <> Panic w.
Proof. exact branch_from_slice_p_total. Qed.
Theorem C10_total_schnorr_sig : forall sig_ok sl w, schnorr_from_slice sig_ok sl <> Panic w /\ schnorr_pset sig_ok sl <> Panic w.
Proof. intros. split; [apply schnorr_from_slice_total|apply schnorr_pset_total]. Qed.

(* PSET value decoders that slice by fixed offsets *)
Theorem C10_total_pset_values : forall (Hleaf Hbranch : bytes -> bytes) (xonly_valid : bytes -> bool) (maxvec : N) (bs : bytes) (w : why),
  scriptver_p bs <> Panic w /\ xonlyleaf_p xonly_valid bs <> Panic w /\ keysource_p bs <> Panic w /\ leafks_p maxvec bs <> Panic w /\
  taptree_p Hleaf Hbranch maxvec bs <> Panic w.
Proof. intros. repeat split; [apply scriptver_p_total|apply xonlyleaf_p_total|apply keysource_p_total|apply leafks_p_total|apply taptree_p_total]. Qed.

(* Global::merge, xpub branch (F2, repaired by 4b01389): both length subtractions are guarded; equal paths with different
   fingerprints are a conflict *)
Theorem C10_total_merge_xpub : forall f2 d2 f1 d1 w, merge_xpub f2 d2 f1 d1 <> Panic w.
Proof. exact merge_xpub_total. Qed.
Theorem C10_merge_xpub_equal_paths_conflict : forall f2 f1 d, f1 <> f2 -> merge_xpub f2 d f1 d = Fail (E "conflict").
Proof. exact merge_xpub_conflict_equal_paths. Qed.

(* Transaction::blind, output selection (F12, repaired by 8d5600e): no output marked is the error TooFewBlindingOutputs *)
Theorem C10_total_blind_select : forall outs w, blind_select outs <> Panic w.
Proof. exact blind_select_total. Qed.
Example C10_blind_select_nothing_marked : blind_select [ {| bo_fee := true; bo_marked := false; bo_addr := false |} ] = Fail (E "toofew").
Proof. reflexivity. Qed.

(* Pset::locktime: the two `unreachable!` arms are unreachable *)
Theorem C10_total_locktime : forall fallback inputs w, locktime_p fallback inputs <> Panic w.
Proof. exact locktime_p_total. Qed.

(* TaprootBuilder (F16, repaired by c723f02): finalize (Model/Taproot.finalize) never panics for ANY builder state, serde-built ones
   included; API-built states moreover have their last slot filled (C15's invariant) *)
Theorem C10_total_finalize : forall b s, finalize_p b <> Taproot.Panic s.
Proof. exact finalize_p_total. Qed.
Theorem C10_builder_inv : forall items b, api_builder items = Taproot.Ok b -> b = [] \/ exists n r, b = Some n :: r.
Proof. intros items b R. exact (run_head_some triv triv items b R). Qed.
Example C10_finalize_serde_state : finalize_p [None] = Taproot.Fail IncompleteTree.
Proof. reflexivity. Qed.

(* pegin witness, pegout script, minimum value *)
Theorem C10_total_pegin : forall w x, from_pegin_witness w <> Panic x.
Proof. exact from_pegin_witness_total. Qed.
Theorem C10_total_pegout : forall v s x, is_null_data s <> Panic x /\ pegout_data v s <> Panic x.
Proof. intros. split; [apply is_null_data_total|apply pegout_data_total]. Qed.
(* total only because every constructor of a RangeProof admits proofs of >= 65 bytes (rangeproof_ok, transcribed from the C parser) *)
Theorem C10_total_minimum_value : forall v opret prf x, (forall p, prf = Some p -> rangeproof_ok p = true) -> minimum_value_p v opret prf <> Panic x.
Proof. exact minimum_value_p_total. Qed.
Example C10_minimum_value_needs_the_library_bound : minimum_value_conf false (x60 :: repeat x00 8) = Panic WSlice.
Proof. reflexivity. Qed.

(* fee_in / all_fees (F17, repaired by 7b7cbe8): never a panic, in either profile; the result is the true sum of the asset's fee outputs
   capped at u64::MAX — exact for every sum below 2^64 *)
Theorem C10_total_fee_in : forall outs asset, fee_in outs asset = Val (N.min (fold_right N.add 0 (map snd (filter (fun o => fst o =? asset) outs))) U64_MAX).
Proof. exact fee_in_spec. Qed.
Example C10_fee_in_saturates : fee_in [(3, 18446744073709551615); (3, 1)] 3 = Val 18446744073709551615 /\ fee_in [(3, 5); (4, 9); (3, 7)] 3 = Val 12.
Proof. split; reflexivity. Qed.

(* commitments from slices (F18, repaired by 838e50c): the four entry points test the length before the slice reaches the C parser;
   without that test every other length is an out-of-bounds read (read33_oob) *)
Theorem C10_total_from_commitment : forall pt_ok sl w, from_commitment_p pt_ok sl <> Panic w.
Proof. exact from_commitment_p_total. Qed.
Theorem C10_from_commitment_needs_the_guard : forall pt_ok sl, (exists w, read33 pt_ok sl = Panic w) <-> length sl <> 33%nat.
Proof. exact read33_oob. Qed.

(* the small fallible integer constructors (u32 arguments range over all of N here: the statements hold a fortiori below 2^32):
   Sequence::from_seconds_floor / from_seconds_ceil return Err exactly beyond the last representable interval and otherwise the exact
   quotient / ceiling or-ed with LOCK_TYPE_MASK; nothing in them can overflow *)
Theorem C10_seq_from_seconds_floor : forall s v, seq_from_seconds_floor s = Val v <-> s < 65536 * 512 /\ v = N.lor (s / 512) C10_SEQ_LOCK_TYPE_MASK.
Proof. exact seq_floor_spec. Qed.
Theorem C10_seq_from_seconds_floor_err : forall s, (exists e, seq_from_seconds_floor s = Fail e) <-> 65536 * 512 <= s.
Proof. exact seq_floor_err. Qed.
Theorem C10_seq_from_seconds_ceil : forall s v, seq_from_seconds_ceil s = Val v <-> s <= 65535 * 512 /\ v = N.lor ((s + 511) / 512) C10_SEQ_LOCK_TYPE_MASK.
Proof. exact seq_ceil_spec. Qed.
Theorem C10_seq_from_seconds_ceil_err : forall s, (exists e, seq_from_seconds_ceil s = Fail e) <-> 65535 * 512 < s.
Proof. exact seq_ceil_err. Qed.
Theorem C10_div_ceil_is_ceiling : forall s, let i := u32_div_ceil s 512 in s <= 512 * i /\ (i = 0 \/ 512 * (i - 1) < s).
Proof. exact u32_div_ceil_spec. Qed.
(* LockTime::from_height / from_time (and Height / Time::from_consensus): Ok n exactly on their side of LOCK_TIME_THRESHOLD *)
Theorem C10_locktime_constructors : forall n, (lt_from_height n = Val n <-> n < 500000000) /\ (lt_from_time n = Val n <-> 500000000 <= n)
  /\ ((exists e, lt_from_height n = Fail e) <-> 500000000 <= n) /\ ((exists e, lt_from_time n = Fail e) <-> n < 500000000).
Proof. exact lt_height_time_spec. Qed.
Example C10_ctor_examples :
  seq_from_seconds_ceil 4294967295 = Fail (E "overflow") /\ seq_from_seconds_ceil 33553920 = Val (N.lor 65535 4194304) /\ seq_from_seconds_ceil 33553921 = Fail (E "overflow")
  /\ seq_from_seconds_ceil 1 = Val (N.lor 1 4194304) /\ seq_from_seconds_floor 33554431 = Val (N.lor 65535 4194304) /\ seq_from_seconds_floor 33554432 = Fail (E "overflow")
  /\ ecdsa_from_standard 0x81 = Val 0x81 /\ ecdsa_from_standard 0 = Fail (E "nonstandard") /\ psbt_schnorr_hash_ty 0x100 = None /\ psbt_schnorr_hash_ty 0x83 = Some 0x83.
Proof. repeat split; reflexivity. Qed.

(* ================================================================================================ non-vacuity *)
Example C10_nonvacuous :
  (* xpub reconciliation: other a proper suffix of self -> keep; self a proper suffix of other -> replace; the former F2 witness -> conflict *)
  merge_xpub [x00] [1; 2; 3] [x00] [2; 3] = Val XKeep /\ merge_xpub [x00] [3] [x00] [2; 3] = Val XReplace /\ merge_xpub [x00] [1; 2; 3] [x00] [9] = Fail (E "conflict") /\
  (* an output selection that succeeds: fee, marked, unmarked, marked -> both marked outputs, the second one last *)
  blind_select [ {| bo_fee := true; bo_marked := false; bo_addr := false |}; {| bo_fee := false; bo_marked := true; bo_addr := true |};
                 {| bo_fee := false; bo_marked := false; bo_addr := false |}; {| bo_fee := false; bo_marked := true; bo_addr := true |} ] = Val [1; 3]%nat /\
  (* lock times: both kinds required by every input -> the HEIGHT is returned (BIP370; since d70d58d), conflict when they exclude each other *)
  locktime_p None [(Some 600000000, Some 100)] = Val 100 /\ locktime_p None [(Some 600000000, None); (None, Some 100)] = Fail (E "conflict") /\
  (* a control block of one node parses *)
  (exists c, cb_from_slice_p (fun _ => true) (xc4 :: repeat x07 64) = Val c /\ length (cb_branch c) = 1%nat) /\
  (* a pegout script: OP_RETURN, 32-byte genesis hash, 1-byte script *)
  (exists p, pegout_data (Some 5) (x6a :: x20 :: repeat x09 32 ++ [x01; x51]) = Val (Some p) /\ po_spk p = [x51]).
Proof. repeat split; try reflexivity; eexists; split; vm_compute; reflexivity. Qed.

Check (C10_alloc_bound_tx : forall pt_ok maxvec sz_txin sz_txout sz_vecu8 bs,
  rsv (a_tx pt_ok maxvec sz_txin sz_txout sz_vecu8) bs <= 2 * maxvec + k_tx sz_txin sz_txout sz_vecu8 * len bs).
Check (C10_alloc_bound_block : forall pt_ok maxvec sz_txin sz_txout sz_vecu8 sz_tx bs,
  rsv (a_block pt_ok maxvec sz_txin sz_txout sz_vecu8 sz_tx) bs <= 3 * maxvec + k_block sz_txin sz_txout sz_vecu8 sz_tx * len bs).
Check (C10_total_segwit_new : forall s, hpanic (segwit_new_p s) = false).
Check (C10_total_segwit_new_bech32 : forall s, hpanic (segwit_new_bech32_p s) = false).
Check (C10_total_control_block : forall xonly_valid sl w, cb_from_slice_p xonly_valid sl <> Panic w).
Check (C10_total_merge_xpub : forall f2 d2 f1 d1 w, merge_xpub f2 d2 f1 d1 <> Panic w).
Check (C10_total_blind_select : forall outs w, blind_select outs <> Panic w).
Check (C10_total_locktime : forall fallback inputs w, locktime_p fallback inputs <> Panic w).
Check (C10_total_finalize : forall b s, finalize_p b <> Taproot.Panic s).
Check (C10_total_minimum_value : forall v opret prf x, (forall p, prf = Some p -> rangeproof_ok p = true) -> minimum_value_p v opret prf <> Panic x).
Check (C10_seq_from_seconds_ceil : forall s v, seq_from_seconds_ceil s = Val v <-> s <= 65535 * 512 /\ v = N.lor ((s + 511) / 512) C10_SEQ_LOCK_TYPE_MASK).
Check (C10_total_from_commitment : forall pt_ok sl w, from_commitment_p pt_ok sl <> Panic w).
Print Assumptions C10_alloc_bound_tx.
Print Assumptions C10_alloc_bound_block.
Print Assumptions C10_total_segwit_new.
Print Assumptions C10_segwit_new_is_model.
Print Assumptions C10_control_block_is_model.
Print Assumptions C10_total_segwit_new_bech32.
Print Assumptions C10_total_control_block.
Print Assumptions C10_total_merge_xpub.
Print Assumptions C10_total_blind_select.
Print Assumptions C10_builder_inv.
Print Assumptions C10_total_finalize.
Print Assumptions C10_total_pset_values.
Print Assumptions C10_total_templates.
Print Assumptions C10_seq_from_seconds_ceil.
Print Assumptions C10_from_script_no_panic_from_source.
