(* C11 — asset and token ids follow the issuance derivation in every representation. Statements only (proofs: Proofs/Ids.v).
   H (double-SHA256) and cmp (fast-merkle compression) universally quantified. The JSON-contract clause is checked on the
   implementation only (serde_json is an external library); see DESIGN. *)
From Coq Require Import List NArith Bool.
From Coq.Strings Require Import Byte.
From Coq Require Import Relations Permutation.
From EV Require Import Base.Bytes Base.Codec Model.Tx Model.Ids Model.Json Proofs.Ids Proofs.Json.
Import ListNotations.
Open Scope N_scope.

(* The three 32-byte constants of the derivation are those of src/issuance.rs now (Gen/Tables.v is regenerated on every run). *)
From EV Require Gen.Tables Proofs.TablesTie.
Theorem C11_constants_from_source : map b2n zero32 = Tables.c11_zero32 /\ map b2n one32 = Tables.c11_one32 /\ map b2n two32 = Tables.c11_two32.
Proof. exact TablesTie.tie_issuance_consts. Qed.

Section C11.
Variable H : bytes -> bytes.
Variable cmp : bytes -> bytes -> bytes.
Notation IDS := (txin_issuance_ids H cmp).
Notation PIDS := (psetin_issuance_ids H cmp).

(* new issuance: entropy = cmp (H outpoint) contract with the PLAIN index; reissuance: the entropy carried in the input;
   asset = cmp entropy 0; token = cmp entropy 1 (explicit amount) / 2 (confidential amount) *)
Theorem C11_formulas : forall i, IDS i =
  (let e := if bytes_eqb (i_nonce (in_iss i)) zero32 then cmp (H (enc c_outpoint (in_prev i))) (i_entropy (in_iss i)) else i_entropy (in_iss i) in
   (cmp e zero32, cmp e (if value_is_confidential (i_amount (in_iss i)) then two32 else one32))).
Proof. reflexivity. Qed.
(* second view: the PSET input built from the input (its stored index carries the flag bits, which issuance_ids strips; repaired by c21fbfc) *)
Theorem C11_three_views_pset : forall i, txin_wfB i = true -> PIDS (psetin_from_txin i) = IDS i.
Proof. exact (three_views_pset H cmp). Qed.
(* third view: the input of the transaction extracted from that PSET *)
Theorem C11_three_views_extract : forall i, txin_wfB i = true -> IDS (psetin_extract (psetin_from_txin i)) = IDS i.
Proof. exact (three_views_extract H cmp). Qed.
End C11.

(* the JSON contract hash is the hash of the canonical serialisation `canon` (keys of every object in byte order); re-ordering
   the entries of any object, at any nesting depth, any number of times, does not change it.  (Whitespace and the formatting of
   scalars are serde_json's parser / printer: the harness parses the text and hands the model the tree.) *)
Theorem C11_json_order : forall (Hc : bytes -> bytes) (j j' : json), clos_refl_trans json step j j' -> Hc (canon j) = Hc (canon j').
Proof. intros Hc j j' R. now rewrite (reorder_canon j j' R). Qed.
Definition qk (s : blit) : bytes := [x22] ++ s ++ [x22].
Example C11_json_order_example :
  canon (JObj [(unlit "b"%lb, (qk "b"%lb, JLeaf "1"%lb)); (unlit "a"%lb, (qk "a"%lb, JObj [(unlit "y"%lb, (qk "y"%lb, JLeaf "2"%lb)); (unlit "x"%lb, (qk "x"%lb, JLeaf "3"%lb))]))])
  = [x7b] ++ qk "a"%lb ++ [x3a; x7b] ++ qk "x"%lb ++ [x3a; x33; x2c] ++ qk "y"%lb ++ [x3a; x32; x7d; x2c] ++ qk "b"%lb ++ [x3a; x31; x7d].
Proof. vm_compute. reflexivity. Qed.

(* non-vacuity: a canonical new issuance and a canonical reissuance on a pegin input *)
Definition new_iss_in : txin := {| in_prev := {| o_txid := repeat x11 32; o_vout := 7 |}; in_pegin := false; in_script := []; in_seq := 5;
  in_iss := {| i_nonce := zero32; i_entropy := repeat x22 32; i_amount := VExplicit 1000; i_keys := VNull |}; in_wit := empty_inwit |}.
Definition reiss_in : txin := {| in_prev := {| o_txid := repeat x11 32; o_vout := 7 |}; in_pegin := true; in_script := []; in_seq := 5;
  in_iss := {| i_nonce := repeat x09 32; i_entropy := repeat x22 32; i_amount := VConf (x08 :: repeat x01 32); i_keys := VNull |}; in_wit := empty_inwit |}.
Example C11_canonical_examples : txin_wfB new_iss_in = true /\ txin_wfB reiss_in = true /\ has_issuance new_iss_in = true /\ in_pegin reiss_in = true.
Proof. vm_compute. repeat split; reflexivity. Qed.
Check (C11_three_views_pset : forall H cmp i, txin_wfB i = true ->
  psetin_issuance_ids H cmp (psetin_from_txin i) = txin_issuance_ids H cmp i).
