(* C18 — fast_merkle_root is the definitional midstate merkle tree for every leaf count.
   Only statements; proofs live in Proofs/FastMerkle.v. *)
From Coq Require Import List.
From Coq Require Import NArith.
From EV Require Import Model.FastMerkle Proofs.FastMerkle Proofs.FastMerkleImpl.
Import ListNotations.

(* the incremental (binary counter) algorithm of the code equals the level-by-level definition, for every list,
   every node type and every compression function *)
Theorem C18_refines : forall (H : Type) (zero : H) (cmp : H -> H -> H) (l : list H),
  fmr_ctr zero cmp l = fmr_spec zero cmp l.
Proof. exact ctr_is_spec. Qed.

Theorem C18_small : forall (H : Type) (zero : H) (cmp : H -> H -> H) (x : H),
  fmr_ctr zero cmp [] = zero /\ fmr_ctr zero cmp [x] = x.
Proof. intros. split; reflexivity. Qed.

(* the root depends on every leaf and on leaf order: two different lists of the same length with equal roots
   exhibit an explicit collision of the compression function *)
Theorem C18_depends : forall (H : Type) (zero : H) (cmp : H -> H -> H) (eq_dec : forall a b : H, {a = b} + {a <> b})
  (l l' : list H), length l = length l' -> fmr_ctr zero cmp l = fmr_ctr zero cmp l' ->
  l = l' \/ exists a b c d, (a, b) <> (c, d) /\ cmp a b = cmp c d.
Proof. intros H zero cmp eq_dec l l' L E. rewrite !ctr_is_spec in E. exact (spec_depends H zero cmp eq_dec l l' L E). Qed.

(* the code as written — a 32-entry array, a u32 counter, the carry loop and the final sweep on fuel 32, `None` on counter
   overflow — never overflows and returns the definitional root for every list of at most 2^31 leaves.  (Beyond 2^31 leaves,
   i.e. > 64 GiB of input, the final sweep's `count += 1 << level` can overflow the u32 counter; not reachable in practice.) *)
Theorem C18_code_refines : forall (H : Type) (zero : H) (cmp : H -> H -> H) (l : list H),
  (N.of_nat (length l) <= 2147483648)%N -> fmr_impl zero cmp l = Some (fmr_spec zero cmp l).
Proof. intros H zero cmp l Hl. rewrite (impl_is_ctr H zero cmp l Hl). f_equal. apply ctr_is_spec. Qed.

(* non-vacuity: a 5-leaf tree over a free (injective) compression has the promoted last node where the property says *)
Inductive tr := L (n : nat) | Nd (a b : tr) | Z.
Example C18_shape5 : fmr_ctr Z Nd [L 1; L 2; L 3; L 4; L 5] = Nd (Nd (Nd (L 1) (L 2)) (Nd (L 3) (L 4))) (L 5).
Proof. reflexivity. Qed.
Example C18_shape7 : fmr_ctr Z Nd [L 1; L 2; L 3; L 4; L 5; L 6; L 7]
  = Nd (Nd (Nd (L 1) (L 2)) (Nd (L 3) (L 4))) (Nd (Nd (L 5) (L 6)) (L 7)).
Proof. reflexivity. Qed.

Check (C18_refines : forall (H : Type) (zero : H) (cmp : H -> H -> H) (l : list H), fmr_ctr zero cmp l = fmr_spec zero cmp l).
Check (C18_depends : forall (H : Type) (zero : H) (cmp : H -> H -> H) (eq_dec : forall a b : H, {a = b} + {a <> b})
  (l l' : list H), length l = length l' -> fmr_ctr zero cmp l = fmr_ctr zero cmp l' ->
  l = l' \/ exists a b c d, (a, b) <> (c, d) /\ cmp a b = cmp c d).
Check (C18_code_refines : forall (H : Type) (zero : H) (cmp : H -> H -> H) (l : list H),
  (N.of_nat (length l) <= 2147483648)%N -> fmr_impl zero cmp l = Some (fmr_spec zero cmp l)).
Example C18_code_shape7 : fmr_impl Z Nd [L 1; L 2; L 3; L 4; L 5; L 6; L 7]
  = Some (Nd (Nd (Nd (L 1) (L 2)) (Nd (L 3) (L 4))) (Nd (Nd (L 5) (L 6)) (L 7))).
Proof. reflexivity. Qed.
Print Assumptions C18_refines.
Print Assumptions C18_code_refines.
Print Assumptions C18_small.
Print Assumptions C18_depends.
