(* C09 — multi-party PSET blinding balances for every split and order of blinders.
   LEVEL: proof IN THE IDEAL-COMMITMENT MODEL (Model/Ideal.v), partial with respect to cryptography exactly as C04/C05.
   What is proved is the protocol logic of PartiallySignedTransaction::{blind_non_last, blind_last} (src/pset/mod.rs): which
   outputs a party blinds, the scalar bookkeeping that carries the imbalance between parties, and that after the last blinder
   the extracted transaction verifies — for every number of parties, every assignment, every order, every randomness.
   The serialize/deserialize hop between parties is a parameter `hop` assumed to be the identity on the modelled fields
   (that is C07's property). Only statements; proofs live in Proofs/PsetBlind.v. *)
From Coq Require Import List NArith ZArith Bool Lia Permutation.
From Coq.Strings Require Import Byte.
From EV Require Import Base.Bytes Base.Zn Base.FreeMod Gen.Tables Model.Script Model.Ideal Model.Verify Model.Blind Model.PsetBlind
  Proofs.Ideal Proofs.Verify Proofs.Blind Proofs.PsetBlind Props.C04.
Import ListNotations.
Open Scope Z_scope.

(* The surjection domain. Every output a party blinds gets a surjection proof (Asset::blind) over that party's surjection targets
   `party_tg ins sec` (surjection_inputs: one entry per input — the party's own secrets or the UTXO's asset — and one per
   non-null issuance / inflation-keys amount). For every party this list has as many entries as `all_ss ins SS` (the secrets of
   all inputs with the issuance pseudo-inputs), so the size limit of Asset::blind (SURJECTIONPROOF_MAX_N_INPUTS, C04) is one
   premise on the PSET, the same for all parties: `N.of_nat (length (all_ss ins SS)) <= CT_SURJECTIONPROOF_MAX_N_INPUTS`. *)
Theorem C09_party_domain_size : forall (ins : list pin) (SS : list secrets) (utxos : list txout),
  Forall3 in_ok ins SS utxos -> forall sec, sec_ok SS sec -> length (party_tg ins sec) = length (all_ss ins SS).
Proof. exact party_tg_length. Qed.

(* after a non-last blinder that blinded at least one output, the scalar appended to the PSET is
   Σ_{its inputs} (v·abf + vbf) − Σ_{the outputs it blinded} (v·abf + vbf)  (mod n), the output factors being the reported ones *)
Theorem C09_scalar_meaning : forall (pubk : Z -> Z) (ecdh : Z -> Z -> Z) (p : profile)
  (ins : list pin) (SS : list secrets) (utxos : list txout),
  Forall3 in_ok ins SS utxos -> issuances_unblinded ins ->
  (N.of_nat (length (all_ss ins SS)) <= CT_SURJECTIONPROOF_MAX_N_INPUTS)%N ->
  forall ps sec rnd, ps_in ps = ins -> sec_ok SS sec -> indices_ok (length ins) (ps_out ps) ->
  (forall i, In i (owned_idx sec (ps_out ps) 0) -> exists o, nth_error (ps_out ps) i = Some o /\ pgood (party_tg ins sec) o) ->
  (3 * length (owned_idx sec (ps_out ps) 0) <= length rnd)%nat -> Forall in_zn rnd -> owned_idx sec (ps_out ps) 0 <> [] ->
  exists outs' bl rnd',
    blind_non_last pubk ecdh p ps sec rnd =
      OVal (mkPset ins outs' (ps_scalars ps ++ [zsub (Isum sec) (Osum outs' (owned_idx sec (ps_out ps) 0))]), bl, rnd')
    /\ Forall2 (fun i r => fst r = i /\ exists o', nth_error outs' i = Some o' /\ fst (fst (snd r)) = s_abf (osec_of o') /\ snd (fst (snd r)) = s_vbf (osec_of o'))
         (owned_idx sec (ps_out ps) 0) bl.
Proof. exact scalar_meaning. Qed.

(* beyond the limit a non-last blinder that has an output to blind (and three scalars to draw) is refused at its first output:
   the surjection targets are collected, then Asset::blind returns Upstream(CannotProveSurjection) — so the premise on the
   surjection domain in the two theorems around this one cannot be dropped *)
Theorem C09_domain_limit_non_last : forall (pubk : Z -> Z) (ecdh : Z -> Z -> Z) (p : profile)
  (ins : list pin) (SS : list secrets) (utxos : list txout),
  Forall3 in_ok ins SS utxos -> issuances_unblinded ins ->
  (CT_SURJECTIONPROOF_MAX_N_INPUTS < N.of_nat (length (all_ss ins SS)))%N ->
  forall ps sec rnd, ps_in ps = ins -> sec_ok SS sec -> indices_ok (length ins) (ps_out ps) ->
  (forall i, In i (owned_idx sec (ps_out ps) 0) -> exists o, nth_error (ps_out ps) i = Some o /\ pgood (party_tg ins sec) o) ->
  (3 <= length rnd)%nat ->
  forall i0 rest, owned_idx sec (ps_out ps) 0 = i0 :: rest ->
  blind_non_last pubk ecdh p ps sec rnd = OFail (PConfidentialTxOutError i0 BCannotProveSurjection).
Proof. exact non_last_over_limit. Qed.

(* a valid assignment (`flow_ok`: parties own disjoint inputs covering all inputs with their true secrets, every output is explicit
   or assigned to exactly one party that can blind it, every party has an output, amounts balance per asset, enough randomness)
   on a PSET whose surjection domain is within the limit of Asset::blind:
   for EVERY order sigma of the non-last parties, then the last one, with a hop between the steps — the flow succeeds, the scalar
   list ends empty, the extracted transaction verifies against the input UTXOs, and every marked output is fully blinded,
   unblinds with its receiver key to the original asset and amount with factors that reproduce its commitments, and carries
   verifying explicit-value and explicit-asset proofs *)
Theorem C09_any_order : forall (pubk : Z -> Z) (ecdh : Z -> Z -> Z) (p : profile)
  (ins : list pin) (SS : list secrets) (utxos : list txout),
  Forall3 in_ok ins SS utxos -> issuances_unblinded ins ->
  (N.of_nat (length (all_ss ins SS)) <= CT_SURJECTIONPROOF_MAX_N_INPUTS)%N ->
  forall outs0 : list pout, indices_ok (length ins) outs0 ->
  forall hop : pset -> pset, (forall ps, hop ps = ps) ->
  forall (l : list party) (L : party), flow_ok ins SS outs0 l L ->
  (forall a b, ecdh (pubk a) b = ecdh (pubk b) a) ->
  forall sigma, Permutation sigma l ->
  exists psf bl t,
    run_flow pubk ecdh hop p (mkPset ins outs0 []) sigma L = OVal (psf, bl)
    /\ ps_scalars psf = []
    /\ extract_tx psf = OVal t /\ verify_tx_amt_proofs t utxos = OVal tt
    /\ length (ps_out psf) = length outs0 /\ length (t_out t) = length outs0
    /\ forall j o0 rsk, nth_error outs0 j = Some o0 -> po_blinding_key o0 = Some (pubk rsk) ->
         exists o tj s, nth_error (ps_out psf) j = Some o /\ nth_error (t_out t) j = Some tj
           /\ is_fully_blinded o = true
           /\ unblind ecdh tj rsk = OVal s /\ po_asset o0 = Some (s_asset s) /\ po_amount o0 = Some (s_value s)
           /\ o_asset tj = AConf (sgen s) /\ o_value tj = VConf (scommit s)
           /\ (exists a v g c bvp bap, po_asset o = Some a /\ po_amount o = Some v /\ po_asset_comm o = Some g /\ po_amount_comm o = Some c
                 /\ po_bvp o = Some bvp /\ po_bap o = Some bap /\ blind_value_proof_verify bvp v g c = true /\ blind_asset_proof_verify bap a g = true).
Proof.
  intros pubk ecdh p ins SS utxos INS ISS DOM outs0 IDX hop HOP l L OK SYM sigma PM.
  exact (flow_verifies pubk ecdh p ins SS utxos INS ISS DOM outs0 IDX hop HOP sigma L (flow_ok_perm ins SS outs0 l sigma L PM OK) SYM).
Qed.

(* ------------------------------------------------------------------ non-vacuity: a concrete three-party flow
   inputs: 0 (explicit asset 1 / 100, party A), 1 (confidential asset 2 / 50, party B = last), 2 (confidential asset 3 / 7, party C);
   outputs: 0,1 asset 1 (A blinds both), 2 fee, 3 asset 2 (B), 4 asset 3 (C). *)
Definition x_s0 := mkSec 1 0 100 0.
Definition x_s1 := mkSec 2 5 50 7.
Definition x_s2 := mkSec 3 9 7 4.
Definition x_SS := [x_s0; x_s1; x_s2].
Definition x_utxos := [mkOut (AExp 1) (VExp 100) NNull [x51] None None;
                       mkOut (AConf (sgen x_s1)) (VConf (scommit x_s1)) NNull [x51] None None;
                       mkOut (AConf (sgen x_s2)) (VConf (scommit x_s2)) NNull [x51] None None].
Definition x_ins := map (fun u => mkPI (Some u) null_issuance None) x_utxos.
Definition x_out a v (sc : bytes) (k : option Z) (b : option nat) := mkPO (Some a) (Some v) sc k b None None None None None None None.
Definition x_outs := [x_out 1 60 (p2wpkh x01) (Some (ex_pubk 11)) (Some 0%nat); x_out 1 39 (p2wpkh x02) (Some (ex_pubk 12)) (Some 0%nat);
                      x_out 1 1 [] None None; x_out 2 50 (p2wpkh x03) (Some (ex_pubk 13)) (Some 1%nat);
                      x_out 3 7 (p2wpkh x04) (Some (ex_pubk 14)) (Some 2%nat)].
Definition x_A : party := ([(0%nat, x_s0)], [21; 22; 23; 24; 25; 26]).
Definition x_C : party := ([(2%nat, x_s2)], [31; 32; 33]).
Definition x_B : party := ([(1%nat, x_s1)], [41; 42]).
Definition x_result (sigma : list party) :=
  match run_flow ex_pubk ex_ecdh (fun ps => ps) Debug (mkPset x_ins x_outs []) sigma x_B with
  | OVal (psf, bl) => Some (ps_scalars psf, match extract_tx psf with OVal t => verify_tx_amt_proofs t x_utxos | _ => OFail BalanceCheckFailed end,
                            map (fun e => snd (fst (snd e))) bl)
  | _ => None end.
(* both orders of the non-last parties: scalars empty, the extracted transaction verifies, and the last party solves the SAME value blinding factor *)
Example C09_example_run : exists vbf, x_result [x_A; x_C] = Some ([], OVal tt, [vbf]) /\ x_result [x_C; x_A] = Some ([], OVal tt, [vbf]).
Proof. eexists. vm_compute. split; reflexivity. Qed.
Example C09_example_hypotheses :
  Forall3 in_ok x_ins x_SS x_utxos /\ issuances_unblinded x_ins /\ indices_ok (length x_ins) x_outs /\ flow_ok x_ins x_SS x_outs [x_A; x_C] x_B
  /\ (N.of_nat (length (all_ss x_ins x_SS)) <= CT_SURJECTIONPROOF_MAX_N_INPUTS)%N.
Proof.
  assert (QN : forall x, 0 < x < 2 ^ 64 -> 0 < x < qn) by (intros x H; pose proof qn_big; lia).
  assert (POK : forall (P : party) i a rk v sc b, nth_error x_outs i = Some (x_out a v sc (Some rk) b) -> 1 <= v <= I64_MAX ->
            (exists ad, from_script sc = Script.Val (Some ad)) -> holds_tg (party_tg x_ins (fst P)) a ->
            exists o, nth_error x_outs i = Some o /\ pgood (party_tg x_ins (fst P)) o).
  { intros P i a rk v sc b N R AD H. eexists. split; [exact N|]. exists a, v, rk. cbn. repeat split; try assumption; try apply R. }
  split; [|split; [|split; [|split]]]; [| | | |vm_compute; discriminate].
  - apply Forall3_cons; [|apply Forall3_cons; [|apply Forall3_cons; [|apply Forall3_nil]]];
      (split; [reflexivity|split; [|split; [|split; left; reflexivity]]]).
    + left. split; reflexivity. + left. repeat split; try reflexivity; apply QN; split; reflexivity.
    + right. eexists. split; reflexivity. + right. eexists. split; reflexivity.
    + right. eexists. split; reflexivity. + right. eexists. split; reflexivity.
  - repeat constructor; intro H; discriminate H.
  - apply Forall_forall. intros o I b K B. cbn [x_outs In] in I.
    repeat destruct I as [<-|I]; try contradiction; cbn in B; try discriminate B; injection B as <-; unfold x_ins, x_utxos; cbn [length map]; lia.
  - split; [|split; [|split; [|split; [|split; [|split]]]]].
    + intros P [<-|[<-|[]]]; (split; [intros [|[|[|i]]] s H; cbn in H; try discriminate; injection H as <-; reflexivity|]);
        (split; [vm_compute; discriminate|]); (split; [|split; [vm_compute; lia|repeat (constructor; [apply in_znb_spec; vm_compute; reflexivity|]); constructor]]).
      * intros i I. vm_compute in I. destruct I as [<-|[<-|[]]]; (eapply POK; [reflexivity|vm_compute; split; congruence|eexists; vm_compute; reflexivity|]);
          unfold holds_tg; eexists _, _; vm_compute; left; reflexivity.
      * intros i I. vm_compute in I. destruct I as [<-|[]]. eapply POK; [reflexivity|vm_compute; split; congruence|eexists; vm_compute; reflexivity|].
        unfold holds_tg. eexists _, _. vm_compute. right. right. left. reflexivity.
    + split; [intros [|[|[|i]]] s H; cbn in H; try discriminate; injection H as <-; reflexivity|].
      split; [vm_compute; discriminate|]. split; [|split; [vm_compute; lia|repeat (constructor; [apply in_znb_spec; vm_compute; reflexivity|]); constructor]].
      intros i I. vm_compute in I. destruct I as [<-|[]]. eapply POK; [reflexivity|vm_compute; split; congruence|eexists; vm_compute; reflexivity|].
      unfold holds_tg. eexists _, _. vm_compute. right. left. reflexivity.
    + repeat constructor; cbn [In]; intros H; repeat destruct H as [H|H]; try discriminate H; try contradiction.
    + intros P Q IP IQ NE o IO OP OQ. cbn [app In] in IP, IQ, IO.
      repeat destruct IP as [IP|IP]; try contradiction; repeat destruct IQ as [IQ|IQ]; try contradiction; subst; try congruence;
        repeat destruct IO as [IO|IO]; try contradiction; subst; vm_compute in OP, OQ; discriminate.
    + unfold outputs_assigned, x_outs.
      apply Forall_cons; [right; exists x_A; split; [cbn; tauto|reflexivity]|].
      apply Forall_cons; [right; exists x_A; split; [cbn; tauto|reflexivity]|].
      apply Forall_cons; [left; split; [reflexivity|]; exists 1%N, 1; repeat split; try reflexivity; apply QN; split; reflexivity|].
      apply Forall_cons; [right; exists x_B; split; [cbn; tauto|reflexivity]|].
      apply Forall_cons; [right; exists x_C; split; [cbn; tauto|reflexivity]|]. apply Forall_nil.
    + cbn. apply perm_skip. apply perm_swap.
    + intro b. unfold asset_total, ptotal, x_SS, x_outs, x_out, x_ins, x_utxos. cbn [map all_ss iss_secrets mk_in pi_iss has_issuance in_iss is_amount is_keys null_issuance value_is_null andb negb app isum fold_right s_asset s_value x_s0 x_s1 x_s2 po_asset po_amount].
      destruct (N.eqb_spec b 1) as [->|N1]; [reflexivity|]. destruct (N.eqb_spec b 2) as [->|N2]; [reflexivity|]. destruct (N.eqb_spec b 3) as [->|N3]; reflexivity.
Qed.

Check (C09_any_order : forall (pubk : Z -> Z) (ecdh : Z -> Z -> Z) (p : profile)
  (ins : list pin) (SS : list secrets) (utxos : list txout),
  Forall3 in_ok ins SS utxos -> issuances_unblinded ins ->
  (N.of_nat (length (all_ss ins SS)) <= CT_SURJECTIONPROOF_MAX_N_INPUTS)%N ->
  forall outs0 : list pout, indices_ok (length ins) outs0 ->
  forall hop : pset -> pset, (forall ps, hop ps = ps) ->
  forall (l : list party) (L : party), flow_ok ins SS outs0 l L ->
  (forall a b, ecdh (pubk a) b = ecdh (pubk b) a) ->
  forall sigma, Permutation sigma l ->
  exists psf bl t,
    run_flow pubk ecdh hop p (mkPset ins outs0 []) sigma L = OVal (psf, bl)
    /\ ps_scalars psf = []
    /\ extract_tx psf = OVal t /\ verify_tx_amt_proofs t utxos = OVal tt
    /\ length (ps_out psf) = length outs0 /\ length (t_out t) = length outs0
    /\ forall j o0 rsk, nth_error outs0 j = Some o0 -> po_blinding_key o0 = Some (pubk rsk) ->
         exists o tj s, nth_error (ps_out psf) j = Some o /\ nth_error (t_out t) j = Some tj
           /\ is_fully_blinded o = true
           /\ unblind ecdh tj rsk = OVal s /\ po_asset o0 = Some (s_asset s) /\ po_amount o0 = Some (s_value s)
           /\ o_asset tj = AConf (sgen s) /\ o_value tj = VConf (scommit s)
           /\ (exists a v g c bvp bap, po_asset o = Some a /\ po_amount o = Some v /\ po_asset_comm o = Some g /\ po_amount_comm o = Some c
                 /\ po_bvp o = Some bvp /\ po_bap o = Some bap /\ blind_value_proof_verify bvp v g c = true /\ blind_asset_proof_verify bap a g = true)).
Print Assumptions C09_party_domain_size.
Print Assumptions C09_scalar_meaning.
Print Assumptions C09_domain_limit_non_last.
Print Assumptions C09_any_order.
