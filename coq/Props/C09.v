(* C09 — placeholder while the correspondence is brought up *)
From Coq Require Import List ZArith.
From EV Require Import Base.Zn.
Theorem C09_placeholder : forall a b, zadd a b = zadd b a.
Proof. exact zadd_comm. Qed.
Print Assumptions C09_placeholder.
