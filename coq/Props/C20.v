(* C20 — serde and textual forms round-trip.  Statements only; proofs in Proofs/Text.v (text forms) and Proofs/Serde.v (serde).

   Part A (text): for every type with both Display and FromStr, parsing the printed form returns the value:
     parse_T (print_T x) = Ok x     for every value x of the type (the hypotheses are exactly the type's invariants:
                                    array length, u32 range, Tweak below the group order, enum membership).
   The reversal flags, prefix / separator strings, lock-time threshold and every sighash string are the definitions that
   translator/tables_C20.py regenerates from the Rust source into Gen/Tables.v, so a changed string changes these theorems.
   The PSET base64 text form belongs to C07 and is not stated here.

   Part B (serde): for every hand-written Serialize / Deserialize pair (and the dependency / derived impls they bottom out in),
     swf x -> de_T true (json_view (ser_T true x)) = Ok x  /\  de_T false (cbor_view (ser_T false x)) = Ok x
   where `swf` is exactly the invariant of the Rust type (u32 / u64 ranges, array lengths, curve points and proofs the library
   accepts, Tweak range) — weaker than the consensus codec's canonicity `wf`, so these theorems also cover values that are not
   consensus-canonical (e.g. an input whose index carries flag bits).  `C20_serde_canonical_*` restate them under the codecs' `wf`.
   They hold for every curve-point oracle `pt_ok`.
   The serde_derive-generated impls of the PSET types (PartiallySignedTransaction, pset::Global, TxData, Input, Output, raw::Key, ProprietaryKey,
   SchnorrSig, ControlBlock) and the serde_utils helpers are codecs assembled from combinators over the field tables regenerated from the source
   (Model/SerdePset.v); `SLawful c` is: for both views, every well-formed value deserializes back from its own serialization.  Dependency leaves
   (bitcoin::PublicKey, XOnlyPublicKey, schnorr::Signature, KeySource, Xpub, bitcoin::Transaction) and pset::TapTree enter through a round-trip premise. *)
From Coq Require Import List NArith Bool.
From Coq.Strings Require Import Byte.
From EV Require Import Base.Bytes Base.Codec Gen.Tables Model.Tx Model.Block Model.Text Model.Serde Model.SerdePset Proofs.Text Proofs.Serde Proofs.SerdeBridge Proofs.SerdePset.
Import ListNotations.
Open Scope N_scope.

(* ---- hash newtypes: one theorem over the regenerated table (name, length, Display direction, FromStr direction) ... *)
Theorem C20_text_hash_newtypes : forall name len db pb b,
  In (name, (len, (db, pb))) hash_text_table -> N.of_nat (length b) = len -> parse_hash len pb (print_hash db b) = Ok b.
Proof. intros name len db pb b HIn L.
  assert (D : forallb (fun e => Bool.eqb (fst (snd (snd e))) (snd (snd (snd e)))) hash_text_table = true) by (vm_compute; reflexivity).
  rewrite forallb_forall in D. specialize (D _ HIn). cbn in D. apply Bool.eqb_prop in D. subst pb. now apply parse_print_hash. Qed.
(* ... and spelled out for the types the property names *)
Theorem C20_text_Txid : forall b, length b = 32%nat -> parse_hash hashlen_Txid hash_parse_backward_Txid (print_hash hash_display_backward_Txid b) = Ok b.
Proof. intros b L. apply parse_print_hash. now rewrite L. Qed.
Theorem C20_text_BlockHash : forall b, length b = 32%nat -> parse_hash hashlen_BlockHash hash_parse_backward_BlockHash (print_hash hash_display_backward_BlockHash b) = Ok b.
Proof. intros b L. apply parse_print_hash. now rewrite L. Qed.
Theorem C20_text_AssetId : forall b, length b = 32%nat -> parse_hash hashlen_AssetId hash_parse_backward_AssetId (print_hash hash_display_backward_AssetId b) = Ok b.
Proof. intros b L. apply parse_print_hash. now rewrite L. Qed.
Theorem C20_text_ContractHash : forall b, length b = 32%nat -> parse_hash hashlen_ContractHash hash_parse_backward_ContractHash (print_hash hash_display_backward_ContractHash b) = Ok b.
Proof. intros b L. apply parse_print_hash. now rewrite L. Qed.
Theorem C20_text_AssetEntropy : forall b, length b = 32%nat -> parse_hash hashlen_AssetEntropy hash_parse_backward_AssetEntropy (print_hash hash_display_backward_AssetEntropy b) = Ok b.
Proof. intros b L. apply parse_print_hash. now rewrite L. Qed.
Theorem C20_text_ScriptHash : forall b, length b = 20%nat -> parse_hash hashlen_ScriptHash hash_parse_backward_ScriptHash (print_hash hash_display_backward_ScriptHash b) = Ok b.
Proof. intros b L. apply parse_print_hash. now rewrite L. Qed.

(* ---- blinding factors: 32 bytes that Tweak::from_inner accepts *)
Theorem C20_text_AssetBlindingFactor : forall b, length b = 32%nat -> tweak_ok b = true ->
  parse_bf hashlen_AssetBlindingFactor hash_parse_backward_AssetBlindingFactor (print_bf hash_display_backward_AssetBlindingFactor b) = Ok b.
Proof. intros b L T. apply parse_print_bf; [now rewrite L|exact T]. Qed.
Theorem C20_text_ValueBlindingFactor : forall b, length b = 32%nat -> tweak_ok b = true ->
  parse_bf hashlen_ValueBlindingFactor hash_parse_backward_ValueBlindingFactor (print_bf hash_display_backward_ValueBlindingFactor b) = Ok b.
Proof. intros b L T. apply parse_print_bf; [now rewrite L|exact T]. Qed.

(* ---- u32 decimals *)
Theorem C20_text_Sequence : forall n, n < 4294967296 -> parse_sequence (print_sequence n) = Ok n.
Proof. exact parse_print_sequence. Qed.
Theorem C20_text_LockTime : forall l, locktime_wf l = true -> parse_locktime (print_locktime l) = Ok l.
Proof. exact parse_print_locktime. Qed.
(* F17 (repaired): Height / Time used to derive Deserialize, so serde handed out `Blocks(Height(500000000))`, whose printed form parses to the other
   variant.  Their Deserialize now ends in from_consensus; the model's de_locktime follows.  Every LockTime that Deserialize returns satisfies the
   type's invariant, hence survives Display -> FromStr; and that invariant is exactly the class on which the text round trip holds. *)
Theorem C20_serde_LockTime_validates : forall v l, de_locktime v = Ok l -> locktime_wf l = true.
Proof. exact de_locktime_wf. Qed.
Theorem C20_text_LockTime_deserialized : forall v l, de_locktime v = Ok l -> parse_locktime (print_locktime l) = Ok l.
Proof. intros v l H. apply parse_print_locktime. exact (de_locktime_wf v l H). Qed.
Theorem C20_text_LockTime_exact : forall l, locktime_to_consensus l < 4294967296 -> (parse_locktime (print_locktime l) = Ok l <-> locktime_wf l = true).
Proof. exact parse_print_locktime_iff. Qed.
Theorem C20_text_Height : forall h, h < C20_LOCK_TIME_THRESHOLD -> parse_height (print_height h) = Ok h.
Proof. exact parse_print_height. Qed.
Theorem C20_text_Time : forall t, C20_LOCK_TIME_THRESHOLD <= t -> t < 4294967296 -> parse_time (print_time t) = Ok t.
Proof. exact parse_print_time. Qed.
(* the integer printer / parser pair itself, for every radix the code uses and every unsigned width *)
Theorem C20_text_uint : forall radix bound n, 2 <= radix -> radix <= 16 -> n < bound -> parse_uint radix bound (print_radix radix n) = Ok n.
Proof. intros. now apply parse_print_radix. Qed.

(* ---- OutPoint *)
Theorem C20_text_OutPoint : forall o, length (o_txid o) = 32%nat -> o_vout o < 4294967296 -> parse_outpoint (print_outpoint o) = Ok o.
Proof. exact parse_print_outpoint. Qed.

(* ---- sighash types: every variant of the enum declarations; every u32 for PsbtSighashType *)
Theorem C20_text_EcdsaSighashType : forall v, is_variant ecdsa_sighash_variants v = true -> parse_ecdsa_sighash (print_ecdsa_sighash v) = Ok v.
Proof. exact parse_print_ecdsa. Qed.
Theorem C20_text_SchnorrSighashType : forall v, is_variant schnorr_sighash_variants v = true -> parse_schnorr_sighash (print_schnorr_sighash v) = Ok v.
Proof. exact parse_print_schnorr. Qed.
Theorem C20_text_PsbtSighashType : forall v, v < 4294967296 -> parse_psbt_sighash (print_psbt_sighash v) = Ok v.
Proof. exact parse_print_psbt. Qed.
Theorem C20_text_reserved_sighash :
  print_psbt_sighash 255 = "0xff"%lb /\ parse_psbt_sighash "0xff"%lb = Ok 255 /\
  print_schnorr_sighash 255 = "SIGHASH_RESERVED"%lb /\ parse_schnorr_sighash "SIGHASH_RESERVED"%lb = Ok 255 /\
  parse_psbt_sighash "SIGHASH_RESERVED"%lb = Err "unrecognized"%lb.
Proof. vm_compute. repeat split; reflexivity. Qed.

(* ================================================================ Part B: serde ================================================================ *)
Section C20_SERDE.
Variable pt_ok : bytes -> bool.
Local Notation RT ser de x := (de true (json_view (ser true x)) = Ok x /\ de false (cbor_view (ser false x)) = Ok x).

Theorem C20_serde_Value : forall v, swf_value pt_ok v = true -> RT ser_value (de_value pt_ok) v.
Proof. intros v W. split; [exact (rt_value pt_ok true v W)|exact (rt_value pt_ok false v W)]. Qed.
Theorem C20_serde_Asset : forall v, swf_asset pt_ok v = true -> RT ser_asset (de_asset pt_ok) v.
Proof. intros v W. split; [exact (rt_asset pt_ok true v W)|exact (rt_asset pt_ok false v W)]. Qed.
Theorem C20_serde_Nonce : forall v, swf_nonce pt_ok v = true -> RT ser_nonce (de_nonce pt_ok) v.
Proof. intros v W. split; [exact (rt_nonce pt_ok true v W)|exact (rt_nonce pt_ok false v W)]. Qed.
Theorem C20_serde_OutPoint : forall o, swf_outpoint o = true -> RT ser_outpoint de_outpoint o.
Proof. intros o W. split; [exact (rt_outpoint true o W)|exact (rt_outpoint false o W)]. Qed.
Theorem C20_serde_AssetIssuance : forall i, swf_issuance pt_ok i = true -> RT ser_issuance (de_issuance pt_ok) i.
Proof. intros i W. split; [exact (rt_issuance pt_ok true i W)|exact (rt_issuance pt_ok false i W)]. Qed.
Theorem C20_serde_TxInWitness : forall w, swf_inwit w = true -> RT ser_inwit de_inwit w.
Proof. intros w W. split; [exact (rt_inwit true w W)|exact (rt_inwit false w W)]. Qed.
Theorem C20_serde_TxOutWitness : forall w, swf_outwit w = true -> RT ser_outwit de_outwit w.
Proof. intros w W. split; [exact (rt_outwit true w W)|exact (rt_outwit false w W)]. Qed.
Theorem C20_serde_TxIn : forall i, swf_txin pt_ok i = true -> RT ser_txin (de_txin pt_ok) i.
Proof. intros i W. split; [exact (rt_txin pt_ok true i W)|exact (rt_txin pt_ok false i W)]. Qed.
Theorem C20_serde_TxOut : forall o, swf_txout pt_ok o = true -> RT ser_txout (de_txout pt_ok) o.
Proof. intros o W. split; [exact (rt_txout pt_ok true o W)|exact (rt_txout pt_ok false o W)]. Qed.
Theorem C20_serde_Transaction : forall t, swf_tx pt_ok t = true -> RT ser_tx (de_tx pt_ok) t.
Proof. intros t W. split; [exact (rt_tx pt_ok true t W)|exact (rt_tx pt_ok false t W)]. Qed.
Theorem C20_serde_Params : forall p, swf_params p = true -> RT ser_params de_params p.
Proof. intros p W. split; [exact (rt_params true p W)|exact (rt_params false p W)]. Qed.
Theorem C20_serde_ExtData : forall e, swf_extdata e = true -> RT ser_extdata de_extdata e.
Proof. intros e W. split; [exact (rt_extdata true e W)|exact (rt_extdata false e W)]. Qed.
Theorem C20_serde_BlockHeader : forall h, swf_header h = true -> RT ser_header de_header h.
Proof. intros h W. split; [exact (rt_header true h W)|exact (rt_header false h W)]. Qed.
Theorem C20_serde_Block : forall b, swf_block pt_ok b = true -> RT ser_block (de_block pt_ok) b.
Proof. intros b W. split; [exact (rt_block pt_ok true b W)|exact (rt_block pt_ok false b W)]. Qed.
Theorem C20_serde_TxOutSecrets : forall s, swf_secrets s = true -> RT ser_secrets de_secrets s.
Proof. intros s W. split; [exact (rt_secrets true s W)|exact (rt_secrets false s W)]. Qed.
(* LockTime: every value of the type (heights below, times at or above the threshold) *)
Theorem C20_serde_LockTime : forall l, locktime_wf l = true -> RT (fun _ : bool => ser_locktime) (fun _ : bool => de_locktime) l.
Proof. intros l W. split; [exact (rt_locktime true l W)|exact (rt_locktime false l W)]. Qed.
(* leaves: hash newtypes (every entry of the regenerated table), Script, blinding factors *)
Theorem C20_serde_hash_newtypes : forall name len db pb b, In (name, (len, (db, pb))) hash_serde_table -> N.of_nat (length b) = len ->
  RT (fun hr => ser_hash hr db) (fun hr => de_hash hr len pb) b.
Proof. intros name len db pb b HIn L.
  assert (D : forallb (fun e => Bool.eqb (fst (snd (snd e))) (snd (snd (snd e)))) hash_serde_table = true) by (vm_compute; reflexivity).
  rewrite forallb_forall in D. specialize (D _ HIn). cbn in D. apply Bool.eqb_prop in D. subst pb.
  split; [exact (rt_hash true len db b L)|exact (rt_hash false len db b L)]. Qed.
Theorem C20_serde_midstate_wrappers : forall b, length b = 32%nat -> RT ser_midstate de_midstate b.       (* AssetId, AssetEntropy, ParamsRoot, ElidedRoot, DynafedRoot *)
Proof. intros b L. split; [exact (rt_midstate true b L)|exact (rt_midstate false b L)]. Qed.
Theorem C20_serde_Script : forall b, RT (fun _ : bool => ser_script) (fun _ : bool => de_script) b.
Proof. intros b. split; [exact (rt_script true b)|exact (rt_script false b)]. Qed.
Theorem C20_serde_AssetBlindingFactor : forall b, swf_bf b = true ->
  RT (fun hr => ser_bf hr hash_display_backward_AssetBlindingFactor) (fun hr => de_bf hr hash_parse_backward_AssetBlindingFactor) b.
Proof. intros b W. apply andb_prop in W as [L T]. apply len_is_eq in L.
  split; [exact (rt_bf true _ b L T)|exact (rt_bf false _ b L T)]. Qed.
Theorem C20_serde_ValueBlindingFactor : forall b, swf_bf b = true ->
  RT (fun hr => ser_bf hr hash_display_backward_ValueBlindingFactor) (fun hr => de_bf hr hash_parse_backward_ValueBlindingFactor) b.
Proof. intros b W. apply andb_prop in W as [L T]. apply len_is_eq in L.
  split; [exact (rt_bf true _ b L T)|exact (rt_bf false _ b L T)]. Qed.
(* types serialized as their Display string (Address, EcdsaSighashType, SchnorrSighashType, PsbtSighashType): the serde round trip is the
   text round trip; for Address that is property C06 (premise), for the sighash types it is Part A above *)
Theorem C20_serde_string_forms : forall (A : Type) (print : A -> bytes) (parse : bytes -> res A) a, parse (print a) = Ok a ->
  RT (fun _ : bool => ser_string print) (fun _ : bool => de_string parse) a.
Proof. intros A print parse a H. split; [exact (rt_string true print parse a H)|exact (rt_string false print parse a H)]. Qed.
Theorem C20_serde_PsbtSighashType : forall v, v < 4294967296 ->
  RT (fun _ : bool => ser_string print_psbt_sighash) (fun _ : bool => de_string parse_psbt_sighash) v.
Proof. intros v H. apply C20_serde_string_forms. now apply parse_print_psbt. Qed.
(* the same under the consensus codecs' canonicity predicate `wf` (the hypothesis of C01): wf implies swf (Proofs/SerdeBridge.v) *)
Variables maxvec cap_txin cap_txout cap_vecu8 cap_tx : N.
Theorem C20_wf_implies_swf :
  (forall t, wf (c_tx pt_ok maxvec cap_txin cap_txout cap_vecu8) t = true -> swf_tx pt_ok t = true) /\
  (forall i, wf (c_txin pt_ok maxvec) i = true -> swf_txin pt_ok i = true) /\ (forall o, wf (c_txout pt_ok maxvec) o = true -> swf_txout pt_ok o = true) /\
  (forall h, wf (c_header maxvec cap_vecu8) h = true -> swf_header h = true) /\
  (forall b, wf (c_block pt_ok maxvec cap_txin cap_txout cap_vecu8 cap_tx) b = true -> swf_block pt_ok b = true) /\
  (forall p, wf (c_params maxvec cap_vecu8) p = true -> swf_params p = true) /\
  (forall v, wf (c_value pt_ok) v = true -> swf_value pt_ok v = true) /\ (forall v, wf (c_asset pt_ok) v = true -> swf_asset pt_ok v = true) /\
  (forall v, wf (c_nonce pt_ok) v = true -> swf_nonce pt_ok v = true).
Proof. repeat split; intros x H; [eapply br_tx|eapply br_txin|eapply br_txout|eapply (br_header pt_ok)|eapply br_block|eapply br_params|eapply br_value|eapply br_asset|eapply br_nonce]; exact H. Qed.
Theorem C20_serde_canonical_Transaction : forall t, wf (c_tx pt_ok maxvec cap_txin cap_txout cap_vecu8) t = true -> RT ser_tx (de_tx pt_ok) t.
Proof. intros t H. apply C20_serde_Transaction. eapply br_tx; exact H. Qed.
Theorem C20_serde_canonical_BlockHeader : forall h, wf (c_header maxvec cap_vecu8) h = true -> RT ser_header de_header h.
Proof. intros h H. apply C20_serde_BlockHeader. eapply (br_header pt_ok); exact H. Qed.
Theorem C20_serde_canonical_Block : forall b, wf (c_block pt_ok maxvec cap_txin cap_txout cap_vecu8 cap_tx) b = true -> RT ser_block (de_block pt_ok) b.
Proof. intros b H. apply C20_serde_Block. eapply br_block; exact H. Qed.
End C20_SERDE.

(* ================================================================ Part B, continued: the derived PSET serde ================================================================ *)
(* the combinators: Option, Vec, tuples, plain maps, the three serde_utils map encodings, hex_bytes, and a serde_derive struct over ANY field list
   with distinct names whose field codecs are lawful (unknown keys skipped, repeated keys rejected, missing fields rejected unless Option) *)
Theorem C20_serde_derived_struct : forall name F, nodup_names (map fst F) = true -> Forall SLawful (map snd F) -> SLawful (sc_struct name F).
Proof. exact struct_lawful. Qed.
Theorem C20_serde_option : forall c, SLawful c -> SNonNull c -> SLawful (sc_option c).                  Proof. exact option_lawful. Qed.
Theorem C20_serde_vec : forall c, SLawful c -> SLawful (sc_vec c).                                        Proof. exact vec_lawful. Qed.
Theorem C20_serde_tuple : forall cs, Forall SLawful cs -> SLawful (sc_tuple cs).                          Proof. exact tuple_lawful. Qed.
Theorem C20_serde_btreemap : forall kc vc, SLawful kc -> SLawful vc -> SLawful (sc_map kc vc).            Proof. exact map_lawful. Qed.
Theorem C20_serde_btreemap_as_seq : forall kc vc, SLawful kc -> SLawful vc -> SLawful (sc_map_as_seq kc vc).  Proof. exact map_as_seq_lawful. Qed.
Theorem C20_serde_btreemap_byte_values : forall kc, SLawful kc -> SLawful (sc_map_byte_values kc).        Proof. exact map_byte_values_lawful. Qed.
Theorem C20_serde_btreemap_as_seq_byte_values : forall kc, SLawful kc -> SLawful (sc_map_as_seq_byte_values kc).  Proof. exact map_as_seq_byte_values_lawful. Qed.
Theorem C20_serde_hex_bytes : SLawful sc_hexbytes.                                                        Proof. exact hexbytes_lawful. Qed.

Section C20_PSET_SERDE.
Variable pt_ok : bytes -> bool.
Variables maxvec cap_txin cap_txout cap_vecu8 : N.
Variable leaf_ser : bytes -> bool -> bytes -> sval.
Variable leaf_de : bytes -> bool -> sval -> res bytes.
Variable leaf_ok : bytes -> bytes -> bool.
(* premise (trusted, checked on the real crate by every `ps` case): the dependency's own Serialize / Deserialize round-trip, and never write null *)
Hypothesis leaf_roundtrip : forall kind hr b, leaf_ok kind b = true -> leaf_de kind hr (view hr (leaf_ser kind hr b)) = Ok b.
Hypothesis leaf_not_null : forall kind hr b, leaf_ok kind b = true -> view hr (leaf_ser kind hr b) <> VUnit.
Local Notation PSET := (sc_pset pt_ok maxvec cap_txin cap_txout cap_vecu8 leaf_ser leaf_de leaf_ok).

(* every field of every derived struct has a codec (a field added to the Rust struct without a model counterpart makes this false) *)
Theorem C20_pset_fields_known :
  fields_known (table0 leaf_ser leaf_de leaf_ok) pset_serde_TxData = true /\ fields_known (table0 leaf_ser leaf_de leaf_ok) pset_serde_Key = true /\
  fields_known (table0 leaf_ser leaf_de leaf_ok) pset_serde_ProprietaryKey = true /\ fields_known (table0 leaf_ser leaf_de leaf_ok) pset_serde_SchnorrSig = true /\
  fields_known (table0 leaf_ser leaf_de leaf_ok) pset_serde_ControlBlock = true /\
  fields_known (table1 pt_ok maxvec cap_txin cap_txout cap_vecu8 leaf_ser leaf_de leaf_ok) pset_serde_Global = true /\
  fields_known (table1 pt_ok maxvec cap_txin cap_txout cap_vecu8 leaf_ser leaf_de leaf_ok) pset_serde_Input = true /\
  fields_known (table1 pt_ok maxvec cap_txin cap_txout cap_vecu8 leaf_ser leaf_de leaf_ok) pset_serde_Output = true /\
  fields_known (table2 pt_ok maxvec cap_txin cap_txout cap_vecu8 leaf_ser leaf_de leaf_ok) pset_serde_PartiallySignedTransaction = true.
Proof. vm_compute. repeat split; reflexivity. Qed.

Theorem C20_serde_pset_TxData : SLawful (sc_txdata leaf_ser leaf_de leaf_ok).                   Proof. apply txdata_lawful; assumption. Qed.
Theorem C20_serde_pset_raw_Key : SLawful (sc_rawkey leaf_ser leaf_de leaf_ok).                  Proof. apply rawkey_lawful; assumption. Qed.
Theorem C20_serde_pset_ProprietaryKey : SLawful (sc_propkey leaf_ser leaf_de leaf_ok).          Proof. apply propkey_lawful; assumption. Qed.
Theorem C20_serde_SchnorrSig : SLawful (sc_schnorrsig leaf_ser leaf_de leaf_ok).                Proof. apply schnorrsig_lawful; assumption. Qed.
Theorem C20_serde_ControlBlock : SLawful (sc_controlblock leaf_ser leaf_de leaf_ok).            Proof. apply controlblock_lawful; assumption. Qed.
Theorem C20_serde_pset_Global : SLawful (sc_global pt_ok maxvec cap_txin cap_txout cap_vecu8 leaf_ser leaf_de leaf_ok).
Proof. apply global_lawful; assumption. Qed.
Theorem C20_serde_pset_Input : SLawful (sc_input pt_ok maxvec cap_txin cap_txout cap_vecu8 leaf_ser leaf_de leaf_ok).
Proof. apply input_lawful; assumption. Qed.
Theorem C20_serde_pset_Output : SLawful (sc_output pt_ok maxvec cap_txin cap_txout cap_vecu8 leaf_ser leaf_de leaf_ok).
Proof. apply output_lawful; assumption. Qed.
(* the property's sentence for PSETs: any number of inputs and outputs, every subset of the fields, maps of any size *)
Theorem C20_serde_PartiallySignedTransaction : forall x, s_wf PSET x = true ->
  s_de PSET true (json_view (s_ser PSET true x)) = Ok x /\ s_de PSET false (cbor_view (s_ser PSET false x)) = Ok x.
Proof. intros x W. assert (L : SLawful PSET) by (apply pset_lawful; assumption). split; [exact (L true x W)|exact (L false x W)]. Qed.
End C20_PSET_SERDE.

(* non-vacuity: a PSET with one input and one output in which every optional field is absent and every map empty is well-formed for the codec,
   and this is its JSON key order (no dependency leaf occurs, so the leaf oracle can be anything) *)
Definition default_of (key : bytes) : fval :=
  if starts_with "Option<"%lb key then FOpt None else if starts_with "BTreeMap<"%lb key then FList [] else if starts_with "Vec<"%lb key then FList []
  else if starts_with "Txid|"%lb key then FB (repeat x00 32) else if starts_with "Script|"%lb key then FB [x51] else FN 2.
Definition default_fields (l : list (bytes * bytes)) : list fval := map (fun nk => default_of (snd nk)) l.
Definition no_leaf_ser (_ : bytes) (_ : bool) (_ : bytes) : sval := VUnit.
Definition no_leaf_de (_ : bytes) (_ : bool) (_ : sval) : res bytes := Err [].
Definition no_leaf_ok (_ _ : bytes) : bool := false.
Definition tiny_pset : fval :=
  FTup [ FTup (FTup (default_fields pset_serde_TxData) :: tl (default_fields pset_serde_Global));
         FList [FTup (default_fields pset_serde_Input)]; FList [FTup (default_fields pset_serde_Output)] ].
Example C20_serde_pset_example :
  let c := sc_pset (fun _ => true) 4000000 1000 1000 1000 no_leaf_ser no_leaf_de no_leaf_ok in
  s_wf c tiny_pset = true /\ s_de c true (json_view (s_ser c true tiny_pset)) = Ok tiny_pset /\
  match json_view (s_ser c true tiny_pset) with
  | VMap [(VStr g, VMap ((VStr td, VMap ((VStr v1, VU64 2) :: _)) :: (VStr v2, VU64 2) :: _)); (VStr i, VSeq [_]); (VStr o, VSeq [_])] =>
      bytes_eqb g "global"%lb && bytes_eqb td "tx_data"%lb && bytes_eqb v1 "version"%lb && bytes_eqb v2 "version"%lb && bytes_eqb i "inputs"%lb && bytes_eqb o "outputs"%lb
  | _ => false end = true.
Proof. vm_compute. repeat split; reflexivity. Qed.

(* what the views are, on a small transaction output; and that the byte swap is really there *)
Example C20_serde_examples :
  json_view (ser_value true (VExplicit 1)) = VSeq [VU64 1; VU64 72057594037927936] /\
  cbor_view (ser_asset false (AExplicit (repeat x07 32))) = VSeq [VU64 1; VBytes (repeat x07 32)] /\
  json_view (ser_asset true (AExplicit (repeat x00 31 ++ [x01]))) = VSeq [VU64 1; VStr "0100000000000000000000000000000000000000000000000000000000000000"%lb] /\
  json_view (ser_locktime (Blocks 5)) = VMap [(VStr "Blocks"%lb, VU64 5)] /\ de_locktime (VMap [(VStr "Blocks"%lb, VU64 500000000)]) = Err "notheight"%lb /\ cbor_view (ser_locktime (Seconds 600000000)) = VSeq [VStr "Seconds"%lb; VU64 600000000] /\
  de_params true (VMap [(VStr "signblockscript"%lb, VStr "51"%lb)]) = Ok PNull /\
  de_extdata true (VMap [(VStr "challenge"%lb, VStr "51"%lb)]) = Err "missing"%lb /\
  de_value (fun _ => true) true (VSeq [VU64 0; VU64 0]) = Err "trailing"%lb /\
  swf_txin (fun _ => true) {| in_prev := {| o_txid := repeat x11 32; o_vout := 3221225473 |}; in_pegin := true; in_script := []; in_seq := 0; in_iss := null_issuance; in_wit := empty_inwit |} = true.
Proof. vm_compute. repeat split; reflexivity. Qed.

(* non-vacuity and the shape of the printed forms *)
Example C20_text_examples :
  print_outpoint {| o_txid := repeat x00 31 ++ [x01]; o_vout := 7 |} = "[elements]0100000000000000000000000000000000000000000000000000000000000000:7"%lb /\
  parse_outpoint "0100000000000000000000000000000000000000000000000000000000000000:7"%lb = Ok {| o_txid := repeat x00 31 ++ [x01]; o_vout := 7 |} /\
  parse_outpoint "0100000000000000000000000000000000000000000000000000000000000000:07"%lb = Err "vout-noncanonical"%lb /\
  parse_sequence "+007"%lb = Ok 7 /\ parse_sequence "4294967296"%lb = Err "overflow"%lb /\ parse_sequence ""%lb = Err "empty"%lb /\
  print_locktime (Seconds 500000000) = "500000000"%lb /\ parse_locktime "499999999"%lb = Ok (Blocks 499999999) /\
  parse_height "500000000"%lb = Err "notheight"%lb /\
  print_psbt_sighash 4 = "0x4"%lb /\ parse_psbt_sighash "0x0x+0Ff"%lb = Ok 255 /\
  is_variant ecdsa_sighash_variants 129 = true /\ print_ecdsa_sighash 129 = "SIGHASH_ALL|SIGHASH_ANYONECANPAY"%lb /\
  locktime_wf (Blocks 5) = true /\ tweak_ok (repeat xff 32) = false /\ tweak_ok (repeat x00 31 ++ [x01]) = true.
Proof. vm_compute. repeat split; reflexivity. Qed.

Check (C20_text_hash_newtypes : forall name len db pb b,
  In (name, (len, (db, pb))) hash_text_table -> N.of_nat (length b) = len -> parse_hash len pb (print_hash db b) = Ok b).
Check (C20_text_AssetBlindingFactor : forall b, length b = 32%nat -> tweak_ok b = true ->
  parse_bf hashlen_AssetBlindingFactor hash_parse_backward_AssetBlindingFactor (print_bf hash_display_backward_AssetBlindingFactor b) = Ok b).
Check (C20_text_LockTime : forall l, locktime_wf l = true -> parse_locktime (print_locktime l) = Ok l).
Check (C20_text_LockTime_deserialized : forall v l, de_locktime v = Ok l -> parse_locktime (print_locktime l) = Ok l).
Check (C20_text_LockTime_exact : forall l, locktime_to_consensus l < 4294967296 -> (parse_locktime (print_locktime l) = Ok l <-> locktime_wf l = true)).
Check (C20_text_OutPoint : forall o, length (o_txid o) = 32%nat -> o_vout o < 4294967296 -> parse_outpoint (print_outpoint o) = Ok o).
Check (C20_text_EcdsaSighashType : forall v, is_variant ecdsa_sighash_variants v = true -> parse_ecdsa_sighash (print_ecdsa_sighash v) = Ok v).
Check (C20_text_SchnorrSighashType : forall v, is_variant schnorr_sighash_variants v = true -> parse_schnorr_sighash (print_schnorr_sighash v) = Ok v).
Check (C20_text_PsbtSighashType : forall v, v < 4294967296 -> parse_psbt_sighash (print_psbt_sighash v) = Ok v).
Check (C20_serde_Transaction : forall pt_ok t, swf_tx pt_ok t = true ->
  de_tx pt_ok true (json_view (ser_tx true t)) = Ok t /\ de_tx pt_ok false (cbor_view (ser_tx false t)) = Ok t).
Check (C20_serde_TxIn : forall pt_ok i, swf_txin pt_ok i = true ->
  de_txin pt_ok true (json_view (ser_txin true i)) = Ok i /\ de_txin pt_ok false (cbor_view (ser_txin false i)) = Ok i).
Check (C20_serde_TxOut : forall pt_ok o, swf_txout pt_ok o = true ->
  de_txout pt_ok true (json_view (ser_txout true o)) = Ok o /\ de_txout pt_ok false (cbor_view (ser_txout false o)) = Ok o).
Check (C20_serde_Value : forall pt_ok v, swf_value pt_ok v = true ->
  de_value pt_ok true (json_view (ser_value true v)) = Ok v /\ de_value pt_ok false (cbor_view (ser_value false v)) = Ok v).
Check (C20_serde_OutPoint : forall o, swf_outpoint o = true ->
  de_outpoint true (json_view (ser_outpoint true o)) = Ok o /\ de_outpoint false (cbor_view (ser_outpoint false o)) = Ok o).
Check (C20_serde_BlockHeader : forall h, swf_header h = true ->
  de_header true (json_view (ser_header true h)) = Ok h /\ de_header false (cbor_view (ser_header false h)) = Ok h).
Check (C20_serde_Block : forall pt_ok b, swf_block pt_ok b = true ->
  de_block pt_ok true (json_view (ser_block true b)) = Ok b /\ de_block pt_ok false (cbor_view (ser_block false b)) = Ok b).
Check (C20_serde_Params : forall p, swf_params p = true ->
  de_params true (json_view (ser_params true p)) = Ok p /\ de_params false (cbor_view (ser_params false p)) = Ok p).
Check (C20_serde_TxOutSecrets : forall s, swf_secrets s = true ->
  de_secrets true (json_view (ser_secrets true s)) = Ok s /\ de_secrets false (cbor_view (ser_secrets false s)) = Ok s).
Check (C20_serde_canonical_Transaction : forall pt_ok maxvec cap_txin cap_txout cap_vecu8 t, wf (c_tx pt_ok maxvec cap_txin cap_txout cap_vecu8) t = true ->
  de_tx pt_ok true (json_view (ser_tx true t)) = Ok t /\ de_tx pt_ok false (cbor_view (ser_tx false t)) = Ok t).
Check (C20_serde_PartiallySignedTransaction : forall pt_ok maxvec cap_txin cap_txout cap_vecu8 leaf_ser leaf_de leaf_ok,
  (forall kind hr b, leaf_ok kind b = true -> leaf_de kind hr (view hr (leaf_ser kind hr b)) = Ok b) ->
  (forall kind hr b, leaf_ok kind b = true -> view hr (leaf_ser kind hr b) <> VUnit) ->
  forall x, s_wf (sc_pset pt_ok maxvec cap_txin cap_txout cap_vecu8 leaf_ser leaf_de leaf_ok) x = true ->
  s_de (sc_pset pt_ok maxvec cap_txin cap_txout cap_vecu8 leaf_ser leaf_de leaf_ok) true (json_view (s_ser (sc_pset pt_ok maxvec cap_txin cap_txout cap_vecu8 leaf_ser leaf_de leaf_ok) true x)) = Ok x /\
  s_de (sc_pset pt_ok maxvec cap_txin cap_txout cap_vecu8 leaf_ser leaf_de leaf_ok) false (cbor_view (s_ser (sc_pset pt_ok maxvec cap_txin cap_txout cap_vecu8 leaf_ser leaf_de leaf_ok) false x)) = Ok x).
Check (C20_serde_derived_struct : forall name F, nodup_names (map fst F) = true -> Forall SLawful (map snd F) -> SLawful (sc_struct name F)).
