(* C20 — serde and textual forms round-trip.  Statements only; proofs in Proofs/Text.v (text forms) and Proofs/Serde.v (serde).

   Part A (text): for every type with both Display and FromStr, parsing the printed form returns the value:
     parse_T (print_T x) = Ok x     for every value x of the type (the hypotheses are exactly the type's invariants:
                                    array length, u32 range, Tweak below the group order, enum membership).
   The reversal flags, prefix / separator strings, lock-time threshold and every sighash string are the definitions that
   translator/tables_C20.py regenerates from the Rust source into Gen/Tables.v, so a changed string changes these theorems.
   The PSET base64 text form belongs to C07 and is not stated here. *)
From Coq Require Import List NArith Bool.
From Coq.Strings Require Import Byte.
From EV Require Import Base.Bytes Gen.Tables Model.Tx Model.Text Proofs.Text.
Import ListNotations.
Open Scope N_scope.

(* ---- hash newtypes: one theorem over the regenerated table (name, length, Display direction, FromStr direction) ... *)
Theorem C20_text_hash_newtypes : forall name len db pb b,
  In (name, (len, (db, pb))) hash_text_table -> N.of_nat (length b) = len -> parse_hash len pb (print_hash db b) = Ok b.
Proof. intros name len db pb b HIn L.
  assert (D : forallb (fun e => Bool.eqb (fst (snd (snd e))) (snd (snd (snd e)))) hash_text_table = true) by (vm_compute; reflexivity).
  rewrite forallb_forall in D. specialize (D _ HIn). cbn in D. apply Bool.eqb_prop in D. subst pb. now apply parse_print_hash. Qed.
(* ... and spelled out for the types the property names *)
Theorem C20_text_Txid : forall b, length b = 32%nat -> parse_hash hashlen_Txid hash_parse_backward_Txid (print_hash hash_display_backward_Txid b) = Ok b.
Proof. intros b L. apply parse_print_hash. now rewrite L. Qed.
Theorem C20_text_BlockHash : forall b, length b = 32%nat -> parse_hash hashlen_BlockHash hash_parse_backward_BlockHash (print_hash hash_display_backward_BlockHash b) = Ok b.
Proof. intros b L. apply parse_print_hash. now rewrite L. Qed.
Theorem C20_text_AssetId : forall b, length b = 32%nat -> parse_hash hashlen_AssetId hash_parse_backward_AssetId (print_hash hash_display_backward_AssetId b) = Ok b.
Proof. intros b L. apply parse_print_hash. now rewrite L. Qed.
Theorem C20_text_ContractHash : forall b, length b = 32%nat -> parse_hash hashlen_ContractHash hash_parse_backward_ContractHash (print_hash hash_display_backward_ContractHash b) = Ok b.
Proof. intros b L. apply parse_print_hash. now rewrite L. Qed.
Theorem C20_text_AssetEntropy : forall b, length b = 32%nat -> parse_hash hashlen_AssetEntropy hash_parse_backward_AssetEntropy (print_hash hash_display_backward_AssetEntropy b) = Ok b.
Proof. intros b L. apply parse_print_hash. now rewrite L. Qed.
Theorem C20_text_ScriptHash : forall b, length b = 20%nat -> parse_hash hashlen_ScriptHash hash_parse_backward_ScriptHash (print_hash hash_display_backward_ScriptHash b) = Ok b.
Proof. intros b L. apply parse_print_hash. now rewrite L. Qed.

(* ---- blinding factors: 32 bytes that Tweak::from_inner accepts *)
Theorem C20_text_AssetBlindingFactor : forall b, length b = 32%nat -> tweak_ok b = true ->
  parse_bf hashlen_AssetBlindingFactor hash_parse_backward_AssetBlindingFactor (print_bf hash_display_backward_AssetBlindingFactor b) = Ok b.
Proof. intros b L T. apply parse_print_bf; [now rewrite L|exact T]. Qed.
Theorem C20_text_ValueBlindingFactor : forall b, length b = 32%nat -> tweak_ok b = true ->
  parse_bf hashlen_ValueBlindingFactor hash_parse_backward_ValueBlindingFactor (print_bf hash_display_backward_ValueBlindingFactor b) = Ok b.
Proof. intros b L T. apply parse_print_bf; [now rewrite L|exact T]. Qed.

(* ---- u32 decimals *)
Theorem C20_text_Sequence : forall n, n < 4294967296 -> parse_sequence (print_sequence n) = Ok n.
Proof. exact parse_print_sequence. Qed.
Theorem C20_text_LockTime : forall l, locktime_wf l = true -> parse_locktime (print_locktime l) = Ok l.
Proof. exact parse_print_locktime. Qed.
Theorem C20_text_Height : forall h, h < C20_LOCK_TIME_THRESHOLD -> parse_height (print_height h) = Ok h.
Proof. exact parse_print_height. Qed.
Theorem C20_text_Time : forall t, C20_LOCK_TIME_THRESHOLD <= t -> t < 4294967296 -> parse_time (print_time t) = Ok t.
Proof. exact parse_print_time. Qed.
(* the integer printer / parser pair itself, for every radix the code uses and every unsigned width *)
Theorem C20_text_uint : forall radix bound n, 2 <= radix -> radix <= 16 -> n < bound -> parse_uint radix bound (print_radix radix n) = Ok n.
Proof. intros. now apply parse_print_radix. Qed.

(* ---- OutPoint *)
Theorem C20_text_OutPoint : forall o, length (o_txid o) = 32%nat -> o_vout o < 4294967296 -> parse_outpoint (print_outpoint o) = Ok o.
Proof. exact parse_print_outpoint. Qed.

(* ---- sighash types: every variant of the enum declarations; every u32 for PsbtSighashType *)
Theorem C20_text_EcdsaSighashType : forall v, is_variant ecdsa_sighash_variants v = true -> parse_ecdsa_sighash (print_ecdsa_sighash v) = Ok v.
Proof. exact parse_print_ecdsa. Qed.
Theorem C20_text_SchnorrSighashType : forall v, is_variant schnorr_sighash_variants v = true -> parse_schnorr_sighash (print_schnorr_sighash v) = Ok v.
Proof. exact parse_print_schnorr. Qed.
Theorem C20_text_PsbtSighashType : forall v, v < 4294967296 -> parse_psbt_sighash (print_psbt_sighash v) = Ok v.
Proof. exact parse_print_psbt. Qed.
Theorem C20_text_reserved_sighash :
  print_psbt_sighash 255 = "0xff"%lb /\ parse_psbt_sighash "0xff"%lb = Ok 255 /\
  print_schnorr_sighash 255 = "SIGHASH_RESERVED"%lb /\ parse_schnorr_sighash "SIGHASH_RESERVED"%lb = Ok 255 /\
  parse_psbt_sighash "SIGHASH_RESERVED"%lb = Err "unrecognized"%lb.
Proof. vm_compute. repeat split; reflexivity. Qed.

(* non-vacuity and the shape of the printed forms *)
Example C20_text_examples :
  print_outpoint {| o_txid := repeat x00 31 ++ [x01]; o_vout := 7 |} = "[elements]0100000000000000000000000000000000000000000000000000000000000000:7"%lb /\
  parse_outpoint "0100000000000000000000000000000000000000000000000000000000000000:7"%lb = Ok {| o_txid := repeat x00 31 ++ [x01]; o_vout := 7 |} /\
  parse_outpoint "0100000000000000000000000000000000000000000000000000000000000000:07"%lb = Err "vout-noncanonical"%lb /\
  parse_sequence "+007"%lb = Ok 7 /\ parse_sequence "4294967296"%lb = Err "overflow"%lb /\ parse_sequence ""%lb = Err "empty"%lb /\
  print_locktime (Seconds 500000000) = "500000000"%lb /\ parse_locktime "499999999"%lb = Ok (Blocks 499999999) /\
  parse_height "500000000"%lb = Err "notheight"%lb /\
  print_psbt_sighash 4 = "0x4"%lb /\ parse_psbt_sighash "0x0x+0Ff"%lb = Ok 255 /\
  is_variant ecdsa_sighash_variants 129 = true /\ print_ecdsa_sighash 129 = "SIGHASH_ALL|SIGHASH_ANYONECANPAY"%lb /\
  locktime_wf (Blocks 5) = true /\ tweak_ok (repeat xff 32) = false /\ tweak_ok (repeat x00 31 ++ [x01]) = true.
Proof. vm_compute. repeat split; reflexivity. Qed.

Check (C20_text_hash_newtypes : forall name len db pb b,
  In (name, (len, (db, pb))) hash_text_table -> N.of_nat (length b) = len -> parse_hash len pb (print_hash db b) = Ok b).
Check (C20_text_AssetBlindingFactor : forall b, length b = 32%nat -> tweak_ok b = true ->
  parse_bf hashlen_AssetBlindingFactor hash_parse_backward_AssetBlindingFactor (print_bf hash_display_backward_AssetBlindingFactor b) = Ok b).
Check (C20_text_LockTime : forall l, locktime_wf l = true -> parse_locktime (print_locktime l) = Ok l).
Check (C20_text_OutPoint : forall o, length (o_txid o) = 32%nat -> o_vout o < 4294967296 -> parse_outpoint (print_outpoint o) = Ok o).
Check (C20_text_EcdsaSighashType : forall v, is_variant ecdsa_sighash_variants v = true -> parse_ecdsa_sighash (print_ecdsa_sighash v) = Ok v).
Check (C20_text_SchnorrSighashType : forall v, is_variant schnorr_sighash_variants v = true -> parse_schnorr_sighash (print_schnorr_sighash v) = Ok v).
Check (C20_text_PsbtSighashType : forall v, v < 4294967296 -> parse_psbt_sighash (print_psbt_sighash v) = Ok v).
