(* Helpers shared by the per-property case runners (Extract/RunCxx.v). *)
From Coq Require Import List NArith.
From Coq.Strings Require Import Byte.
From EV Require Import Base.Bytes.
Import ListNotations.

Definition err (s : blit) : bytes := "modelerr "%lb ++ s.
Fixpoint all_some {A} (l : list (option A)) : option (list A) :=
  match l with [] => Some [] | Some x :: r => match all_some r with Some t => Some (x :: t) | None => None end | None :: _ => None end.
(* comma separated hex items; "-" is the empty list *)
Definition hexlist (s : bytes) : option (list bytes) :=
  if bytes_eqb s "-"%lb then Some [] else all_some (map bytes_of_hex (split_on x2c s [])).
(* a single hex argument; "-" is the empty byte string *)
Definition hexarg (s : bytes) : option bytes := if bytes_eqb s "-"%lb then Some [] else bytes_of_hex s.
Definition show_hex (b : bytes) : bytes := match b with [] => "-"%lb | _ => hex_of_bytes b end.
Definition sp : bytes := [x20].
Fixpoint join (sep : bytes) (l : list bytes) : bytes :=
  match l with [] => [] | [x] => x | x :: r => x ++ sep ++ join sep r end.
Definition show_bool (b : bool) : bytes := if b then "1"%lb else "0"%lb.
