From Coq Require Import List NArith.
From Coq.Strings Require Import Byte.
From EV Require Import Base.Bytes Base.Sha256 Model.FastMerkle Extract.RunUtil.
Import ListNotations.

Definition zero32 : bytes := repeat x00 32.
(* the code-shaped model (array, counter, fuelled loops); "overflow" can only be printed for more than 2^31 leaves *)
Definition fmr256 (ls : list bytes) : bytes := match fmr_impl zero32 cmp256 ls with Some r => r | None => [] end.
Definition fmr256_spec (ls : list bytes) : bytes := fmr_spec zero32 cmp256 ls.

(* case: "C18 <hexlist of 32-byte leaves>"  ->  hex root *)
Definition run (args : list bytes) : bytes :=
  match args with
  | [ls] => match hexlist ls with
            | Some leaves => hex_of_bytes (fmr256 leaves)
            | None => err "hex" end
  | _ => err "args" end.
