From Coq Require Import List NArith.
From Coq.Strings Require Import Byte.
From EV Require Import Base.Bytes Base.Sha256 Model.FastMerkle Extract.RunUtil.
Import ListNotations.

Definition zero32 : bytes := repeat x00 32.
(* the code-shaped model (array, counter, fuelled loops); "overflow" can only be printed for more than 2^31 leaves *)
Definition fmr256 (ls : list bytes) : bytes := match fmr_impl zero32 cmp256 ls with Some r => r | None => [] end.
Definition fmr256_spec (ls : list bytes) : bytes := fmr_spec zero32 cmp256 ls.

(* "C18 rep <count> <28 bytes hex>": leaf i = the 4-byte little-endian i followed by the 28 given bytes (large counts in a short case line) *)
Fixpoint rep_leaves (n : nat) (i : N) (tail : bytes) : list bytes :=
  match n with O => [] | S k => (n2b i :: n2b (i / 256) :: n2b (i / 65536) :: n2b (i / 16777216) :: tail) :: rep_leaves k (i + 1)%N tail end.

(* case: "C18 <hexlist of 32-byte leaves>"  ->  hex root *)
Definition run (args : list bytes) : bytes :=
  match args with
  | [k; cnt; tl] =>
      if bytes_eqb k "rep"%lb then
        match N_of_dec cnt, bytes_of_hex tl with
        | Some n, Some t => if Nat.eqb (length t) 28 then hex_of_bytes (fmr256 (rep_leaves (N.to_nat n) 0%N t)) else err "tail"
        | _, _ => err "parse" end
      else err "args"
  | [ls] => match hexlist ls with
            | Some leaves => hex_of_bytes (fmr256 leaves)
            | None => err "hex" end
  | _ => err "args" end.
