Require Extraction.
Require Import ExtrOcamlBasic ExtrOCamlInt63.
From EV Require Import Extract.Driver.
Extraction Language OCaml.
Extraction "model.ml" Driver.run_line.
