(* case: "C11 txin <caps> <pts> <hex of TxIn>" -> "ok <asset> <token> <pset asset> <pset token> <extracted asset> <extracted token>"
         "C11 json <hex>"                      -> "json"   (the contract-hash clause is evaluated on the implementation only) *)
From Coq Require Import List NArith.
From Coq.Strings Require Import Byte.
From EV Require Import Base.Bytes Base.Sha256 Base.Codec Model.Tx Model.Ids Extract.RunUtil Extract.RunC01.
Import ListNotations.
Open Scope N_scope.

Definition show_ids (p : bytes * bytes) : bytes := hex_of_bytes (fst p) ++ sp ++ hex_of_bytes (snd p).
Definition run (args : list bytes) : bytes :=
  match args with
  | [ty; caps; pts; hx] =>
      match caps5 caps, hexlist pts, hexarg hx with
      | Some (maxvec, ci, co, cv, ct), Some valid, Some input =>
          match deserialize (c_txin (mem_bytes valid) maxvec) input with
          | Some i => "ok "%lb ++ show_ids (txin_issuance_ids sha256d cmp256 i) ++ sp ++ show_ids (psetin_issuance_ids sha256d cmp256 (psetin_from_txin i))
                      ++ sp ++ show_ids (txin_issuance_ids sha256d cmp256 (psetin_extract (psetin_from_txin i)))
          | None => "err"%lb end
      | _, _, _ => err "parse" end
  | [ty; _] => if bytes_eqb ty "json"%lb then "json"%lb else err "args"
  | _ => err "args" end.
