(* case: "C11 txin <caps> <pts> <hex of TxIn>" -> "ok <asset> <token> <pset asset> <pset token> <extracted asset> <extracted token>"
         "C11 json <hex>"                      -> "json"   (the contract-hash clause is evaluated on the implementation only) *)
From Coq Require Import List NArith.
From Coq.Strings Require Import Byte.
From EV Require Import Base.Bytes Base.Sha256 Base.Codec Model.Tx Model.Ids Model.Json Extract.RunUtil Extract.RunC01.
Import ListNotations.
Open Scope N_scope.

(* JSON tree tokens: L<hex> leaf | A<n> then n values | O<n> then n times (K<hexraw>:<hexliteral>, value) *)
Definition split_colon (s : bytes) : option (bytes * bytes) :=
  match split_on x3a s [] with [a; b] => Some (a, b) | _ => None end.
Fixpoint pj (fuel : nat) (toks : list bytes) : option (json * list bytes) :=
  match fuel with O => None | S f =>
    match toks with
    | (c :: body) :: r =>
        if byte_eqb c x4c then match hexarg body with Some t => Some (JLeaf t, r) | None => None end
        else if byte_eqb c x41 then
          match N_of_dec body with
          | Some n =>
              (fix many (k : nat) (ts : list bytes) (acc : list json) : option (json * list bytes) :=
                 match k with O => Some (JArr (rev' acc), ts)
                 | S k' => match pj f ts with Some (v, ts') => many k' ts' (v :: acc) | None => None end end) (N.to_nat n) r []
          | None => None end
        else if byte_eqb c x4f then
          match N_of_dec body with
          | Some n =>
              (fix many (k : nat) (ts : list bytes) (acc : list (bytes * (bytes * json))) : option (json * list bytes) :=
                 match k with O => Some (JObj (rev' acc), ts)
                 | S k' => match ts with
                           | (kc :: kb) :: ts1 =>
                               match split_colon kb with
                               | Some (hk, hl) => match hexarg hk, hexarg hl, pj f ts1 with
                                                  | Some rk, Some lit, Some (v, ts') => many k' ts' ((rk, (lit, v)) :: acc)
                                                  | _, _, _ => None end
                               | None => None end
                           | _ => None end end) (N.to_nat n) r []
          | None => None end
        else None
    | _ => None end end.
Definition run_jsonc (toks : list bytes) : bytes :=
  match toks with
  | _ws :: tree => match pj (S (length tree)) tree with
                  | Some (JObj l, []) => "ok "%lb ++ hex_of_bytes (sha256 (canon (JObj l)))
                  | Some (_, []) => "err"%lb
                  | _ => err "jsonc" end
  | [] => err "jsonc" end.
Definition show_ids (p : bytes * bytes) : bytes := hex_of_bytes (fst p) ++ sp ++ hex_of_bytes (snd p).
Definition run (args : list bytes) : bytes :=
  match args with
  | [ty; caps; pts; hx] =>
      match caps5 caps, hexlist pts, hexarg hx with
      | Some (maxvec, ci, co, cv, ct), Some valid, Some input =>
          match deserialize (c_txin (mem_bytes valid) maxvec) input with
          | Some i => "ok "%lb ++ show_ids (txin_issuance_ids sha256d cmp256 i) ++ sp ++ show_ids (psetin_issuance_ids sha256d cmp256 (psetin_from_txin i))
                      ++ sp ++ show_ids (txin_issuance_ids sha256d cmp256 (psetin_extract (psetin_from_txin i)))
          | None => "err"%lb end
      | _, _, _ => err "parse" end
  | [ty; caps; pts; hx; vo] =>
      (* "C11 mem <caps> <pts> <hex of TxIn> <vout dec>": the decoded input with its plain index REPLACED in memory — values no encoding carries
         (an issuance on the all-ones index), on which the three views must still agree *)
      if bytes_eqb ty "jsonc"%lb then run_jsonc [caps; pts; hx; vo] else
      if negb (bytes_eqb ty "mem"%lb) then err "args" else
      match caps5 caps, hexlist pts, hexarg hx, N_of_dec vo with
      | Some (maxvec, ci, co, cv, ct), Some valid, Some input, Some v =>
          match deserialize (c_txin (mem_bytes valid) maxvec) input with
          | Some i0 =>
              let i := {| in_prev := {| o_txid := o_txid (in_prev i0); o_vout := v |}; in_pegin := in_pegin i0; in_script := in_script i0; in_seq := in_seq i0;
                          in_iss := in_iss i0; in_wit := in_wit i0 |} in
              "ok "%lb ++ show_ids (txin_issuance_ids sha256d cmp256 i) ++ sp ++ show_ids (psetin_issuance_ids sha256d cmp256 (psetin_from_txin i))
                      ++ sp ++ show_ids (txin_issuance_ids sha256d cmp256 (psetin_extract (psetin_from_txin i)))
          | None => "err"%lb end
      | _, _, _, _ => err "parse" end
  | [ty; _] => if bytes_eqb ty "json"%lb then "json"%lb else err "args"
  | ty :: rest => if bytes_eqb ty "jsonc"%lb then run_jsonc rest else err "args"
  | _ => err "args" end.
