(* C07 case runner.
   case:   "C07 bin  <maxvec,cap_txin,cap_txout,cap_vecu8,cap_h32> <pt> <pk> <xonly> <rip> <h160> <hex of the PSET bytes>"
           "C07 text <caps> <pt> <pk> <xonly> <rip> <h160> <base64 text | ->"
           "C07 vcanon <caps> <pt> <pk> <xonly> <rip> <h160> <type name> <hex value>"      (one value canoniser)
           "C07 elip  <caps> ... <hex of PSET bytes> <hex asset id> <hex metadata value> <subtype 0|1>"   (ELIP-100 add/get + round trip)
   oracles: <pt> <pk> <xonly> are comma separated hex lists of the byte strings the libraries accept
            (secp256k1-zkp commitments/generators, public keys, x-only keys);
            <rip> <h160> are lists "<hex preimage>:<hex digest>" of RIPEMD160 / HASH160 values; SHA256 and HASH256 are computed.
   result: "ok <hex of serialize(deserialize(input))> <'=' | hex of the second re-encoding>"  |  "err <class>"
           text: "ok <base64 of the re-encoding>" | "err b64" | "err <class>" *)
From Coq Require Import List Arith NArith Bool.
From Coq.Strings Require Import Byte.
From EV Require Import Base.Bytes Base.Codec Base.Sha256 Base.Base64 Gen.Tables Model.PsetRaw Model.PsetMaps Model.PsetValues Model.PsetTables Extract.RunUtil.
Import ListNotations.
Open Scope N_scope.

Definition mem_bytes (l : list bytes) (b : bytes) : bool := existsb (bytes_eqb b) l.
Definition caps5 (s : bytes) : option (N * N * N * N * N) :=
  match all_some (map N_of_dec (split_on x2c s [])) with
  | Some [a; b; c; d; e] => Some (a, b, c, d, e) | _ => None end.
Definition parse_kv (s : bytes) : option (bytes * bytes) :=
  match split_on x3a s [] with
  | [k; v] => match hexarg (match k with [] => [x2d] | _ => k end), bytes_of_hex v with Some k', Some v' => Some (k', v') | _, _ => None end
  | _ => None end.
Definition kvlist (s : bytes) : option (list (bytes * bytes)) :=
  if bytes_eqb s "-"%lb then Some [] else all_some (map parse_kv (split_on x2c s [])).
Fixpoint kv_lookup (l : list (bytes * bytes)) (k : bytes) : bytes :=
  match l with [] => [] | (k', v) :: r => if bytes_eqb k k' then v else kv_lookup r k end.

Definition show_err (e : perr) : bytes :=
  match e with EDup => "err dup"%lb | EMissing => "err missing"%lb | EVersion => "err version"%lb | EPreimage => "err preimage"%lb
             | ETooLarge => "err toolarge"%lb | EInvalid => "err invalid"%lb end.

Record env := { e_caps : N * N * N * N * N; e_pt : list bytes; e_pk : list bytes; e_xo : list bytes;
                e_rip : list (bytes * bytes); e_h160 : list (bytes * bytes) }.
Definition dummy_hash (_ : bytes) : bytes := [].     (* TapTree canonisation does not look at the node hashes *)
Definition ser (e : env) : pset -> bytes :=
  match e_caps e with (mv, ci, co, cv, ch) =>
    pset_serialize mv ci co cv ch (mem_bytes (e_pt e)) (mem_bytes (e_pk e)) (mem_bytes (e_xo e))
      (kv_lookup (e_rip e)) sha256 (kv_lookup (e_h160 e)) sha256d dummy_hash dummy_hash end.
Definition deser (e : env) : bytes -> pres pset :=
  match e_caps e with (mv, ci, co, cv, ch) =>
    pset_deserialize mv ci co cv ch (mem_bytes (e_pt e)) (mem_bytes (e_pk e)) (mem_bytes (e_xo e))
      (kv_lookup (e_rip e)) sha256 (kv_lookup (e_h160 e)) sha256d dummy_hash dummy_hash end.
Definition vcan (e : env) (t : vty) : bytes -> bytes -> pres bytes :=
  match e_caps e with (mv, ci, co, cv, ch) =>
    vcanon mv ci co cv ch (mem_bytes (e_pt e)) (mem_bytes (e_pk e)) (mem_bytes (e_xo e))
      (kv_lookup (e_rip e)) sha256 (kv_lookup (e_h160 e)) sha256d dummy_hash dummy_hash t end.

Definition parse_env (caps pt pk xo rip h160 : bytes) : option env :=
  match caps5 caps, hexlist pt, hexlist pk, hexlist xo with
  | Some c, Some a, Some b, Some x =>
      match kvlist rip, kvlist h160 with
      | Some r, Some h => Some {| e_caps := c; e_pt := a; e_pk := b; e_xo := x; e_rip := r; e_h160 := h |}
      | _, _ => None end
  | _, _, _, _ => None end.

Definition run_bin (e : env) (input : bytes) : bytes :=
  match deser e input with
  | PErr er => show_err er
  | POk p =>
      let c := ser e p in
      "ok "%lb ++ show_hex c ++ sp ++
      match deser e c with
      | PErr er => show_err er
      | POk p' => let c2 := ser e p' in if bytes_eqb c2 c then "="%lb else show_hex c2
      end
  end.
Definition run_text (e : env) (s : bytes) : bytes :=
  match b64_dec s with
  | None => "err b64"%lb
  | Some input => match deser e input with
                  | PErr er => show_err er
                  | POk p => "ok "%lb ++ (match b64_enc (ser e p) with [] => "-"%lb | t => t end) end
  end.

(* ELIP-100 / ELIP-102 through the model's accessors (Model/PsetTables.v: add_asset_metadata, add_token_metadata, set_abf_input,
   set_abf_output and their getters).  selector 0 asset metadata, 1 token metadata, 2 abf of input 0, 3 abf of output 0 *)
Definition run_elip (e : env) (input asset value : bytes) (sel : N) : bytes :=
  match deser e input with
  | PErr er => show_err er
  | POk p =>
      match e_caps e with (mv, ci, co, cv, ch) =>
      let pt := mem_bytes (e_pt e) in let pk := mem_bytes (e_pk e) in let xo := mem_bytes (e_xo e) in
      let hr := kv_lookup (e_rip e) in let hh := kv_lookup (e_h160 e) in
      let p' := if sel =? 0 then add_asset_metadata mv ci co cv ch pt pk xo hr sha256 hh sha256d dummy_hash dummy_hash p asset value
                else if sel =? 1 then add_token_metadata mv ci co cv ch pt pk xo hr sha256 hh sha256d dummy_hash dummy_hash p asset value
                else if sel =? 2 then set_abf_input mv ci co cv ch pt pk xo hr sha256 hh sha256d dummy_hash dummy_hash p 0 value
                else set_abf_output mv ci co cv ch pt pk xo hr sha256 hh sha256d dummy_hash dummy_hash p 0 value in
      let get (q : pset) : option bytes :=
        if sel =? 0 then get_asset_metadata mv q asset else if sel =? 1 then get_token_metadata mv q asset
        else if sel =? 2 then get_abf_input mv q 0 else get_abf_output mv q 0 in
      let show (o : option bytes) := match o with Some v => show_hex v | None => "none"%lb end in
      let c := ser e p' in
      "ok "%lb ++ show (get p') ++ sp ++ show_hex c ++ sp ++
      match deser e c with PErr er => show_err er | POk p2 => show (get p2) end end
  end.

Definition run (args : list bytes) : bytes :=
  match args with
  | mode :: caps :: pt :: pk :: xo :: rip :: h160 :: rest =>
      match parse_env caps pt pk xo rip h160 with
      | None => err "parse"
      | Some e =>
          if false then err "never"
          else if bytes_eqb mode "text"%lb then
            match rest with [s] => run_text e (if bytes_eqb s "-"%lb then [] else s) | _ => err "args" end
          else if bytes_eqb mode "vcanon"%lb then
            match rest with
            | [ty; hx] => match hexarg hx with
                          | Some v => match vcan e (ty_of_name ty) [] v with POk c => "ok "%lb ++ show_hex c | PErr er => show_err er end
                          | None => err "hex" end
            | _ => err "args" end
          else if bytes_eqb mode "shortcomm"%lb then
            match rest with
            | [hx] => match hexarg hx with
                      | Some v => match vcan e (if (b2n (hd x00 v) =? 10) || (b2n (hd x00 v) =? 11) then TyGenerator else TyPedersen) [] v with POk c => "ok "%lb ++ show_hex c | PErr er => show_err er end
                      | None => err "hex" end
            | _ => err "args" end
          else if bytes_eqb mode "elip"%lb then
            match rest with
            | [hx; a; v; s] => match hexarg hx, hexarg a, hexarg v, N_of_dec s with
                               | Some input, Some asset, Some value, Some sub => run_elip e input asset value sub
                               | _, _, _, _ => err "hex" end
            | _ => err "args" end
          else (* bin | built | rej...: the bytes of an encoding *)
            (* a "built" case may carry a further word: the harness's fingerprint of the in-memory value the bytes were serialized from *)
            match rest with [hx] | [hx; _] => match hexarg hx with Some input => run_bin e input | None => err "hex" end | _ => err "args" end
      end
  | _ => err "args" end.
