(* case formats (all strings hex-encoded, "-" = empty):
     C20 tp <Type> <hex of string>          parse the string:  "ok <value>" | "err <class>"
     C20 tr <Type> <value>                  print the value and parse it back:  "<hex of printed string> ok <value>" | "... err <class>"
     C20 ps <caps> <points> <leaf oracle> <value> <hex of the PSET>
                                            derived PartiallySignedTransaction serde through the codec of Model/SerdePset.v; <value> is the PSET in the
                                            notation of parse_fval, <leaf oracle> the serialized forms of the dependency leaves (kind:canonical hex:json tree:cbor tree,...);
                                            result "J <json text> <verdict> <verdict> C <hex of cbor> <verdict>"
     C20 sd <type> <caps> <points> <hex>    serde: the value is given by its consensus encoding (types tx txin1 txout1 header block params value
                                            asset nonce) or directly (outpoint <txid>:<vout>, secrets <asset>,<abf>,<value>,<vbf>, locktime <u32>,
                                            hash:<Name> <hex>, abf / vbf <hex>, script <hex>, str <hex of a Display string>);
                                            result "J <json text> <ok same|ok diff|err> C <hex of cbor> <ok same|ok diff|err>"
   values: hashes and blinding factors = hex of the bytes in memory order; integers decimal; LockTime as its consensus u32 in,
   "B<n>" / "S<n>" out; OutPoint "<txid hex>:<vout>"; sighash types = their numeric value. *)
From Coq Require Import List NArith Bool.
From Coq.Strings Require Import Byte.
From EV Require Import Base.Bytes Base.Codec Gen.Tables Model.Tx Model.Block Model.Text Model.Serde Model.SerdePset Base.Base64 Model.Address Extract.RunUtil Extract.RunAddr.
Import ListNotations.
Open Scope N_scope.

Definition show_res {A} (show : A -> bytes) (r : res A) : bytes :=
  match r with Ok a => "ok "%lb ++ show a | Err e => "err "%lb ++ e end.
Definition show_outpoint (o : outpoint) : bytes := show_hex (o_txid o) ++ ":"%lb ++ dec_of_N (o_vout o).
Definition show_locktime (l : locktime) : bytes := match l with Blocks h => "B"%lb ++ dec_of_N h | Seconds t => "S"%lb ++ dec_of_N t end.

Definition is_ty (ty : bytes) (name : blit) : bool := bytes_eqb ty name.

(* parse a string of the given type *)
Definition run_parse (ty s : bytes) : bytes :=
  match assoc ty hash_text_table with
  | Some (len, (_, pb)) => show_res show_hex (parse_hash len pb s)
  | None =>
      if is_ty ty "AssetBlindingFactor" then show_res show_hex (parse_bf hashlen_AssetBlindingFactor hash_parse_backward_AssetBlindingFactor s)
      else if is_ty ty "ValueBlindingFactor" then show_res show_hex (parse_bf hashlen_ValueBlindingFactor hash_parse_backward_ValueBlindingFactor s)
      else if is_ty ty "Sequence" then show_res dec_of_N (parse_sequence s)
      else if is_ty ty "LockTime" then show_res show_locktime (parse_locktime s)
      else if is_ty ty "Height" then show_res dec_of_N (parse_height s)
      else if is_ty ty "Time" then show_res dec_of_N (parse_time s)
      else if is_ty ty "OutPoint" then show_res show_outpoint (parse_outpoint s)
      else if is_ty ty "EcdsaSighashType" then show_res dec_of_N (parse_ecdsa_sighash s)
      else if is_ty ty "SchnorrSighashType" then show_res dec_of_N (parse_schnorr_sighash s)
      else if is_ty ty "PsbtSighashType" then show_res dec_of_N (parse_psbt_sighash s)
      else err "type" end.

Definition read_outpoint (v : bytes) : option outpoint :=
  match split_on x3a v [] with
  | [t; n] => match hexarg t, N_of_dec n with Some t', Some n' => Some {| o_txid := t'; o_vout := n' |} | _, _ => None end
  | _ => None end.

(* print a value of the given type *)
Definition run_print (ty v : bytes) : option bytes :=
  match assoc ty hash_text_table with
  | Some (_, (db, _)) => option_map (print_hash db) (hexarg v)
  | None =>
      if is_ty ty "AssetBlindingFactor" then option_map (print_bf hash_display_backward_AssetBlindingFactor) (hexarg v)
      else if is_ty ty "ValueBlindingFactor" then option_map (print_bf hash_display_backward_ValueBlindingFactor) (hexarg v)
      else if is_ty ty "Sequence" then option_map print_sequence (N_of_dec v)
      else if is_ty ty "LockTime" then option_map (fun n => print_locktime (locktime_from_consensus n)) (N_of_dec v)
      else if is_ty ty "Height" then option_map print_height (N_of_dec v)
      else if is_ty ty "Time" then option_map print_time (N_of_dec v)
      else if is_ty ty "OutPoint" then option_map print_outpoint (read_outpoint v)
      else if is_ty ty "EcdsaSighashType" then option_map print_ecdsa_sighash (N_of_dec v)
      else if is_ty ty "SchnorrSighashType" then option_map print_schnorr_sighash (N_of_dec v)
      else if is_ty ty "PsbtSighashType" then option_map print_psbt_sighash (N_of_dec v)
      else None end.

(* ---------- serde ---------- *)
Definition quote (s : bytes) : bytes := x22 :: s ++ [x22].
Fixpoint render_json (v : sval) : bytes :=
  match v with
  | VUnit | VNone => "null"%lb
  | VBool b => if b then "true"%lb else "false"%lb
  | VU64 n => dec_of_N n
  | VStr s => quote s
  | VSeq l => "["%lb ++ join ","%lb (map render_json l) ++ "]"%lb
  | VMap l => "{"%lb ++ join ","%lb (map (fun kv => render_json (fst kv) ++ ":"%lb ++ render_json (snd kv)) l) ++ "}"%lb
  | _ => "?"%lb end.
Definition cbor_head (major n : N) : bytes :=
  let m := 32 * major in
  if n <? 24 then [n2b (m + n)]
  else if n <? 256 then [n2b (m + 24); n2b n]
  else if n <? 65536 then n2b (m + 25) :: be_enc 2 n
  else if n <? 4294967296 then n2b (m + 26) :: be_enc 4 n
  else n2b (m + 27) :: be_enc 8 n.
Fixpoint render_cbor (v : sval) : bytes :=
  match v with
  | VUnit | VNone => [xf6]
  | VBool b => if b then [xf5] else [xf4]
  | VU64 n => cbor_head 0 n
  | VBytes b => cbor_head 2 (N.of_nat (length b)) ++ b
  | VStr s => cbor_head 3 (N.of_nat (length s)) ++ s
  | VSeq l => cbor_head 4 (N.of_nat (length l)) ++ concat (map render_cbor l)
  | VMap l => cbor_head 5 (N.of_nat (length l)) ++ concat (map (fun kv => render_cbor (fst kv) ++ render_cbor (snd kv)) l)
  | _ => [xff] end.

Definition serde_line {A} (ser : bool -> A -> sval) (de : bool -> sval -> res A) (x : A) : bytes :=
  let j := json_view (ser true x) in
  let c := cbor_view (ser false x) in
  let verdict (hr : bool) (w : sval) :=
    match de hr w with
    | Ok y => if bytes_eqb (render_json (json_view (ser true y))) (render_json j) then "ok same"%lb else "ok diff"%lb
    | Err _ => "err"%lb end in
  "J "%lb ++ render_json j ++ sp ++ verdict true j ++ " C "%lb ++ show_hex (render_cbor c) ++ sp ++ verdict false c.

Definition mem_bytes (l : list bytes) (b : bytes) : bool := existsb (bytes_eqb b) l.
Definition caps5 (s : bytes) : option (N * N * N * N * N) :=
  match all_some (map N_of_dec (split_on x2c s [])) with
  | Some [a; b; c; d; e] => Some (a, b, c, d, e) | _ => None end.
Definition from_consensus {A} (c : codec A) (input : bytes) (k : A -> bytes) : bytes :=
  match deserialize c input with Some v => k v | None => err "consensus" end.

Definition run_serde (ty caps pts arg : bytes) : bytes :=
  match caps5 caps, hexlist pts with
  | Some (maxvec, ci, co, cv, ct), Some valid =>
      let pt_ok := mem_bytes valid in
      let hexv (k : bytes -> bytes) := match hexarg arg with Some b => k b | None => err "hex" end in
      if is_ty ty "tx" then hexv (fun b => from_consensus (c_tx pt_ok maxvec ci co cv) b (serde_line (ser_tx) (de_tx pt_ok)))
      else if is_ty ty "txin1" then hexv (fun b => from_consensus (c_tx pt_ok maxvec ci co cv) b (fun t => match tx_in t with [i] => serde_line ser_txin (de_txin pt_ok) i | _ => err "txin1" end))
      else if is_ty ty "txout1" then hexv (fun b => from_consensus (c_tx pt_ok maxvec ci co cv) b (fun t => match tx_out t with [o] => serde_line ser_txout (de_txout pt_ok) o | _ => err "txout1" end))
      else if is_ty ty "header" then hexv (fun b => from_consensus (c_header maxvec cv) b (serde_line ser_header (de_header)))
      else if is_ty ty "block" then hexv (fun b => from_consensus (c_block pt_ok maxvec ci co cv ct) b (serde_line ser_block (de_block pt_ok)))
      else if is_ty ty "params" then hexv (fun b => from_consensus (c_params maxvec cv) b (serde_line ser_params de_params))
      else if is_ty ty "value" then hexv (fun b => from_consensus (c_value pt_ok) b (serde_line ser_value (de_value pt_ok)))
      else if is_ty ty "asset" then hexv (fun b => from_consensus (c_asset pt_ok) b (serde_line ser_asset (de_asset pt_ok)))
      else if is_ty ty "nonce" then hexv (fun b => from_consensus (c_nonce pt_ok) b (serde_line ser_nonce (de_nonce pt_ok)))
      else if is_ty ty "outpoint" then match read_outpoint arg with Some o => serde_line ser_outpoint de_outpoint o | None => err "value" end
      else if is_ty ty "locktime" then match N_of_dec arg with Some n => serde_line (fun _ => ser_locktime) (fun _ => de_locktime) (locktime_from_consensus n) | None => err "value" end
      else if is_ty ty "secrets" then
        match split_on x2c arg [] with
        | [a; b; c; d] => match hexarg a, hexarg b, N_of_dec c, hexarg d with
                          | Some a, Some b, Some c, Some d => serde_line ser_secrets de_secrets {| s_asset := a; s_abf := b; s_value := c; s_vbf := d |}
                          | _, _, _, _ => err "value" end
        | _ => err "value" end
      else if is_ty ty "abf" then hexv (serde_line (fun hr => ser_bf hr hash_display_backward_AssetBlindingFactor) (fun hr => de_bf hr hash_parse_backward_AssetBlindingFactor))
      else if is_ty ty "vbf" then hexv (serde_line (fun hr => ser_bf hr hash_display_backward_ValueBlindingFactor) (fun hr => de_bf hr hash_parse_backward_ValueBlindingFactor))
      else if is_ty ty "script" then hexv (serde_line (fun _ => ser_script) (fun _ => de_script))
      else if is_ty ty "str" then hexv (serde_line (fun _ => ser_string (fun s => s)) (fun _ => de_string (fun s => Ok s)))
      else match ty with
           | x68 :: x61 :: x73 :: x68 :: x3a :: name =>        (* "hash:" <Name> *)
               if existsb (bytes_eqb name) midstate_wrapper_names then hexv (serde_line ser_midstate de_midstate)
               else match assoc name hash_serde_table with
                    | Some (len, (db, pb)) => hexv (serde_line (fun hr => ser_hash hr db) (fun hr => de_hash hr len pb))
                    | None => err "type" end
           | _ => err "type" end
  | _, _ => err "parse" end.

(* ---------- C20 dm <name>: deserializing hand-made trees that no Serialize impl produces (unknown / repeated / missing keys, trailing
   elements, partial Params ...).  The model renders its tree as JSON text; the harness holds the same text and feeds it to serde_json. ---------- *)
Definition St (b : blit) : sval := VStr b.
Definition kv (k : blit) (v : sval) : sval * sval := (VStr k, v).
Definition null_wit : sval := VMap [kv "surjection_proof" VUnit; kv "rangeproof" VUnit].
Definition probe_result {A} (ser : bool -> A -> sval) (de : bool -> sval -> res A) (t : sval) : bytes :=
  render_json t ++ sp ++ match de true t with Ok y => "ok "%lb ++ render_json (json_view (ser true y)) | Err _ => "err"%lb end.
Definition all_pts (_ : bytes) : bool := false.
Definition run_probe (name : bytes) : bytes :=
  let P := probe_result ser_params de_params in
  let V := probe_result ser_value (de_value all_pts) in
  let O := probe_result ser_txout (de_txout all_pts) in
  let E := probe_result ser_extdata de_extdata in
  if is_ty name "params-partial" then P (VMap [kv "signblockscript" (St "51")])
  else if is_ty name "params-full-and-elided" then P (VMap [kv "elided_root" (St "0000000000000000000000000000000000000000000000000000000000000001"); kv "signblockscript" (St "51"); kv "signblock_witness_limit" (VU64 7);
                                                    kv "fedpeg_program" (St "0014"); kv "fedpegscript" (VSeq [VU64 1; VU64 255]); kv "extension_space" (VSeq [St "AbCd"; VSeq []])])
  else if is_ty name "params-compact-unknown-key" then P (VMap [kv "foo" (VSeq [VUnit; VMap []]); kv "signblockscript" (St ""); kv "signblock_witness_limit" (VU64 4294967295);
                                                        kv "elided_root" (St "ff00000000000000000000000000000000000000000000000000000000000000")])
  else if is_ty name "params-bad-limit" then P (VMap [kv "signblockscript" (St "51"); kv "signblock_witness_limit" (St "7")])
  else if is_ty name "params-limit-overflow" then P (VMap [kv "signblock_witness_limit" (VU64 4294967296)])
  else if is_ty name "params-fedpegscript-bad-byte" then P (VMap [kv "fedpegscript" (VSeq [VU64 256])])
  else if is_ty name "params-array" then P (VSeq [])
  else if is_ty name "value-trailing" then V (VSeq [VU64 0; VU64 0])
  else if is_ty name "value-explicit-missing" then V (VSeq [VU64 1])
  else if is_ty name "value-explicit-trailing" then V (VSeq [VU64 1; VU64 5; VU64 6])
  else if is_ty name "value-bad-tag" then V (VSeq [VU64 3])
  else if is_ty name "value-tag-256" then V (VSeq [VU64 256])
  else if is_ty name "value-tag-string" then V (VSeq [St "0"])
  else if is_ty name "value-empty" then V (VSeq [])
  else if is_ty name "value-u64-max" then V (VSeq [VU64 1; VU64 18446744073709551615])
  else if is_ty name "value-u64-overflow" then V (VSeq [VU64 1; VU64 18446744073709551616])
  else if is_ty name "value-conf-badhex" then V (VSeq [VU64 2; St "zz"])
  else if is_ty name "value-map" then V (VMap [])
  else if is_ty name "txout-dup-first-invalid" then O (VMap [kv "asset" (VSeq [VU64 0]); kv "value" (VSeq [VU64 7]); kv "value" (VSeq [VU64 0]); kv "nonce" (VSeq [VU64 0]); kv "script_pubkey" (St ""); kv "witness" null_wit])
  else if is_ty name "txout-dup-last-wins" then O (VMap [kv "asset" (VSeq [VU64 0]); kv "value" (VSeq [VU64 1; VU64 0]); kv "value" (VSeq [VU64 0]); kv "nonce" (VSeq [VU64 0]); kv "script_pubkey" (St "AB"); kv "witness" null_wit; kv "extra" VUnit])
  else if is_ty name "txout-missing-nonce" then O (VMap [kv "asset" (VSeq [VU64 0]); kv "value" (VSeq [VU64 0]); kv "script_pubkey" (St ""); kv "witness" null_wit])
  else if is_ty name "txout-as-array" then O (VSeq [VSeq [VU64 0]; VSeq [VU64 0]; VSeq [VU64 0]; St ""; null_wit])
  else if is_ty name "txout-odd-hex-script" then O (VMap [kv "asset" (VSeq [VU64 0]); kv "value" (VSeq [VU64 0]); kv "nonce" (VSeq [VU64 0]); kv "script_pubkey" (St "5"); kv "witness" null_wit])
  else if is_ty name "txout-nonce-31" then O (VMap [kv "asset" (VSeq [VU64 0]); kv "value" (VSeq [VU64 0]); kv "nonce" (VSeq [VU64 1; VSeq (repeat (VU64 9) 31)]); kv "script_pubkey" (St ""); kv "witness" null_wit])
  else if is_ty name "txout-nonce-33" then O (VMap [kv "asset" (VSeq [VU64 0]); kv "value" (VSeq [VU64 0]); kv "nonce" (VSeq [VU64 1; VSeq (repeat (VU64 9) 33)]); kv "script_pubkey" (St ""); kv "witness" null_wit])
  else if is_ty name "txout-nonce-32" then O (VMap [kv "asset" (VSeq [VU64 0]); kv "value" (VSeq [VU64 0]); kv "nonce" (VSeq [VU64 1; VSeq (repeat (VU64 9) 32)]); kv "script_pubkey" (St ""); kv "witness" null_wit])
  else if is_ty name "extdata-challenge-only" then E (VMap [kv "challenge" (St "51")])
  else if is_ty name "extdata-solution-only" then E (VMap [kv "solution" (St "51")])
  else if is_ty name "extdata-both-kinds" then E (VMap [kv "current" (VMap []); kv "proposed" (VMap []); kv "signblock_witness" (VSeq []); kv "challenge" (St "51"); kv "solution" (St "")])
  else if is_ty name "extdata-dynafed-partial-params" then E (VMap [kv "current" (VMap [kv "signblockscript" (St "51")]); kv "proposed" (VMap []); kv "signblock_witness" (VSeq [VSeq [VU64 1]; VSeq []])])
  else if is_ty name "extdata-empty" then E (VMap [])
  else if is_ty name "secrets-dup" then probe_result ser_secrets de_secrets (VMap [kv "value" (VU64 1); kv "value" (VU64 1)])
  else if is_ty name "locktime-two-entries" then probe_result (fun _ => ser_locktime) (fun _ => de_locktime) (VMap [kv "Blocks" (VU64 1); kv "Seconds" (VU64 2)])
  else if is_ty name "locktime-lowercase" then probe_result (fun _ => ser_locktime) (fun _ => de_locktime) (VMap [kv "blocks" (VU64 1)])
  else if is_ty name "locktime-number" then probe_result (fun _ => ser_locktime) (fun _ => de_locktime) (VU64 1)
  else if is_ty name "outpoint-no-prefix" then probe_result ser_outpoint de_outpoint (St "0100000000000000000000000000000000000000000000000000000000000000:7")
  else if is_ty name "outpoint-as-map" then probe_result ser_outpoint de_outpoint (VMap [kv "txid" (St "0100000000000000000000000000000000000000000000000000000000000000"); kv "vout" (VU64 7)])
  else err "probe".

(* ---------- C20 ps: the derived PSET serde ---------- *)
Fixpoint take_until (c : byte) (s : bytes) (acc : bytes) : option (bytes * bytes) :=
  match s with [] => None | x :: r => if byte_eqb x c then Some (rev_append acc [], r) else take_until c r (x :: acc) end.
Definition semi : byte := x3b.
(* value notation:  n<dec>;  b<hex>;  t  f  z  s<v>  [<v>...]  (<v>...) : number, bytes, bool, None, Some, list, tuple *)
Fixpoint parse_fval (fuel : nat) (s : bytes) : option (fval * bytes) :=
  match fuel with O => None | S f =>
    match s with
    | x6e :: r => match take_until semi r [] with Some (d, r') => option_map (fun n => (FN n, r')) (N_of_dec d) | None => None end
    | x62 :: r => match take_until semi r [] with Some (h, r') => option_map (fun b => (FB b, r')) (bytes_of_hex h) | None => None end
    | x74 :: r => Some (FBool true, r)
    | x66 :: r => Some (FBool false, r)
    | x7a :: r => Some (FOpt None, r)
    | x73 :: r => match parse_fval f r with Some (v, r') => Some (FOpt (Some v), r') | None => None end
    | x5b :: r => match parse_fitems f x5d r with Some (l, r') => Some (FList l, r') | None => None end
    | x28 :: r => match parse_fitems f x29 r with Some (l, r') => Some (FTup l, r') | None => None end
    | _ => None end end
with parse_fitems (fuel : nat) (close : byte) (s : bytes) : option (list fval * bytes) :=
  match fuel with O => None | S f =>
    match s with
    | [] => None
    | c :: r => if byte_eqb c close then Some ([], r)
                else match parse_fval f s with
                     | Some (v, r') => match parse_fitems f close r' with Some (l, r'') => Some (v :: l, r'') | None => None end
                     | None => None end end end.
(* wire-tree notation:  0  t  f  n<dec>;  s<hex>;  y<hex>;  [<t>...]  {<k><v>...} : null, bool, unsigned, text, bytes, array, map *)
Fixpoint pairs_up (l : list sval) : option (list (sval * sval)) :=
  match l with [] => Some [] | k :: v :: r => option_map (cons (k, v)) (pairs_up r) | _ => None end.
Fixpoint parse_tree (fuel : nat) (s : bytes) : option (sval * bytes) :=
  match fuel with O => None | S f =>
    match s with
    | x30 :: r => Some (VUnit, r)
    | x74 :: r => Some (VBool true, r)
    | x66 :: r => Some (VBool false, r)
    | x6e :: r => match take_until semi r [] with Some (d, r') => option_map (fun n => (VU64 n, r')) (N_of_dec d) | None => None end
    | x73 :: r => match take_until semi r [] with Some (h, r') => option_map (fun b => (VStr b, r')) (bytes_of_hex h) | None => None end
    | x79 :: r => match take_until semi r [] with Some (h, r') => option_map (fun b => (VBytes b, r')) (bytes_of_hex h) | None => None end
    | x5b :: r => match parse_titems f x5d r with Some (l, r') => Some (VSeq l, r') | None => None end
    | x7b :: r => match parse_titems f x7d r with Some (l, r') => option_map (fun m => (VMap m, r')) (pairs_up l) | None => None end
    | _ => None end end
with parse_titems (fuel : nat) (close : byte) (s : bytes) : option (list sval * bytes) :=
  match fuel with O => None | S f =>
    match s with
    | [] => None
    | c :: r => if byte_eqb c close then Some ([], r)
                else match parse_tree f s with
                     | Some (v, r') => match parse_titems f close r' with Some (l, r'') => Some (v :: l, r'') | None => None end
                     | None => None end end end.
Definition whole {A} (p : option (A * bytes)) : option A := match p with Some (a, []) => Some a | _ => None end.
Fixpoint sval_eqb (a b : sval) : bool :=
  match a, b with
  | VUnit, VUnit => true
  | VBool x, VBool y => Bool.eqb x y
  | VU64 x, VU64 y => x =? y
  | VStr x, VStr y | VBytes x, VBytes y => bytes_eqb x y
  | VSeq l, VSeq m => (fix go (l m : list sval) : bool := match l, m with [], [] => true | x :: l', y :: m' => sval_eqb x y && go l' m' | _, _ => false end) l m
  | VMap l, VMap m => (fix go (l m : list (sval * sval)) : bool :=
                         match l, m with [], [] => true | (k, x) :: l', (k', y) :: m' => sval_eqb k k' && sval_eqb x y && go l' m' | _, _ => false end) l m
  | _, _ => false end.
(* the leaf oracle: what the real crate serialized each dependency value to *)
Definition orow := (bytes * bytes * sval * sval)%type.
Definition parse_orow (s : bytes) : option orow :=
  match split_on x3a s [] with
  | [k; c; j; t] => match hexarg c, whole (parse_tree (S (length j)) j), whole (parse_tree (S (length t)) t) with
                    | Some c', Some j', Some t' => Some (k, c', j', t') | _, _, _ => None end
  | _ => None end.
Definition parse_oracle (s : bytes) : option (list orow) :=
  if bytes_eqb s "-"%lb then Some [] else all_some (map parse_orow (split_on x2c s [])).
Definition or_kind (r : orow) := fst (fst (fst r)).  Definition or_canon (r : orow) := snd (fst (fst r)).
Definition or_tree (hr : bool) (r : orow) : sval := if hr then snd (fst r) else snd r.
Definition oracle_ser (Orc : list orow) (kind : bytes) (hr : bool) (b : bytes) : sval :=
  match find (fun r => bytes_eqb (or_kind r) kind && bytes_eqb (or_canon r) b) Orc with Some r => or_tree hr r | None => VStr "?"%lb end.
Definition oracle_de (Orc : list orow) (kind : bytes) (hr : bool) (v : sval) : res bytes :=
  match find (fun r => bytes_eqb (or_kind r) kind && sval_eqb (or_tree hr r) v) Orc with Some r => Ok (or_canon r) | None => Err "leaf"%lb end.
Definition oracle_ok (Orc : list orow) (kind b : bytes) : bool := existsb (fun r => bytes_eqb (or_kind r) kind && bytes_eqb (or_canon r) b) Orc.

Definition run_pset (caps pts oracle value : bytes) : bytes :=
  match caps5 caps, hexlist pts, parse_oracle oracle, whole (parse_fval (S (length value)) value) with
  | Some (maxvec, ci, co, cv, _), Some valid, Some Orc, Some x =>
      let c := sc_pset (mem_bytes valid) maxvec ci co cv (oracle_ser Orc) (oracle_de Orc) (oracle_ok Orc) in
      if negb (s_wf c x) then err "wf" else
      let j := json_view (s_ser c true x) in
      let b := cbor_view (s_ser c false x) in
      let verdict (hr : bool) (w : sval) :=
        match s_de c hr w with
        | Ok y => if bytes_eqb (render_json (json_view (s_ser c true y))) (render_json j) then "ok same"%lb else "ok diff"%lb
        | Err _ => "err"%lb end in
      "J "%lb ++ render_json j ++ sp ++ verdict true j ++ sp ++ verdict true j ++ " C "%lb ++ show_hex (render_cbor b) ++ sp ++ verdict false b
  | _, _, _, _ => err "parse" end.

(* C20 ad <net> <pkh|sh|wp<ver>> <payload hex> <blinder hex|->: an Address (the C06 model) printed, parsed back, and through serde (a string in both formats) *)
Definition run_address (net kind pl bl : bytes) : bytes :=
  let payload_of :=
    if bytes_eqb kind "pkh"%lb then option_map PubkeyHash (hexarg pl)
    else if bytes_eqb kind "sh"%lb then option_map ScriptHash (hexarg pl)
    else match kind with
         | x77 :: x70 :: v => match N_of_dec v, hexarg pl with Some n, Some d => Some (WitnessProgram n d) | _, _ => None end
         | _ => None end in
  match params_of_name net, payload_of, hexarg bl with
  | Some p, Some pay, Some blinder =>
      let a := mkAddr p pay (match blinder with [] => None | _ => Some blinder end) in
      let s := show_addr_string a in
      let tv := match parse_str s with
                | AOk a' => if bytes_eqb (show_addr a') (show_addr a) then "ok same"%lb else "ok diff"%lb
                | AErr _ => "err"%lb end in
      show_hex s ++ sp ++ tv ++ " J "%lb ++ render_json (json_view (ser_string (fun x : bytes => x) s)) ++ sp ++ tv
      ++ " C "%lb ++ show_hex (render_cbor (cbor_view (ser_string (fun x : bytes => x) s))) ++ sp ++ tv
  | _, _, _ => err "value" end.
(* C20 pt <hex of a PSET>: the base64 text form (Display = padded standard base64 of the serialization; FromStr = decode, then C07's binary decoder) *)
Definition run_pset_text (h : bytes) : bytes :=
  match hexarg h with
  | None => err "hex"
  | Some b =>
      let s := b64_enc b in
      "len%3="%lb ++ dec_of_N (N.of_nat (length b) mod 3) ++ sp ++ s ++ sp ++
      match b64_dec s with Some b' => if bytes_eqb b' b then "ok same"%lb else "ok diff"%lb | None => "err"%lb end end.

(* C20 lc <constructor> <n>: LockTime through a constructor (from_consensus; from_height / Blocks / From<Height> check n < threshold;
   from_time / Seconds / From<Time> check n >= threshold), printed and parsed back *)
Definition run_locktime_ctor (ctor n : bytes) : bytes :=
  match N_of_dec n with
  | None => err "value"
  | Some k =>
      let l : option locktime :=
        if is_ty ctor "from_consensus" then Some (locktime_from_consensus k)
        else if is_ty ctor "from_height" || is_ty ctor "Blocks" || is_ty ctor "From<Height>" then (if k <? C20_LOCK_TIME_THRESHOLD then Some (Blocks k) else None)
        else if is_ty ctor "from_time" || is_ty ctor "Seconds" || is_ty ctor "From<Time>" then (if C20_LOCK_TIME_THRESHOLD <=? k then Some (Seconds k) else None)
        else None in
      match l with
      | None => "none"%lb
      | Some l => "ok "%lb ++ show_locktime l ++ sp ++ show_hex (print_locktime l) ++ sp ++ show_res show_locktime (parse_locktime (print_locktime l)) end end.

(* C20 lj <Variant> <n>: LockTime from the JSON {"<Variant>": n}, printed and parsed back *)
Definition run_locktime_json (variant n : bytes) : bytes :=
  match N_of_dec n with
  | None => err "value"
  | Some k => match de_locktime (VMap [(VStr variant, VU64 k)]) with
              | Err _ => "err"%lb
              | Ok l => "ok "%lb ++ show_locktime l ++ sp ++ show_hex (print_locktime l) ++ sp ++ show_res show_locktime (parse_locktime (print_locktime l)) end end.

Definition run (args : list bytes) : bytes :=
  match args with
  | [k; ty; a] =>
      if bytes_eqb k "tp"%lb then match hexarg a with Some s => run_parse ty s | None => err "hex" end
      else if bytes_eqb k "lj"%lb then run_locktime_json ty a
      else if bytes_eqb k "lc"%lb then run_locktime_ctor ty a
      else if bytes_eqb k "tr"%lb then
        match run_print ty a with
        | Some s => show_hex s ++ sp ++ run_parse ty s
        | None => err "value" end
      else err "kind"
  | [k; name] => if bytes_eqb k "dm"%lb then run_probe name
                 else if bytes_eqb k "pt"%lb then run_pset_text name
                 else err "kind"
  | [k; ty; caps; pts; a] => if bytes_eqb k "sd"%lb then run_serde ty caps pts a
                             else if bytes_eqb k "ad"%lb then run_address ty caps pts a else err "kind"
  | [k; caps; pts; oracle; value; _] => if bytes_eqb k "ps"%lb then run_pset caps pts oracle value else err "kind"
  | _ => err "args" end.
