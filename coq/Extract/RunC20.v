(* case formats (all strings hex-encoded, "-" = empty):
     C20 tp <Type> <hex of string>          parse the string:  "ok <value>" | "err <class>"
     C20 tr <Type> <value>                  print the value and parse it back:  "<hex of printed string> ok <value>" | "... err <class>"
   values: hashes and blinding factors = hex of the bytes in memory order; integers decimal; LockTime as its consensus u32 in,
   "B<n>" / "S<n>" out; OutPoint "<txid hex>:<vout>"; sighash types = their numeric value. *)
From Coq Require Import List NArith Bool.
From Coq.Strings Require Import Byte.
From EV Require Import Base.Bytes Gen.Tables Model.Tx Model.Text Extract.RunUtil.
Import ListNotations.
Open Scope N_scope.

Definition show_res {A} (show : A -> bytes) (r : res A) : bytes :=
  match r with Ok a => "ok "%lb ++ show a | Err e => "err "%lb ++ e end.
Definition show_outpoint (o : outpoint) : bytes := show_hex (o_txid o) ++ ":"%lb ++ dec_of_N (o_vout o).
Definition show_locktime (l : locktime) : bytes := match l with Blocks h => "B"%lb ++ dec_of_N h | Seconds t => "S"%lb ++ dec_of_N t end.

Definition is_ty (ty : bytes) (name : blit) : bool := bytes_eqb ty name.

(* parse a string of the given type *)
Definition run_parse (ty s : bytes) : bytes :=
  match assoc ty hash_text_table with
  | Some (len, (_, pb)) => show_res show_hex (parse_hash len pb s)
  | None =>
      if is_ty ty "AssetBlindingFactor" then show_res show_hex (parse_bf hashlen_AssetBlindingFactor hash_parse_backward_AssetBlindingFactor s)
      else if is_ty ty "ValueBlindingFactor" then show_res show_hex (parse_bf hashlen_ValueBlindingFactor hash_parse_backward_ValueBlindingFactor s)
      else if is_ty ty "Sequence" then show_res dec_of_N (parse_sequence s)
      else if is_ty ty "LockTime" then show_res show_locktime (parse_locktime s)
      else if is_ty ty "Height" then show_res dec_of_N (parse_height s)
      else if is_ty ty "Time" then show_res dec_of_N (parse_time s)
      else if is_ty ty "OutPoint" then show_res show_outpoint (parse_outpoint s)
      else if is_ty ty "EcdsaSighashType" then show_res dec_of_N (parse_ecdsa_sighash s)
      else if is_ty ty "SchnorrSighashType" then show_res dec_of_N (parse_schnorr_sighash s)
      else if is_ty ty "PsbtSighashType" then show_res dec_of_N (parse_psbt_sighash s)
      else err "type" end.

Definition read_outpoint (v : bytes) : option outpoint :=
  match split_on x3a v [] with
  | [t; n] => match hexarg t, N_of_dec n with Some t', Some n' => Some {| o_txid := t'; o_vout := n' |} | _, _ => None end
  | _ => None end.

(* print a value of the given type *)
Definition run_print (ty v : bytes) : option bytes :=
  match assoc ty hash_text_table with
  | Some (_, (db, _)) => option_map (print_hash db) (hexarg v)
  | None =>
      if is_ty ty "AssetBlindingFactor" then option_map (print_bf hash_display_backward_AssetBlindingFactor) (hexarg v)
      else if is_ty ty "ValueBlindingFactor" then option_map (print_bf hash_display_backward_ValueBlindingFactor) (hexarg v)
      else if is_ty ty "Sequence" then option_map print_sequence (N_of_dec v)
      else if is_ty ty "LockTime" then option_map (fun n => print_locktime (locktime_from_consensus n)) (N_of_dec v)
      else if is_ty ty "Height" then option_map print_height (N_of_dec v)
      else if is_ty ty "Time" then option_map print_time (N_of_dec v)
      else if is_ty ty "OutPoint" then option_map print_outpoint (read_outpoint v)
      else if is_ty ty "EcdsaSighashType" then option_map print_ecdsa_sighash (N_of_dec v)
      else if is_ty ty "SchnorrSighashType" then option_map print_schnorr_sighash (N_of_dec v)
      else if is_ty ty "PsbtSighashType" then option_map print_psbt_sighash (N_of_dec v)
      else None end.

Definition run (args : list bytes) : bytes :=
  match args with
  | [k; ty; a] =>
      if bytes_eqb k "tp"%lb then match hexarg a with Some s => run_parse ty s | None => err "hex" end
      else if bytes_eqb k "tr"%lb then
        match run_print ty a with
        | Some s => show_hex s ++ sp ++ run_parse ty s
        | None => err "value" end
      else err "kind"
  | _ => err "args" end.
