(* case formats (all strings hex-encoded, "-" = empty):
     C20 tp <Type> <hex of string>          parse the string:  "ok <value>" | "err <class>"
     C20 tr <Type> <value>                  print the value and parse it back:  "<hex of printed string> ok <value>" | "... err <class>"
     C20 ps <hex of a PSET>                 derived PartiallySignedTransaction serde (exploration in support): fixed token "pset-serde"
     C20 sd <type> <caps> <points> <hex>    serde: the value is given by its consensus encoding (types tx txin1 txout1 header block params value
                                            asset nonce) or directly (outpoint <txid>:<vout>, secrets <asset>,<abf>,<value>,<vbf>, locktime <u32>,
                                            hash:<Name> <hex>, abf / vbf <hex>, script <hex>, str <hex of a Display string>);
                                            result "J <json text> <ok same|ok diff|err> C <hex of cbor> <ok same|ok diff|err>"
   values: hashes and blinding factors = hex of the bytes in memory order; integers decimal; LockTime as its consensus u32 in,
   "B<n>" / "S<n>" out; OutPoint "<txid hex>:<vout>"; sighash types = their numeric value. *)
From Coq Require Import List NArith Bool.
From Coq.Strings Require Import Byte.
From EV Require Import Base.Bytes Base.Codec Gen.Tables Model.Tx Model.Block Model.Text Model.Serde Extract.RunUtil.
Import ListNotations.
Open Scope N_scope.

Definition show_res {A} (show : A -> bytes) (r : res A) : bytes :=
  match r with Ok a => "ok "%lb ++ show a | Err e => "err "%lb ++ e end.
Definition show_outpoint (o : outpoint) : bytes := show_hex (o_txid o) ++ ":"%lb ++ dec_of_N (o_vout o).
Definition show_locktime (l : locktime) : bytes := match l with Blocks h => "B"%lb ++ dec_of_N h | Seconds t => "S"%lb ++ dec_of_N t end.

Definition is_ty (ty : bytes) (name : blit) : bool := bytes_eqb ty name.

(* parse a string of the given type *)
Definition run_parse (ty s : bytes) : bytes :=
  match assoc ty hash_text_table with
  | Some (len, (_, pb)) => show_res show_hex (parse_hash len pb s)
  | None =>
      if is_ty ty "AssetBlindingFactor" then show_res show_hex (parse_bf hashlen_AssetBlindingFactor hash_parse_backward_AssetBlindingFactor s)
      else if is_ty ty "ValueBlindingFactor" then show_res show_hex (parse_bf hashlen_ValueBlindingFactor hash_parse_backward_ValueBlindingFactor s)
      else if is_ty ty "Sequence" then show_res dec_of_N (parse_sequence s)
      else if is_ty ty "LockTime" then show_res show_locktime (parse_locktime s)
      else if is_ty ty "Height" then show_res dec_of_N (parse_height s)
      else if is_ty ty "Time" then show_res dec_of_N (parse_time s)
      else if is_ty ty "OutPoint" then show_res show_outpoint (parse_outpoint s)
      else if is_ty ty "EcdsaSighashType" then show_res dec_of_N (parse_ecdsa_sighash s)
      else if is_ty ty "SchnorrSighashType" then show_res dec_of_N (parse_schnorr_sighash s)
      else if is_ty ty "PsbtSighashType" then show_res dec_of_N (parse_psbt_sighash s)
      else err "type" end.

Definition read_outpoint (v : bytes) : option outpoint :=
  match split_on x3a v [] with
  | [t; n] => match hexarg t, N_of_dec n with Some t', Some n' => Some {| o_txid := t'; o_vout := n' |} | _, _ => None end
  | _ => None end.

(* print a value of the given type *)
Definition run_print (ty v : bytes) : option bytes :=
  match assoc ty hash_text_table with
  | Some (_, (db, _)) => option_map (print_hash db) (hexarg v)
  | None =>
      if is_ty ty "AssetBlindingFactor" then option_map (print_bf hash_display_backward_AssetBlindingFactor) (hexarg v)
      else if is_ty ty "ValueBlindingFactor" then option_map (print_bf hash_display_backward_ValueBlindingFactor) (hexarg v)
      else if is_ty ty "Sequence" then option_map print_sequence (N_of_dec v)
      else if is_ty ty "LockTime" then option_map (fun n => print_locktime (locktime_from_consensus n)) (N_of_dec v)
      else if is_ty ty "Height" then option_map print_height (N_of_dec v)
      else if is_ty ty "Time" then option_map print_time (N_of_dec v)
      else if is_ty ty "OutPoint" then option_map print_outpoint (read_outpoint v)
      else if is_ty ty "EcdsaSighashType" then option_map print_ecdsa_sighash (N_of_dec v)
      else if is_ty ty "SchnorrSighashType" then option_map print_schnorr_sighash (N_of_dec v)
      else if is_ty ty "PsbtSighashType" then option_map print_psbt_sighash (N_of_dec v)
      else None end.

(* ---------- serde ---------- *)
Definition quote (s : bytes) : bytes := x22 :: s ++ [x22].
Fixpoint render_json (v : sval) : bytes :=
  match v with
  | VUnit | VNone => "null"%lb
  | VBool b => if b then "true"%lb else "false"%lb
  | VU64 n => dec_of_N n
  | VStr s => quote s
  | VSeq l => "["%lb ++ join ","%lb (map render_json l) ++ "]"%lb
  | VMap l => "{"%lb ++ join ","%lb (map (fun kv => render_json (fst kv) ++ ":"%lb ++ render_json (snd kv)) l) ++ "}"%lb
  | _ => "?"%lb end.
Definition cbor_head (major n : N) : bytes :=
  let m := 32 * major in
  if n <? 24 then [n2b (m + n)]
  else if n <? 256 then [n2b (m + 24); n2b n]
  else if n <? 65536 then n2b (m + 25) :: be_enc 2 n
  else if n <? 4294967296 then n2b (m + 26) :: be_enc 4 n
  else n2b (m + 27) :: be_enc 8 n.
Fixpoint render_cbor (v : sval) : bytes :=
  match v with
  | VUnit | VNone => [xf6]
  | VBool b => if b then [xf5] else [xf4]
  | VU64 n => cbor_head 0 n
  | VBytes b => cbor_head 2 (N.of_nat (length b)) ++ b
  | VStr s => cbor_head 3 (N.of_nat (length s)) ++ s
  | VSeq l => cbor_head 4 (N.of_nat (length l)) ++ concat (map render_cbor l)
  | VMap l => cbor_head 5 (N.of_nat (length l)) ++ concat (map (fun kv => render_cbor (fst kv) ++ render_cbor (snd kv)) l)
  | _ => [xff] end.

Definition serde_line {A} (ser : bool -> A -> sval) (de : bool -> sval -> res A) (x : A) : bytes :=
  let j := json_view (ser true x) in
  let c := cbor_view (ser false x) in
  let verdict (hr : bool) (w : sval) :=
    match de hr w with
    | Ok y => if bytes_eqb (render_json (json_view (ser true y))) (render_json j) then "ok same"%lb else "ok diff"%lb
    | Err _ => "err"%lb end in
  "J "%lb ++ render_json j ++ sp ++ verdict true j ++ " C "%lb ++ show_hex (render_cbor c) ++ sp ++ verdict false c.

Definition mem_bytes (l : list bytes) (b : bytes) : bool := existsb (bytes_eqb b) l.
Definition caps5 (s : bytes) : option (N * N * N * N * N) :=
  match all_some (map N_of_dec (split_on x2c s [])) with
  | Some [a; b; c; d; e] => Some (a, b, c, d, e) | _ => None end.
Definition from_consensus {A} (c : codec A) (input : bytes) (k : A -> bytes) : bytes :=
  match deserialize c input with Some v => k v | None => err "consensus" end.

Definition run_serde (ty caps pts arg : bytes) : bytes :=
  match caps5 caps, hexlist pts with
  | Some (maxvec, ci, co, cv, ct), Some valid =>
      let pt_ok := mem_bytes valid in
      let hexv (k : bytes -> bytes) := match hexarg arg with Some b => k b | None => err "hex" end in
      if is_ty ty "tx" then hexv (fun b => from_consensus (c_tx pt_ok maxvec ci co cv) b (serde_line (ser_tx) (de_tx pt_ok)))
      else if is_ty ty "txin1" then hexv (fun b => from_consensus (c_tx pt_ok maxvec ci co cv) b (fun t => match tx_in t with [i] => serde_line ser_txin (de_txin pt_ok) i | _ => err "txin1" end))
      else if is_ty ty "txout1" then hexv (fun b => from_consensus (c_tx pt_ok maxvec ci co cv) b (fun t => match tx_out t with [o] => serde_line ser_txout (de_txout pt_ok) o | _ => err "txout1" end))
      else if is_ty ty "header" then hexv (fun b => from_consensus (c_header maxvec cv) b (serde_line ser_header (de_header)))
      else if is_ty ty "block" then hexv (fun b => from_consensus (c_block pt_ok maxvec ci co cv ct) b (serde_line ser_block (de_block pt_ok)))
      else if is_ty ty "params" then hexv (fun b => from_consensus (c_params maxvec cv) b (serde_line ser_params de_params))
      else if is_ty ty "value" then hexv (fun b => from_consensus (c_value pt_ok) b (serde_line ser_value (de_value pt_ok)))
      else if is_ty ty "asset" then hexv (fun b => from_consensus (c_asset pt_ok) b (serde_line ser_asset (de_asset pt_ok)))
      else if is_ty ty "nonce" then hexv (fun b => from_consensus (c_nonce pt_ok) b (serde_line ser_nonce (de_nonce pt_ok)))
      else if is_ty ty "outpoint" then match read_outpoint arg with Some o => serde_line ser_outpoint de_outpoint o | None => err "value" end
      else if is_ty ty "locktime" then match N_of_dec arg with Some n => serde_line (fun _ => ser_locktime) (fun _ => de_locktime) (locktime_from_consensus n) | None => err "value" end
      else if is_ty ty "secrets" then
        match split_on x2c arg [] with
        | [a; b; c; d] => match hexarg a, hexarg b, N_of_dec c, hexarg d with
                          | Some a, Some b, Some c, Some d => serde_line ser_secrets de_secrets {| s_asset := a; s_abf := b; s_value := c; s_vbf := d |}
                          | _, _, _, _ => err "value" end
        | _ => err "value" end
      else if is_ty ty "abf" then hexv (serde_line (fun hr => ser_bf hr hash_display_backward_AssetBlindingFactor) (fun hr => de_bf hr hash_parse_backward_AssetBlindingFactor))
      else if is_ty ty "vbf" then hexv (serde_line (fun hr => ser_bf hr hash_display_backward_ValueBlindingFactor) (fun hr => de_bf hr hash_parse_backward_ValueBlindingFactor))
      else if is_ty ty "script" then hexv (serde_line (fun _ => ser_script) (fun _ => de_script))
      else if is_ty ty "str" then hexv (serde_line (fun _ => ser_string (fun s => s)) (fun _ => de_string (fun s => Ok s)))
      else match ty with
           | x68 :: x61 :: x73 :: x68 :: x3a :: name =>        (* "hash:" <Name> *)
               if existsb (bytes_eqb name) midstate_wrapper_names then hexv (serde_line ser_midstate de_midstate)
               else match assoc name hash_serde_table with
                    | Some (len, (db, pb)) => hexv (serde_line (fun hr => ser_hash hr db) (fun hr => de_hash hr len pb))
                    | None => err "type" end
           | _ => err "type" end
  | _, _ => err "parse" end.

(* ---------- C20 dm <name>: deserializing hand-made trees that no Serialize impl produces (unknown / repeated / missing keys, trailing
   elements, partial Params ...).  The model renders its tree as JSON text; the harness holds the same text and feeds it to serde_json. ---------- *)
Definition S (b : blit) : sval := VStr b.
Definition kv (k : blit) (v : sval) : sval * sval := (VStr k, v).
Definition null_wit : sval := VMap [kv "surjection_proof" VUnit; kv "rangeproof" VUnit].
Definition probe_result {A} (ser : bool -> A -> sval) (de : bool -> sval -> res A) (t : sval) : bytes :=
  render_json t ++ sp ++ match de true t with Ok y => "ok "%lb ++ render_json (json_view (ser true y)) | Err _ => "err"%lb end.
Definition all_pts (_ : bytes) : bool := false.
Definition run_probe (name : bytes) : bytes :=
  let P := probe_result ser_params de_params in
  let V := probe_result ser_value (de_value all_pts) in
  let O := probe_result ser_txout (de_txout all_pts) in
  let E := probe_result ser_extdata de_extdata in
  if is_ty name "params-partial" then P (VMap [kv "signblockscript" (S "51")])
  else if is_ty name "params-full-and-elided" then P (VMap [kv "elided_root" (S "0000000000000000000000000000000000000000000000000000000000000001"); kv "signblockscript" (S "51"); kv "signblock_witness_limit" (VU64 7);
                                                    kv "fedpeg_program" (S "0014"); kv "fedpegscript" (VSeq [VU64 1; VU64 255]); kv "extension_space" (VSeq [S "AbCd"; VSeq []])])
  else if is_ty name "params-compact-unknown-key" then P (VMap [kv "foo" (VSeq [VUnit; VMap []]); kv "signblockscript" (S ""); kv "signblock_witness_limit" (VU64 4294967295);
                                                        kv "elided_root" (S "ff00000000000000000000000000000000000000000000000000000000000000")])
  else if is_ty name "params-bad-limit" then P (VMap [kv "signblockscript" (S "51"); kv "signblock_witness_limit" (S "7")])
  else if is_ty name "params-limit-overflow" then P (VMap [kv "signblock_witness_limit" (VU64 4294967296)])
  else if is_ty name "params-fedpegscript-bad-byte" then P (VMap [kv "fedpegscript" (VSeq [VU64 256])])
  else if is_ty name "params-array" then P (VSeq [])
  else if is_ty name "value-trailing" then V (VSeq [VU64 0; VU64 0])
  else if is_ty name "value-explicit-missing" then V (VSeq [VU64 1])
  else if is_ty name "value-explicit-trailing" then V (VSeq [VU64 1; VU64 5; VU64 6])
  else if is_ty name "value-bad-tag" then V (VSeq [VU64 3])
  else if is_ty name "value-tag-256" then V (VSeq [VU64 256])
  else if is_ty name "value-tag-string" then V (VSeq [S "0"])
  else if is_ty name "value-empty" then V (VSeq [])
  else if is_ty name "value-u64-max" then V (VSeq [VU64 1; VU64 18446744073709551615])
  else if is_ty name "value-u64-overflow" then V (VSeq [VU64 1; VU64 18446744073709551616])
  else if is_ty name "value-conf-badhex" then V (VSeq [VU64 2; S "zz"])
  else if is_ty name "value-map" then V (VMap [])
  else if is_ty name "txout-dup-first-invalid" then O (VMap [kv "asset" (VSeq [VU64 0]); kv "value" (VSeq [VU64 7]); kv "value" (VSeq [VU64 0]); kv "nonce" (VSeq [VU64 0]); kv "script_pubkey" (S ""); kv "witness" null_wit])
  else if is_ty name "txout-dup-last-wins" then O (VMap [kv "asset" (VSeq [VU64 0]); kv "value" (VSeq [VU64 1; VU64 0]); kv "value" (VSeq [VU64 0]); kv "nonce" (VSeq [VU64 0]); kv "script_pubkey" (S "AB"); kv "witness" null_wit; kv "extra" VUnit])
  else if is_ty name "txout-missing-nonce" then O (VMap [kv "asset" (VSeq [VU64 0]); kv "value" (VSeq [VU64 0]); kv "script_pubkey" (S ""); kv "witness" null_wit])
  else if is_ty name "txout-as-array" then O (VSeq [VSeq [VU64 0]; VSeq [VU64 0]; VSeq [VU64 0]; S ""; null_wit])
  else if is_ty name "txout-odd-hex-script" then O (VMap [kv "asset" (VSeq [VU64 0]); kv "value" (VSeq [VU64 0]); kv "nonce" (VSeq [VU64 0]); kv "script_pubkey" (S "5"); kv "witness" null_wit])
  else if is_ty name "txout-nonce-31" then O (VMap [kv "asset" (VSeq [VU64 0]); kv "value" (VSeq [VU64 0]); kv "nonce" (VSeq [VU64 1; VSeq (repeat (VU64 9) 31)]); kv "script_pubkey" (S ""); kv "witness" null_wit])
  else if is_ty name "txout-nonce-33" then O (VMap [kv "asset" (VSeq [VU64 0]); kv "value" (VSeq [VU64 0]); kv "nonce" (VSeq [VU64 1; VSeq (repeat (VU64 9) 33)]); kv "script_pubkey" (S ""); kv "witness" null_wit])
  else if is_ty name "txout-nonce-32" then O (VMap [kv "asset" (VSeq [VU64 0]); kv "value" (VSeq [VU64 0]); kv "nonce" (VSeq [VU64 1; VSeq (repeat (VU64 9) 32)]); kv "script_pubkey" (S ""); kv "witness" null_wit])
  else if is_ty name "extdata-challenge-only" then E (VMap [kv "challenge" (S "51")])
  else if is_ty name "extdata-solution-only" then E (VMap [kv "solution" (S "51")])
  else if is_ty name "extdata-both-kinds" then E (VMap [kv "current" (VMap []); kv "proposed" (VMap []); kv "signblock_witness" (VSeq []); kv "challenge" (S "51"); kv "solution" (S "")])
  else if is_ty name "extdata-dynafed-partial-params" then E (VMap [kv "current" (VMap [kv "signblockscript" (S "51")]); kv "proposed" (VMap []); kv "signblock_witness" (VSeq [VSeq [VU64 1]; VSeq []])])
  else if is_ty name "extdata-empty" then E (VMap [])
  else if is_ty name "secrets-dup" then probe_result ser_secrets de_secrets (VMap [kv "value" (VU64 1); kv "value" (VU64 1)])
  else if is_ty name "locktime-two-entries" then probe_result (fun _ => ser_locktime) (fun _ => de_locktime) (VMap [kv "Blocks" (VU64 1); kv "Seconds" (VU64 2)])
  else if is_ty name "locktime-lowercase" then probe_result (fun _ => ser_locktime) (fun _ => de_locktime) (VMap [kv "blocks" (VU64 1)])
  else if is_ty name "locktime-number" then probe_result (fun _ => ser_locktime) (fun _ => de_locktime) (VU64 1)
  else if is_ty name "outpoint-no-prefix" then probe_result ser_outpoint de_outpoint (S "0100000000000000000000000000000000000000000000000000000000000000:7")
  else if is_ty name "outpoint-as-map" then probe_result ser_outpoint de_outpoint (VMap [kv "txid" (S "0100000000000000000000000000000000000000000000000000000000000000"); kv "vout" (VU64 7)])
  else err "probe".

(* C20 lj <Variant> <n>: LockTime from the JSON {"<Variant>": n}, printed and parsed back *)
Definition run_locktime_json (variant n : bytes) : bytes :=
  match N_of_dec n with
  | None => err "value"
  | Some k => match de_locktime (VMap [(VStr variant, VU64 k)]) with
              | Err _ => "err"%lb
              | Ok l => "ok "%lb ++ show_locktime l ++ sp ++ show_hex (print_locktime l) ++ sp ++ show_res show_locktime (parse_locktime (print_locktime l)) end end.

Definition run (args : list bytes) : bytes :=
  match args with
  | [k; ty; a] =>
      if bytes_eqb k "tp"%lb then match hexarg a with Some s => run_parse ty s | None => err "hex" end
      else if bytes_eqb k "lj"%lb then run_locktime_json ty a
      else if bytes_eqb k "tr"%lb then
        match run_print ty a with
        | Some s => show_hex s ++ sp ++ run_parse ty s
        | None => err "value" end
      else err "kind"
  | [k; name] => if bytes_eqb k "dm"%lb then run_probe name
                 else if bytes_eqb k "ps"%lb then "pset-serde"%lb     (* derived PSET serde: no model, the harness evaluates the predicate only *)
                 else err "kind"
  | [k; ty; caps; pts; a] => if bytes_eqb k "sd"%lb then run_serde ty caps pts a else err "kind"
  | _ => err "args" end.
