(* case: "C01 <type> <maxvec,cap_txin,cap_txout,cap_vecu8,cap_tx> <hexlist of valid 33-byte points> <hex input>"
   result: "ok <consumed> <elen> <summary> <hex of re-encoding>"  |  "err" *)
From Coq Require Import List NArith.
From Coq.Strings Require Import Byte.
From EV Require Import Base.Bytes Base.Codec Model.Tx Model.Block Extract.RunUtil.
Import ListNotations.
Open Scope N_scope.

Definition mem_bytes (l : list bytes) (b : bytes) : bool := existsb (bytes_eqb b) l.
Definition caps5 (s : bytes) : option (N * N * N * N * N) :=
  match all_some (map N_of_dec (split_on x2c s [])) with
  | Some [a; b; c; d; e] => Some (a, b, c, d, e) | _ => None end.

Definition show_res {A} (c : codec A) (summary : A -> bytes) (input : bytes) : bytes :=
  match dec c input with
  | Some (v, rest) =>
      "ok "%lb ++ dec_of_N (N.of_nat (length input - length rest)) ++ sp ++ dec_of_N (elen c v) ++ sp ++ summary v ++ sp ++ show_hex (enc c v)
  | None => "err"%lb end.

Definition sum_txin (i : txin) : bytes :=
  dec_of_N (o_vout (in_prev i)) ++ ":"%lb ++ show_bool (in_pegin i) ++ show_bool (has_issuance i).
Definition sum_tx (t : tx) : bytes :=
  "w"%lb ++ show_bool (has_witness t) ++ "/"%lb ++ dec_of_N (N.of_nat (length (tx_out t))) ++ "/"%lb ++ join ","%lb (map sum_txin (tx_in t)).
Definition sum_header (h : header) : bytes :=
  "v"%lb ++ dec_of_N (h_version h) ++ (match h_ext h with EProof _ _ => "P"%lb | EDynafed _ _ _ => "D"%lb end).
Definition none {A} (_ : A) : bytes := "-"%lb.

Definition run4 (ty caps pts hx : bytes) : bytes :=
      match caps5 caps, hexlist pts, hexarg hx with
      | Some (maxvec, ci, co, cv, ct), Some valid, Some input =>
          let pt_ok := mem_bytes valid in
          if bytes_eqb ty "tx"%lb then show_res (c_tx pt_ok maxvec ci co cv) sum_tx input
          else if bytes_eqb ty "txin"%lb then show_res (c_txin pt_ok maxvec) sum_txin input
          else if bytes_eqb ty "txout"%lb then show_res (c_txout pt_ok maxvec) none input
          else if bytes_eqb ty "header"%lb then show_res (c_header maxvec cv) sum_header input
          else if bytes_eqb ty "block"%lb then show_res (c_block pt_ok maxvec ci co cv ct) (fun b => sum_header (b_header b) ++ "/"%lb ++ dec_of_N (N.of_nat (length (b_txs b)))) input
          else if bytes_eqb ty "params"%lb then show_res (c_params maxvec cv) (fun p => dec_of_N (params_tag p)) input
          else if bytes_eqb ty "value"%lb then show_res (c_value pt_ok) none input
          else if bytes_eqb ty "asset"%lb then show_res (c_asset pt_ok) none input
          else if bytes_eqb ty "nonce"%lb then show_res (c_nonce pt_ok) none input
          else err "type"
      | _, _, _ => err "parse" end.
(* an optional fifth word ("ref": the input is the reference encoding of a canonical value) only matters to the harness *)
Definition run (args : list bytes) : bytes :=
  match args with
  | [ty; caps; pts; hx] => run4 ty caps pts hx
  | [ty; caps; pts; hx; _] => run4 ty caps pts hx
  | _ => err "args" end.
