(* case: "C01 <type> <maxvec,cap_txin,cap_txout,cap_vecu8,cap_tx> <hexlist of valid 33-byte points> <hex input>"
   result: "ok <consumed> <elen> <summary> <hex of re-encoding>"  |  "err" *)
From Coq Require Import List NArith.
From Coq.Strings Require Import Byte.
From EV Require Import Base.Bytes Base.Codec Model.Tx Model.Block Extract.RunUtil.
Import ListNotations.
Open Scope N_scope.

Definition mem_bytes (l : list bytes) (b : bytes) : bool := existsb (bytes_eqb b) l.
Definition caps5 (s : bytes) : option (N * N * N * N * N) :=
  match all_some (map N_of_dec (split_on x2c s [])) with
  | Some [a; b; c; d; e] => Some (a, b, c, d, e) | _ => None end.

Definition show_res {A} (c : codec A) (summary : A -> bytes) (input : bytes) : bytes :=
  match dec c input with
  | Some (v, rest) =>
      "ok "%lb ++ dec_of_N (N.of_nat (length input - length rest)) ++ sp ++ dec_of_N (elen c v) ++ sp ++ summary v ++ sp ++ show_hex (enc c v)
  | None => "err"%lb end.

(* field-wise fingerprint of the decoded value (length and byte sum of every field, by field NAME): binds field identity between model
   and implementation, so an encoder/decoder pair that consistently swaps or renames two fields no longer agrees with the model *)
Definition bsum (b : bytes) : N := fold_left (fun a x => (a + b2n x) mod 65521) b 0.
Definition fpb (b : bytes) : bytes := dec_of_N (N.of_nat (length b)) ++ "."%lb ++ dec_of_N (bsum b).
Definition fpo (o : option bytes) : bytes := match o with None => "-"%lb | Some b => fpb b end.
Definition fpstack (l : list bytes) : bytes := "["%lb ++ join ","%lb (map fpb l) ++ "]"%lb.
Definition fpval (v : cvalue) : bytes := match v with VNull => "n"%lb | VExplicit n => "e"%lb ++ dec_of_N n | VConf c => "c"%lb ++ fpb c end.
Definition fpasset (v : casset) : bytes := match v with ANull => "n"%lb | AExplicit b => "e"%lb ++ fpb b | AConf c => "c"%lb ++ fpb c end.
Definition fpnonce (v : cnonce) : bytes := match v with NNull => "n"%lb | NExplicit b => "e"%lb ++ fpb b | NConf c => "c"%lb ++ fpb c end.
Definition sum_txin (i : txin) : bytes :=
  fpb (o_txid (in_prev i)) ++ ":"%lb ++ dec_of_N (o_vout (in_prev i)) ++ ":"%lb ++ show_bool (in_pegin i) ++ show_bool (has_issuance i)
  ++ ":s"%lb ++ fpb (in_script i) ++ ":q"%lb ++ dec_of_N (in_seq i)
  ++ ":i"%lb ++ fpb (i_nonce (in_iss i)) ++ "/"%lb ++ fpb (i_entropy (in_iss i)) ++ "/"%lb ++ fpval (i_amount (in_iss i)) ++ "/"%lb ++ fpval (i_keys (in_iss i))
  ++ ":w"%lb ++ fpo (w_amount_rp (in_wit i)) ++ "/"%lb ++ fpo (w_keys_rp (in_wit i)) ++ "/"%lb ++ fpstack (w_script (in_wit i)) ++ "/"%lb ++ fpstack (w_pegin (in_wit i)).
Definition sum_txout (o : txout) : bytes :=
  "a"%lb ++ fpasset (out_asset o) ++ ":v"%lb ++ fpval (out_value o) ++ ":n"%lb ++ fpnonce (out_nonce o) ++ ":s"%lb ++ fpb (out_script o)
  ++ ":w"%lb ++ fpo (w_surj (out_wit o)) ++ "/"%lb ++ fpo (w_range (out_wit o)).
Definition sum_tx (t : tx) : bytes :=
  "w"%lb ++ show_bool (has_witness t) ++ "/v"%lb ++ dec_of_N (tx_version t) ++ "/l"%lb ++ dec_of_N (tx_lock t)
  ++ "/I"%lb ++ join ","%lb (map sum_txin (tx_in t)) ++ "/O"%lb ++ join ","%lb (map sum_txout (tx_out t)).
Definition sum_full (f : fullparams) : bytes :=
  fpb (fp_sbs f) ++ "/"%lb ++ dec_of_N (fp_limit f) ++ "/"%lb ++ fpb (fp_program f) ++ "/"%lb ++ fpb (fp_script f) ++ "/"%lb ++ fpstack (fp_ext f).
Definition sum_params (p : params) : bytes :=
  match p with PNull => "N"%lb | PCompact s l e => "C"%lb ++ fpb s ++ "/"%lb ++ dec_of_N l ++ "/"%lb ++ fpb e | PFull f => "F"%lb ++ sum_full f end.
Definition sum_header (h : header) : bytes :=
  "v"%lb ++ dec_of_N (h_version h) ++ ":p"%lb ++ fpb (h_prev h) ++ ":m"%lb ++ fpb (h_merkle h) ++ ":t"%lb ++ dec_of_N (h_time h) ++ ":h"%lb ++ dec_of_N (h_height h) ++ ":"%lb ++
  (match h_ext h with EProof c s => "P"%lb ++ fpb c ++ "/"%lb ++ fpb s
   | EDynafed c p w => "D"%lb ++ sum_params c ++ "|"%lb ++ sum_params p ++ "|"%lb ++ fpstack w end).
Definition none {A} (_ : A) : bytes := "-"%lb.

Definition run4 (ty caps pts hx : bytes) : bytes :=
      match caps5 caps, hexlist pts, hexarg hx with
      | Some (maxvec, ci, co, cv, ct), Some valid, Some input =>
          let pt_ok := mem_bytes valid in
          if bytes_eqb ty "tx"%lb then show_res (c_tx pt_ok maxvec ci co cv) sum_tx input
          else if bytes_eqb ty "txin"%lb then show_res (c_txin pt_ok maxvec) sum_txin input
          else if bytes_eqb ty "txout"%lb then show_res (c_txout pt_ok maxvec) sum_txout input
          else if bytes_eqb ty "header"%lb then show_res (c_header maxvec cv) sum_header input
          else if bytes_eqb ty "block"%lb then show_res (c_block pt_ok maxvec ci co cv ct) (fun b => sum_header (b_header b) ++ "/T"%lb ++ join ";"%lb (map sum_tx (b_txs b))) input
          else if bytes_eqb ty "params"%lb then show_res (c_params maxvec cv) sum_params input
          else if bytes_eqb ty "value"%lb then show_res (c_value pt_ok) fpval input
          else if bytes_eqb ty "asset"%lb then show_res (c_asset pt_ok) fpasset input
          else if bytes_eqb ty "nonce"%lb then show_res (c_nonce pt_ok) fpnonce input
          else err "type"
      | _, _, _ => err "parse" end.
(* an optional fifth word ("ref": the input is the reference encoding of a canonical value) only matters to the harness *)
Definition run (args : list bytes) : bytes :=
  match args with
  | [ty; caps; pts; hx] => run4 ty caps pts hx
  | [ty; caps; pts; hx; _] => run4 ty caps pts hx
  | _ => err "args" end.
