(* C15 case runner: parses the case text, runs Model/Taproot.v + Model/Huffman.v under the concrete tagged SHA-256
   (tags from Gen/Tables.v) and prints the canonical result line.  secp256k1 results come from the oracle table the
   harness recorded in the case line (internal key, tweak hash -> output key, parity); a tweak that is not in the
   table has no recorded result. *)
From Coq Require Import List Arith NArith Bool.
From Coq.Strings Require Import Byte.
From EV Require Import Base.Bytes Base.Sha256 Gen.Tables Model.Taproot Model.Huffman Extract.RunUtil.
Import ListNotations.
Open Scope N_scope.

Definition L (x : blit) : bytes := x.
Definition hleaf : bytes -> bytes := tagged TAG_TAPLEAF.
Definition hbranch : bytes -> bytes := tagged TAG_TAPBRANCH.
Definition htweak : bytes -> bytes := tagged TAG_TAPTWEAK.
(* order of the secp256k1 group: Scalar::from_be_bytes rejects values >= n *)
Definition SECP_N : N := 0xFFFFFFFFFFFFFFFFFFFFFFFFFFFFFFFEBAAEDCE6AF48A03BBFD25E8CD0364141.
Definition scalar_ok (t : bytes) : bool := (length t =? 32)%nat && (be_val t <? SECP_N).

Definition oracle := list ((bytes * bytes) * (bytes * bool)).
Fixpoint o_lookup (P t : bytes) (o : oracle) : option (bytes * bool) :=
  match o with [] => None | ((P', t'), r) :: rest => if bytes_eqb P P' && bytes_eqb t t' then Some r else o_lookup P t rest end.
Definition o_tweak (o : oracle) (P t : bytes) : option (bytes * bool) := o_lookup P t o.
Definition o_check (o : oracle) (P Q : bytes) (par : bool) (t : bytes) : bool :=
  match o_lookup P t o with Some (Q', par') => bytes_eqb Q Q' && Bool.eqb par par' | None => false end.

(* ---- parsing ---- *)
Definition colon := x3a.
Definition one_byte (s : bytes) : option byte := match bytes_of_hex s with Some [b] => Some b | _ => None end.
Definition parse_bool (s : bytes) : option bool :=
  if bytes_eqb s (L "1") then Some true else if bytes_eqb s (L "0") then Some false else None.
Definition parse_item (s : bytes) : option item :=
  match s with
  | k :: r =>
      match split_on colon r [] with
      | [d; v; sc] => if byte_eqb k x4c (* L *) then
                        match N_of_dec d, one_byte v, bytes_of_hex sc with Some d', Some v', Some sc' => Some (ILeaf d' sc' v') | _, _, _ => None end
                      else None
      | [d; h] => if byte_eqb k x48 (* H *) then
                    match N_of_dec d, bytes_of_hex h with Some d', Some h' => Some (IHidden d' h') | _, _ => None end
                  else None
      | _ => None
      end
  | [] => None
  end.
Definition parse_list {A} (f : bytes -> option A) (s : bytes) : option (list A) :=
  if bytes_eqb s (L "-") then Some [] else all_some (map f (split_on x2c s [])).
Definition parse_oentry (s : bytes) : option ((bytes * bytes) * (bytes * bool)) :=
  match split_on colon s [] with
  | [p; t; q; par] => match bytes_of_hex p, bytes_of_hex t, bytes_of_hex q, parse_bool par with
                      | Some p', Some t', Some q', Some b => Some ((p', t'), (q', b)) | _, _, _, _ => None end
  | _ => None end.
Definition parse_weight (s : bytes) : option (N * bytes) :=
  match split_on colon s [] with
  | [w; sc] => match N_of_dec w, bytes_of_hex sc with Some w', Some sc' => Some (w', sc') | _, _ => None end
  | _ => None end.

(* ---- printing ---- *)
Definition show_list (l : list bytes) : bytes := match l with [] => L "-" | _ => join [x2c] l end.
Definition show_berr (e : berr) : bytes :=
  match e with
  | InvalidMerkleTreeDepth d => L "toodeep:" ++ dec_of_N d
  | NodeNotInDfsOrder => L "notdfs" | OverCompleteTree => L "overcomplete" | IncompleteTree => L "incomplete" | EmptyTree => L "empty"
  end.
Definition show_site (s : site) : bytes :=
  match s with ScalarRange => L "scalar-range" | TweakFailed => L "tweak-failed" | BuilderInvariant => L "builder-invariant"
             | HuffmanPop => L "huffman-pop" | OutOfFuel => L "out-of-fuel" end.
Definition show_terr (e : terr) : bytes :=
  match e with
  | InvalidMerkleBranchSize n => L "branchsize:" ++ dec_of_N n
  | InvalidMerkleTreeDepthT n => L "depth:" ++ dec_of_N n
  | InvalidTaprootLeafVersion v => L "leafver:" ++ dec_of_N v
  | InvalidControlBlockSize n => L "size:" ++ dec_of_N n
  | InvalidInternalKey => L "key"
  end.
Definition show_leaf (script : bytes) (ver : byte) (depth : nat) : bytes :=
  hex_of_bytes [ver] ++ hex_of_bytes script ++ L "/" ++ dec_of_N (N.of_nat depth).

(* ---- the verification battery (same fixed list on the harness side) ---- *)
Section BATTERY.
Variable o : oracle.
Definition vfy := verify hleaf hbranch htweak scalar_ok (o_check o).
Definition show_verdict (r : outcome bool) : byte := match r with Val true => x31 | Val false => x30 | _ => x70 (* p *) end.
Definition flip_first (h : bytes) : bytes := match h with b :: r => n2b (N.lxor (b2n b) 1) :: r | [] => [] end.
Definition flip_last (h : bytes) : bytes := rev (flip_first (rev h)).
Definition with_branch (c : cblock) (b : list bytes) : cblock := {| cb_ver := cb_ver c; cb_parity := cb_parity c; cb_key := cb_key c; cb_branch := b |}.
Definition dash := x2d.
Definition battery (c : cblock) (script Q altkey : bytes) (next_script : option bytes) : bytes :=
  let brn := cb_branch c in
  let other_ver := if byte_eqb (cb_ver c) xc4 then xc6 else xc4 in
  [ show_verdict (vfy c Q script);
    show_verdict (vfy c Q (script ++ [x51]));
    show_verdict (vfy {| cb_ver := other_ver; cb_parity := cb_parity c; cb_key := cb_key c; cb_branch := brn |} Q script);
    show_verdict (vfy {| cb_ver := cb_ver c; cb_parity := negb (cb_parity c); cb_key := cb_key c; cb_branch := brn |} Q script);
    show_verdict (vfy c altkey script);
    match brn with [] => dash | h :: r => show_verdict (vfy (with_branch c (flip_first h :: r)) Q script) end;
    match brn with [] => dash | _ => show_verdict (vfy (with_branch c (removelast brn ++ [flip_last (last brn [])])) Q script) end;
    match brn with [] => dash | _ => show_verdict (vfy (with_branch c (removelast brn)) Q script) end;
    if (MAXD <=? length brn)%nat then dash else show_verdict (vfy (with_branch c (brn ++ [repeat x00 32])) Q script);
    show_verdict (vfy {| cb_ver := cb_ver c; cb_parity := cb_parity c; cb_key := altkey; cb_branch := brn |} Q script);
    match next_script with None => dash | Some s' => show_verdict (vfy c Q s') end ].
End BATTERY.

(* all (key, branch) entries of the script map in iteration order *)
Definition map_entries (m : list ((bytes * byte) * list (list bytes))) : list ((bytes * byte) * list bytes) :=
  flat_map (fun ks => map (fun b => (fst ks, b)) (snd ks)) m.
Fixpoint index_of (x : list bytes) (s : list (list bytes)) (i : N) : N :=
  match s with [] => i | y :: r => match branch_cmp x y with Eq => i | _ => index_of x r (i + 1) end end.
Definition xonly_any (_ : bytes) : bool := true.

Definition show_info (o : oracle) (i : spendinfo) (altkey : bytes) (show : nat) : bytes :=
  let ents := map_entries (si_map i) in
  let shown := firstn show ents in
  let cbs := map (fun e => {| cb_ver := snd (fst e); cb_parity := si_parity i; cb_key := si_internal i; cb_branch := snd e |}) shown in
  let scripts := map (fun e => fst (fst e)) shown in
  let nexts := match scripts with [] => [] | [_] => [None] | s0 :: r => map Some (r ++ [s0]) end in
  L "root=" ++ match si_root i with Some h => hex_of_bytes h | None => L "none" end ++
  L " q=" ++ hex_of_bytes (si_outkey i) ++ L " par=" ++ show_bool (si_parity i) ++
  L " map=" ++ show_list (map (fun e => show_leaf (fst (fst e)) (snd (fst e)) (length (snd e))) ents) ++
  L " pick=" ++ show_list (map (fun ks => match control_block i (fst ks) with
                                          | Some c => dec_of_N (index_of (cb_branch c) (snd ks) 0) | None => L "none" end) (si_map i)) ++
  L " cbs=" ++ show_list (map (fun c => hex_of_bytes (cb_serialize c)) cbs) ++
  L " v=" ++ show_list (map (fun cn => battery o (fst (fst cn)) (snd (fst cn)) (si_outkey i) altkey (snd cn))
                            (List.combine (List.combine cbs scripts) nexts)) ++
  L " rt=" ++ match cbs with [] => L "-" | _ =>
                map (fun c => match cb_from_slice xonly_any (cb_serialize c) with
                              | Ok c' => if bytes_eqb (cb_serialize c') (cb_serialize c) && (cb_size c =? N.of_nat (length (cb_serialize c))) &&
                                            byte_eqb (cb_ver c') (cb_ver c) && Bool.eqb (cb_parity c') (cb_parity c) && bytes_eqb (cb_key c') (cb_key c) &&
                                            (length (cb_branch c') =? length (cb_branch c))%nat then x31 else x30
                              | Err _ => x65 (* e *) end) cbs end.

Definition show_outcome (o : oracle) (r : outcome spendinfo) (altkey : bytes) (show : nat) (pre : bytes) : bytes :=
  match r with
  | Val i => L "ok " ++ pre ++ show_info o i altkey show
  | Fail e => L "err " ++ show_berr e
  | Panic s => L "panic " ++ show_site s
  end.

(* run with the index of the failing step *)
Fixpoint run_ix (items : list item) (b : br) (ix : N) : res (N * berr) br :=
  match items with
  | [] => Ok b
  | it :: r => match insert hbranch (item_node hleaf it) (item_depth it) b with Ok b' => run_ix r b' (ix + 1) | Err e => Err (ix, e) end
  end.

Definition run_build (P altkey : bytes) (show : nat) (items : list item) (o : oracle) : bytes :=
  match run_ix items [] 0 with
  | Err (ix, e) => L "err " ++ show_berr e ++ L " at=" ++ dec_of_N ix
  | Ok b =>
      let order := match b with
                   | [Some n] => show_list (map (fun l => show_leaf (l_script l) (l_ver l) (length (l_branch l))) (n_leaves n))
                   | _ => L "-" end in
      show_outcome o (finalize htweak scalar_ok (o_tweak o) b P) altkey show (L "order=" ++ order ++ L " ")
  end.

Definition run_huff (P altkey : bytes) (show : nat) (ws : list (N * bytes)) (o : oracle) : bytes :=
  show_outcome o (with_huffman_tree hleaf hbranch htweak scalar_ok (o_tweak o) P ws) altkey show [].

Definition run_cbparse (sl : bytes) (keyvalid : bool) : bytes :=
  match cb_from_slice (fun _ => keyvalid) sl with
  | Err e => L "err " ++ show_terr e
  | Ok c => L "ok ver=" ++ hex_of_bytes [cb_ver c] ++ L " par=" ++ show_bool (cb_parity c) ++ L " key=" ++ hex_of_bytes (cb_key c) ++
            L " n=" ++ dec_of_N (N.of_nat (length (cb_branch c))) ++ L " size=" ++ dec_of_N (cb_size c) ++
            L " reser=" ++ show_bool (bytes_eqb (cb_serialize c) sl)
  end.

(* a TaprootBuilder whose branch is n `None`s (only reachable through serde), then finalize *)
Definition run_finalize_none (P : bytes) (n : nat) (o : oracle) : bytes :=
  show_outcome o (finalize htweak scalar_ok (o_tweak o) (repeat None n) P) [] 0 [].

(* NodeInfo::combine applied n times on top of one leaf *)
Fixpoint combine_chain (fuel : nat) (i : N) (nd : node) : bytes :=
  match fuel with
  | O => L "ok " ++ dec_of_N i
  | S f => match combine hbranch nd (new_hidden (repeat (n2b i) 32)) with
           | Ok m => combine_chain f (i + 1) m
           | Err e => L "err " ++ show_berr e ++ L " at=" ++ dec_of_N i end
  end.

(* case: "C15 build <sk> <P> <altkey> <show> <items> <oracle>" | "C15 huff <sk> <P> <altkey> <show> <weights> <oracle>"
        | "C15 cbparse <hex> <keyvalid>" | "C15 finalize-none <P> <n>" *)
Definition run (args : list bytes) : bytes :=
  match args with
  | [k; _sk; p; alt; show; its; orc] =>
      match bytes_of_hex p, bytes_of_hex alt, N_of_dec show, parse_list parse_oentry orc with
      | Some P, Some altkey, Some sh, Some o =>
          if bytes_eqb k (L "build") then
            match parse_list parse_item its with Some items => run_build P altkey (N.to_nat sh) items o | None => err "items" end
          else if bytes_eqb k (L "huff") then
            match parse_list parse_weight its with Some ws => run_huff P altkey (N.to_nat sh) ws o | None => err "weights" end
          else err "kind"
      | _, _, _, _ => err "fields"
      end
  | [k; a; b] =>
      if bytes_eqb k (L "cbparse") then
        match hexarg a, parse_bool b with Some sl, Some kv => run_cbparse sl kv | _, _ => err "fields" end
      else if bytes_eqb k (L "finalize-none") then
        match bytes_of_hex a, N_of_dec b with Some P, Some n => run_finalize_none P (N.to_nat n) [] | _, _ => err "fields" end
      else err "kind"
  | [k; a] =>
      if bytes_eqb k (L "combine-chain") then
        match N_of_dec a with Some n => if 100000 <? n then err "n" else combine_chain (N.to_nat n) 0 (new_leaf hleaf [x51] default_ver) | None => err "fields" end
      else err "kind"
  | _ => err "args"
  end.
