(* C09 case runner.
   "C09 flow prof=<d|r> in=<I;..> out=<O;..> parties=<P|P|..> order=<k,k,..|-> rnd=<R|R|..> seeds=.."
     I as in C04;  O = <asset hex32>:<amount dec>:<script hex|->:<key>:<owner>   key = "n" | receiver blinding SECRET key hex32,
                                                                                owner = blinder index (an input index) | "-"
     P = the input indices a party owns (comma separated); the LAST party listed runs blind_last, the others run
         blind_non_last in the order given by `order` (indices into the party list); R = the scalars that party's RNG drew.
   result: "ok steps=<scalar list after each non-last step, '/'-separated> last=<blinds of blind_last> scalars=<final list>
               blinded=<every marked output fully blinded> verify=<verdict of the extracted tx> unblind=<..> proofs=<explicit proofs verify>"
         | "err step<k> <PsetBlindError>" | "panic"
   The serialize/deserialize hop between the parties is the identity on the modelled fields (C07's subject). *)
From Coq Require Import List NArith ZArith Bool.
From Coq.Strings Require Import Byte.
From EV Require Import Base.Bytes Base.Zn Base.FreeMod Model.Script Model.Ideal Model.Verify Model.Blind Model.PsetBlind
  Extract.RunUtil Extract.RunC04 Extract.RunC05.
Import ListNotations.
Open Scope Z_scope.

Definition bars (s : bytes) : list bytes := split_on x7c s [].
Definition parse_pout (s : bytes) : option (pout * option Z) :=
  match colons s with
  | [a; v; sc; key; owner] =>
      match nhex a, zdec v, hexarg sc with
      | Some a, Some v, Some sc =>
          let idx := if bytes_eqb owner "-"%lb then None else nat_dec owner in
          if bytes_eqb key "n"%lb then Some (mkPO (Some a) (Some v) sc None idx None None None None None None None, None)
          else match zhex key with
               | Some rsk => Some (mkPO (Some a) (Some v) sc (Some (i_pubk rsk)) idx None None None None None None None, Some rsk)
               | None => None end
      | _, _, _ => None end
  | _ => None end.
Definition parse_nats (s : bytes) : option (list nat) := all_some (map nat_dec (commas s)).
Fixpoint index_from {A} (l : list A) (i : nat) : list (nat * A) := match l with [] => [] | x :: r => (i, x) :: index_from r (S i) end.
Definition party_secrets (all : list (nat * secrets)) (own : list nat) : list (nat * secrets) :=
  filter (fun e => existsb (Nat.eqb (fst e)) own) all.

Definition show_scalars (l : list Z) : bytes := show_list (map hex32 l).
Definition show_pset_err (e : pset_err) : bytes :=
  match e with
  | PMustHaveExplicitTxOut i => "MustHaveExplicitTxOut:"%lb ++ show_nat i
  | PMissingWitnessUtxo i => "MissingWitnessUtxo:"%lb ++ show_nat i
  | PConfidentialTxOutError i e => "ConfidentialTxOutError:"%lb ++ show_nat i ++ ":"%lb ++ show_blind_err e
  | PBlindingProofsCreationError i => "BlindingProofsCreationError:"%lb ++ show_nat i
  | PBlindingIssuanceUnsupported i => "BlindingIssuanceUnsupported:"%lb ++ show_nat i
  | PBlinderIndexOutOfBounds i b => "BlinderIndexOutOfBounds:"%lb ++ show_nat i ++ ":"%lb ++ show_nat b
  | PAtleastOneOutputBlind => "AtleastOneOutputBlind"%lb
  | PExtractMissingOutput => "ExtractMissing"%lb
  end.

(* the non-last steps; returns the pset and the scalar lists seen after each step, or the failing step *)
Fixpoint run_steps (p : profile) (ps : pset) (steps : list (list (nat * secrets) * list Z)) (k : nat) (acc : list bytes)
  : pset * list bytes * option bytes :=
  match steps with
  | [] => (ps, rev' acc, None)
  | (sec, rnd) :: r =>
      match blind_non_last i_pubk i_ecdh p ps sec rnd with
      | OVal (ps', _, _) => run_steps p ps' r (S k) (show_scalars (ps_scalars ps') :: acc)
      | OFail e => (ps, rev' acc, Some ("err step"%lb ++ show_nat k ++ " "%lb ++ show_pset_err e))
      | OPanic _ => (ps, rev' acc, Some (unlit "panic"%lb))
      end
  end.
Definition marked_blinded (outs : list pout) : bool :=
  forallb (fun o => match po_blinding_key o with Some _ => is_fully_blinded o | None => true end) outs.
Definition proofs_ok (outs : list pout) : bool :=
  forallb (fun o => match po_blinding_key o with
                    | None => true
                    | Some _ => match po_asset o, po_amount o, po_asset_comm o, po_amount_comm o, po_bvp o, po_bap o with
                                | Some a, Some v, Some g, Some c, Some bvp, Some bap =>
                                    blind_value_proof_verify bvp v g c && blind_asset_proof_verify bap a g
                                | _, _, _, _, _, _ => false end
                    end) outs.

Definition run_flow (args : list bytes) : bytes :=
  match field "prof"%lb args, field "in"%lb args, field "out"%lb args, field "parties"%lb args, field "order"%lb args, field "rnd"%lb args with
  | Some pf, Some ins, Some outs, Some parties, Some order, Some rnd =>
      match all_some (map parse_in (semis ins)), all_some (map parse_pout (semis outs)),
            all_some (map parse_nats (bars parties)), parse_nats order, all_some (map (fun r => all_some (map zhex (commas r))) (bars rnd)) with
      | Some ins, Some outs, Some parties, Some order, Some rnds =>
          let p := if bytes_eqb pf "r"%lb then Release else Debug in
          let utxos := map (fun e => fst (fst e)) ins in
          let pins := map (fun e => mkPI (Some (fst (fst e))) (in_iss (snd e)) (Some 0%N)) ins in
          let all_sec := index_from (map (fun e => snd (fst e)) ins) 0 in
          let ps0 := mkPset pins (map fst outs) [] in
          let party k := (party_secrets all_sec (nth k parties []), nth k rnds []) in
          let nlast := pred (length parties) in
          let '(ps1, steps, failed) := run_steps p ps0 (map party order) 0 [] in
          match failed with
          | Some e => e
          | None =>
              match blind_last i_pubk i_ecdh p ps1 (fst (party nlast)) (snd (party nlast)) with
              | OVal (ps2, bl, _) =>
                  "ok steps="%lb ++ (match steps with [] => "-"%lb | _ => join "/"%lb steps end)
                  ++ " last="%lb ++ show_blinds bl
                  ++ " scalars="%lb ++ show_scalars (ps_scalars ps2)
                  ++ " blinded="%lb ++ show_bool (marked_blinded (ps_out ps2))
                  ++ " verify="%lb ++ (match extract_tx ps2 with
                                      | OVal t => show_verdict (verify_tx_amt_proofs t utxos)
                                      | OFail e => "extract:"%lb ++ show_pset_err e
                                      | OPanic _ => "panic"%lb end)
                  ++ " unblind="%lb ++ (match extract_tx ps2 with
                                       | OVal t => show_list (show_unblinds (t_out t) (map snd outs) 0)
                                       | _ => "-"%lb end)
                  ++ " proofs="%lb ++ show_bool (proofs_ok (ps_out ps2))
              | OFail e => "err last "%lb ++ show_pset_err e
              | OPanic _ => "panic"%lb
              end
          end
      | _, _, _, _, _ => err "parse" end
  | _, _, _, _, _, _ => err "fields" end.

Definition run (args : list bytes) : bytes :=
  match args with
  | kind :: rest => if bytes_eqb kind "flow"%lb then run_flow rest else err "kind"
  | _ => err "args" end.
