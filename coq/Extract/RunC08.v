From Coq Require Import List NArith Bool.
From Coq.Strings Require Import Byte.
From EV Require Import Base.Bytes Base.Sha256 Gen.Tables Model.PsetMap Model.PsetTx Extract.RunUtil Extract.RunPset.
Import ListNotations.
Open Scope N_scope.

Definition parse_cval (s : bytes) : option cval :=
  match s with
  | c :: r => if byte_eqb c x6e then Some CNull
              else if byte_eqb c x65 then option_map CExplicit (hexarg r)
              else if byte_eqb c x63 then option_map CConf (hexarg r) else None
  | [] => None end.
Definition parse_opt (s : bytes) : option (option bytes) := if bytes_eqb s "~"%lb then Some None else option_map Some (hexarg s).
Definition strip_last (s : bytes) : bytes := removelast s.
Definition parse_txin (body : bytes) : option txin :=
  match split_on x3a body [] with
  | [a; b; c; d; e; f; g; h; i; j; k; l; m] =>
      match hexarg a, N_of_dec b, hexarg d, N_of_dec e, hexarg f, hexarg g, parse_cval h, parse_cval i, parse_opt j, parse_opt k, hexarg l, hexarg m with
      | Some a, Some b, Some d, Some e, Some f, Some g, Some h, Some i, Some j, Some k, Some l, Some m =>
          Some (mk_txin a b (bytes_eqb c "1"%lb) d e f g h i j k l m)
      | _, _, _, _, _, _, _, _, _, _, _, _ => None end
  | _ => None end.
Definition parse_txout (body : bytes) : option txout :=
  match split_on x3a body [] with
  | [a; b; c; d; e; f] =>
      match parse_cval a, parse_cval b, parse_cval c, hexarg d, parse_opt e, parse_opt f with
      | Some a, Some b, Some c, Some d, Some e, Some f => Some (mk_txout a b c d e f)
      | _, _, _, _, _, _ => None end
  | _ => None end.
Definition parse_item (acc : option (list txin * list txout)) (it : bytes) : option (list txin * list txout) :=
  match acc with None => None | Some (ins, outs) =>
  match it with
  | t :: _ :: body =>
      if byte_eqb t x49 then option_map (fun i => (i :: ins, outs)) (parse_txin (strip_last body))
      else if byte_eqb t x4f then option_map (fun o => (ins, o :: outs)) (parse_txout (strip_last body))
      else None
  | _ => None end end.
Definition parse_tx (s : bytes) : option tx :=
  match split_on x2c s [] with
  | (_ :: v) :: (_ :: _ :: lt) :: items =>
      match N_of_dec v, N_of_dec lt, fold_left parse_item items (Some ([], [])) with
      | Some v, Some lt, Some (ins, outs) => Some (mk_tx v lt (rev' ins) (rev' outs))
      | _, _, _ => None end
  | _ => None end.

Definition show_lt (o : outcome N) : bytes := show_outcome dec_of_N o.
Definition show_ex (o : outcome tx) : bytes := show_outcome show_tx o.

Fixpoint update_nth {A} (n : nat) (f : A -> option A) (l : list A) : option (list A) :=
  match l, n with
  | [], _ => None
  | x :: r, O => option_map (fun y => y :: r) (f x)
  | x :: r, S n' => option_map (cons x) (update_nth n' f r)
  end.
(* one or several `;`-separated entries added to a map *)
Definition parse_entries (m : pmap) (ents : bytes) : option pmap := fold_left parse_entry (split_on x3b ents []) (Some m).
Definition apply_update (p : pset) (u : bytes) : option pset :=
  match split_on x3a u [] with
  | [tgt; ent] =>
      match tgt with
      | t :: pos =>
          if byte_eqb t x47 then option_map (fun g => mkpset g (pinputs p) (poutputs p)) (parse_entries (pglobal p) ent)
          else match N_of_dec pos with
               | Some n =>
                   if byte_eqb t x49 then option_map (fun l => mkpset (pglobal p) l (poutputs p)) (update_nth (N.to_nat n) (fun m => parse_entries m ent) (pinputs p))
                   else if byte_eqb t x4f then option_map (fun l => mkpset (pglobal p) (pinputs p) l) (update_nth (N.to_nat n) (fun m => parse_entries m ent) (poutputs p))
                   else None
               | None => None end
      | [] => None end
  | _ => None end.
Definition res_word {A} (o : outcome A) : bytes := match o with Val _ => "ok"%lb | Fail e => show_perr e | Panic _ => "panic"%lb end.
Definition show_uid_cmp (a b : outcome bytes) : bytes :=
  match a, b with
  | Val x, Val y => if bytes_eqb x y then "same"%lb else "changed"%lb
  | Fail e, Fail e' => if perr_eqb e e' then "same-err "%lb ++ show_perr e else "differ "%lb ++ show_perr e ++ sp ++ show_perr e'
  | _, _ => "differ "%lb ++ res_word a ++ sp ++ res_word b
  end.

(* cases:  lt <pset> | rt <tx> | ex <pset> | uid <pset> <update> | upd <pset> <target>:<entry>;<entry>.. *)
Definition run (args : list bytes) : bytes :=
  match args with
  | [k; a] =>
      if bytes_eqb k "lt"%lb then match parse_pset a with Some p => show_lt (locktime p) | None => err "parse" end
      else if bytes_eqb k "ex"%lb then match parse_pset a with Some p => show_ex (extract_tx p) | None => err "parse" end
      else if bytes_eqb k "rt"%lb then
        match parse_tx a with
        | Some t => let p := from_tx t in show_pset p ++ " => "%lb ++ show_ex (extract_tx p)
        | None => err "parse tx" end
      else err "kind"
  | [k; a; u] =>
      if bytes_eqb k "uid"%lb then
        match parse_pset a with
        | Some p => match apply_update p u with Some q => show_uid_cmp (run_uid p) (run_uid q) | None => err "update" end
        | None => err "parse" end
      else if bytes_eqb k "upd"%lb then
        match parse_pset a with
        | Some p => match apply_update p u with
                    | Some q => "uid="%lb ++ show_uid_cmp (run_uid p) (run_uid q) ++ " tx="%lb ++
                                (if bytes_eqb (show_ex (extract_tx p)) (show_ex (extract_tx q)) then "same"%lb else "changed"%lb)
                    | None => err "update" end
        | None => err "parse" end
      else err "kind"
  | _ => err "args" end.
