(* C16 case runner. Case kinds (words separated by one space; the first word "C16" was consumed by the dispatcher):
     build <dbg|rel> <op,op,...>     ops: i<dec> push_int, s<dec> push_scriptint, d<hex> push_slice (d alone = empty),
                                          r<len>.<a>.<b> push_slice of the bytes (a + b*i) mod 256 for i < len,
                                          o<2 hex> push_opcode, v push_verify;  "-" = no ops
     sint <dbg|rel> <dec>            build_scriptint n, then read_scriptint of the encoding
     rint <hex>                      read_scriptint on arbitrary bytes
     script <hex>                    the ten template predicates, from_script, script_pubkey, both instruction streams
     sweep <hex> <pos>               for each of the 256 values of byte <pos>: the predicates as 3 hex digits + from_script kind
   Long byte strings are printed as L<len>:<first 4 bytes>:<adler32>. *)
From Coq Require Import List NArith ZArith Bool.
From Coq.Strings Require Import Byte.
From EV Require Import Base.Bytes Gen.Tables Model.Script Extract.RunUtil.
Import ListNotations.
Open Scope N_scope.

Definition dec_of_Z (z : Z) : bytes :=
  match z with Z0 => "0"%lb | Zpos p => dec_of_N (Npos p) | Zneg p => x2d :: dec_of_N (Npos p) end.
Definition Z_of_dec (s : bytes) : option Z :=
  match s with
  | c :: r => if byte_eqb c x2d then match N_of_dec r with Some n => Some (- Z.of_N n)%Z | None => None end
              else match N_of_dec s with Some n => Some (Z.of_N n) | None => None end
  | [] => None end.

Definition adler (d : bytes) : N :=
  let '(a, b) := fold_left (fun (st : N * N) (x : byte) => let '(a, b) := st in
                              let a' := (a + b2n x) mod 65521 in (a', (b + a') mod 65521)) d (1, 0) in
  b * 65536 + a.
Definition show_data (d : bytes) : bytes :=
  if Nat.leb (length d) 64 then show_hex d
  else "L"%lb ++ dec_of_N (lenN d) ++ ":"%lb ++ hex_of_bytes (firstn 4 d) ++ ":"%lb ++ dec_of_N (adler d).

Fixpoint gen_data (k : nat) (cur step : N) (acc : bytes) : bytes :=
  match k with O => rev' acc | S k' => gen_data k' ((cur + step) mod 256) step (n2b cur :: acc) end.

Definition show_serr (e : serr) : bytes :=
  match e with NonMinimalPush => "nonmin"%lb | EarlyEndOfScript => "early"%lb | NumericOverflow => "overflow"%lb end.
Definition show_item (i : item) : bytes :=
  match i with
  | IPush d => "p"%lb ++ show_data d
  | IOp c => "o"%lb ++ hex_of_bytes [c]
  | IErr e => "e:"%lb ++ show_serr e
  | IPanic _ => "panic"%lb
  | IFuel => "fuel"%lb end.
Definition show_items (l : list item) : bytes := match l with [] => "-"%lb | _ => join ","%lb (map show_item l) end.

Definition parse_profile (s : bytes) : option profile :=
  if bytes_eqb s "dbg"%lb then Some Debug else if bytes_eqb s "rel"%lb then Some Release else None.

Definition parse_op (s : bytes) : option bop :=
  match s with
  | c :: r =>
      if byte_eqb c "i" then option_map BInt (Z_of_dec r)
      else if byte_eqb c "s" then option_map BScriptInt (Z_of_dec r)
      else if byte_eqb c "d" then option_map BSlice (bytes_of_hex r)
      else if byte_eqb c "o" then match bytes_of_hex r with Some [b] => Some (BOpcode b) | _ => None end
      else if byte_eqb c "v" then match r with [] => Some BVerify | _ => None end
      else if byte_eqb c "r" then
        match map N_of_dec (split_on "." r []) with
        | [Some len; Some a; Some b] => Some (BSlice (gen_data (N.to_nat len) (a mod 256) (b mod 256) []))
        | _ => None end
      else None
  | [] => None end.
Definition parse_ops (s : bytes) : option (list bop) :=
  if bytes_eqb s "-"%lb then Some [] else all_some (map parse_op (split_on "," s [])).

Definition show_streams (s : bytes) : bytes :=
  " I "%lb ++ show_items (instructions false s) ++ " M "%lb ++ show_items (instructions true s).

Definition run_build (p : profile) (ops : list bop) : bytes :=
  match build p ops with
  | Panic _ => "panic"%lb
  | Val s => "ok "%lb ++ show_data s ++ show_streams s end.

Definition show_sresZ (r : sres Z) : bytes :=
  match r with SOk z => dec_of_Z z | SErr e => "err:"%lb ++ show_serr e end.
Definition run_sint (p : profile) (n : Z) : bytes :=
  match build_scriptint p n with
  | Panic _ => "panic"%lb
  | Val e => "ok enc="%lb ++ show_hex e ++ " read="%lb ++ show_sresZ (read_scriptint e) end.

Definition show_payload (a : payload) : bytes :=
  match a with
  | PubkeyHash h => "pkh:"%lb ++ show_hex h
  | ScriptHash h => "sh:"%lb ++ show_hex h
  | WitnessProgram v prog => "wp:"%lb ++ dec_of_N v ++ ":"%lb ++ show_hex prog end.
Definition run_script (s : bytes) : bytes :=
  let bits := flat_map show_bool [is_p2pkh s; is_p2sh s; is_p2pk s; is_witness_program s; is_v0_p2wpkh s; is_v0_p2wsh s;
                                  is_v1_p2tr s; is_v1plus_p2witprog s; is_op_return s; is_provably_unspendable s] in
  let fs := match from_script s with
            | Panic _ => "from=panic"%lb
            | Val None => "from=none spk=-"%lb
            | Val (Some a) => "from="%lb ++ show_payload a ++ " spk="%lb ++
                              match script_pubkey Debug a with Val k => show_data k | Panic _ => "panic"%lb end
            end in
  "ok t="%lb ++ bits ++ sp ++ fs ++ show_streams s.

(* sweep: the verdicts for all 256 values of one byte, run-length encoded *)
Definition set_nth (pos : nat) (v : byte) (s : bytes) : bytes :=
  if Nat.ltb pos (length s) then firstn pos s ++ v :: skipn (S pos) s else s.
Definition bits_value (l : list bool) : N := fold_left (fun acc (b : bool) => 2 * acc + (if b then 1 else 0)) l 0.
Definition token (s : bytes) : bytes :=
  let v := bits_value [is_p2pkh s; is_p2sh s; is_p2pk s; is_witness_program s; is_v0_p2wpkh s; is_v0_p2wsh s;
                       is_v1_p2tr s; is_v1plus_p2witprog s; is_op_return s; is_provably_unspendable s] in
  [hexdigit (v / 256); hexdigit ((v / 16) mod 16); hexdigit (v mod 16)] ++
  match from_script s with
  | Panic _ => "!"%lb
  | Val None => "-"%lb
  | Val (Some (PubkeyHash _)) => "p"%lb
  | Val (Some (ScriptHash _)) => "s"%lb
  | Val (Some (WitnessProgram v prog)) => "w"%lb ++ dec_of_N v ++ "."%lb ++ dec_of_N (lenN prog) end.
Fixpoint rle (l : list bytes) (cur : bytes) (cnt : N) (acc : list bytes) : list bytes :=
  let flush := (if cnt =? 1 then cur else cur ++ "*"%lb ++ dec_of_N cnt) :: acc in
  match l with
  | [] => rev' flush
  | t :: r => if bytes_eqb t cur then rle r cur (cnt + 1) acc else rle r t 1 flush end.
Definition all_bytes : list byte := map (fun n => n2b (N.of_nat n)) (seq 0 256).
Definition run_sweep (s : bytes) (pos : nat) : bytes :=
  match map (fun v => token (set_nth pos v s)) all_bytes with
  | [] => err "sweep"
  | t :: r => "ok "%lb ++ join ","%lb (rle r t 1 []) end.

Definition run (args : list bytes) : bytes :=
  match args with
  | [k; p; a] =>
      if bytes_eqb k "build"%lb then
        match parse_profile p, parse_ops a with Some p, Some ops => run_build p ops | _, _ => err "build args" end
      else if bytes_eqb k "sint"%lb then
        match parse_profile p, Z_of_dec a with Some p, Some n => run_sint p n | _, _ => err "sint args" end
      else if bytes_eqb k "sweep"%lb then
        match hexarg p, N_of_dec a with Some s, Some pos => run_sweep s (N.to_nat pos) | _, _ => err "sweep args" end
      else err "kind"
  | [k; a] =>
      if bytes_eqb k "rint"%lb then
        match hexarg a with Some v => "ok "%lb ++ show_sresZ (read_scriptint v) | None => err "hex" end
      else if bytes_eqb k "script"%lb then
        match hexarg a with Some s => run_script s | None => err "hex" end
      else err "kind"
  | _ => err "args" end.
