(* C04 case runner (also the shared case parser of C05 and C09).
   case:  "C04 blind prof=<d|r> in=<I;I;..> out=<O;O;..> rnd=<hex,..|-> seed=<hex>"
     I = <ea><ev>:<asset hex32>:<abf hex32>:<value dec>:<vbf hex32>:<iss>      (the spent output, opened)
         ea/ev = 1 if the spent output's asset/value is explicit on chain, 0 if it is the commitment the secrets open
         iss = "-" | <amount>,<keys>,<asset id hex32>,<token id hex32>,<i|r>   amount/keys = "n" (null) | decimal (explicit)
                                                                                | c<dec>.<vbf hex32> (confidential: dec·H_id + vbf·G)
               (the two ids are derived by the HARNESS from the protocol's formulas, not through TxIn::issuance_ids())
     O = <asset hex32>:<value dec>:<script hex|->:<nonce>   nonce = "n" null | "e" explicit | receiver blinding SECRET key hex32
   result: "ok blinds=<i:abf:vbf:esk,..> verify=<verdict> unblind=<i:asset:value:abf:vbf | i:err:<e>,..>"
         | "err <BlindError>" | "panic"
   In the ideal model a public key is represented by its secret key (pubk = id) and ECDH is multiplication mod n. *)
From Coq Require Import List NArith ZArith Bool.
From Coq.Strings Require Import Byte.
From EV Require Import Base.Bytes Base.Zn Base.FreeMod Model.Script Model.Ideal Model.Verify Model.Blind Extract.RunUtil.
Import ListNotations.
Open Scope Z_scope.

Definition i_pubk (sk : Z) : Z := sk.
Definition i_ecdh (pk sk : Z) : Z := zmul pk sk.

(* ---- parsing *)
Fixpoint strip_prefix (p s : bytes) : option bytes :=
  match p, s with
  | [], _ => Some s
  | a :: p', b :: s' => if byte_eqb a b then strip_prefix p' s' else None
  | _, [] => None
  end.
Fixpoint field (k : bytes) (args : list bytes) : option bytes :=
  match args with
  | [] => None
  | a :: r => match strip_prefix (k ++ [x3d]) a with Some v => Some v | None => field k r end
  end.
Definition zhex (s : bytes) : option Z := match bytes_of_hex s with Some b => Some (Z.of_N (be_val b)) | None => None end.
Definition nhex (s : bytes) : option N := match bytes_of_hex s with Some b => Some (be_val b) | None => None end.
Definition zdec (s : bytes) : option Z := match N_of_dec s with Some n => Some (Z.of_N n) | None => None end.
Definition hex32 (z : Z) : bytes := hex_of_bytes (be_enc 32 (Z.to_N z)).
Definition nhex32 (n : N) : bytes := hex_of_bytes (be_enc 32 n).
Definition show_nat (n : nat) : bytes := dec_of_N (N.of_nat n).
Definition show_z (z : Z) : bytes := dec_of_N (Z.to_N z).
Definition semis (s : bytes) : list bytes := if bytes_eqb s "-"%lb then [] else split_on x3b s [].
Definition colons (s : bytes) : list bytes := split_on x3a s [].
Definition commas (s : bytes) : list bytes := if bytes_eqb s "-"%lb then [] else split_on x2c s [].
Definition is1 (b : byte) : bool := byte_eqb b x31.

(* an issuance amount of the asset `id`: "n" null | <dec> explicit | c<dec>.<vbf hex32> CONFIDENTIAL, the commitment dec·H_id + vbf·G *)
Definition parse_amount (id : N) (s : bytes) : option cvalue :=
  if bytes_eqb s "n"%lb then Some VNull else
  match s with
  | x63 :: r => match split_on x2e r [] with
                | [v; vbf] => match zdec v, zhex vbf with Some v, Some vbf => Some (VConf (commit v (gH id) vbf)) | _, _ => None end
                | _ => None end
  | _ => match zdec s with Some v => Some (VExp v) | None => None end
  end.
Definition parse_iss (s : bytes) : option issuance :=
  if bytes_eqb s "-"%lb then Some null_issuance else
  match split_on x2c s [] with
  | [a; k; ai; ti; _] => match nhex ai, nhex ti with
                         | Some ai, Some ti => match parse_amount ai a, parse_amount ti k with
                                               | Some a, Some k => Some (mkIss a k ai ti) | _, _ => None end
                         | _, _ => None end
  | _ => None end.
(* an opened spent output: the txout as it is on chain + the secrets + the issuance of the spending input *)
Definition parse_in (s : bytes) : option (txout * secrets * txin) :=
  match colons s with
  | [[ea; ev]; a; abf; v; vbf; iss] =>
      match nhex a, zhex abf, zdec v, zhex vbf, parse_iss iss with
      | Some a, Some abf, Some v, Some vbf, Some iss =>
          let gen := asset_gen a abf in
          let oa := if is1 ea then AExp a else AConf gen in
          let ov := if is1 ev then VExp v else VConf (commit v gen vbf) in
          Some (mkOut oa ov NNull [] None None, mkSec a abf v vbf, mkIn iss)
      | _, _, _, _, _ => None end
  | _ => None end.
Definition parse_out (s : bytes) : option (txout * option Z) :=
  match colons s with
  | [a; v; sc; nn] =>
      match nhex a, zdec v, hexarg sc with
      | Some a, Some v, Some sc =>
          if bytes_eqb nn "n"%lb then Some (mkOut (AExp a) (VExp v) NNull sc None None, None)
          else if bytes_eqb nn "e"%lb then Some (mkOut (AExp a) (VExp v) NExp sc None None, None)
          else match zhex nn with
               | Some rsk => Some (mkOut (AExp a) (VExp v) (NConf (i_pubk rsk)) sc None None, Some rsk)
               | None => None end
      | _, _, _ => None end
  | _ => None end.

(* the secrets list Transaction::blind is given: each spent output followed by its explicit issuance pseudo-inputs,
   i.e. the order in which verify_tx_amt_proofs builds its domain *)
(* the secrets of the issuance pseudo-inputs, confidential amounts included: in the ideal world the opening of amount·H_id + vbf·G
   is read off the formal commitment (its H_id- and G-coefficients) *)
Definition open_iss (id : N) (v : cvalue) : list secrets :=
  match v with
  | VExp x => [mkSec id 0 x 0]
  | VConf c => [mkSec id 0 (coeff c (kH id)) (coeff c kG)]
  | VNull => [] end.
Definition iss_secrets_open (i : txin) : list secrets :=
  if has_issuance i then open_iss (is_asset (in_iss i)) (is_amount (in_iss i)) ++ open_iss (is_token (in_iss i)) (is_keys (in_iss i)) else [].
Definition all_secrets (l : list (txout * secrets * txin)) : list secrets :=
  flat_map (fun e => snd (fst e) :: iss_secrets_open (snd e)) l.

Record c04case := mkCase { cs_prof : profile; cs_spent : list txout; cs_secrets : list secrets; cs_tx : tx;
                           cs_keys : list (option Z); cs_rnd : list Z }.
Definition parse_case (args : list bytes) : option c04case :=
  match field "prof"%lb args, field "in"%lb args, field "out"%lb args, field "rnd"%lb args with
  | Some pf, Some ins, Some outs, Some rnd =>
      match all_some (map parse_in (semis ins)), all_some (map parse_out (semis outs)), all_some (map zhex (commas rnd)) with
      | Some ins, Some outs, Some rnd =>
          Some (mkCase (if bytes_eqb pf "r"%lb then Release else Debug)
                       (map (fun e => fst (fst e)) ins) (all_secrets ins)
                       (mkTx (map snd ins) (map fst outs)) (map snd outs) rnd)
      | _, _, _ => None end
  | _, _, _, _ => None end.

(* ---- printing *)
Definition show_txout_err (e : txout_err) : bytes :=
  match e with UnExpectedNullValue => "UnExpectedNullValue"%lb | UnExpectedNullAsset => "UnExpectedNullAsset"%lb
             | NonUnspendableZeroValue => "NonUnspendableZeroValue"%lb | ZeroValueCommitment => "ZeroValueCommitment"%lb end.
Definition show_verr (e : verr) : bytes :=
  match e with
  | RangeProofError i => "RangeProofError:"%lb ++ show_nat i
  | RangeProofMissing i => "RangeProofMissing:"%lb ++ show_nat i
  | SurjectionProofVerificationError i => "SurjectionProofVerificationError:"%lb ++ show_nat i
  | SurjectionProofMissing i => "SurjectionProofMissing:"%lb ++ show_nat i
  | SpentTxOutError i e => "SpentTxOutError:"%lb ++ show_nat i ++ ":"%lb ++ show_txout_err e
  | TxOutError i e => "TxOutError:"%lb ++ show_nat i ++ ":"%lb ++ show_txout_err e
  | IssuanceTransactionInput i => "IssuanceTransactionInput:"%lb ++ show_nat i
  | UtxoInputLenMismatch => "UtxoInputLenMismatch"%lb
  | BalanceCheckFailed => "BalanceCheckFailed"%lb
  end.
Definition show_verdict (r : oc verr unit) : bytes :=
  match r with OVal _ => "ok"%lb | OFail e => "err:"%lb ++ show_verr e | OPanic _ => "panic"%lb end.
Definition show_blind_err (e : blind_err) : bytes :=
  match e with
  | BInvalidAddress => "InvalidAddress"%lb | BTooFewBlindingOutputs => "TooFewBlindingOutputs"%lb
  | BMustHaveAllExplicitTxOuts => "MustHaveAllExplicitTxOuts"%lb
  | BTxOutError i e => "TxOutError:"%lb ++ show_nat i ++ ":"%lb ++ show_txout_err e
  | BExpectedExplicitAsset => "ExpectedExplicitAsset"%lb | BExpectedExplicitValue => "ExpectedExplicitValue"%lb
  | BNoBlindingKeyInAddress => "NoBlindingKeyInAddress"%lb
  | BCannotProveSurjection => "Upstream:CannotProveSurjection"%lb | BCannotMakeRangeProof => "Upstream:CannotMakeRangeProof"%lb
  | BRndExhausted => "modelerr-rnd-exhausted"%lb
  end.
Definition show_unblind_err (e : unblind_err) : bytes :=
  match e with
  | UNotConfidential => "NotConfidential"%lb | UMissingNonce => "MissingNonce"%lb | UMissingRangeproof => "MissingRangeproof"%lb
  | URewind => "Rewind"%lb | UMsgBlindingFactorOutOfRange => "RangeProofMessage"%lb
  | UMsgConfidentialAssetMismatch => "RangeProofMessage"%lb end.
Definition show_blinds (bl : list (nat * (Z * Z * Z))) : bytes :=
  match bl with [] => "-"%lb | _ =>
  join ","%lb (map (fun e => let '(i, (abf, vbf, esk)) := e in
                   show_nat i ++ ":"%lb ++ hex32 abf ++ ":"%lb ++ hex32 vbf ++ ":"%lb ++ hex32 esk) bl) end.
Definition show_secrets (s : secrets) : bytes :=
  nhex32 (s_asset s) ++ ":"%lb ++ show_z (s_value s) ++ ":"%lb ++ hex32 (s_abf s) ++ ":"%lb ++ hex32 (s_vbf s).
(* unblind every output for which the case carries a receiver key, with that key *)
Fixpoint show_unblinds (outs : list txout) (keys : list (option Z)) (i : nat) : list bytes :=
  match outs, keys with
  | o :: outs', Some k :: keys' =>
      (show_nat i ++ ":"%lb ++ match unblind i_ecdh o k with
                               | OVal s => show_secrets s
                               | OFail e => "err:"%lb ++ show_unblind_err e
                               | OPanic _ => "panic"%lb end) :: show_unblinds outs' keys' (S i)
  | _ :: outs', None :: keys' => show_unblinds outs' keys' (S i)
  | _, _ => []
  end.
Definition show_list (l : list bytes) : bytes := match l with [] => "-"%lb | _ => join ","%lb l end.

Definition run_blind (c : c04case) : bytes :=
  match blind i_pubk i_ecdh (cs_prof c) (cs_rnd c) (cs_secrets c) (cs_tx c) with
  | OVal (t', bl) =>
      "ok blinds="%lb ++ show_blinds bl
      ++ " verify="%lb ++ show_verdict (verify_tx_amt_proofs t' (cs_spent c))
      ++ " unblind="%lb ++ show_list (show_unblinds (t_out t') (cs_keys c) 0)
  | OFail e => "err "%lb ++ show_blind_err e
  | OPanic _ => "panic"%lb
  end.

Definition run (args : list bytes) : bytes :=
  match args with
  | kind :: rest =>
      if bytes_eqb kind "blind"%lb then
        match parse_case rest with Some c => run_blind c | None => err "parse" end
      else if bytes_eqb kind "ctor"%lb then
        (* the transaction assembled with TxOut::new_not_last_confidential / new_last_confidential: these cases are emitted only for
           specifications that meet the hypotheses of C04_blind_verifies / C04_unblind (the harness decides that from the fields), and
           the constructors are the model's to_non_last_confidential / to_last_confidential with freshly drawn factors, so the answer
           is the one the theorems give for every draw *)
        "ok ok unblinds"%lb
      else err "kind"
  | _ => err "args" end.
