(* Text form of model-level PSETs and transactions shared by the C14 and C08 runners (the harness prints the same text from the
   real structs: harness/src/psetl.rs).   pset := G:<entries>/I:<entries>/.../O:<entries>   entries := e;e;...
   e := name=<hex|->  |  name@<keyhex|->=<hex|->  *)
From Coq Require Import List NArith Bool.
From Coq.Strings Require Import Byte.
From EV Require Import Base.Bytes Base.Sha256 Gen.Tables Model.PsetMap Model.PsetTx Extract.RunUtil.
Import ListNotations.
Open Scope N_scope.

(* Vec fields (FK_set) keep the order and multiplicity of the listing; BTreeMap fields are key-sorted *)
Definition is_vec_field (f : bytes) : bool :=
  existsb (fun fk => bytes_eqb f (fst fk) && match snd fk with FK_set => true | _ => false end) (pset_global_fields ++ pset_input_fields ++ pset_output_fields).
Definition parse_entry (m : option pmap) (e : bytes) : option pmap :=
  match m with None => None | Some m =>
  match e with [] => Some m | _ =>
  match split_on x3d e [] with
  | [lhs; rhs] =>
      match hexarg rhs with None => None | Some v =>
      match split_on x40 lhs [] with
      | [f] => Some (set_unk m f (Some v))
      | [f; k] => match hexarg k with
                  | Some k => Some (set_kyd m f (if is_vec_field f then kyd m f ++ [(k, v)] else al_insert k v (kyd m f)))
                  | None => None end
      | _ => None end end
  | _ => None end end end.
Definition parse_map (body : bytes) : option pmap := fold_left parse_entry (split_on x3b body []) (Some empty_map).
Definition parse_part (acc : option (option pmap * list pmap * list pmap)) (part : bytes) : option (option pmap * list pmap * list pmap) :=
  match acc with None => None | Some (g, ins, outs) =>
  match part with
  | t :: c :: body =>
      if negb (byte_eqb c x3a) then None else
      match parse_map body with None => None | Some m =>
        if byte_eqb t x47 then (match g with None => Some (Some m, ins, outs) | Some _ => None end)
        else if byte_eqb t x49 then Some (g, m :: ins, outs)
        else if byte_eqb t x4f then Some (g, ins, m :: outs)
        else None end
  | _ => None end end.
Definition parse_pset (s : bytes) : option pset :=
  match fold_left parse_part (split_on x2f s []) (Some (None, [], [])) with
  | Some (Some g, ins, outs) => Some (mkpset g (rev' ins) (rev' outs))
  | _ => None end.

Definition show_field (m : pmap) (fk : list byte * field_kind) : list bytes :=
  let f := fst fk in
  match snd fk with
  | FK_opt | FK_mand => match unk m f with Some v => [f ++ "="%lb ++ show_hex v] | None => [] end
  | FK_map | FK_set => map (fun kv => f ++ "@"%lb ++ show_hex (fst kv) ++ "="%lb ++ show_hex (snd kv)) (kyd m f)
  end.
Definition show_map (fields : list (list byte * field_kind)) (m : pmap) : bytes := join ";"%lb (flat_map (show_field m) fields).
Definition show_pset (p : pset) : bytes :=
  join "/"%lb (("G:"%lb ++ show_map pset_global_fields (pglobal p))
               :: map (fun m => "I:"%lb ++ show_map pset_input_fields m) (pinputs p)
               ++ map (fun m => "O:"%lb ++ show_map pset_output_fields m) (poutputs p)).

Definition show_perr (e : perr) : bytes :=
  match e with
  | E_UniqueIdMismatch => "unique_id_mismatch"%lb | E_MergeConflict => "merge_conflict"%lb | E_LocktimeConflict => "locktime_conflict"%lb
  | E_InputCountMismatch => "input_count_mismatch"%lb | E_OutputCountMismatch => "output_count_mismatch"%lb
  | E_MissingOutputValue => "missing_output_value"%lb | E_MissingOutputAsset => "missing_output_asset"%lb end.
Definition show_outcome {A} (sh : A -> bytes) (o : outcome A) : bytes :=
  match o with Val a => "ok "%lb ++ sh a | Fail e => "err "%lb ++ show_perr e | Panic _ => "panic"%lb end.

(* transactions *)
Definition show_cval (c : cval) : bytes := match c with CNull => "n"%lb | CExplicit v => "e"%lb ++ show_hex v | CConf v => "c"%lb ++ show_hex v end.
Definition show_opt (o : option bytes) : bytes := match o with None => "~"%lb | Some v => show_hex v end.
Definition colon := ":"%lb.
Definition show_txin (i : txin) : bytes :=
  "I("%lb ++ join colon [show_hex (ti_txid i); dec_of_N (ti_vout i); show_bool (ti_pegin i); show_hex (ti_script_sig i); dec_of_N (ti_sequence i);
                         show_hex (ti_iss_nonce i); show_hex (ti_iss_entropy i); show_cval (ti_iss_amount i); show_cval (ti_iss_keys i);
                         show_opt (ti_amount_rangeproof i); show_opt (ti_keys_rangeproof i); show_hex (ti_script_witness i); show_hex (ti_pegin_witness i)] ++ ")"%lb.
Definition show_txout (o : txout) : bytes :=
  "O("%lb ++ join colon [show_cval (to_asset o); show_cval (to_value o); show_cval (to_nonce o); show_hex (to_spk o);
                         show_opt (to_surjection_proof o); show_opt (to_rangeproof o)] ++ ")"%lb.
Definition show_tx (t : tx) : bytes :=
  join ","%lb (("v"%lb ++ dec_of_N (tx_version t)) :: ("lt"%lb ++ dec_of_N (tx_lock_time t)) :: map show_txin (tx_ins t) ++ map show_txout (tx_outs t)).

(* the executable unique id: SHA-256 of the canonical text of the id pre-image (equal ids <-> equal pre-images, as for the real txid) *)
Definition run_uid (p : pset) : outcome bytes := unique_id (fun t => sha256 (show_tx t)) p.
