(* C13 case runner.
   case:   "C13 <maxvec,cap_txin,cap_txout,cap_vecu8,cap_tx> <valid points> <tx hex> <spent: txout hex list> <genesis hex> <ops>"
   ops:    ';'-separated, fields ':'-separated
             L:idx:ty:script            legacy_sighash              (ty = decimal value of the sighash type)
             S:idx:ty:script:value      segwitv0_sighash            (value = consensus hex of confidential::Value)
             T:idx:ty:pvk:pva:annex:leafhash:pos   taproot_sighash  (annex "-" none | "x<hex>"; leafhash "-" none)
             K:idx:ty:pvk:pva           taproot_key_spend_signature_hash
             P:idx:ty:pvk:pva:leafhash  taproot_script_spend_signature_hash
             Q:idx:ty:pvk:pva:script    taproot_script_spend_signature_hash(ScriptPath::with_defaults(script))   (the library computes the leaf hash)
             W:i:stack                  *witness_mut(i) = stack     (stack = consensus hex of Vec<Vec<u8>>)
           prevouts pvk:pva = all:-  (All(spent)) | one:j (One(j, spent[j])) | onex:j=<txout hex> (One(j, that output))
   result: ';'-separated  ok:<digest hex> | err:<class> | panic | w1 | w0 *)
From Coq Require Import List NArith Bool.
From Coq.Strings Require Import Byte.
From EV Require Import Base.Bytes Base.Codec Base.Sha256 Gen.Tables Model.Tx Model.SighashImpl Model.SighashCache Extract.RunUtil Extract.RunC01.
Import ListNotations.
Open Scope N_scope.

Definition L (x : blit) : bytes := x.
Definition htapsighash : bytes -> bytes := tagged TAG_TAPSIGHASH.
Definition nat_of_dec (s : bytes) : option nat := match N_of_dec s with Some n => Some (N.to_nat n) | None => None end.
Definition show_serr (e : serr) : bytes :=
  match e with
  | IndexOutOfInputsBounds i n => L "index/" ++ dec_of_N i ++ L "/" ++ dec_of_N n
  | SingleWithoutCorrespondingOutput i n => L "single/" ++ dec_of_N i ++ L "/" ++ dec_of_N n
  | PrevoutsSize => L "prevouts_size" | PrevoutIndex => L "prevout_index" | PrevoutKind => L "prevout_kind" | WrongAnnex => L "wrong_annex" end.
Definition show_sres (r : sres bytes) : bytes :=
  match r with SOk b => L "ok:" ++ show_hex b | SErr e => L "err:" ++ show_serr e | SPanic => L "panic" end.
Definition show_result (r : result) : bytes := match r with RHash x => show_sres x | RWit b => if b then L "w1" else L "w0" end.

Section PARSE.
Variable pt_ok : bytes -> bool.
Variables maxvec cap_vecu8 : N.
Variable spent : list txout.

Definition parse_txout (s : bytes) : option txout :=
  match bytes_of_hex s with Some b => deserialize (c_txout pt_ok maxvec) b | None => None end.
Definition parse_pv (k a : bytes) : option prevouts :=
  if bytes_eqb k (L "all") then
    (if bytes_eqb a (L "-") then Some (PAll spent)
     else match nat_of_dec a with Some n => Some (PAll (firstn n (spent ++ spent))) | None => None end)   (* a prevout list of the wrong length *)
  else if bytes_eqb k (L "one") then
    match nat_of_dec a with Some j => match nth_error spent j with Some o => Some (POne j o) | None => None end | None => None end
  else if bytes_eqb k (L "onex") then
    match split_on x3d a [] with
    | [j; h] => match nat_of_dec j, parse_txout h with Some j', Some o => Some (POne j' o) | _, _ => None end
    | _ => None end
  else None.
Definition parse_annex (s : bytes) : option (option bytes) :=
  match s with
  | [x2d] => Some None
  | x78 :: h => match bytes_of_hex h with Some b => Some (Some b) | None => None end
  | _ => None end.
Definition parse_ecdsa (s : bytes) : option ecdsa_ty := match N_of_dec s with Some n => ecdsa_of_u32 n | None => None end.
Definition parse_schnorr (s : bytes) : option schnorr_ty := match N_of_dec s with Some n => schnorr_of_u8 n | None => None end.
Definition parse_value (s : bytes) : option cvalue :=
  match bytes_of_hex s with Some b => deserialize (c_value pt_ok) b | None => None end.
Definition parse_stack (s : bytes) : option (list bytes) :=
  match bytes_of_hex s with Some b => deserialize (c_stack maxvec cap_vecu8) b | None => None end.

Definition parse_op (genesis : bytes) (s : bytes) : option op :=
  match split_on x3a s [] with
  | [k; idx; ty; sc] =>
      if bytes_eqb k (L "L") then
        match nat_of_dec idx, parse_ecdsa ty, hexarg sc with Some i, Some t, Some c => Some (OLegacy i c t) | _, _, _ => None end
      else None
  | [k; idx; ty; a; b] =>
      if bytes_eqb k (L "S") then
        match nat_of_dec idx, parse_ecdsa ty, hexarg a, parse_value b with Some i, Some t, Some c, Some v => Some (OSegwit i c v t) | _, _, _, _ => None end
      else if bytes_eqb k (L "K") then
        match nat_of_dec idx, parse_schnorr ty, parse_pv a b with Some i, Some t, Some pv => Some (OTapKey i pv t genesis) | _, _, _ => None end
      else None
  | [k; idx; ty; a; b; lh] =>
      if bytes_eqb k (L "Q") then
        (* script-spend through ScriptPath::with_defaults(script): the leaf hash is TapLeafHash::from_script(script, TAPSCRIPT), i.e. the tagged
           hash of  leaf version || compact_size(len) || script  (the leaf_msg of Model/Taproot.v, C15) *)
        match nat_of_dec idx, parse_schnorr ty, parse_pv a b, hexarg lh with
        | Some i, Some t, Some pv, Some sc =>
            Some (OTapScript i pv (tagged TAG_TAPLEAF (n2b TAPROOT_LEAF_TAPSCRIPT :: vi_enc (N.of_nat (length sc)) ++ sc)) t genesis)
        | _, _, _, _ => None end
      else if bytes_eqb k (L "P") then
        match nat_of_dec idx, parse_schnorr ty, parse_pv a b, hexarg lh with
        | Some i, Some t, Some pv, Some h => Some (OTapScript i pv h t genesis) | _, _, _, _ => None end
      else None
  | [k; idx; ty; a; b; an; lh; pos] =>
      if bytes_eqb k (L "Q") then
        (* script-spend through ScriptPath::new(script, code_separator_pos, LeafVersion::from_u8(ver)): fields script, ver, pos. The entry point
           taproot_script_spend_signature_hash hashes with the position 0xFFFFFFFF whatever the ScriptPath carries (src/sighash.rs), and the leaf
           hash commits to the given leaf version. *)
        match nat_of_dec idx, parse_schnorr ty, parse_pv a b, hexarg an, N_of_dec lh, N_of_dec pos with
        | Some i, Some t, Some pv, Some sc, Some ver, Some _ =>
            Some (OTapScript i pv (tagged TAG_TAPLEAF (n2b ver :: vi_enc (N.of_nat (length sc)) ++ sc)) t genesis)
        | _, _, _, _, _, _ => None end
      else if bytes_eqb k (L "T") then
        match nat_of_dec idx, parse_schnorr ty, parse_pv a b, parse_annex an with
        | Some i, Some t, Some pv, Some ann =>
            if bytes_eqb lh (L "-") then Some (OTaproot i pv ann None t genesis)
            else match bytes_of_hex lh, N_of_dec pos with Some h, Some p => Some (OTaproot i pv ann (Some (h, p)) t genesis) | _, _ => None end
        | _, _, _, _ => None end
      else None
  | [k; i; st] =>
      if bytes_eqb k (L "W") then match nat_of_dec i, parse_stack st with Some i', Some w => Some (OWitnessMut i' w) | _, _ => None end
      else None
  | _ => None end.
End PARSE.

Definition run (args : list bytes) : bytes :=
  match args with
  | [caps; pts; txh; sp; gen; ops] =>
      match caps5 caps, hexlist pts, hexarg txh, hexarg gen with
      | Some (maxvec, ci, co, cv, ct), Some valid, Some txb, Some genesis =>
          let pt_ok := mem_bytes valid in
          match deserialize (c_tx pt_ok maxvec ci co cv) txb with
          | None => err "tx"
          | Some t =>
              match (if bytes_eqb sp (L "-") then Some [] else all_some (map (parse_txout pt_ok maxvec) (split_on x2c sp []))) with
              | None => err "spent"
              | Some spent =>
                  match all_some (map (parse_op pt_ok maxvec cv spent genesis) (split_on x3b ops [])) with
                  | None => err "ops"
                  | Some os => join (L ";") (map show_result (SighashCache.run pt_ok maxvec sha256 htapsighash (init t) os))
                  end end end
      | _, _, _, _ => err "parse" end
  | _ => err "args" end.
